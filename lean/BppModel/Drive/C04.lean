import BppModel.Proto
import BppModel.Matrix
import BppModel.Lap
import BppModel.LapFull
/-
Driver for C04 (Matrix.h, MatrixTools.h).

`case <tag> <kA> <kB> <kO> <or> <oc>`: the storage classes (row | col | lin) given to the input
matrices of an operation in order of appearance (cyclically kA, kB, kO), the class of the outputs
(`O`: kO, `iO`: kB) and the size of the stale content every output starts with
(`100 + 10 i + j`).  For in-place routines and `pow` the matrix is of class kA.

Model answers are produced by the `Float` instantiation of `Bpp.Mx` on stores of exactly those
classes (compared bit-for-bit with the implementation).  Verdicts evaluate the property's
predicates on the *implementation's* answers: output dimensions `= Kind.shape …`, entries
`= Spec.…` evaluated exactly in `Rat` on the operands (equality when all operands are integers
small enough for every double operation to be exact, otherwise within the running error bound
`γ_K · Spec(|operands|)` — the spec evaluated on absolute values — also in `Rat`), a
`DimensionException` exactly for non-conformable operands, no out-of-range access.
-/
namespace Bpp.Drive.C04
open Bpp Bpp.Proto Bpp.Mx

/-! ## parsing and printing -/

def flt? (s : String) : Option Float := if s == "nan" then some (0.0 / 0.0) else Hex.float? s
def showF (x : Float) : String := Hex.ofFloatCanon x

/-- a dense matrix as it travels on the wire: dimensions and row-major entries -/
structure PM where
  r : Nat
  c : Nat
  a : Array Float
  deriving Inhabited

def PM.at (M : PM) (i j : Nat) : Float := M.a.getD (i * M.c + j) 0.0

def parseMat (l : List String) : Option (PM × List String) :=
  match l with
  | r :: c :: rest =>
    match nat? r, nat? c with
    | some m, some n =>
      if rest.length < m * n then none else
      match (rest.take (m * n)).mapM flt? with
      | some vals => some (⟨m, n, vals.toArray⟩, rest.drop (m * n))
      | none => none
    | _, _ => none
  | _ => none

def parseVec (l : List String) : Option (Array Float × List String) :=
  match l with
  | n :: rest =>
    match nat? n with
    | some k =>
      if rest.length < k then none else
      match (rest.take k).mapM flt? with
      | some vals => some (vals.toArray, rest.drop k)
      | none => none
    | none => none
  | _ => none

def kind? : String → Option Kind
  | "row" => some .row
  | "col" => some .col
  | "lin" => some .lin
  | _ => none

def toStore (k : Kind) (M : PM) : Store Float := Store.ofFn k M.r M.c fun i j => M.at i j

def showErr : Err → String
  | .ub => "ub"
  | .dimension => "exc:dimension"
  | .bpp => "exc:bpp"
  | .fuel => "hang"
  | .inf => "inf"

/-- what the harness prints for a matrix: reported dimensions, then `M(i,j)` row by row -/
def showStore (S : Store Float) : String :=
  let es := (List.range S.nrows).flatMap fun i => (List.range S.ncols).map fun j =>
    match S.get i j with
    | .ok x => showF x
    | .error _ => "ub"
  " ".intercalate (toString S.nrows :: toString S.ncols :: es)

def showVec (v : Array Float) : String := " ".intercalate (toString v.size :: v.toList.map showF)

def showRes (r : Res (Store Float)) : String :=
  match r with
  | .ok S => showStore S
  | .error e => showErr e

def showRes2 (r : Res (Store Float × Store Float)) : String :=
  match r with
  | .ok (S, T) => showStore S ++ " ; " ++ showStore T
  | .error e => showErr e

/-! ## exact arithmetic -/

def finite (x : Float) : Bool := !(x.isNaN || x.isInf)
def toRat (x : Float) : Rat := (floatToRat? x).getD 0
def rabs (x : Rat) : Rat := if x < 0 then -x else x
def isInt (x : Float) : Bool := finite x && x == x.floor

/-- magnitudes: the `Scalar` in which a specification evaluates to its running error majorant
(`x - y ↦ |x| + |y|`, `-x ↦ |x|`, literals by absolute value) -/
structure AbsQ where
  v : Rat
  deriving Inhabited

instance : Scalar AbsQ where
  add x y := ⟨x.v + y.v⟩
  sub x y := ⟨x.v + y.v⟩
  mul x y := ⟨x.v * y.v⟩
  div x y := ⟨x.v / y.v⟩
  neg x := x
  default := ⟨0⟩
  ofInt i := ⟨rabs (i : Rat)⟩
  ofRat n d := ⟨rabs ((n : Rat) / (d : Rat))⟩
  ltb x y := decide (x.v < y.v)
  leb x y := decide (x.v ≤ y.v)
  eqb x y := decide (x.v = y.v)
  abs x := x
  exp _ := ⟨0⟩
  log _ := ⟨0⟩
  sqrt _ := ⟨0⟩
  pow _ _ := ⟨0⟩
  tanh _ := ⟨0⟩
  atanh _ := ⟨0⟩
  tan _ := ⟨0⟩
  atan _ := ⟨0⟩
  cosh _ := ⟨0⟩
  sinh _ := ⟨0⟩

def uRound : Rat := 1 / (2 ^ 53 : Nat)
def gamma (k : Nat) : Rat := (k : Rat) * uRound / (1 - (k : Rat) * uRound)

def PM.q (M : PM) : Spec.Fn Rat := fun i j => toRat (M.at i j)
def PM.m (M : PM) : Spec.Fn AbsQ := fun i j => ⟨rabs (toRat (M.at i j))⟩
def PM.fin (M : PM) : Bool := M.a.all finite
def PM.int (M : PM) : Bool := M.a.all isInt
def vq (v : Array Float) : Nat → Rat := fun i => toRat v[i]!
def vm (v : Array Float) : Nat → AbsQ := fun i => ⟨rabs (toRat v[i]!)⟩

/-- an expected output matrix: class, textbook dimensions, entries and their majorant -/
structure Out where
  k : Kind
  r : Nat
  c : Nat
  f : Spec.Fn Rat
  m : Spec.Fn AbsQ

/-- what the property demands of one operation -/
structure Expect where
  name : String
  /-- the operands are conformable -/
  conf : Bool
  outs : List Out
  /-- number of roundings on any path of the expression (for `γ_K`) -/
  K : Nat
  /-- all operands finite -/
  fin : Bool
  /-- all operands integers (and the routine does not divide) -/
  int : Bool
  /-- the caller broke a documented precondition (`check = false` with an unsized output):
  nothing is demanded -/
  pre : Bool := true

def allIdx (r c : Nat) (p : Nat → Nat → Bool) : Bool :=
  (List.range r).all fun i => (List.range c).all fun j => p i j

/-- verdict on one output -/
def judgeOut (name : String) (K : Nat) (int : Bool) (o : Out) (M : PM) : String :=
  if (M.r, M.c) != o.k.shape o.r o.c then "FAIL:" ++ name ++ "_dims"
  else if (M.r, M.c) != (o.r, o.c) then "ok"      -- an empty matrix
  else if !M.fin then "FAIL:" ++ name ++ "_finite"
  else
    let exact := int && allIdx o.r o.c fun i j => decide ((o.m i j).v < (2 ^ 52 : Nat))
    let good := allIdx o.r o.c fun i j =>
      if exact then M.q i j == o.f i j
      else decide (rabs (M.q i j - o.f i j) ≤ gamma K * (o.m i j).v)
    if good then "ok" else "FAIL:" ++ name ++ "_spec"

def isCrash (impl : List String) : Bool :=
  match impl with
  | [t] => t.startsWith "crash" || t == "hang" || t == "short"
  | _ => false

def judge (e : Expect) (impl : List String) : String :=
  if !e.pre then "-"
  else if isCrash impl then "FAIL:" ++ e.name ++ "_no_oob"
  else if !e.conf then
    (if impl == ["exc:dimension"] then "ok" else "FAIL:" ++ e.name ++ "_nonconformable_raises")
  else if impl == ["exc:dimension"] then "FAIL:" ++ e.name ++ "_returns"
  else if !e.fin then "-"
  else
    let parts := splitTok ";" impl
    if parts.length != e.outs.length then "FAIL:parse" else
    (e.outs.zip parts).foldl (fun acc (o, toks) =>
      if acc != "ok" then acc else
      match parseMat toks with
      | some (M, []) => judgeOut e.name e.K e.int o M
      | _ => "FAIL:parse") "ok"

/-- `judge`, preceded by the clause of the known finding `C04-degenerate-shape-storage-dependence`:
`mconf` is the conformability of the operands as matrices (the dimensions on the wire), `e.conf` the
one the routine sees through the dimensions *reported* by the storage classes; they differ only when
an operand with exactly one zero dimension is stored by rows or by columns (it reports 0x0), and then
whether the call raises depends on the class -/
def judgeDep (mconf : Bool) (e : Expect) (impl : List String) : String :=
  if isCrash impl then judge e impl
  else if mconf != e.conf then "FAIL:storage_independent_degenerate"
  else judge e impl

/-! ## state -/

structure St where
  kA : Kind := .row
  kB : Kind := .row
  kO : Kind := .row
  orr : Nat := 0
  occ : Nat := 0
  /-- the persistent object of the storage-level operations -/
  obj : Option (Store Float) := none

def St.kin (s : St) (n : Nat) : Kind := match n % 3 with
  | 0 => s.kA
  | 1 => s.kB
  | _ => s.kO

def staleF : Nat → Nat → Float := fun i j => Float.ofNat (100 + 10 * i + j)
def St.O (s : St) : Store Float := Store.ofFn s.kO s.orr s.occ staleF
def St.iO (s : St) : Store Float := Store.ofFn s.kB s.orr s.occ staleF
def staleDims (k : Kind) (r c : Nat) : Nat × Nat := k.shape r c

def initSt (t : List String) : St :=
  match t with
  | _ :: a :: b :: o :: r :: c :: _ =>
    { kA := (kind? a).getD .row, kB := (kind? b).getD .row, kO := (kind? o).getD .row,
      orr := (nat? r).getD 0, occ := (nat? c).getD 0 }
  | _ => {}

def vOfImpl (impl : Option (List String)) (f : List String → String) : String :=
  match impl with
  | none => "-"
  | some t => f t

/-- reported dimensions of an operand of class `k` built from an `r × c` wire matrix -/
def dimsOf (k : Kind) (M : PM) : Nat × Nat := k.shape M.r M.c

/-- entries of a wire matrix read as a function that is `0` outside -/
def idF : Spec.Fn Rat := Spec.identity
def idM : Spec.Fn AbsQ := Spec.identity

def mkOut (k : Kind) (r c : Nat) (f : Spec.Fn Rat) (m : Spec.Fn AbsQ) : Out := ⟨k, r, c, f, m⟩

/-- position `(i,j)` is the first maximum (`gt`) / minimum in row-major order -/
def firstExtremum (lt : Rat → Rat → Bool) (a : Spec.Fn Rat) (r c i j : Nat) : Bool :=
  decide (i < r) && decide (j < c) &&
  allIdx r c fun p q =>
    if p < i || (p == i && q < j) then lt (a p q) (a i j)      -- earlier entries are strictly worse
    else !(lt (a i j) (a p q))                                  -- no entry is strictly better

/-- iterations granted to each of the three open loops of `Lap.lapFull`: the bound of
`lap_full_fuel_suffices` (`Props/C04Lap.lean`) -/
def lapFuel (n : Nat) : Nat := n * n + n + 1

/-- what the harness prints for `lap` -/
def showLap (a : Lap.LapOut Float) : String :=
  "cost " ++ showF a.cost ++ " ; rowsol " ++ " ".intercalate (a.rowSol.toList.map toString)
    ++ " ; colsol " ++ " ".intercalate (a.colSol.toList.map toString)
    ++ " ; u " ++ " ".intercalate (a.u.toList.map showF)
    ++ " ; v " ++ " ".intercalate (a.v.toList.map showF)

/-- the exact-arithmetic (`Rat`) instantiation of the transcription gives the same answer as its
`Float` instantiation (integer costs: every double operation of the routine is exact) -/
def lapRatAgrees (k : Kind) (M : PM) (lr lc lu lv : Nat) (a : Lap.LapOut Float) : Bool :=
  let A : Store Rat := Store.ofFn k M.r M.c M.q
  match Lap.lap (lapFuel A.nrows) A (Array.replicate lr (-7)) (Array.replicate lc (-7)) (Array.replicate lu 99) (Array.replicate lv 99) with
  | .ok b => a.rowSol == b.rowSol && a.colSol == b.colSol && a.u.all finite && a.v.all finite && finite a.cost
      && a.u.map toRat == b.u && a.v.map toRat == b.v && toRat a.cost == b.cost
  | .error _ => false

/-- verdict on the implementation's answer to `lap`:
`cost <hex> ; rowsol <n ints> ; colsol <n ints> ; u <n hex> ; v <n hex>` -/
def lapVerdict (k : Kind) (M : PM) (impl : List String) : String :=
  let d := dimsOf k M
  if impl == ["hang"] then "FAIL:lap_terminates" else
  if isCrash impl then "FAIL:lap_no_oob" else
  if d.1 != d.2 then (if impl == ["exc:bpp"] then "ok" else "FAIL:lap_nonsquare_raises") else
  -- a NaN or infinite cost raises too (`lap_nonsquare_raises`; the test is part of `Lap.lap`)
  if !M.fin then (if impl == ["exc:bpp"] then "ok" else "FAIL:lap_nonfinite_raises") else
  let n := d.1
  match splitTok ";" impl with
  | [["cost", ct], "rowsol" :: rs, "colsol" :: cs, "u" :: us, "v" :: vs] =>
    match flt? ct, rs.mapM int?, cs.mapM int?, us.mapM flt?, vs.mapM flt? with
    | some cost, some rs, some cs, some us, some vs =>
      if rs.length != n || cs.length != n || us.length != n || vs.length != n then "FAIL:lap_shape" else
      let rsA := rs.toArray; let csA := cs.toArray
      let σ : Nat → Nat := fun i => (rsA[i]!).toNat
      let ρ : Nat → Nat := fun j => (csA[j]!).toNat
      if !(rs.all (· ≥ 0) && cs.all (· ≥ 0)) then "FAIL:lap_permutation"
      else if !Lap.permB n σ ρ then "FAIL:lap_permutation"
      else if !(finite cost && us.all finite && vs.all finite) then "FAIL:lap_finite"
      else
        let c := M.q
        let u := vq us.toArray; let v := vq vs.toArray
        let total := Lap.cost n c σ
        let cmax := M.a.foldl (fun m x => max m (rabs (toRat x))) 0
        let exact := M.int && decide (cmax < (2 ^ 40 : Nat))
        let eps : Rat := if exact then 0 else (cmax + 1) * (n + 1) / ((2 ^ 40 : Nat) : Rat)
        if !(decide (rabs (toRat cost - total) ≤ eps * n)) then "FAIL:lap_cost"
        else if !(if exact then Lap.certB n c σ u v else Lap.certTolB n c σ u v eps) then "FAIL:lap_certificate"
        else if !(n > 7 || match Lap.bruteMin c n 0 (List.range n) with
          | some b => decide (total ≤ b + 2 * n * eps)
          | none => true) then "FAIL:lap_optimal"
        else "ok"
    | _, _, _, _, _ => "FAIL:parse"
  | _ => "FAIL:parse"

/-! ## argument parsers -/
abbrev P := StateT (List String) Option
def pMat : P PM := fun l => parseMat l
def pVec : P (Array Float) := fun l => parseVec l
def pFlt : P Float := fun l => match l with
  | x :: r => (flt? x).map (·, r)
  | [] => none
def pNat : P Nat := fun l => match l with
  | x :: r => (nat? x).map (·, r)
  | [] => none
def pBool : P Bool := fun l => match l with
  | x :: r => some (x == "1", r)
  | [] => none
def pEnd : P Unit := fun l => if l.isEmpty then some ((), []) else none
def runP {β : Type} (p : P β) (l : List String) : Option β := (p.run l).map (·.1)

def rq (x : Float) : Rat := toRat x
def rm (x : Float) : AbsQ := ⟨rabs (toRat x)⟩

/-- storage-level operations on the persistent object -/
def stepStore (st : St) (op : List String) (impl : Option (List String)) : Option (St × String × String) :=
  match op with
  | ["mnew", k, r, c] =>
    match kind? k, nat? r, nat? c with
    | some k, some r, some c =>
      let S : Store Float := (Store.empty k).resize r c
      let v := vOfImpl impl fun t =>
        match parseMat t with
        | some (M, []) => if (M.r, M.c) == k.shape r c && M.a.all (· == 0.0) then "ok" else "FAIL:resize_spec"
        | _ => if isCrash t then "FAIL:storage_no_oob" else "FAIL:parse"
      some ({ st with obj := some S }, showStore S, v)
    | _, _, _ => none
  | ["mset", i, j, x] =>
    match st.obj, nat? i, nat? j, flt? x with
    | some S, some i, some j, some x =>
      match S.set i j x with
      | .ok S' =>
        let v := vOfImpl impl fun t =>
          match parseMat t with
          | some (M, []) =>
            if (M.r, M.c) == (S.nrows, S.ncols) && allIdx M.r M.c (fun p q =>
                showF (M.at p q) == (if p == i && q == j then showF x else match S.get p q with
                  | .ok y => showF y
                  | .error _ => "ub")) then "ok" else "FAIL:get_set_spec"
          | _ => if isCrash t then "FAIL:storage_no_oob" else "FAIL:parse"
        some ({ st with obj := some S' }, showStore S', v)
      | .error e => some (st, showErr e, "-")
    | _, _, _, _ => none
  | ["mresize", r, c] =>
    match st.obj, nat? r, nat? c with
    | some S, some r, some c =>
      let S' := S.resize r c
      let v := vOfImpl impl fun t =>
        match parseMat t with
        | some (M, []) =>
          if (M.r, M.c) != S.kind.shape r c then "FAIL:resize_spec"
          else if allIdx M.r M.c (fun p q =>
              showF (M.at p q) == (if p < S.nrows && q < S.ncols then (match S.get p q with
                | .ok y => showF y
                | .error _ => "ub") else showF 0.0)) then "ok" else "FAIL:resize_spec"
        | _ => if isCrash t then "FAIL:storage_no_oob" else "FAIL:parse"
      some ({ st with obj := some S' }, showStore S', v)
    | _, _, _ => none
  | "massign" :: k :: rest =>
    -- `operator=(const Matrix&)` from a matrix of class kA
    match kind? k, parseMat rest with
    | some k, some (M, []) =>
      match copy (toStore st.kA M) (Store.empty k) with
      | .ok S' =>
        let d := dimsOf st.kA M
        let v := vOfImpl impl fun t => judge ⟨"assign", true, [mkOut k d.1 d.2 M.q M.m], 1, M.fin, true, true⟩ t
        some ({ st with obj := some S' }, showStore S', v)
      | .error e => some (st, showErr e, "-")
    | _, _ => none
  | _ => none

/-- routines with one matrix operand -/
def stepUnary (st : St) (w : String) (rest : List String) (impl : Option (List String)) : Option (String × String) :=
  match w with
  | "copy" => do
    let M ← runP (do let M ← pMat; pEnd; pure M) rest
    let A := toStore st.kA M; let d := dimsOf st.kA M
    pure (showRes (copy A st.O), vOfImpl impl (judge ⟨"copy", true, [mkOut st.kO d.1 d.2 M.q M.m], 1, M.fin, true, true⟩))
  | "copyup" => do
    let M ← runP (do let M ← pMat; pEnd; pure M) rest
    let A := toStore st.kA M; let d := dimsOf st.kA M
    let f : Spec.Fn Rat := fun i j => if i + 1 < d.1 then M.q (i + 1) j else 0
    let m : Spec.Fn AbsQ := fun i j => M.m (i + 1) j
    pure (showRes (copyUp A st.O), vOfImpl impl (judge ⟨"copyUp", true, [mkOut st.kO d.1 d.2 f m], 1, M.fin, true, true⟩))
  | "copydown" => do
    let M ← runP (do let M ← pMat; pEnd; pure M) rest
    let A := toStore st.kA M; let d := dimsOf st.kA M
    let f : Spec.Fn Rat := fun i j => if i = 0 then 0 else M.q (i - 1) j
    let m : Spec.Fn AbsQ := fun i j => M.m (i - 1) j
    pure (showRes (copyDown A st.O), vOfImpl impl (judge ⟨"copyDown", true, [mkOut st.kO d.1 d.2 f m], 1, M.fin, true, true⟩))
  | "getid" => do
    let n ← runP (do let n ← pNat; pEnd; pure n) rest
    pure (showRes (getId n st.O), vOfImpl impl (judge ⟨"getId", true, [mkOut st.kO n n idF idM], 1, true, true, true⟩))
  | "diagv" => do
    let D ← runP (do let D ← pVec; pEnd; pure D) rest
    let n := D.size
    pure (showRes (diagV D st.O),
      vOfImpl impl (judge ⟨"diag", true, [mkOut st.kO n n (Spec.diag (vq D)) (Spec.diag (vm D))], 1, D.all finite, true, true⟩))
  | "diags" => do
    let (x, n) ← runP (do let x ← pFlt; let n ← pNat; pEnd; pure (x, n)) rest
    pure (showRes (diagS x n st.O),
      vOfImpl impl (judge ⟨"diag", true, [mkOut st.kO n n (Spec.diag fun _ => rq x) (Spec.diag fun _ => rm x)], 1, finite x, true, true⟩))
  | "diagm" => do
    let M ← runP (do let M ← pMat; pEnd; pure M) rest
    let A := toStore st.kA M; let d := dimsOf st.kA M
    let out := match diagM A with
      | .ok v => showVec v
      | .error e => showErr e
    -- the vector is judged as a 1 × n flat matrix
    let v := vOfImpl impl fun t =>
      judge ⟨"diagOf", d.1 == d.2, [mkOut .lin 1 d.2 (fun _ j => M.q j j) (fun _ j => M.m j j)], 1, M.fin, true, true⟩
        (if t.head? == some "exc:dimension" || isCrash t then t else "1" :: t)
    pure (out, v)
  | "fill" => do
    let (M, x) ← runP (do let M ← pMat; let x ← pFlt; pEnd; pure (M, x)) rest
    let A := toStore st.kA M; let d := dimsOf st.kA M
    pure (showRes (fillAll A x),
      vOfImpl impl (judge ⟨"fill", true, [mkOut st.kA d.1 d.2 (fun _ _ => rq x) (fun _ _ => rm x)], 1, finite x, true, true⟩))
  | "filldiag" => do
    let (M, x) ← runP (do let M ← pMat; let x ← pFlt; pEnd; pure (M, x)) rest
    let A := toStore st.kA M; let d := dimsOf st.kA M
    let f : Spec.Fn Rat := fun i j => if i = j then rq x else M.q i j
    let m : Spec.Fn AbsQ := fun i j => if i = j then rm x else M.m i j
    pure (showRes (fillDiag A x), vOfImpl impl (judge ⟨"fillDiag", true, [mkOut st.kA d.1 d.2 f m], 1, finite x && M.fin, true, true⟩))
  | "scale" => do
    let (M, a, b) ← runP (do let M ← pMat; let a ← pFlt; let b ← pFlt; pEnd; pure (M, a, b)) rest
    let A := toStore st.kA M; let d := dimsOf st.kA M
    pure (showRes (scale A a b),
      vOfImpl impl (judge ⟨"scale", true, [mkOut st.kA d.1 d.2 (Spec.scale M.q (rq a) (rq b)) (Spec.scale M.m (rm a) (rm b))], 3,
        finite a && finite b && M.fin, M.int && isInt a && isInt b, true⟩))
  | "pow" => do
    let (M, p) ← runP (do let M ← pMat; let p ← pNat; pEnd; pure (M, p)) rest
    let A := toStore st.kA M
    let O : Store Float := Store.ofFn st.kA st.orr st.occ staleF
    let n := A.nrows
    pure (showRes (pow A p O),
      vOfImpl impl (judge ⟨"pow", A.nrows == A.ncols, [mkOut st.kA n n (Spec.pow M.q n p) (Spec.pow M.m n p)], (n + 2) * (p + 1),
        M.fin, M.int, true⟩))
  | "taylor" => do
    let (M, p) ← runP (do let M ← pMat; let p ← pNat; pEnd; pure (M, p)) rest
    let A := toStore st.kA M
    let n := A.nrows
    let out := match taylor A p with
      | .ok v => " ; ".intercalate (toString v.size :: v.toList.map showStore)
      | .error e => showErr e
    let v := vOfImpl impl fun t =>
      if isCrash t then "FAIL:taylor_no_oob"
      else if A.nrows != A.ncols then (if t == ["exc:dimension"] then "ok" else "FAIL:taylor_nonconformable_raises")
      else match splitTok ";" t with
        | [k] :: ms =>
          if nat? k != some (p + 1) || ms.length != p + 1 then "FAIL:taylor_length"
          else (List.range (p + 1)).foldl (fun acc q =>
            if acc != "ok" then acc else
            judge ⟨"taylor", true, [mkOut .row n n (Spec.pow M.q n q) (Spec.pow M.m n q)], (n + 2) * (q + 1), M.fin, M.int, true⟩ (ms.getD q [])) "ok"
        | _ => "FAIL:parse"
    pure (out, v)
  | "transpose" => do
    let M ← runP (do let M ← pMat; pEnd; pure M) rest
    let A := toStore st.kA M; let d := dimsOf st.kA M
    pure (showRes (transpose A st.O),
      vOfImpl impl (judge ⟨"transpose", true, [mkOut st.kO d.2 d.1 (Spec.transpose M.q) (Spec.transpose M.m)], 1, M.fin, true, true⟩))
  | "transpose2" => do
    -- transpose twice (through an intermediate of class kB): the involution
    let M ← runP (do let M ← pMat; pEnd; pure M) rest
    let A := toStore st.kA M; let d := dimsOf st.kA M
    let out := match transpose A (Store.empty st.kB) with
      | .ok T => showRes (transpose T st.O)
      | .error e => showErr e
    let d1 := st.kB.shape d.2 d.1
    pure (out, vOfImpl impl (judge ⟨"transpose_involution", true, [mkOut st.kO d1.2 d1.1 M.q M.m], 1, M.fin, true, true⟩))
  | "issym" => do
    let M ← runP (do let M ← pMat; pEnd; pure M) rest
    let A := toStore st.kA M; let d := dimsOf st.kA M
    let out := match isSymmetric A with
      | .ok b => showBool b
      | .error e => showErr e
    let v := vOfImpl impl fun t =>
      if isCrash t then "FAIL:isSymmetric_no_oob" else
      if !M.fin then "-" else
      let expect := d.1 == d.2 && allIdx d.1 d.2 fun i j => M.q i j == M.q j i
      if t == [showBool expect] then "ok" else "FAIL:isSymmetric_spec"
    pure (out, v)
  | "covar" => do
    let M ← runP (do let M ← pMat; pEnd; pure M) rest
    let A := toStore st.kA M; let d := dimsOf st.kA M
    let n := d.2
    pure (showRes (covar A st.O),
      vOfImpl impl (judge ⟨"covar", true, [mkOut st.kO d.1 d.1 (Spec.covar M.q n) (Spec.covar M.m n)], 2 * n + 10, M.fin, false, n > 0⟩))   -- no sample: the covariance is undefined
  | "tovv" => do
    let M ← runP (do let M ← pMat; pEnd; pure M) rest
    let A := toStore st.kA M; let d := dimsOf st.kA M
    let out := match toVV A with
      | .ok v => " ".intercalate (toString v.size :: toString (match v[0]? with
          | some r => r.size
          | none => 0) :: (v.toList.flatMap fun r => r.toList.map showF))
      | .error e => showErr e
    pure (out, vOfImpl impl (judge ⟨"toVVdouble", true, [mkOut .row d.1 d.2 M.q M.m], 1, M.fin, true, true⟩))
  | "sum" => do
    let M ← runP (do let M ← pMat; pEnd; pure M) rest
    let A := toStore st.kA M; let d := dimsOf st.kA M
    let out := match sumElements A with
      | .ok x => showF x
      | .error e => showErr e
    let v := vOfImpl impl fun t =>
      judge ⟨"sumElements", true, [mkOut .lin 1 1 (fun _ _ => Spec.total M.q d.1 d.2) (fun _ _ => Spec.total M.m d.1 d.2)], d.1 * d.2 + 1, M.fin, M.int, true⟩
        (if isCrash t then t else "1" :: "1" :: t)
    pure (out, v)
  | "lap" | "lapv" => do
    -- the whole routine is transcribed (`LapFull.lean`): the answer of its `Float` instantiation is
    -- compared bit-for-bit; the verdict evaluates the certificate on the implementation's answer.
    -- `lapv lr lc lu lv M`: the caller's output vectors have the lengths lr, lc, lu, lv (`lap M`: dim)
    let (lens, M) ← runP (do
      let lens ← if w == "lapv" then (do let a ← pNat; let b ← pNat; let c ← pNat; let d ← pNat; pure (some (a, b, c, d))) else pure none
      let M ← pMat; pEnd; pure (lens, M)) rest
    let A := toStore st.kA M
    let (lr, lc, lu, lv) := lens.getD (A.nrows, A.nrows, A.nrows, A.nrows)
    let out :=
      match Lap.lap (lapFuel A.nrows) A (Array.replicate lr (-7)) (Array.replicate lc (-7)) (Array.replicate lu 99.0) (Array.replicate lv 99.0) with
      | .ok a =>
        -- integer costs below 2^40: the exact (`Rat`) instantiation must give the same answer
        let cmax := M.a.foldl (fun m x => max m (rabs (toRat x))) 0
        if M.fin && M.int && decide (cmax < (2 ^ 40 : Nat)) && !lapRatAgrees st.kA M lr lc lu lv a then
          showLap a ++ " ; the-Rat-instantiation-differs"
        else showLap a
      | .error e => showErr e
    pure (out, vOfImpl impl (lapVerdict st.kA M))
  | _ => none

/-- extremum searches -/
def stepExtremum (st : St) (w : String) (rest : List String) (impl : Option (List String)) : Option (String × String) :=
  if !(w == "whichmax" || w == "whichmin" || w == "max" || w == "min") then none else do
  let M ← runP (do let M ← pMat; pEnd; pure M) rest
  let A := toStore st.kA M; let d := dimsOf st.kA M
  let isMax := w == "whichmax" || w == "max"
  let res := if isMax then scanMax A else scanMin A
  let lt : Rat → Rat → Bool := if isMax then (fun x y => decide (x < y)) else (fun x y => decide (y < x))
  if w == "whichmax" || w == "whichmin" then
    let out := match res with
      | .ok s => toString s.i ++ " " ++ toString s.j
      | .error e => showErr e
    let v := vOfImpl impl fun t =>
      if isCrash t then "FAIL:which_no_oob" else
      if !M.fin then "-" else
      match t.mapM nat? with
      | some [i, j] =>
        if d.1 == 0 || d.2 == 0 then (if i == 0 && j == 0 then "ok" else "FAIL:which_empty")
        else if firstExtremum lt M.q d.1 d.2 i j then "ok"
        else if isMax then "FAIL:whichMax_spec" else "FAIL:whichMin_spec"
      | _ => "FAIL:parse"
    pure (out, v)
  else
    let sentinel : Float := if isMax then -(1.0 / 0.0) else 1.0 / 0.0
    let out := match res with
      | .ok s => showF (s.cur.getD sentinel)
      | .error e => showErr e
    let v := vOfImpl impl fun t =>
      if isCrash t then "FAIL:extremum_no_oob" else
      if !M.fin then "-" else
      match t with
      | [x] =>
        match flt? x with
        | some x =>
          if d.1 == 0 || d.2 == 0 then (if x == sentinel then "ok" else "FAIL:extremum_empty")
          else if !finite x then "FAIL:extremum_spec"
          else
            let xr := toRat x
            let attained := !(allIdx d.1 d.2 fun p q => M.q p q != xr)
            let bound := allIdx d.1 d.2 fun p q => !(lt xr (M.q p q))
            if attained && bound then "ok" else "FAIL:extremum_spec"
        | none => "FAIL:parse"
      | _ => "FAIL:parse"
    pure (out, v)

/-- products -/
def stepMult (st : St) (w : String) (rest : List String) (impl : Option (List String)) : Option (String × String) :=
  match w with
  | "mult" => do
    let (MA, MB) ← runP (do let a ← pMat; let b ← pMat; pEnd; pure (a, b)) rest
    let A := toStore (st.kin 0) MA; let B := toStore (st.kin 1) MB
    let n := A.ncols
    pure (showRes (mult A B st.O),
      vOfImpl impl (judgeDep (MA.c == MB.r) ⟨"mult", A.ncols == B.nrows, [mkOut st.kO A.nrows B.ncols (Spec.mult MA.q MB.q n) (Spec.mult MA.m MB.m n)], n + 2,
        MA.fin && MB.fin, MA.int && MB.int, true⟩))
  | "multc" => do
    let (MA, MiA, MB, MiB) ← runP (do let a ← pMat; let ia ← pMat; let b ← pMat; let ib ← pMat; pEnd; pure (a, ia, b, ib)) rest
    let A := toStore (st.kin 0) MA; let iA := toStore (st.kin 1) MiA
    let B := toStore (st.kin 2) MB; let iB := toStore (st.kin 3) MiB
    let n := A.ncols
    let conf := A.ncols == B.nrows && sameDims iA A && sameDims iB B
    pure (showRes2 (multC A iA B iB st.O st.iO),
      vOfImpl impl (judge ⟨"multComplex", conf,
        [mkOut st.kO A.nrows B.ncols (Spec.cmulRe MA.q MiA.q MB.q MiB.q n) (Spec.cmulRe MA.m MiA.m MB.m MiB.m n),
         mkOut st.kB A.nrows B.ncols (Spec.cmulIm MA.q MiA.q MB.q MiB.q n) (Spec.cmulIm MA.m MiA.m MB.m MiB.m n)], 2 * n + 4,
        MA.fin && MiA.fin && MB.fin && MiB.fin, MA.int && MiA.int && MB.int && MiB.int, true⟩))
  | "multd" => do
    let (MA, D, MB) ← runP (do let a ← pMat; let d ← pVec; let b ← pMat; pEnd; pure (a, d, b)) rest
    let A := toStore (st.kin 0) MA; let B := toStore (st.kin 1) MB
    let n := A.ncols
    let f : Spec.Fn Rat := Spec.mult (Spec.mult MA.q (Spec.diag (vq D)) n) MB.q n
    let m : Spec.Fn AbsQ := Spec.mult (Spec.mult MA.m (Spec.diag (vm D)) n) MB.m n
    pure (showRes (multD A D B st.O),
      vOfImpl impl (judge ⟨"multDiag", A.ncols == B.nrows && A.ncols == D.size, [mkOut st.kO A.nrows B.ncols f m], n + 3,
        MA.fin && MB.fin && D.all finite, MA.int && MB.int && D.all isInt, true⟩))
  | "multt" => do
    let (MA, D, U, L, MB) ← runP (do let a ← pMat; let d ← pVec; let u ← pVec; let l ← pVec; let b ← pMat; pEnd; pure (a, d, u, l, b)) rest
    let A := toStore (st.kin 0) MA; let B := toStore (st.kin 1) MB
    let n := A.ncols
    let f : Spec.Fn Rat := Spec.mult (Spec.mult MA.q (Spec.tridiag (vq D) (vq U) (vq L)) n) MB.q n
    let m : Spec.Fn AbsQ := Spec.mult (Spec.mult MA.m (Spec.tridiag (vm D) (vm U) (vm L)) n) MB.m n
    let conf := A.ncols == B.nrows && A.ncols == D.size && A.ncols == U.size + 1 && A.ncols == L.size + 1
    pure (showRes (multT A D U L B st.O),
      vOfImpl impl (judge ⟨"multTridiag", conf, [mkOut st.kO A.nrows B.ncols f m], n + 6,
        MA.fin && MB.fin && D.all finite && U.all finite && L.all finite,
        MA.int && MB.int && D.all isInt && U.all isInt && L.all isInt, true⟩))
  | "multcd" => do
    let (MA, MiA, D, iD, MB, MiB) ← runP (do
      let a ← pMat; let ia ← pMat; let d ← pVec; let id ← pVec; let b ← pMat; let ib ← pMat; pEnd; pure (a, ia, d, id, b, ib)) rest
    let A := toStore (st.kin 0) MA; let iA := toStore (st.kin 1) MiA
    let B := toStore (st.kin 2) MB; let iB := toStore (st.kin 3) MiB
    let n := A.ncols
    let conf := A.ncols == B.nrows && A.ncols == D.size && A.ncols == iD.size && sameDims iA A && sameDims iB B
    -- (A + i iA)(D + i iD) as a pair, then times (B + i iB)
    let adRe : Spec.Fn Rat := Spec.cmulRe MA.q MiA.q (Spec.diag (vq D)) (Spec.diag (vq iD)) n
    let adIm : Spec.Fn Rat := Spec.cmulIm MA.q MiA.q (Spec.diag (vq D)) (Spec.diag (vq iD)) n
    let adReM : Spec.Fn AbsQ := Spec.cmulRe MA.m MiA.m (Spec.diag (vm D)) (Spec.diag (vm iD)) n
    let adImM : Spec.Fn AbsQ := Spec.cmulIm MA.m MiA.m (Spec.diag (vm D)) (Spec.diag (vm iD)) n
    pure (showRes2 (multCD A iA D iD B iB st.O st.iO),
      vOfImpl impl (judge ⟨"multComplexDiag", conf,
        [mkOut st.kO A.nrows B.ncols (Spec.cmulRe adRe adIm MB.q MiB.q n) (Spec.cmulRe adReM adImM MB.m MiB.m n),
         mkOut st.kB A.nrows B.ncols (Spec.cmulIm adRe adIm MB.q MiB.q n) (Spec.cmulIm adReM adImM MB.m MiB.m n)], 2 * n + 8,
        MA.fin && MiA.fin && MB.fin && MiB.fin && D.all finite && iD.all finite,
        MA.int && MiA.int && MB.int && MiB.int && D.all isInt && iD.all isInt, true⟩))
  | "add" => do
    let (MA, MB) ← runP (do let a ← pMat; let b ← pMat; pEnd; pure (a, b)) rest
    let A := toStore (st.kin 0) MA; let B := toStore (st.kin 1) MB
    pure (showRes (add A B),
      vOfImpl impl (judgeDep (MA.r == MB.r && MA.c == MB.c) ⟨"add", sameDims A B, [mkOut (st.kin 0) A.nrows A.ncols (Spec.add MA.q MB.q) (Spec.add MA.m MB.m)], 2,
        MA.fin && MB.fin, MA.int && MB.int, true⟩))
  | "adds" => do
    let (MA, x, MB) ← runP (do let a ← pMat; let x ← pFlt; let b ← pMat; pEnd; pure (a, x, b)) rest
    let A := toStore (st.kin 0) MA; let B := toStore (st.kin 1) MB
    pure (showRes (addS A x B),
      vOfImpl impl (judgeDep (MA.r == MB.r && MA.c == MB.c) ⟨"addScaled", sameDims A B, [mkOut (st.kin 0) A.nrows A.ncols (Spec.addS MA.q (rq x) MB.q) (Spec.addS MA.m (rm x) MB.m)], 3,
        MA.fin && MB.fin && finite x, MA.int && MB.int && isInt x, true⟩))
  | _ => none

/-- Kronecker, Hadamard and direct sums -/
def stepProd (st : St) (w : String) (rest : List String) (impl : Option (List String)) : Option (String × String) :=
  match w with
  | "kron" => do
    let (MA, MB, check) ← runP (do let a ← pMat; let b ← pMat; let c ← pBool; pEnd; pure (a, b, c)) rest
    let A := toStore (st.kin 0) MA; let B := toStore (st.kin 1) MB
    let r := A.nrows * B.nrows; let c := A.ncols * B.ncols
    let O := st.O
    -- without `check` the caller must pass an output of the right size
    let pre := check || (O.nrows == r && O.ncols == c)
    pure (showRes (kron A B O check),
      vOfImpl impl (judge ⟨"kron", true, [mkOut st.kO r c (Spec.kron MA.q MB.q B.nrows B.ncols) (Spec.kron MA.m MB.m B.nrows B.ncols)], 2,
        MA.fin && MB.fin, MA.int && MB.int, pre⟩))
  | "krond" => do
    let (MA, dim, x, check) ← runP (do let a ← pMat; let d ← pNat; let x ← pFlt; let c ← pBool; pEnd; pure (a, d, x, c)) rest
    let A := toStore (st.kin 0) MA
    let r := A.nrows * dim; let c := A.ncols * dim
    let O := st.O
    let pre := check || (O.nrows == r && O.ncols == c)
    pure (showRes (kronD A dim x O check),
      vOfImpl impl (judge ⟨"kronDiag", true, [mkOut st.kO r c (Spec.kron MA.q (Spec.diag fun _ => rq x) dim dim) (Spec.kron MA.m (Spec.diag fun _ => rm x) dim dim)], 2,
        MA.fin && finite x, MA.int && isInt x, pre⟩))
  | "kron2" => do
    let (MA, MB, da, db, check) ← runP (do
      let a ← pMat; let b ← pMat; let da ← pFlt; let db ← pFlt; let c ← pBool; pEnd; pure (a, b, da, db, c)) rest
    let A := toStore (st.kin 0) MA; let B := toStore (st.kin 1) MB
    let r := A.nrows * B.nrows; let c := A.ncols * B.ncols
    let O := st.O
    let pre := check || (O.nrows == r && O.ncols == c)
    let a' : Spec.Fn Rat := fun i j => if i = j then rq da else MA.q i j
    let b' : Spec.Fn Rat := fun i j => if i = j then rq db else MB.q i j
    let am : Spec.Fn AbsQ := fun i j => if i = j then rm da else MA.m i j
    let bm : Spec.Fn AbsQ := fun i j => if i = j then rm db else MB.m i j
    pure (showRes (kron2 A B da db O check),
      vOfImpl impl (judge ⟨"kronReplacedDiag", true, [mkOut st.kO r c (Spec.kron a' b' B.nrows B.ncols) (Spec.kron am bm B.nrows B.ncols)], 2,
        MA.fin && MB.fin && finite da && finite db, MA.int && MB.int && isInt da && isInt db, pre⟩))
  | "had" => do
    let (MA, MB) ← runP (do let a ← pMat; let b ← pMat; pEnd; pure (a, b)) rest
    let A := toStore (st.kin 0) MA; let B := toStore (st.kin 1) MB
    pure (showRes (had A B st.O),
      vOfImpl impl (judgeDep (MA.r == MB.r && MA.c == MB.c) ⟨"hadamard", sameDims A B, [mkOut st.kO A.nrows A.ncols (Spec.had MA.q MB.q) (Spec.had MA.m MB.m)], 2,
        MA.fin && MB.fin, MA.int && MB.int, true⟩))
  | "hadc" => do
    let (MA, MiA, MB, MiB) ← runP (do let a ← pMat; let ia ← pMat; let b ← pMat; let ib ← pMat; pEnd; pure (a, ia, b, ib)) rest
    let A := toStore (st.kin 0) MA; let iA := toStore (st.kin 1) MiA
    let B := toStore (st.kin 2) MB; let iB := toStore (st.kin 3) MiB
    let conf := sameDims A B && sameDims iA A && sameDims iB B
    let re : Spec.Fn Rat := fun i j => MA.q i j * MB.q i j - MiA.q i j * MiB.q i j
    let im : Spec.Fn Rat := fun i j => MiA.q i j * MB.q i j + MA.q i j * MiB.q i j
    let reM : Spec.Fn AbsQ := fun i j => MA.m i j * MB.m i j - MiA.m i j * MiB.m i j
    let imM : Spec.Fn AbsQ := fun i j => MiA.m i j * MB.m i j + MA.m i j * MiB.m i j
    pure (showRes2 (hadC A iA B iB st.O st.iO),
      vOfImpl impl (judge ⟨"hadamardComplex", conf,
        [mkOut st.kO A.nrows A.ncols re reM, mkOut st.kB A.nrows A.ncols im imM], 4,
        MA.fin && MiA.fin && MB.fin && MiB.fin, MA.int && MiA.int && MB.int && MiB.int, true⟩))
  | "hadv" => do
    let (MA, V, row) ← runP (do let a ← pMat; let v ← pVec; let r ← pBool; pEnd; pure (a, v, r)) rest
    let A := toStore (st.kin 0) MA
    let conf := if row then A.nrows == V.size else A.ncols == V.size
    let f : Spec.Fn Rat := fun i j => MA.q i j * vq V (if row then i else j)
    let m : Spec.Fn AbsQ := fun i j => MA.m i j * vm V (if row then i else j)
    pure (showRes (hadV A V st.O row),
      vOfImpl impl (judge ⟨"hadamardVector", conf, [mkOut st.kO A.nrows A.ncols f m], 2,
        MA.fin && V.all finite, MA.int && V.all isInt, true⟩))
  | "dsum" => do
    let (MA, MB) ← runP (do let a ← pMat; let b ← pMat; pEnd; pure (a, b)) rest
    let A := toStore (st.kin 0) MA; let B := toStore (st.kin 1) MB
    let f : Spec.Fn Rat := Spec.dsum MA.q MB.q A.nrows A.ncols B.nrows B.ncols
    let m : Spec.Fn AbsQ := Spec.dsum MA.m MB.m A.nrows A.ncols B.nrows B.ncols
    pure (showRes (dsum A B st.O),
      vOfImpl impl (judge ⟨"directSum", true, [mkOut st.kO (A.nrows + B.nrows) (A.ncols + B.ncols) f m], 1,
        MA.fin && MB.fin, true, true⟩))
  | "dsumn" => do
    let ms ← runP (do
      let k ← pNat
      let mut acc : Array PM := #[]
      for _ in [0:k] do
        acc := acc.push (← pMat)
      pEnd
      pure acc.toList) rest
    let ss := ms.zipIdx.map fun (M, idx) => (M, toStore (st.kin idx) M)
    -- the textbook direct sum, folded from the left (`Spec.dsumFold`)
    let accQ := Spec.dsumFold (0, 0, fun _ _ => (0 : Rat)) (ss.map fun Mp => (Mp.2.nrows, Mp.2.ncols, Mp.1.q))
    let accM := Spec.dsumFold (0, 0, fun _ _ => (⟨0⟩ : AbsQ)) (ss.map fun Mp => (Mp.2.nrows, Mp.2.ncols, Mp.1.m))
    pure (showRes (dsumN (ss.map (·.2)) st.O),
      vOfImpl impl (judge ⟨"directSumN", true, [mkOut st.kO accQ.1 accQ.2.1 accQ.2.2 accM.2.2], 1, ms.all (·.fin), true, true⟩))
  | _ => none

/-- the matrix operands of an operation line, each with the storage class it is given -/
def operandMats (st : St) (w : String) (rest : List String) : List (Kind × PM) :=
  let one : P (List PM) := do let a ← pMat; pure [a]
  let two : P (List PM) := do let a ← pMat; let b ← pMat; pure [a, b]
  let four : P (List PM) := do let a ← pMat; let b ← pMat; let c ← pMat; let d ← pMat; pure [a, b, c, d]
  let unary := ["copy", "copyup", "copydown", "diagm", "fill", "filldiag", "scale", "pow", "taylor", "transpose",
    "transpose2", "issym", "covar", "tovv", "lap"]
  let p : Option (P (List PM) × Bool) :=
    if unary.contains w then some (one, true)
    else if w == "lapv" then some ((do let _ ← pNat; let _ ← pNat; let _ ← pNat; let _ ← pNat; one), true)
    else if w == "mult" || w == "add" || w == "kron" || w == "kron2" || w == "had" || w == "dsum" then some (two, false)
    else if w == "adds" then some ((do let a ← pMat; let _ ← pFlt; let b ← pMat; pure [a, b]), false)
    else if w == "multc" || w == "hadc" then some (four, false)
    else if w == "multd" then some ((do let a ← pMat; let _ ← pVec; let b ← pMat; pure [a, b]), false)
    else if w == "multt" then some ((do let a ← pMat; let _ ← pVec; let _ ← pVec; let _ ← pVec; let b ← pMat; pure [a, b]), false)
    else if w == "multcd" then some ((do let a ← pMat; let b ← pMat; let _ ← pVec; let _ ← pVec; let c ← pMat; let d ← pMat; pure [a, b, c, d]), false)
    else if w == "krond" || w == "hadv" then some (one, false)
    else if w == "dsumn" then some ((do
      let k ← pNat
      let rec go : Nat → P (List PM)
        | 0 => pure []
        | n + 1 => do let a ← pMat; let r ← go n; pure (a :: r)
      go k), false)
    else none
  match p with
  | none => []
  | some (q, un) =>
    match q.run rest with
    | some (ms, _) => ms.zipIdx.map fun (M, idx) => (if un then st.kA else st.kin idx, M)
    | none => []

/-- some operand has exactly one zero dimension and is held by a class that cannot represent it (it
reports `0 × 0`): the region of the known finding `C04-degenerate-shape-storage-dependence`, where
dimensions, results and whether the call raises depend on the storage class -/
def degenerateOperand (st : St) (w : String) (rest : List String) : Bool :=
  (operandMats st w rest).any fun (k, M) => dimsOf k M != (M.r, M.c)

def step (st : St) (op : List String) (impl : Option (List String)) : St × String × String :=
  match stepStore st op impl with
  | some r => r
  | none =>
    match op with
    | w :: rest =>
      match (stepUnary st w rest impl <|> stepExtremum st w rest impl <|> stepMult st w rest impl <|> stepProd st w rest impl) with
      | some (out, v) =>
        -- a verdict `ok` obtained through the reported dimensions of a collapsed operand is replaced by
        -- the clause of the known finding (every routine, not only the four of `judgeDep`)
        if v == "ok" && degenerateOperand st w rest then (st, out, "FAIL:storage_independent_degenerate")
        else (st, out, v)
      | none => (st, "bad-op", "-")
    | [] => (st, "bad-op", "-")

def machine : Machine St := { init := initSt, step := step }

end Bpp.Drive.C04
