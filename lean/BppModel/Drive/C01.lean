import BppModel.Proto
import BppModel.Param
import BppModel.ParamShared
import BppModel.Describe
/-
Driver for C01 (IntervalConstraint, Parameter, AutoParameter).

The model is generic over `Scalar`; a case runs either at `Float` (`case <tag> flt`: the very
doubles of the C++, bit-exact) or at `Rat` (`case <tag> rat`: dyadic inputs, exact arithmetic).
In both modes an infinite double is decoded to `Bound.negInf` / `Bound.posInf`.
Registers: intervals i0..i7, parameters p0..p3 (same as harness/C01.cpp).

Verdict clauses (the theorems of BppProofs/Props/C01.lean whose executable predicate is
evaluated on the implementation's answer):
  isCorrect_iff   membership answer ≠ the denotation (`Interval.memSpec`)
  inter_iff       the returned intersection accepts a probe point that an operand rejects, or vice versa
  isEmpty_iff     emptiness answer ≠ "no finite probe point (a bound, a point between the bounds) is accepted"
  limit_spec      getLimit/getAcceptedLimit answer violates `Interval.limitOk`
  cmp_sound       `c < v` / `c > v` / `c <= v` / `c >= v` answered true although an accepted probe point is not below / above `v`
  param_inv       the stored value is rejected by the stored constraint (`Param.invOk`)
  param_inv_shared  the same, in a `shared` case (constraints as shared heap objects, BppModel/ParamShared.lean)
                  and the model itself holds a rejected value there: an attached constraint object was
                  mutated in place (theorem shared_inv_partial / shared_mutation_witness; known finding)
  reject_unchanged  a raising call changed the object
  auto_total      the auto-correcting setter raised on a wide interval
  auto_total_rounding  it raised on a wide interval whose accepted limit absorbs `± TINY` in double arithmetic
                  (open bound of magnitude >= 2^15 with the default precision; known finding)
  auto_total_precision  it raised on an interval at least 1e-9 wide that is not wide: constraint precision too large
                  for the width (full statement of `auto_total_partial`; known finding)
  auto_nearest    the corrected value is further than one step from the nearest accepted value
  read_render     parsing a rendered description does not give the interval back
  read_documented a description the model reads without raising (documented syntax) is refused or read to another interval
  read_out_of_range  a bound text that `toDouble` accepts but whose value is beyond the range of doubles (`1e400`,
                  `1e-400`) was read without raising, to `±DBL_MAX` / 0: not the interval the text denotes (known finding)
  inter_prec      the precision of an intersection is not the larger of the two
  precision_nonneg  a parameter holds a negative precision
-/
namespace Bpp.Drive.C01
open Bpp Bpp.Proto

class Codec (α : Type) where
  decB : String → Option (Bound α)
  encB : Bound α → String
  /-- slack of the nearest-value predicate in steps (1 = exact arithmetic, 2 = rounded) -/
  slack : Int

def negInfHex := "fff0000000000000"
def posInfHex := "7ff0000000000000"

instance : Codec Float where
  decB s := match Hex.float? s with
    | some f => if f.isNaN then none else if f.isInf then some (if f < 0 then .negInf else .posInf) else some (.fin f)
    | none => none
  encB
    | .negInf => negInfHex
    | .posInf => posInfHex
    | .fin x => Hex.ofFloat x
  slack := 2

/-- the double equal to `q`, if there is one -/
def ratToHex (q : Rat) : String :=
  let f := Float.ofInt q.num / Float.ofNat q.den
  if floatToRat? f == some q then Hex.ofFloat f else "inexact:" ++ toString q.num ++ "/" ++ toString q.den

instance : Codec Rat where
  decB s := match Hex.float? s with
    | some f => if f.isNaN then none else if f.isInf then some (if f < 0 then .negInf else .posInf)
                else (floatToRat? f).map .fin
    | none => none
  encB
    | .negInf => negInfHex
    | .posInf => posInfHex
    | .fin x => ratToHex x
  slack := 1

section Generic
variable {α : Type} [Scalar α] [Codec α] [Describe.NumText α]

def decS (s : String) : Option α := match (Codec.decB s : Option (Bound α)) with
  | some (.fin x) => some x
  | _ => none
def encS (x : α) : String := Codec.encB (Bound.fin x)
def bool? (s : String) : Option Bool := if s == "1" then some true else if s == "0" then some false else none

structure St (α : Type) where
  ics : Array (Option (Interval α)) := Array.replicate 8 none
  ps : PStore α := PStore.empty
  /-- message handler of the (auto-correcting) parameter in each register: 0 = null pointer,
  1 = the harness' capturing stream, 2 = a sink (`ApplicationTools::message` in the harness) -/
  mh : Nat → Nat := fun _ => 2
  /-- lines the capturing stream has received since the last `p.msgs` -/
  msgs : Nat := 0

def St.setMh (s : St α) (k : Nat) (m : Nat) : St α := { s with mh := fun i => if i = k then m else s.mh i }

def showIC (c : Interval α) : String :=
  Codec.encB c.lo ++ " " ++ Codec.encB c.hi ++ " " ++ showBool c.inclLo ++ " " ++ showBool c.inclHi ++ " " ++ encS c.prec
def showICo : Option (Interval α) → String
  | some c => showIC c
  | none => "absent"
def showP : Option (Param α) → String
  | none => "absent"
  | some p => encS p.value ++ " " ++ encS p.precision ++ " " ++ showBool p.auto ++ " " ++
      (match p.constraint with | none => "none" | some c => showIC c)

def parseIC : List String → Option (Interval α)
  | [lo, hi, il, iu, pr] =>
    match (Codec.decB lo : Option (Bound α)), (Codec.decB hi : Option (Bound α)), bool? il, bool? iu, (decS pr : Option α) with
    | some lo, some hi, some il, some iu, some pr => some ⟨lo, hi, il, iu, pr⟩
    | _, _, _, _, _ => none
  | _ => none

/-- `some none` = "absent" -/
def parseP : List String → Option (Option (Param α))
  | ["absent"] => some none
  | v :: pr :: au :: rest =>
    match (decS v : Option α), (decS pr : Option α), bool? au with
    | some v, some pr, some au =>
      match rest with
      | ["none"] => some (some ⟨v, pr, none, au⟩)
      | r => (parseIC r).map (fun c => some ⟨v, pr, some c, au⟩)
    | _, _, _ => none
  | _ => none

/-! probe points -/
def mid : Bound α → Bound α → Bound α
  | .fin a, .fin b => .fin ((a + b) / Scalar.ofInt 2)
  | .negInf, .fin b => .fin (b - Scalar.one)
  | .fin a, .posInf => .fin (a + Scalar.one)
  | .negInf, .posInf => .fin Scalar.zero
  | a, _ => a

def around : Bound α → List (Bound α)
  | .fin a => [.fin a, .fin (a - Scalar.one), .fin (a + Scalar.one)]
  | b => [b]

def probes1 (c : Interval α) : List (Bound α) := [c.lo, c.hi, mid c.lo c.hi]
def probes2 (c d : Interval α) : List (Bound α) :=
  let pts := [c.lo, c.hi, d.lo, d.hi]
  [Bound.negInf, Bound.posInf] ++ pts.flatMap around ++ pts.flatMap (fun a => pts.map (fun b => mid a b))

def interVerdict (c d : Interval α) (impl : Option (List String)) (dropLast : Bool) : String :=
  match impl with
  | none => "-"
  | some t =>
    match parseIC (if dropLast then t.dropLast else t) with
    | none => "FAIL:parse"
    | some (r : Interval α) =>
      if !(probes2 c d).all (fun x => r.isCorrectB x == (c.isCorrectB x && d.isCorrectB x)) then "FAIL:inter_iff"
      else if !(Scalar.eqb r.prec (Scalar.max c.prec d.prec)) then "FAIL:inter_prec" else "ok"

/-- `-0.0` and `0.0` are the same number (the text `-0` parses to `-0.0` in the library, to `0` in the model) -/
def normZ (t : List String) : List String := t.map (fun x => if x == "8000000000000000" then "0000000000000000" else x)

def boolVerdict (impl : Option (List String)) (want : Bool) (clause : String) : String :=
  match impl with
  | none => "-"
  | some [t] => if bool? t == some want then "ok" else "FAIL:" ++ clause
  | some _ => "FAIL:parse"

def getIC (s : St α) (k : String) : Option (Interval α) :=
  match nat? k with
  | some k => if h : k < s.ics.size then s.ics[k] else none
  | none => none

def setIC (s : St α) (k : String) (c : Interval α) : St α :=
  match nat? k with
  | some k => { s with ics := s.ics.set! k (some c) }
  | none => s

/-- the constraint argument of a parameter op -/
def cArg (s : St α) (a : String) : Option (Option (Interval α)) :=
  if a == "-" then some none else (getIC s a).map some

/-- split `outcome ; state [; extra]` -/
def parts (t : List String) : List (List String) := splitTok ";" t

/-- verdict for a parameter op: `pre` = the register before the call (model = implementation,
by the correspondence of the earlier answers), `extra` = a clause-specific check on the
implementation's new state -/
def paramVerdict (impl : Option (List String)) (pre : Option (Param α))
    (extra : Bool → Option (Param α) → String) (modelBroken : Bool := false) : String :=
  match impl with
  | none => "-"
  | some t =>
    match parts t with
    | [outcome] :: st :: more =>
      -- `modelBroken` (shared cases only): the pointer model itself holds a rejected value in this register
      if more.any (fun x => match x with | [m] => m.startsWith "monitor:" | _ => false) then
        (if modelBroken then "FAIL:param_inv_shared" else "FAIL:param_inv_monitor") else
      match (parseP st : Option (Option (Param α))) with
      | none => "FAIL:parse"
      | some q =>
        let raised := outcome.startsWith "exc:"
        if (match q with | some p => !p.invOk | none => false) then
          (if modelBroken then "FAIL:param_inv_shared" else "FAIL:param_inv")
        -- second half of the store invariant (`StoreInv`): the precision is never negative
        else if (match q with | some p => Scalar.ltb p.precision Scalar.zero | none => false) then "FAIL:precision_nonneg"
        else if raised && showP q != showP pre then "FAIL:reject_unchanged"
        else extra raised q
    | _ => if t == ["absent"] then "-" else "FAIL:parse"

def noExtra : Bool → Option (Param α) → String := fun _ _ => "ok"

def showOutcome : POutcome → String
  | .done => "ok"
  | .raised .constraint => "exc:constraint"
  | .raised .nonfinite => "unmodelled"
  | .absent => "absent"

def pReg (k : String) : Nat := (nat? k).getD 99

/-- run a parameter op on the model and judge the implementation's answer -/
def pStep (s : St α) (k : Nat) (op : POp α) (impl : Option (List String))
    (extra : Bool → Option (Param α) → String := noExtra) (suffix : String := "") : St α × String × String :=
  let pre := s.ps k
  let (ps', out) := POp.step s.ps op
  match out with
  | .absent => (s, "absent", "-")
  | _ => ({ s with ps := ps' }, showOutcome out ++ " ; " ++ showP (ps' k) ++ suffix, paramVerdict impl pre extra)

def autoExtra (p : Param α) (v : α) : Bool → Option (Param α) → String := fun raised q =>
  if !p.auto then "ok" else
  match p.constraint with
  | none => if raised then "FAIL:auto_total" else "ok"
  | some c =>
    -- raised on an interval inside the property's quantifier (>= 1e-9 wide) that is not `wide`: the constraint's
    -- precision is too large for the width (`auto_precision_witness`, known finding); narrower intervals are
    -- outside the quantifier (`auto_narrow_witness`)
    -- raised on a wide interval although the theorem (over the reals) says it cannot: in double arithmetic the
    -- inward fallback step is absorbed when the (rejected) limit `L` satisfies `L ± TINY == L`
    -- (|L| >= 2^15 for the default precision): `auto_total_rounding`, known finding; never true at `Rat`
    if raised then
      (if c.wide then
        (match c.getAcceptedLimit (.fin v) with
         | .fin l =>
           -- the step towards the inside of the interval is absorbed: `l` is the rejected bound itself
           let inward := if c.geV (.fin v) then l + Constants.TINY else l - Constants.TINY
           if !c.isCorrect l && Scalar.eqb inward l then "FAIL:auto_total_rounding" else "FAIL:auto_total"
         | _ => "FAIL:auto_total")
       else if c.widthOk then "FAIL:auto_total_precision" else "ok")
    else match q with
      | some p' => if !c.wide || p.nearestOk (Scalar.ofInt (Codec.slack α)) v p'.value then "ok" else "FAIL:auto_nearest"
      | none => "FAIL:parse"

def stepG (s : St α) (op : List String) (impl : Option (List String)) : St α × String × String :=
  let bad : St α × String × String := (s, "bad-op", "-")
  let mkIC (k : String) (c : Option (Interval α)) : St α × String × String :=
    match c with
    | some c => (setIC s k c, showIC c, "-")
    | none => bad
  match op with
  -- ------------------------------------------------------------ intervals
  | ["ic.new", k, lo, hi, il, iu, pr] =>
    match (Codec.decB lo : Option (Bound α)), (Codec.decB hi : Option (Bound α)), bool? il, bool? iu, (decS pr : Option α) with
    | some lo, some hi, some il, some iu, some pr => mkIC k (some (Interval.make lo hi il iu pr))
    | _, _, _, _, _ => bad
  | ["ic.new4", k, lo, hi, il, iu] =>
    match (Codec.decB lo : Option (Bound α)), (Codec.decB hi : Option (Bound α)), bool? il, bool? iu with
    | some lo, some hi, some il, some iu => mkIC k (some (Interval.make lo hi il iu Constants.TINY))
    | _, _, _, _ => bad
  | ["ic.def", k] => mkIC k (some Interval.default)
  | ["ic.half", k, pos, b, incl, pr] =>
    match bool? pos, (Codec.decB b : Option (Bound α)), bool? incl, (decS pr : Option α) with
    | some pos, some b, some incl, some pr => mkIC k (some (Interval.halfLine pos b incl pr))
    | _, _, _, _ => bad
  | ["ic.half3", k, pos, b, incl] =>
    match bool? pos, (Codec.decB b : Option (Bound α)), bool? incl with
    | some pos, some b, some incl => mkIC k (some (Interval.halfLine pos b incl Constants.TINY))
    | _, _, _ => bad
  | ["ic.static", k, name] =>
    let z : Bound α := .fin Scalar.zero
    let o : Bound α := .fin Scalar.one
    let t : α := Constants.TINY
    match name with
    | "R_PLUS" => mkIC k (some (Interval.halfLine true z true t))
    | "R_PLUS_STAR" => mkIC k (some (Interval.halfLine true z false t))
    | "R_MINUS" => mkIC k (some (Interval.halfLine false z true t))
    | "R_MINUS_STAR" => mkIC k (some (Interval.halfLine false z false t))
    | "PROP_IN" => mkIC k (some (Interval.make z o true true t))
    | "PROP_EX" => mkIC k (some (Interval.make z o false false t))
    | _ => bad
  | ["ic.copy", i, k] =>
    match getIC s i with
    | some c => mkIC k (some c)
    | none => (s, "absent", "-")
  | ["ic.get", k] => (s, showICo (getIC s k), "-")
  | ["ic.correct", k, v] =>
    match getIC s k, (Codec.decB v : Option (Bound α)) with
    | some c, some v => (s, showBool (c.isCorrectB v), boolVerdict impl (c.memSpec v) "isCorrect_iff")
    | none, _ => (s, "absent", "-")
    | _, _ => bad
  | ["ic.includes", k, a, b] =>
    match getIC s k, (Codec.decB a : Option (Bound α)), (Codec.decB b : Option (Bound α)) with
    | some c, some a, some b => (s, showBool (c.includes a b), boolVerdict impl (c.memSpecLo a && c.memSpecHi b) "includes_iff")
    | none, _, _ => (s, "absent", "-")
    | _, _, _ => bad
  | ["ic.cmp", k, v] =>
    match getIC s k, (Codec.decB v : Option (Bound α)) with
    | some c, some v =>
      -- `cmp_sound`: an answer "true" must hold of every accepted probe point (the bounds, a point between them)
      let verdict := match impl with
        | none => "-"
        | some t => match t.map bool? with
          | [some lt, some gt, some le, some ge] =>
            if ((probes1 c).filter c.memSpec).all (fun x =>
                (!lt || Bound.ltb x v) && (!gt || Bound.ltb v x) && (!le || Bound.leb x v) && (!ge || Bound.leb v x))
            then "ok" else "FAIL:cmp_sound"
          | _ => "FAIL:parse"
      (s, " ".intercalate ([c.ltV v, c.gtV v, c.leV v, c.geV v].map showBool), verdict)
    | none, _ => (s, "absent", "-")
    | _, _ => bad
  | ["ic.limit", k, v] =>
    match getIC s k, (Codec.decB v : Option (Bound α)) with
    | some c, some v =>
      let verdict := match impl with
        | some [t] => match (Codec.decB t : Option (Bound α)) with
          | some w => if c.limitOk v w then "ok" else "FAIL:limit_spec"
          | none => "FAIL:parse"
        | some _ => "FAIL:parse"
        | none => "-"
      (s, Codec.encB (c.getLimit v), verdict)
    | none, _ => (s, "absent", "-")
    | _, _ => bad
  | ["ic.alimit", k, v] =>
    match getIC s k, (Codec.decB v : Option (Bound α)) with
    | some c, some v => (s, Codec.encB (c.getAcceptedLimit v), "-")
    | none, _ => (s, "absent", "-")
    | _, _ => bad
  | ["ic.empty", k] =>
    match getIC s k with
    | some c =>
      -- `isEmpty_iff_real` / `not_isEmpty_iff_exists`: empty iff no real (finite double) is accepted;
      -- a bound or a point between the bounds is the witness of a non-empty interval
      let anyFin := ((probes1 c).filter Bound.isFin).any c.isCorrectB
      (s, showBool c.isEmpty, boolVerdict impl (!anyFin) "isEmpty_iff")
    | none => (s, "absent", "-")
  | ["ic.fin", k] =>
    match getIC s k with
    | some c => (s, " ".intercalate ([c.finiteLowerBound, c.finiteUpperBound, c.strictLowerBound, c.strictUpperBound].map showBool), "-")
    | none => (s, "absent", "-")
  | ["ic.setlo", k, b, strict] =>
    match getIC s k, (Codec.decB b : Option (Bound α)), bool? strict with
    | some c, some b, some st => mkIC k (some (c.setLowerBound b st))
    | none, _, _ => (s, "absent", "-")
    | _, _, _ => bad
  | ["ic.sethi", k, b, strict] =>
    match getIC s k, (Codec.decB b : Option (Bound α)), bool? strict with
    | some c, some b, some st => mkIC k (some (c.setUpperBound b st))
    | none, _, _ => (s, "absent", "-")
    | _, _, _ => bad
  | ["ic.inter", i, j, r] =>
    match getIC s i, getIC s j with
    | some c, some d =>
      let x := c.inter d
      (setIC s r x, showIC x, interVerdict c d impl false)
    | _, _ => (s, "absent", "-")
  | ["ic.interas", i, j] =>
    match getIC s i, getIC s j with
    | some c, some d =>
      let x := c.interAssign d
      (setIC s i x, showIC x ++ " 1", interVerdict c d impl true)
    | _, _ => (s, "absent", "-")
  | ["ic.rel", i, j] =>
    match getIC s i, getIC s j with
    | some c, some d => (s, " ".intercalate ([c.eqI d, c.neI d, c.leI d].map showBool), "-")
    | _, _ => (s, "absent", "-")
  | ["ic.desc", k] =>
    match getIC s k with
    | some c =>
      match Describe.render? c with
      | some str => (s, Describe.charsToHex str, "-")
      | none => (s, "unmodelled", "-")
    | none => (s, "absent", "-")
  | ["ic.parse", k, h] =>
    match getIC s k with
    | some c =>
      match Describe.readDescription c (Describe.hexToChars h) with
      | .done c' raised =>
        let out := (if raised then "exc:bpp ; " else "ok ; ") ++ showIC c'
        -- `read_documented`: a description the model reads without raising must be read to that interval
        (setIC s k c', out, match impl with | some t => if raised || normZ t == normZ (toks out) then "ok" else "FAIL:read_documented" | none => "-")
      | .unmodelled =>
        -- the value of the number is outside the modelled subset: follow the implementation
        -- `read_out_of_range`: a numeral that is no double was read, without raising, to a saturated bound
        let rv := match impl with
          | some (o :: _) => if o == "ok" && Describe.descOutOfRange (Describe.hexToChars h) then "FAIL:read_out_of_range" else "-"
          | _ => "-"
        match impl.bind (fun t => match parts t with | [_, st] => (parseIC st : Option (Interval α)) | _ => none) with
        | some c' => (setIC s k c', "unmodelled", rv)
        | none => (s, "unmodelled", rv)
    | none => (s, "absent", "-")
  | ["ic.parsenew", k, h] =>
    match Describe.readDescription (Interval.default : Interval α) (Describe.hexToChars h) with
    | .done c' false =>
      let out := "ok ; " ++ showIC c'
      (setIC s k c', out, match impl with | some t => if normZ t == normZ (toks out) then "ok" else "FAIL:read_documented" | none => "-")
    | .done _ true => (s, "exc:bpp ; " ++ showICo (getIC s k), "-")
    | .unmodelled =>
      let rv := match impl with
        | some (o :: _) => if o == "ok" && Describe.descOutOfRange (Describe.hexToChars h) then "FAIL:read_out_of_range" else "-"
        | _ => "-"
      match impl.bind (fun t => match parts t with | [["ok"], st] => (parseIC st : Option (Interval α)) | _ => none) with
      | some c' => (setIC s k c', "unmodelled", rv)
      | none => (s, "unmodelled", rv)
  /- render, then parse the rendering into a fresh object: must give bounds and flags back -/
  | ["ic.roundtrip", k] =>
    match getIC s k with
    | some c =>
      match Describe.render? c with
      | none => (s, "unmodelled", "-")
      | some str =>
        match Describe.readDescription (Interval.default : Interval α) str with
        | .unmodelled => (s, "unmodelled", "-")
        | .done c' raised =>
          let out := if raised then "exc:bpp" else "ok ; " ++ showIC c'
          let want := "ok ; " ++ showIC { c with prec := Constants.TINY }
          -- the documented syntax has `-inf` as a lower and `inf`/`+inf` as an upper bound only
          let verdict := match impl with
            | none => "-"
            | some t => if !c.proper || t == toks want then "ok" else "FAIL:read_render"
          (s, out, verdict)
    | none => (s, "absent", "-")
  -- ------------------------------------------------------------ parameters
  | ["p.new", k, au, v, ci, pr] =>
    match bool? au, (decS v : Option α), cArg s ci, (decS pr : Option α) with
    | some au, some v, some c, some pr =>
      let r := pStep s (pReg k) (.construct (pReg k) au v c (if au then Scalar.zero else pr)) impl
      (if r.2.1.startsWith "ok" then r.1.setMh (pReg k) 2 else r.1, r.2)
    | _, _, none, _ => (s, "exc:std", "-")
    | _, _, _, _ => bad
  | ["p.new3", k, au, v, ci] =>
    match bool? au, (decS v : Option α), cArg s ci with
    | some au, some v, some c =>
      let r := pStep s (pReg k) (.construct (pReg k) au v c Scalar.zero) impl
      (if r.2.1.startsWith "ok" then r.1.setMh (pReg k) 2 else r.1, r.2)
    | _, _, none => (s, "exc:std", "-")
    | _, _, _ => bad
  /- `Parameter()` / `AutoParameter()`: value 0, no constraint, precision 0 -/
  | ["p.def", k, au] =>
    match bool? au with
    | some au =>
      let r := pStep s (pReg k) (.construct (pReg k) au Scalar.zero none Scalar.zero) impl
      (r.1.setMh (pReg k) 2, r.2)
    | none => bad
  /- `clone()`: the copy constructor of `AutoParameter` copies the message handler -/
  | ["p.copy", i, k] =>
    let r := pStep s (pReg k) (.copy (pReg i) (pReg k)) impl
    (if r.2.1.startsWith "ok" then r.1.setMh (pReg k) (s.mh (pReg i)) else r.1, r.2)
  /- `AutoParameter(const Parameter&)`: the handler is `ApplicationTools::message` -/
  | ["p.auto", i, k] =>
    let r := pStep s (pReg k) (.toAuto (pReg i) (pReg k)) impl
    (if r.2.1.startsWith "ok" then r.1.setMh (pReg k) 2 else r.1, r.2)
  /- `Parameter(const Parameter&)` on any object: a plain parameter (slicing copy of an auto-correcting one) -/
  | ["p.plain", i, k] => pStep s (pReg k) (.toPlain (pReg i) (pReg k)) impl
  /- `AutoParameter::operator=` (both auto-correcting) copies the handler; `Parameter::operator=` does not -/
  | ["p.assign", i, k] =>
    let bothAuto := match s.ps (pReg i), s.ps (pReg k) with | some a, some b => a.auto && b.auto | _, _ => false
    let r := pStep s (pReg k) (.assign (pReg i) (pReg k)) impl
    (if bothAuto && r.2.1.startsWith "ok" then r.1.setMh (pReg k) (s.mh (pReg i)) else r.1, r.2)
  | ["p.mh", k, m] =>
    match s.ps (pReg k), nat? m with
    | some p, some m => if p.auto then (s.setMh (pReg k) (if m > 2 then 2 else m), "ok", "-") else (s, "notauto", "-")
    | none, _ => (s, "absent", "-")
    | _, _ => bad
  /- lines received by the capturing handler (and how many of them are "Constraint match" reports) -/
  | ["p.msgs"] => ({ s with msgs := 0 }, toString s.msgs ++ " " ++ toString s.msgs, "-")
  | ["p.get", k] =>
    match s.ps (pReg k) with
    | some p => (s, "ok ; " ++ showP (some p), paramVerdict impl (some p) noExtra)
    | none => (s, "ok ; absent", "-")
  /- `constraint()`: a reference to the constraint, `NullPointerException` when there is none (Parameter.h:203, 225) -/
  | ["p.con", k] =>
    match s.ps (pReg k) with
    | some p => (s, (match p.constraint with | some c => showIC c | none => "exc:bpp"), "-")
    | none => (s, "absent", "-")
  | ["p.set", k, v] =>
    match (decS v : Option α) with
    | some v =>
      match s.ps (pReg k) with
      | some p =>
        let s1 := if p.autoReports v && s.mh (pReg k) == 1 then { s with msgs := s.msgs + 1 } else s
        pStep s1 (pReg k) (.setValue (pReg k) v) impl (autoExtra p v)
      | none => (s, "absent", "-")
    | none => bad
  | ["p.prec", k, x] =>
    match (decS x : Option α) with
    | some x => pStep s (pReg k) (.setPrecision (pReg k) x) impl
    | none => bad
  | ["p.setc", k, ci] =>
    match s.ps (pReg k) with
    | none => (s, "absent", "-")
    | some _ =>
      match cArg s ci with
      | some c => pStep s (pReg k) (.setConstraint (pReg k) c) impl
      | none => (s, "exc:std", "-")
  | ["p.rmc", k] =>
    match s.ps (pReg k) with
    | some p => pStep s (pReg k) (.removeConstraint (pReg k)) impl noExtra
        (" ; " ++ (match p.constraint with | some c => showIC c | none => "none"))
    | none => (s, "absent", "-")
  | _ => bad

/-! ### `shared` cases: constraints are heap objects, parameters hold pointers
(BppModel/ParamShared.lean).  Interval registers hold addresses: `ic.new` / `ic.copy` allocate,
`ic.alias` copies the pointer, `ic.setlo` / `ic.sethi` / `ic.interas` / `ic.parse` change the object
in place — also when it is attached to parameters; `p.news` / `p.setcs` attach the register's own
object, `p.new` / `p.setc` a clone of it; `p.getc` / `p.rmcs` put the parameter's handle into a
register. -/

structure SSt (α : Type) where
  w : SWorld α := SWorld.empty
  regs : Array (Option CRef) := Array.replicate 8 none

def sReg (s : SSt α) (k : String) : Option CRef :=
  match nat? k with
  | some k => if h : k < s.regs.size then s.regs[k] else none
  | none => none

def sGetIC (s : SSt α) (k : String) : Option (Interval α) := s.w.deref (sReg s k)

def sSetReg (s : SSt α) (k : String) (r : Option CRef) : SSt α :=
  match nat? k with
  | some k => { s with regs := s.regs.set! k r }
  | none => s

/-- allocate a new object and put its address into register `k` -/
def sAlloc (s : SSt α) (k : String) (c : Interval α) : SSt α × CRef :=
  let a := s.w.size
  (sSetReg { s with w := (SOp.step s.w (.alloc c)).1 } k (some a), a)

def sView (s : SSt α) (k : Nat) : Option (Param α) := (s.w.ps k).map s.w.view

/-- run a parameter op on the pointer model and judge the implementation's answer -/
def spStep (s : SSt α) (k : Nat) (op : SOp α) (impl : Option (List String))
    (extra : Bool → Option (Param α) → String := noExtra) (suffix : String := "") : SSt α × String × String :=
  let pre := sView s k
  let (w', out) := SOp.step s.w op
  match out with
  | .absent => (s, "absent", "-")
  | _ =>
    let s' := { s with w := w' }
    let post := sView s' k
    let broken := match post with | some p => !p.invOk | none => false
    (s', showOutcome out ++ " ; " ++ showP post ++ suffix, paramVerdict impl pre extra broken)

/-- the pointer argument of a parameter op: `-` (null) or the register's own object -/
def sArg (s : SSt α) (a : String) : Option (Option CRef) :=
  if a == "-" then some none else (sReg s a).map some

def sMutate (s : SSt α) (k : String) (m : CMut α) (suffix : String := "") : SSt α × String × String :=
  match sReg s k with
  | some a =>
    let (w', out) := SOp.step s.w (.mutate a m)
    match out with
    | .done => ({ s with w := w' }, showICo (w'.heap a) ++ suffix, "-")
    | _ => (s, "absent", "-")
  | none => (s, "absent", "-")

def stepS (s : SSt α) (op : List String) (impl : Option (List String)) : SSt α × String × String :=
  let bad : SSt α × String × String := (s, "bad-op", "-")
  match op with
  | ["ic.new", k, lo, hi, il, iu, pr] =>
    match (Codec.decB lo : Option (Bound α)), (Codec.decB hi : Option (Bound α)), bool? il, bool? iu, (decS pr : Option α) with
    | some lo, some hi, some il, some iu, some pr =>
      let c := Interval.make lo hi il iu pr
      ((sAlloc s k c).1, showIC c, "-")
    | _, _, _, _, _ => bad
  | ["ic.copy", i, k] =>
    match sGetIC s i with
    | some c => ((sAlloc s k c).1, showIC c, "-")
    | none => (s, "absent", "-")
  | ["ic.alias", i, k] =>
    match sReg s i with
    | some a => (sSetReg s k (some a), showICo (s.w.heap a), "-")
    | none => (s, "absent", "-")
  | ["ic.get", k] => (s, showICo (sGetIC s k), "-")
  | ["ic.setlo", k, b, strict] =>
    match (Codec.decB b : Option (Bound α)), bool? strict with
    | some b, some st => sMutate s k (.setLower b st)
    | _, _ => bad
  | ["ic.sethi", k, b, strict] =>
    match (Codec.decB b : Option (Bound α)), bool? strict with
    | some b, some st => sMutate s k (.setUpper b st)
    | _, _ => bad
  | ["ic.interas", i, j] =>
    match sGetIC s i, sGetIC s j with
    | some _, some d => sMutate s i (.interAssign d) " 1"
    | _, _ => (s, "absent", "-")
  | ["ic.parse", k, h] =>
    match sGetIC s k with
    | some c =>
      match Describe.readDescription c (Describe.hexToChars h) with
      | .done c' raised =>
        let (s', _, _) := sMutate s k (.replace c')
        (s', (if raised then "exc:bpp ; " else "ok ; ") ++ showIC c', "-")
      | .unmodelled =>
        match impl.bind (fun t => match parts t with | [_, st] => (parseIC st : Option (Interval α)) | _ => none) with
        | some c' => ((sMutate s k (.replace c')).1, "unmodelled", "-")
        | none => (s, "unmodelled", "-")
    | none => (s, "absent", "-")
  | ["p.def", k, au] =>
    match bool? au with
    | some au => spStep s (pReg k) (.construct (pReg k) au Scalar.zero none Scalar.zero) impl
    | none => bad
  /- attach the register's own object (the caller keeps its pointer) -/
  | ["p.news", k, au, v, ci, pr] =>
    match bool? au, (decS v : Option α), sArg s ci, (decS pr : Option α) with
    | some au, some v, some r, some pr => spStep s (pReg k) (.construct (pReg k) au v r (if au then Scalar.zero else pr)) impl
    | _, _, none, _ => (s, "exc:std", "-")
    | _, _, _, _ => bad
  /- attach a clone -/
  | ["p.new", k, au, v, ci, pr] =>
    match bool? au, (decS v : Option α), (decS pr : Option α) with
    | some au, some v, some pr =>
      if ci == "-" then spStep s (pReg k) (.construct (pReg k) au v none (if au then Scalar.zero else pr)) impl else
      match sGetIC s ci with
      | some c =>
        let w1 := (SOp.step s.w (.alloc c)).1
        spStep { s with w := w1 } (pReg k) (.construct (pReg k) au v (some s.w.size) (if au then Scalar.zero else pr)) impl
      | none => (s, "exc:std", "-")
    | _, _, _ => bad
  | ["p.copy", i, k] => spStep s (pReg k) (.copy (pReg i) (pReg k)) impl
  | ["p.auto", i, k] => spStep s (pReg k) (.toAuto (pReg i) (pReg k)) impl
  | ["p.plain", i, k] => spStep s (pReg k) (.toPlain (pReg i) (pReg k)) impl
  | ["p.assign", i, k] => spStep s (pReg k) (.assign (pReg i) (pReg k)) impl
  | ["p.get", k] =>
    match sView s (pReg k) with
    | some p => (s, "ok ; " ++ showP (some p), paramVerdict impl (some p) noExtra (!p.invOk))
    | none => (s, "ok ; absent", "-")
  | ["p.set", k, v] =>
    match (decS v : Option α) with
    | some v =>
      match sView s (pReg k) with
      | some p => spStep s (pReg k) (.setValue (pReg k) v) impl (autoExtra p v)
      | none => (s, "absent", "-")
    | none => bad
  | ["p.prec", k, x] =>
    match (decS x : Option α) with
    | some x => spStep s (pReg k) (.setPrecision (pReg k) x) impl
    | none => bad
  | ["p.setcs", k, ci] =>
    match s.w.ps (pReg k) with
    | none => (s, "absent", "-")
    | some _ =>
      match sArg s ci with
      | some r => spStep s (pReg k) (.setConstraint (pReg k) r) impl
      | none => (s, "exc:std", "-")
  | ["p.setc", k, ci] =>
    match s.w.ps (pReg k) with
    | none => (s, "absent", "-")
    | some _ =>
      if ci == "-" then spStep s (pReg k) (.setConstraint (pReg k) none) impl else
      match sGetIC s ci with
      | some c =>
        let w1 := (SOp.step s.w (.alloc c)).1
        spStep { s with w := w1 } (pReg k) (.setConstraint (pReg k) (some s.w.size)) impl
      | none => (s, "exc:std", "-")
  /- the handle `getConstraint()` returns on a non-const parameter goes into register `i` -/
  | ["p.getc", k, i] =>
    match s.w.ps (pReg k) with
    | some p => (sSetReg s i p.cref, (match s.w.deref p.cref with | some c => showIC c | none => "none"), "-")
    | none => (s, "absent", "-")
  | ["p.rmc", k] =>
    match s.w.ps (pReg k) with
    | some p => spStep s (pReg k) (.removeConstraint (pReg k)) impl noExtra
        (" ; " ++ (match s.w.deref p.cref with | some c => showIC c | none => "none"))
    | none => (s, "absent", "-")
  /- `removeConstraint()`: the returned handle goes into register `i` -/
  | ["p.rmcs", k, i] =>
    match s.w.ps (pReg k) with
    | some p =>
      let (s', a, v) := spStep s (pReg k) (.removeConstraint (pReg k)) impl noExtra
        (" ; " ++ (match s.w.deref p.cref with | some c => showIC c | none => "none"))
      (sSetReg s' i p.cref, a, v)
    | none => (s, "absent", "-")
  | _ => bad

end Generic

/-- a case runs in one of the two modes -/
inductive ModeSt where
  | flt (s : St Float)
  | rat (s : St Rat)
  /-- `case <tag> shared flt|rat`: the pointer model -/
  | sflt (s : SSt Float)
  | srat (s : SSt Rat)

/-- `desync`: at `Rat`, a result of the model was not a double (the generator left the range on
which double arithmetic is exact): the rest of the case is declared `unmodelled` -/
structure AnySt where
  st : ModeSt
  desync : Bool := false

def init (tag : List String) : AnySt :=
  { st := if tag.contains "shared" then (if tag.contains "rat" then .srat {} else .sflt {})
          else if tag.contains "rat" then .rat {} else .flt {} }

def step (s : AnySt) (op : List String) (impl : Option (List String)) : AnySt × String × String :=
  if s.desync then (s, "unmodelled", "-") else
  let (st', a, v) : ModeSt × String × String := match s.st with
    | .flt x => let (x', a, v) := stepG x op impl; (.flt x', a, v)
    | .rat x => let (x', a, v) := stepG x op impl; (.rat x', a, v)
    | .sflt x => let (x', a, v) := stepS x op impl; (.sflt x', a, v)
    | .srat x => let (x', a, v) := stepS x op impl; (.srat x', a, v)
  if (a.splitOn "inexact:").length > 1 then ({ st := st', desync := true }, "unmodelled", "-")
  else ({ s with st := st' }, a, v)

def machine : Machine AnySt := { init := init, step := step }

end Bpp.Drive.C01
