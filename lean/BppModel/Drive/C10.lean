import BppModel.Proto
import BppModel.OptimSpec
import BppModel.OptimOneDim
import BppModel.OptimMulti
import BppModel.OptimLine
import BppModel.OptimMeta
/-
Driver for C10 (optimisers).  Script grammar: see harness/C10.cpp.

The objective families are evaluated with the same operations in the same order as `ObjFn::eval`,
`d1`, `d2` of the harness.  For the optimisers that are modelled the driver runs the model at `Float`
and prints the same answer line as the harness (bit-exact tie, sequence of evaluation points
included); for the others it prints `-`.  For *every* optimiser it evaluates the property's
predicates (BppModel/OptimSpec.lean) on the implementation's answer.
-/
namespace Bpp.Drive.C10
open Bpp Bpp.Proto Bpp.Optim Bpp.Scalar

/-! ### the objective families -/
section
variable {α : Type} [Scalar α]

def objEval (fam n : Nat) (k : Array α) (x : List α) : α :=
  let xa := x.toArray
  let g (a : Array α) (i : Nat) : α := a.getD i zero
  match fam with
  | 0 =>
    let s := (List.range n).foldl (fun s i => s + g k (1 + i) * g xa i) (g k 0)
    (List.range n).foldl (fun s i => (List.range n).foldl (fun s j => s + (g k (1 + n + i * n + j) * g xa i) * g xa j) s) s
  | 1 =>
    (List.range n).foldl (fun s i => s + g k (3 * i) * cosh (g k (3 * i + 1) * (g xa i - g k (3 * i + 2)))) zero
  | _ =>
    (List.range n).foldl (fun s i =>
      let a := g k (4 * i); let e := g k (4 * i + 1); let d := g k (4 * i + 2); let m := g k (4 * i + 3)
      let t := g xa i - m
      let t2 := t * t
      s + ((a * t2) * t2 + e * t2 + d * t)) zero

def objD1 (fam n : Nat) (k : Array α) (v : Nat) (x : List α) : α :=
  let xa := x.toArray
  let g (a : Array α) (i : Nat) : α := a.getD i zero
  match fam with
  | 0 => (List.range n).foldl (fun s j => s + (g k (1 + n + v * n + j) + g k (1 + n + j * n + v)) * g xa j) (g k (1 + v))
  | 1 => (g k (3 * v) * g k (3 * v + 1)) * sinh (g k (3 * v + 1) * (g xa v - g k (3 * v + 2)))
  | _ =>
    let a := g k (4 * v); let e := g k (4 * v + 1); let d := g k (4 * v + 2); let m := g k (4 * v + 3)
    let t := g xa v - m
    ((ofInt 4 * a) * (t * t)) * t + (ofInt 2 * e) * t + d

def objD2 (fam n : Nat) (k : Array α) (v : Nat) (x : List α) : α :=
  let xa := x.toArray
  let g (a : Array α) (i : Nat) : α := a.getD i zero
  match fam with
  | 0 => g k (1 + n + v * n + v) + g k (1 + n + v * n + v)
  | 1 => ((g k (3 * v) * g k (3 * v + 1)) * g k (3 * v + 1)) * cosh (g k (3 * v + 1) * (g xa v - g k (3 * v + 2)))
  | _ =>
    let a := g k (4 * v); let e := g k (4 * v + 1); let m := g k (4 * v + 3)
    let t := g xa v - m
    (ofInt 12 * a) * (t * t) + ofInt 2 * e
end

/-! ### numbers on the wire -/
def canon (x : Float) : String :=
  if x.isNaN then "nan" else if x == 0 then "0000000000000000" else Hex.ofFloat x

def pF (s : String) : Option Float := if s == "nan" then some (0.0 / 0.0) else Hex.float? s

def pBound (s : String) (neg : Bool) : Option (Bound Float) :=
  if s == "*" then some (if neg then .negInf else .posInf) else (pF s).map .fin

/-- `N` | `I lo hi il ih`; the precision of an `IntervalConstraint` built by the harness is the
default one, `NumConstants::TINY()` -/
def pCon : List String → Option (Option (Interval Float) × List String)
  | "N" :: r => some (none, r)
  | "I" :: lo :: hi :: il :: ih :: r =>
    match pBound lo true, pBound hi false with
    | some l, some u => some (some ⟨l, u, il == "1", ih == "1", Constants.TINY⟩, r)
    | _, _ => none
  | _ => none

/-- an optional `P <precision>` after a constraint -/
def pPrec : List String → Float × List String
  | "P" :: h :: r => ((pF h).getD 0, r)
  | r => (0, r)

def pNamed : Nat → List String → Option (List (Nat × Float × Option (Interval Float) × Float) × List String)
  | 0, r => some ([], r)
  | k + 1, ix :: v :: r =>
    match nat? ix, pF v, pCon r with
    | some ix, some v, some (c, r') =>
      let (prec, r1) := pPrec r'
      match pNamed k r1 with
      | some (l, r'') => some ((ix, v, c, prec) :: l, r'')
      | none => none
    | _, _, _ => none
  | _, _ => none

def vs (l : List Float) : String := String.join (l.map (fun x => " " ++ canon x))

def excStr : Exc → String
  | .constraint => "exc:constraint"
  | .bpp => "exc:bpp"
  | .index => "exc:index"
  | .nonfinite => "exc:nonfinite"
  | .hang => "hang"
  | .cap => "exc:cap"

/-! ### state -/
abbrev FnF := Fn Float

inductive OptSt
  | none
  | unmodelled
  | gss (s : St FnF (Gss Float) Float)
  | brent (s : St FnF (Brent Float) Float)
  | nback (s : St FnF (NBack Float) Float)
  | newton1 (s : St FnF (Newton1 Float) Float)
  | simple (s : St FnF (Simple Float) Float)
  | snewton (s : St FnF (SNewton Float) Float)
  | simplex (s : St FnF (Simplex Float) Float)
  | powell (s : St FnF (Powell Float) Float)
  | cg (s : St FnF (Cg Float) Float)
  | bfgs (s : St FnF (Bfgs Float) Float)
  | metaopt (s : St FnF (Meta Float) Float)
deriving Inhabited

structure Hint where
  kappa : Float
  inside : Bool
  convex : Bool
  full : Bool
  xs : List Float
  /-- a lower bound of the smallest eigenvalue of the quadratic form (after `lmin` in the hint) -/
  lmin : Option Float := none

structure S where
  fam : Nat := 0
  n : Nat := 0
  k : Array Float := #[]
  kind : String := ""
  /-- the policy in force for the current run: the one the optimiser had at its last `init` -/
  pol : Policy := .keep
  /-- what `setConstraintPolicy` was last called with (applied by the next `init`) -/
  polNext : Policy := .keep
  tolGiven : Option Float := none
  mx : Nat := 0
  extra : List String := []
  opt : OptSt := .none
  /-- model side: the function before any optimiser exists -/
  fn0 : FnF := ⟨[], []⟩
  modelDead : Bool := false
  -- what the predicates need (taken from the script and from the implementation's answers)
  hint : Option Hint := none
  fpoint : List Float := []
  names : List Nat := []
  cons : Spec.Cons Float := []
  startVal : Option Float := none
  curInit : Option Float := none
  /-- the optimiser's current value after the previous init / step / optimize -/
  lastCur : Option Float := none
  inactive : Bool := true
  implDead : Bool := false
  /-- the starting point of the current run satisfies the constraints of the list given to `init`
  (always, except for a meta-optimiser used again: it starts from the function's own point, and its
  `doInit` raises - `matchParametersValues` checks before it assigns - when an earlier run under
  another policy / other constraints has left the function outside the new ones: an input outside the
  property's quantifier) -/
  admissible : Bool := true
  /-- the model's answer to the call being judged is the implementation's (what follows `#` apart):
  only then may a verdict look at the model's state (the final simplex) -/
  modelSame : Bool := false
  /-- an `init` has been answered since the optimiser was built -/
  inited : Bool := false

/-- the cap of the harness objective on the number of points logged within one call -/
def evalCap : Nat := 100000
def fuelOf : Nat := evalCap + 10

def S.obj (s : S) : List Float → Float := objEval s.fam s.n s.k
def S.iface (s : S) : FunI FnF Float :=
  Fn.iface s.obj ⟨fun v x => objD1 s.fam s.n s.k v x, fun v x => objD2 s.fam s.n s.k v x⟩ (some evalCap)

def mkCore (pol : Policy) (mx : Nat) (tol : Float) (burnin : Nat) : Core Float :=
  { params := [], policy := pol, nbEvalMax := mx, nbEval := 0, cur := 0, tol := false, initialized := false,
    tolerance := tol, callCount := 0, burnin := burnin, lastF := 1.0 / 0.0, newF := 1.0 / 0.0 }

/-! ### the model's answer -/
def coreOf : OptSt → Option (Core Float × FnF)
  | .gss s => some (s.core, s.fn)
  | .brent s => some (s.core, s.fn)
  | .nback s => some (s.core, s.fn)
  | .newton1 s => some (s.core, s.fn)
  | .simple s => some (s.core, s.fn)
  | .snewton s => some (s.core, s.fn)
  | .simplex s => some (s.core, s.fn)
  | .powell s => some (s.core, s.fn)
  | .cg s => some (s.core, s.fn)
  | .bfgs s => some (s.core, s.fn)
  | .metaopt s => some (s.core, s.fn)
  | _ => none

def clearLog : OptSt → OptSt
  | .gss s => .gss { s with fn := { s.fn with log := [] } }
  | .brent s => .brent { s with fn := { s.fn with log := [] } }
  | .nback s => .nback { s with fn := { s.fn with log := [] } }
  | .newton1 s => .newton1 { s with fn := { s.fn with log := [] } }
  | .simple s => .simple { s with fn := { s.fn with log := [] } }
  | .snewton s => .snewton { s with fn := { s.fn with log := [] } }
  | .simplex s => .simplex { s with fn := { s.fn with log := [] } }
  | .powell s => .powell { s with fn := { s.fn with log := [] } }
  | .cg s => .cg { s with fn := { s.fn with log := [] } }
  | .bfgs s => .bfgs { s with fn := { s.fn with log := [] } }
  | .metaopt s => .metaopt { s with fn := { s.fn with log := [] } }
  | o => o

def mapCore (f : Core Float → Core Float) : OptSt → OptSt
  | .gss s => .gss { s with core := f s.core }
  | .brent s => .brent { s with core := f s.core }
  | .nback s => .nback { s with core := f s.core }
  | .newton1 s => .newton1 { s with core := f s.core }
  | .simple s => .simple { s with core := f s.core }
  | .snewton s => .snewton { s with core := f s.core }
  | .simplex s => .simplex { s with core := f s.core }
  | .powell s => .powell { s with core := f s.core }
  | .cg s => .cg { s with core := f s.core }
  | .bfgs s => .bfgs { s with core := f s.core }
  | .metaopt s => .metaopt { s with core := f s.core }
  | o => o

def logStr (fn : FnF) : String :=
  let pts := fn.log.reverse
  " L " ++ toString pts.length ++ String.join (pts.map vs)

def stateStr (c : Core Float) (fn : FnF) : String :=
  " cur=" ++ canon c.cur ++ " n=" ++ toString c.nbEval ++ " t=" ++ showBool c.tol
  ++ " P" ++ vs (values c.params) ++ " F" ++ vs fn.point ++ logStr fn

def mkParams (l : List (Nat × Float × Option (Interval Float) × Float)) : PList Float :=
  l.map (fun t => ⟨t.1, ⟨t.2.1, t.2.2.2, t.2.2.1, false⟩⟩)

/-- the freshly constructed optimiser of the script's `opt` line (constructor defaults of each class) -/
def mkOpt (s : S) : OptSt :=
  let tol (dflt : Float) : Float := s.tolGiven.getD dflt
  match s.kind, s.extra with
  | "gss", lo :: hi :: _ =>
    match pF lo, pF hi with
    | some lo, some hi =>
      let (a, b) := orderedInterval lo hi
      .gss { core := mkCore s.pol s.mx (tol 0.000001) 0, fn := s.fn0,
             ext := { f1 := 0, f2 := 0, x0 := 0, x1 := 0, x2 := 0, x3 := 0, xinf := a, xsup := b } }
    | _, _ => .none
  | "brent", lo :: hi :: mode :: _ =>
    match pF lo, pF hi with
    | some lo, some hi =>
      let (a, b) := orderedInterval lo hi
      -- BODStopCondition: tolerance_ = bod->tol2 (0 at construction), burnin_ = 3
      .brent { core := mkCore s.pol s.mx (tol 0) 3, fn := s.fn0,
               ext := { a := 0, b := 0, d := 0, e := 0, fv := 0, fw := 0, fx := 0, tol1 := 0, tol2 := 0, v := 0, w := 0, x := 0, xm := 0,
                        xinf := a, xsup := b, inward := mode == "in" } }
    | _, _ => .none
  | "nback", sl :: te :: _ =>
    match pF sl, pF te with
    | some sl, some te =>
      .nback { core := mkCore s.pol s.mx (tol 0.000001) 0, fn := s.fn0,
               ext := { fold := 0, f := 0, alam := 0, alamin := 0, alam2 := 0, f2 := 0, slope := sl, test := te } }
    | _, _ => .none
  | "newton1", _ =>
    .newton1 { core := mkCore s.pol s.mx (tol 0.000001) 0, fn := s.fn0, ext := { param := 0, maxCorrection := 10 } }
  | "simple", _ =>
    .simple { core := mkCore s.pol s.mx (tol 0.000001) 0, fn := s.fn0, ext := Simple.fresh }
  | "snewton", _ =>
    .snewton { core := mkCore s.pol s.mx (tol 0.000001) 0, fn := s.fn0, ext := SNewton.fresh }
  | "simplex", _ =>
    .simplex { core := mkCore s.pol s.mx (tol 0.000001) 0, fn := s.fn0, ext := Simplex.fresh }
  | "powell", _ =>
    .powell { core := mkCore s.pol s.mx (tol 0.000001) 0, fn := s.fn0, ext := Powell.fresh }
  | "cg", _ =>
    .cg { core := mkCore s.pol s.mx (tol 0.000001) 0, fn := s.fn0, ext := Cg.fresh }
  | "bfgs", _ =>
    .bfgs { core := mkCore s.pol s.mx (tol 0.000001) 0, fn := s.fn0, ext := Bfgs.fresh }
  | "meta", ty :: r =>
    -- other configurations than the default one (`sb`) are explored through the predicates only
    if r.length ≥ 2 && r.getD 1 "sb" != "sb" then .unmodelled else
    -- first half of the function's parameters: coordinate-wise Brent; second half: BFGS (harness/C10.cpp)
    let h := (s.n + 1) / 2
    let ext : Meta Float :=
      { n := (r.head?.bind nat?).getD 2, full := ty == "full", g1 := List.range h, g2 := (List.range (s.n - h)).map (· + h), p1 := [], p2 := [],
        c1 := mkCore .keep 1000000 0.000001 0, e1 := Simple.fresh,
        c2 := mkCore .keep 1000000 0.000001 0, e2 := Bfgs.fresh,
        stepCount := 0, initialValue := -1, precisionStep := -1 }
    .metaopt { core := mkCore s.pol s.mx (tol 0.000001) 0, fn := s.fn0, ext := ext }
  | _, _ => .unmodelled

/-- result of a model call on the optimiser -/
inductive MRes
  | ok (o : OptSt) (ret : Option Float)
  | err (e : Exc) (fn : FnF)

def runInit (s : S) (pl : PList Float) : MRes :=
  let I := s.iface
  let w {τ : Type} (mk : St FnF τ Float → OptSt) (r : Except (Exc × FnF) (St FnF τ Float)) : MRes :=
    match r with
    | .ok st => .ok (mk st) none
    | .error (e, fn) => .err e fn
  match s.opt with
  | .gss st => w .gss ((gssAlgo I fuelOf).init st pl)
  | .brent st => w .brent ((brentAlgo I fuelOf).init st pl)
  | .nback st => w .nback ((nbackAlgo I).init st pl)
  | .newton1 st => w .newton1 ((newtonAlgo I).init st pl)
  | .simple st => w .simple ((simpleAlgo I fuelOf).init st pl)
  | .snewton st => w .snewton ((snewtonAlgo I fuelOf).init st pl)
  | .simplex st => w .simplex ((simplexAlgo I).init st pl)
  | .powell st => w .powell ((powellAlgo I fuelOf).init st pl)
  | .cg st => w .cg ((cgAlgo I fuelOf).init st pl)
  | .bfgs st => w .bfgs ((bfgsAlgo I fuelOf).init st pl)
  | .metaopt st => w .metaopt ((metaAlgo I Float.log10 fuelOf).init st pl)
  | o => .ok o none

def runStep (s : S) : MRes :=
  let I := s.iface
  let w {τ : Type} (mk : St FnF τ Float → OptSt) (r : Except (Exc × FnF) (St FnF τ Float × Float)) : MRes :=
    match r with
    | .ok (st, v) => .ok (mk st) (some v)
    | .error (e, fn) => .err e fn
  match s.opt with
  | .gss st => w .gss ((gssAlgo I fuelOf).step st)
  | .brent st => w .brent ((brentAlgo I fuelOf).step st)
  | .nback st => w .nback ((nbackAlgo I).step st)
  | .newton1 st => w .newton1 ((newtonAlgo I).step st)
  | .simple st => w .simple ((simpleAlgo I fuelOf).step st)
  | .snewton st => w .snewton ((snewtonAlgo I fuelOf).step st)
  | .simplex st => w .simplex ((simplexAlgo I).step st)
  | .powell st => w .powell ((powellAlgo I fuelOf).step st)
  | .cg st => w .cg ((cgAlgo I fuelOf).step st)
  | .bfgs st => w .bfgs ((bfgsAlgo I fuelOf).step st)
  | .metaopt st => w .metaopt ((metaAlgo I Float.log10 fuelOf).step st)
  | o => .ok o none

def runOptimize (s : S) : MRes :=
  let I := s.iface
  let w {τ : Type} (mk : St FnF τ Float → OptSt) (r : Except (Exc × FnF) (St FnF τ Float × Float)) : MRes :=
    match r with
    | .ok (st, v) => .ok (mk st) (some v)
    | .error (e, fn) => .err e fn
  match s.opt with
  | .gss st => w .gss (gssOptimize I fuelOf st)
  | .brent st => w .brent (brentOptimize I fuelOf st)
  | .nback st => w .nback ((nbackAlgo I).optimize fuelOf st)
  | .newton1 st => w .newton1 ((newtonAlgo I).optimize fuelOf st)
  | .simple st => w .simple ((simpleAlgo I fuelOf).optimize fuelOf st)
  | .snewton st => w .snewton ((snewtonAlgo I fuelOf).optimize fuelOf st)
  | .simplex st => w .simplex (simplexOptimize I fuelOf st)
  | .powell st => w .powell (powellOptimize I fuelOf st)
  | .cg st => w .cg ((cgAlgo I fuelOf).optimize fuelOf st)
  | .bfgs st => w .bfgs ((bfgsAlgo I fuelOf).optimize fuelOf st)
  | .metaopt st => w .metaopt ((metaAlgo I Float.log10 fuelOf).optimize fuelOf st)
  | o => .ok o none

def modelled (o : OptSt) : Bool :=
  match o with
  | .none | .unmodelled => false
  | _ => true

/-- answer line of init / step / optimize for a modelled optimiser -/
def answer (s : S) (r : MRes) : S × String :=
  match r with
  | .ok o ret =>
    match coreOf o with
    | some (c, fn) =>
      ({ s with opt := clearLog o },
       "ok v=" ++ (match ret with
         | some v => canon v
         | none => "-") ++ stateStr c fn)
    | none => (s, "-")
  | .err e fn => ({ s with modelDead := true }, excStr e ++ logStr fn)

/-! ### the predicates, on the implementation's answer -/

def field (t : List String) (pre : String) : Option String :=
  (t.find? (·.startsWith pre)).map (fun x => (x.drop pre.length).toString)

def section_ (t : List String) (a : String) (markers : List String) : List String :=
  ((t.dropWhile (· != a)).drop 1).takeWhile (fun x => !markers.contains x)

def markers : List String := ["P", "F", "L", "#", "A", "B", "C"]

def chunksGo {β : Type} (n : Nat) : Nat → List β → List (List β) → List (List β)
  | 0, _, acc => acc.reverse
  | fuel + 1, l, acc => chunksGo n fuel (l.drop n) (l.take n :: acc)

/-- consecutive blocks of `n` elements (linear in the length of the list) -/
def chunks {β : Type} (n : Nat) (l : List β) : List (List β) :=
  if n = 0 then [] else chunksGo n (l.length / n) l []

def implLog (s : S) (t : List String) : List (List Float) :=
  let lt := section_ t "L" markers
  chunks s.n ((lt.drop 1).filterMap pF)

/-- at least 1e-6 inside every finite bound -/
def marginOk (cons : Spec.Cons Float) (pt : List Float) : Bool :=
  cons.all (fun nc => match nc.2, pt[nc.1]? with
    | some c, some x =>
      (match c.lo with
        | .fin l => x > l + 1e-6
        | _ => true) &&
      (match c.hi with
        | .fin h => x < h - 1e-6
        | _ => true)
    | _, _ => true)

/-- at least 1e-3 inside every finite bound -/
def marginWide (cons : Spec.Cons Float) (pt : List Float) : Bool :=
  cons.all (fun nc => match nc.2, pt[nc.1]? with
    | some c, some x =>
      (match c.lo with
        | .fin l => x > l + 1e-3
        | _ => true) &&
      (match c.hi with
        | .fin h => x < h - 1e-3
        | _ => true)
    | _, _ => true)

def writeInto (pt : List Float) (names : List Nat) (vals : List Float) : List Float :=
  (names.zip vals).foldl (fun p nv => p.set nv.1 nv.2) pt

/-- kinds whose evaluation counter is known to undercount (coordinate-wise optimisers: the evaluations
of each bracketing / initialisation of the one-dimensional optimiser are not counted; Newton: one count
per step whatever the number of Felsenstein-Churchill corrections; meta: built on them) are reported
under a clause of their own.  Powell, conjugate gradient and BFGS count every evaluation since the
repair of `lineMinimization` / `lineSearch` (`powell_budget_calls`, …): for them, and for the other
optimisers, more calls than the cap before the last step begins is a violation. -/
def lineMinKinds : List String := ["simple", "snewton", "meta", "newton1"]

/-- why a downhill simplex stopped short of the minimiser, decided on the final simplex (the model's,
which is the implementation's when the answers agree bit for bit).  Its stop test is
`rTol = 2|yh - yl| / (|yh| + |yl|) < tol` on the values at the highest and the lowest vertex.
* `_simplex_tie`: `rTol <= 1e-11` — the two values agree to rounding, so the test holds for *every*
  tolerance of the quantifier (`>= 1e-10`) although the simplex is not small: two vertices mirror each
  other across the minimiser (dimension 1 on symmetric objectives), or all vertices lie on one level set;
* `_simplex_collapsed`: the diameter of the simplex is below half the distance from its best vertex to the
  minimiser — repeated contractions have made it too small to see the slope (the spread of the values,
  about diameter * |gradient|, is below `tol * |f|`: the test is relative to `|f|`) while it has not reached
  the minimiser.
* `_simplex_level_set`: neither of the two, and the library's own stop test, recomputed here on the final
  simplex, holds for the tolerance given (`rTol < tol`): the simplex is still wide (diameter at least half
  the distance to the minimiser) but its vertices lie so close to one level set of the objective that their
  values agree to the tolerance (thorough tier, seed 1, case c22861: 5 parameters, 6 vertices, values within
  9e-9 of each other at distance 0.02 from the minimiser, tolerance 1.3e-9).
All three are decided only when the implementation's run is bit for bit the run of the model of the
unchanged algorithm (`modelSame`). Anything else — a run that differs from the model's, or a simplex that
stops short although its own test does not hold — stays plain `convergence`: a violation. -/
def simplexWhy (s : S) (best xs : List Float) : String :=
  match s.opt with
  | .simplex st =>
    if !s.modelSame then "" else
    let g := st.ext
    let yh := g.y.getD g.iHighest 0
    let yl := g.y.getD g.iLowest 0
    if yh == yl || 2 * Float.abs (yh - yl) ≤ 1e-11 * (Float.abs yh + Float.abs yl) then "_simplex_tie" else
    let vs := g.simplex.map values
    let diam2 := vs.foldl (fun m a => vs.foldl (fun m b => let d := Spec.dist2 a b; if d > m then d else m) m) 0
    let pt := s.names.map (fun nm => best.getD nm 0)
    let xm := s.names.map (fun nm => xs.getD nm 0)
    if 4 * diam2 ≤ Spec.dist2 pt xm then "_simplex_collapsed"
    else match s.tolGiven with
      | some tol =>
        -- DownhillSimplexMethod.cpp:16-18 / DSMStopCondition::isToleranceReached: rTol < tolerance
        if 2.0 * Float.abs (yh - yl) / (Float.abs yh + Float.abs yl) < tol then "_simplex_level_set" else ""
      | none => ""
  | _ => ""

def verdictRun (s : S) (o : String) (t : List String) : S × String :=
  let status := t.headD ""
  let log := implLog s t
  let s1 := { s with inactive := s.inactive && log.all (marginOk s.cons) }
  if status != "ok" then
    let s2 := { s1 with implDead := true }
    -- the harness' guard (more than `evalCap` calls of the objective within ONE call of the optimiser) is
    -- a budget matter: every cap of the quantifier is far below it
    if status == "exc:cap" then
      (s2, if s.pol != .ignore && !Spec.feasibleLog s.cons log then "FAIL:auto_policy_feasible"
           else if Spec.budgetCalls s.mx log.length then "ok" else "FAIL:budget_guard")
    else if s.pol == .auto && s.admissible then (s2, "FAIL:auto_no_raise")
    else if s.pol != .ignore && !Spec.feasibleLog s.cons log then
      (s2, if s.pol == .auto then "FAIL:auto_policy_feasible" else "FAIL:keep_policy_feasible")
    else (s2, "ok")
  else
  let pvals := (section_ t "P" markers).filterMap pF
  let fvals := (section_ t "F" markers).filterMap pF
  let cur := ((field t "cur=").bind pF).getD (0.0 / 0.0)
  let s1 := { s1 with fpoint := fvals, lastCur := some cur }
  -- feasibility of every evaluation and of the reported point
  if s.pol != .ignore && !Spec.feasibleLog s.cons log then
    (s1, if s.pol == .auto then "FAIL:auto_policy_feasible" else "FAIL:keep_policy_feasible") else
  if s.pol != .ignore && !Spec.feasiblePoint s.cons (writeInto fvals s.names pvals) then (s1, "FAIL:reported_feasible") else
  -- the value reported is the objective at the reported parameters
  let ptP := writeInto fvals s.names pvals
  if !Spec.consistent s.obj cur ptP then (s1, "FAIL:reported_value_consistent") else
  if o == "init" then
    -- the starting value: the objective at the point handed to init (golden section never looks at
    -- it: the lower of the values at the two ends of its initial interval, the first two evaluations)
    let start :=
      if s.kind == "gss" then (log.take 2).foldl (fun m pt => let v := s.obj pt; if v < m then v else m) (1.0 / 0.0)
      else s.startVal.getD (1.0 / 0.0)
    ({ s1 with curInit := some cur, startVal := some start }, "ok")
  else
  let ret := (field t "v=").bind pF
  -- no call ends above the value the previous call ended on (every `doStep` of these optimisers returns
  -- a value not above the current one: `*_step_descent`; the golden section search only as a whole run,
  -- Newton backtracking reports its trials)
  let mono := s.kind != "nback" && (o == "optimize" || s.kind != "gss")
  if mono && !Spec.descent cur (s.lastCur.getD (1.0 / 0.0)) then (s1, "FAIL:step_descent") else
  if o == "step" then (s1, "ok") else
  -- optimize
  if ret != none && !(ret.getD 0 == cur) then (s1, "FAIL:returned_is_current") else
  if !Spec.stateAt fvals s.names pvals then (s1, "FAIL:state_at_report") else
  let tolR := field t "t=" == some "1"
  let nb := ((field t "n=").bind nat?).getD 0
  let steps := ((field t "s=").bind nat?).getD 0
  let pn := ((field t "pn=").bind int?).getD (-1)
  let pe := ((field t "pe=").bind int?).getD (-1)
  -- Newton backtracking promises a sufficient decrease only: when it says so, for a descent slope
  let nbackOk := s.kind != "nback" || (tolR && (match s.extra with
    | sl :: _ => ((pF sl).getD 1) ≤ 0
    | _ => false))
  if nbackOk && !Spec.descent cur (s.startVal.getD (1.0 / 0.0)) then (s1, "FAIL:descent") else
  if nbackOk && !Spec.descent cur (s.curInit.getD (1.0 / 0.0)) then (s1, "FAIL:descent_from_init") else
  if !Spec.exitReason s.mx nb tolR then (s1, "FAIL:exit_reason") else
  if steps ≥ 2 && !Spec.budget s.mx nb (some (pn + 1).toNat) then (s1, "FAIL:budget") else
  if steps ≥ 2 && !Spec.budgetCalls s.mx pe.toNat && !lineMinKinds.contains s.kind then (s1, "FAIL:budget_calls") else
  -- the known undercount of the optimisers built on one-dimensional sub-optimisers is reported only when
  -- nothing else fails: the convergence clause is judged first
  let under := steps ≥ 2 && !Spec.budgetCalls s.mx pe.toNat
  let fin (r : S × String) : S × String := if under && !r.2.startsWith "FAIL" then (r.1, "FAIL:budget_calls_undercount") else r
  fin <|
  -- convergence on strictly convex quadratics, constraints never active, a real budget
  match s.hint with
  | some h =>
    let brentIn := s.kind == "brent" && s.extra.getD 2 "" == "in"
    let inInterval := !brentIn || (match s.extra, s.names, h.xs with
      | lo :: hi :: _, [nm], xs =>
        match pF lo, pF hi, xs[nm]? with
        | some lo, some hi, some x => (if lo < hi then lo else hi) ≤ x && x ≤ (if lo < hi then hi else lo)
        | _, _, _ => false
      | _, _, _ => false)
    let touched := !(s.pol == .ignore || s1.inactive)
    if s.fam == 0 && h.convex && h.full && tolR && s.tolGiven.isSome && s.mx ≥ 2000 && (!touched || marginWide s.cons h.xs)
        && s.kind != "nback" && inInterval && h.xs.length == s.n then
      let fstar := s.obj h.xs
      let f0 := s.startVal.getD cur
      let bound := Spec.convBound s.n h.kappa (s.tolGiven.getD 0) fstar f0
      -- whether the bound says more than descent does goes into the verdict (counted in the evidence)
      let tag := if Spec.convNontrivial f0 fstar bound then "ok:conv:nontrivial" else "ok:conv:implied_by_descent"
      -- a run that came within 1e-6 of a bound (a start on a bound, a trial the automatic policy corrected)
      -- although the minimiser lies well inside every bound is judged under a clause of its own
      -- the scale of the quadratic form: eigenvalues `lmin .. kappa * lmin`; below 0.1 / above 10 the absolute
      -- constants of the library's stop conditions and line searches decide (clauses of their own)
      let scl := match h.lmin with
        | some l => if l < 0.0999 then "_small_scale" else if l > 10 then "_large_scale" else ""
        | none => ""
      -- ... and the location: a minimiser with a coordinate beyond 100 in magnitude (the generator keeps |x| <= 6)
      let far := h.xs.any (fun x => Float.abs x > 100)
      let scl := if scl == "" && far then "_far_location" else scl
      let sfx := if touched then "_touching_bound" else scl
      if !Spec.convergedGap cur fstar bound then
        (s1, "FAIL:convergence" ++ (if s.kind == "simplex" && !touched then
            (let w := simplexWhy s ptP h.xs; if w == "" then scl else w) else sfx))
      else
        match h.lmin with
        | some lmin =>
          if !Spec.convergedDist lmin ptP h.xs bound then (s1, "FAIL:convergence_distance" ++ sfx) else (s1, tag)
        | none => (s1, tag)
    else (s1, "ok:conv:not_judged")
  | none => (s1, "ok:conv:not_judged")

def verdictBracket (s : S) (pol : Policy) (cons : Spec.Cons Float) (t : List String) : String :=
  let log := implLog s t
  if pol != .ignore && !Spec.feasibleLog cons log then "FAIL:bracket_feasible" else
  if t.headD "" != "ok" then "ok" else
  let g (m : String) : Option (BPt Float) :=
    match section_ t m markers with
    | [x, f] => match pF x, pF f with
      | some x, some f => some ⟨x, f⟩
      | _, _ => none
    | _ => none
  match g "A", g "B", g "C" with
  | some a, some b, some c => if Spec.bracketOk ⟨a, b, c⟩ then "ok" else "FAIL:bracket_lowest"
  | _, _, _ => "ok"

/-! ### the machine -/
def step (s : S) (op : List String) (impl : Option (List String)) : S × String × String :=
  match op with
  | "obj" :: fam :: n :: r =>
    match nat? n with
    | some n =>
      let fam := if fam == "quad" then 0 else if fam == "cosh" then 1 else 2
      let nk := if fam == 0 then 1 + n + n * n else if fam == 1 then 3 * n else 4 * n
      let ks := (r.take nk).filterMap pF
      let x0 := ((r.drop (nk + 1)).take n).filterMap pF
      if ks.length != nk || x0.length != n || r.getD nk "" != "at" then (s, "bad-op", "-") else
      let s' : S := { fam := fam, n := n, k := ks.toArray, fn0 := ⟨x0, []⟩, fpoint := x0 }
      (s', "ok v=" ++ canon (s'.obj x0), "ok")
    | none => (s, "bad-op", "-")
  | "hint" :: kap :: ins :: cv :: fu :: r =>
    let xs := (r.takeWhile (· != "lmin")).filterMap pF
    let lmin := ((r.dropWhile (· != "lmin")).drop 1).head?.bind pF
    ({ s with hint := some ⟨(pF kap).getD 0, ins == "1", cv == "1", fu == "1", xs, lmin⟩ }, "ok", "ok")
  | "opt" :: kind :: pol :: tol :: mx :: extra =>
    let pol := if pol == "a" then Policy.auto else if pol == "i" then Policy.ignore else Policy.keep
    let fn0 := match coreOf s.opt with
      | some (_, fn) => { fn with log := [] }
      | none => s.fn0
    let s1 := { s with kind := kind, pol := pol, polNext := pol, inited := false, tolGiven := if tol == "-" then none else pF tol, mx := (nat? mx).getD 0,
                       extra := extra, fn0 := fn0 }
    ({ s1 with opt := mkOpt s1 }, "ok", "ok")
  | ["clone"] => (s, "ok", "ok")       -- a copy of an optimiser behaves like the original
  | ["setmax", n] =>
    match nat? n with
    | some n => ({ s with mx := n, opt := mapCore (fun c => { c with nbEvalMax := n }) s.opt }, "ok", "ok")
    | none => (s, "bad-op", "-")
  | ["setpol", p] =>
    -- the same optimiser object used again under another policy: `constraintPolicy_` is read by `init` only
    let pol := if p == "a" then Policy.auto else if p == "i" then Policy.ignore else Policy.keep
    ({ s with polNext := pol, opt := mapCore (fun c => { c with policy := pol }) s.opt }, "ok", "ok")
  | "bracket" :: mode :: a :: b :: nint :: ix :: v :: r =>
    match pF a, pF b, nat? nint, nat? ix, pF v, pCon r with
    | some a, some b, some nint, some ix, some v, some (c, r') =>
      let aut := r'.headD "0" == "1"
      let pl : PList Float := [⟨ix, ⟨v, 0, c, aut⟩⟩]
      let I := s.iface
      let res := if mode == "in" then inwardBracketMinimum I fuelOf a b nint s.fn0 pl else bracketMinimum I fuelOf a b s.fn0 pl
      let (s', out) : S × String := match res with
        | .ok (fn, k) =>
          ({ s with fn0 := { fn with log := [] } },
           "ok A " ++ canon k.a.x ++ " " ++ canon k.a.f ++ " B " ++ canon k.b.x ++ " " ++ canon k.b.f ++ " C " ++ canon k.c.x ++ " " ++ canon k.c.f
           ++ " F" ++ vs fn.point ++ logStr fn)
        | .error (e, fn) => ({ s with fn0 := { fn with log := [] } }, excStr e ++ " F" ++ vs fn.point ++ logStr fn)
      let verdict := match impl with
        | some t => verdictBracket s (if c.isSome then (if aut then .auto else .keep) else .ignore) [(ix, c)] t
        | none => "-"
      (s', out, verdict)
    | _, _, _, _, _, _ => (s, "bad-op", "-")
  | "init" :: k :: r =>
    match nat? k with
    | some k =>
      match pNamed k r with
      | some (l, _) =>
        let pl := mkParams l
        -- what the predicates need
        let names := l.map (·.1)
        -- the starting point: the function's point with the values of the list written into it (the
        -- meta-optimiser starts from the function's own point: its doInit reads the values back)
        let cons : Spec.Cons Float := l.map (fun t => (t.1, t.2.2.1))
        let pol := s.polNext
        -- (a meta-optimiser used again under constraints the function's own point violates starts from the
        -- corrected point, automatic policy, or raises, keep: no starting value to compare with then)
        let start :=
          if s.kind == "meta" then (if pol == .ignore || Spec.feasiblePoint cons s.fpoint then s.obj s.fpoint else 1.0 / 0.0)
          else s.obj (writeInto s.fpoint names (l.map (·.2.1)))
        let adm := !(s.kind == "meta" && pol != .ignore && !Spec.feasiblePoint cons s.fpoint)
        let s0 := { s with pol := pol, admissible := adm, names := names, cons := cons, startVal := some start, curInit := none, inactive := true }
        let (s1, out) : S × String :=
          if s0.modelDead || !modelled s0.opt then (s0, "-") else answer s0 (runInit s0 pl)
        match impl with
        -- after an exception the harness does not touch the optimiser any more
        | some ("exc:dead" :: _) => (s1, out, "skip:dead")
        | some t => let (s2, v) := verdictRun { s1 with inited := true } "init" t; (s2, out, v)
        | none => (s1, out, "-")
      | none => (s, "bad-op", "-")
    | none => (s, "bad-op", "-")
  | [o] =>
    if o != "step" && o != "optimize" then (s, "bad-op", "-") else
    -- after an exception the harness does not touch the optimiser any more
    match impl with
    | some ("exc:dead" :: _) => (s, if modelled s.opt then "exc:dead" else "-", "skip:dead")
    | _ =>
      let (s1, out) : S × String :=
        if !modelled s.opt then (s, "-")
        else if s.modelDead then (s, "exc:dead")
        else answer s (if o == "step" then runStep s else runOptimize s)
      match impl with
      -- (a script cut down by the shrinker may call an optimiser that was never initialised: `optimize`
      -- refuses, `step` does not check; nothing of the property is about that)
      | some t =>
        let same := t.takeWhile (· != "#") == (out.splitOn " ").filter (· != "")
        if s1.inited then (let (s2, v) := verdictRun { s1 with modelSame := same } o t; (s2, out, v)) else (s1, out, "skip:uninitialised")
      | none => (s1, out, "-")
  | _ => (s, "bad-op", "-")

def machine : Machine S :=
  { init := fun _ => {},
    step := step }

end Bpp.Drive.C10
