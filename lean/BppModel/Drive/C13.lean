import BppModel.Proto
import BppModel.Hmm
/-
Driver for C13 (HMM likelihoods).  Registers: the staged tables (`states`/`trans`/`eq`/`emis`)
and named likelihood objects built from them.  The model answer of every query comes from the
model of the cached object; the verdict evaluates, on the *implementation's* answer,
 * `path_sum`   : log-likelihood = log of the exact (Rat) sum over all hidden paths
                  (`Hmm.pathSum` by enumeration for small instances, `Hmm.fwdU` — equal to it by
                  theorem `forward_is_path_sum` — for longer ones), computed from the *current*
                  tables, i.e. what a fresh object would have to answer (history independence);
 * `cross_algo` : the algorithms agree (op `agree`);
-/
namespace Bpp.Drive.C13
open Bpp Bpp.Proto Bpp.Hmm

structure Tables where
  n : Nat := 0
  P : Array Float := #[]
  F : Array Float := #[]
  E : Array Float := #[]
deriving Inhabited

def Tables.T (t : Tables) : Nat := if t.n == 0 then 0 else t.E.size / t.n

def Tables.params (t : Tables) : Params Float :=
  { n := t.n, P := fun i j => t.P[i * t.n + j]!, pi := fun k => t.F[k]! }
def Tables.emis (t : Tables) (s : Nat) : Emis Float := fun j => t.E[s * t.n + j]!
/-- emissions of the sites 1 … T-1 -/
def Tables.rest (t : Tables) : List (Emis Float) := (List.range (t.T - 1)).map (fun s => t.emis (s + 1))

/-! exact copies of the tables -/
def ratOf (x : Float) : Rat := (floatToRat? x).getD 0
def Tables.paramsQ (t : Tables) : Params Rat :=
  let P := t.P.map ratOf; let F := t.F.map ratOf
  { n := t.n, P := fun i j => P[i * t.n + j]!, pi := fun k => F[k]! }
def Tables.restQ (t : Tables) : Emis Rat × List (Emis Rat) :=
  let E := t.E.map ratOf
  (fun j => E[j]!, (List.range (t.T - 1)).map (fun s => fun j => E[(s + 1) * t.n + j]!))

def Tables.finite (t : Tables) : Bool :=
  (t.P.all Float.isFinite) && (t.F.all Float.isFinite) && (t.E.all Float.isFinite)
def Tables.nonneg (t : Tables) : Bool :=
  t.finite && (t.P.all (· ≥ 0)) && (t.F.all (· ≥ 0)) && (t.E.all (· ≥ 0))

structure Obj where
  algo : String
  chunk : Nat
  withParams : Bool
  tab : Tables
  bps : List Nat
  logLik : Float
deriving Inhabited

structure St where
  stage : Tables := {}
  objs : List (String × Obj) := []

def St.get? (s : St) (k : String) : Option Obj := (s.objs.find? (·.1 == k)).map (·.2)
def St.put (s : St) (k : String) (o : Obj) : St := { s with objs := (k, o) :: s.objs.filter (·.1 != k) }
def St.del (s : St) (k : String) : St := { s with objs := s.objs.filter (·.1 != k) }

def hx (x : Float) : String := Hex.ofFloatCanon x
def hxs (l : List Float) : String := if l.isEmpty then "-" else " ".intercalate (l.map hx)
def floats? (l : List String) : Option (Array Float) := (l.mapM Hex.float?).map List.toArray
def implFloat? (s : String) : Option Float := if s == "nan" then some (0.0 / 0.0) else Hex.float? s

/-! ## computeForward_ of each class on the current tables -/

/-- `none` = the call throws (negative or NaN transition probability, rescaled class only) -/
def compute (algo : String) (chunk : Nat) (t : Tables) (bps : List Nat) : Option Float :=
  let p := t.params
  let sites := mkSites t.rest bps
  match algo with
  | "resc" => if transOk p then some (rescForward p (t.emis 0) sites).logLik else none
  | "low" => some (lowForward p chunk (t.emis 0) sites)
  | _ => some (logForward p (t.emis 0) sites).ll

/-! ## exact reference -/

def natLog (m : Nat) : Float :=
  let b := m.log2
  if b ≤ 900 then Float.log (Float.ofNat m)
  else
    let sh := b - 64
    Float.log (Float.ofNat (m >>> sh)) + Float.ofNat sh * Float.log 2.0

/-- log of a positive rational, to ~1e-15 relative accuracy of each of the two logarithms -/
def ratLog (q : Rat) : Float := natLog q.num.toNat - natLog q.den

/-- exact likelihood of the current tables: enumeration when small, else the unscaled forward
recursion in exact arithmetic (`forward_is_path_sum`) -/
def exactLik (t : Tables) (bps : List Nat) : Option Rat :=
  let T := t.T
  if T == 0 then none else
  let (e0, rest) := t.restQ
  let sites := mkSites rest bps
  if t.n ^ T ≤ 3000 then some (pathSum t.paramsQ e0 sites)
  else if T ≤ 64 then some (fwdU t.paramsQ e0 sites)
  else none

def close (a b : Float) : Bool :=
  if a.isNaN || b.isNaN then false
  else if a == b then true
  else if a.isInf || b.isInf then false
  else Float.abs (a - b) ≤ 1e-9 * (if Float.abs b > 1.0 then Float.abs b else 1.0)

/-- verdict on a log-likelihood answered by the implementation for object `o` -/
def llVerdict (o : Obj) (impl : Option (List String)) : String :=
  match impl with
  | none => "-"
  | some [a] =>
    if a.startsWith "exc:" then "-" else
    match implFloat? a with
    | none => "FAIL:parse"
    | some x =>
      if !o.tab.nonneg then "-" else
      match exactLik o.tab o.bps with
      | none => "-"
      | some q =>
        if q == 0 then (if x == -(1.0 / 0.0) then "ok" else "FAIL:path_sum_zero")
        else if close x (ratLog q) then "ok" else "FAIL:path_sum"
  | some _ => "FAIL:parse"

/-- cross-algorithm agreement on the implementation's answers (objects holding the same
non-negative tables and break points), and the exact path sum for each of them -/
def agreeVerdict (os : List (Option Obj)) (impl : Option (List String)) : String :=
  match impl with
  | none => "-"
  | some ans =>
    if ans.length != os.length then "FAIL:parse" else
    let prs := (os.zip ans).filterMap (fun (o, a) => match o with | some o => some (o, a) | none => none)
    match prs with
    | [] => "-"
    | (o0, _) :: _ =>
      let same := prs.all (fun (o, _) => o.tab.n == o0.tab.n && o.tab.P.toList == o0.tab.P.toList && o.tab.F.toList == o0.tab.F.toList
        && o.tab.E.toList == o0.tab.E.toList && o.bps == o0.bps)
      if !same || !o0.tab.nonneg then "-" else
      match prs.mapM (fun (_, a) => implFloat? a) with
      | none => "FAIL:parse"
      | some xs =>
        let x0 := xs.head!
        if !(xs.all (fun x => close x x0 && close x0 x)) then "FAIL:cross_algo"
        else llVerdict o0 (some [prs.head!.2])

/-! ## parameters -/

/-- `Parameter::setValue` with precision 0 (Parameter.cpp:55): the value is stored only when
`|value - old| > 0` (a NaN is never stored) -/
def upd (old v : Float) : Float := if Float.abs (v - old) > 0 then v else old

def parse2 (s : String) : Option (Nat × Nat) :=
  match s.splitOn "_" with
  | [a, b] => do let x ← a.toNat?; let y ← b.toNat?; pure (x, y)
  | _ => none

/-- `some tables'` when the name is a parameter of the object -/
def setParam (o : Obj) (name : String) (v : Float) : Option Tables :=
  let t := o.tab
  let body := (name.drop 1).toString
  if name.startsWith "p" then
    match parse2 body with
    | some (i, j) => if i < t.n && j < t.n && body == s!"{i}_{j}" then some { t with P := t.P.modify (i * t.n + j) (upd · v) } else none
    | none => none
  else if name.startsWith "f" then
    match body.toNat? with
    | some k => if k < t.n && body == s!"{k}" then some { t with F := t.F.modify k (upd · v) } else none
    | none => none
  else if name.startsWith "e" && o.withParams then
    match parse2 body with
    | some (s, j) => if s < t.T && j < t.n && body == s!"{s}_{j}" then some { t with E := t.E.modify (s * t.n + j) (upd · v) } else none
    | none => none
  else none

def parsePairs : List String → Option (List (String × Float))
  | [] => some []
  | a :: b :: rest => do let v ← Hex.float? b; let r ← parsePairs rest; pure ((a, v) :: r)
  | _ => none

/-- recompute after a notification; on an exception the tables stay updated and the cache stale -/
def refire (s : St) (k : String) (o : Obj) (t : Tables) (bps : List Nat) (impl : Option (List String)) : St × String × String :=
  match compute o.algo o.chunk t bps with
  | some ll =>
    let o' := { o with tab := t, bps := bps, logLik := ll }
    (s.put k o', hx ll, llVerdict o' impl)
  | none => (s.put k { o with tab := t, bps := bps }, "exc:bpp", "-")

def step (s : St) (op : List String) (impl : Option (List String)) : St × String × String :=
  match op with
  | ["states", n] =>
    match nat? n with
    | some n => ({ s with stage := { n := n } }, "ok", "-")
    | none => (s, "bad-op", "-")
  | "trans" :: r =>
    match floats? r with
    | some a => ({ s with stage := { s.stage with P := a } }, "ok", "-")
    | none => (s, "bad-op", "-")
  | "eq" :: r =>
    match floats? r with
    | some a => ({ s with stage := { s.stage with F := a } }, "ok", "-")
    | none => (s, "bad-op", "-")
  | "emis" :: r =>
    match floats? r with
    | some a =>
      let st := { s.stage with E := s.stage.E ++ a }
      ({ s with stage := st }, toString (st.E.size / (if st.n == 0 then 1 else st.n)), "-")
    | none => (s, "bad-op", "-")
  | "build" :: k :: algo :: wp :: r =>
    let t := s.stage
    if t.n == 0 || t.P.size != t.n * t.n || t.F.size != t.n || t.E.isEmpty || t.E.size % t.n != 0 then (s, "bad-stage", "-")
    else if algo != "resc" && algo != "low" && algo != "log" then (s, "bad-op", "-")
    else
      let chunk := match r with | [c] => (nat? c).getD 0 | _ => 0
      let o : Obj := { algo := algo, chunk := chunk, withParams := wp == "1", tab := t, bps := [], logLik := 0 }
      if algo == "low" && chunk == 0 then (s.del k, "exc:bpp", "-") else
      match compute algo chunk t [] with
      | some ll => let o' := { o with logLik := ll }; (s.put k o', hx ll, llVerdict o' impl)
      | none => (s.del k, "exc:bpp", "-")
  | "agree" :: ks =>
    let os := ks.map s.get?
    let out := " ".intercalate (os.map (fun o => match o with | some o => hx o.logLik | none => "none"))
    (s, out, agreeVerdict os impl)
  | _ :: k :: args =>
    match s.get? k with
    | none => (s, "no-object", "-")
    | some o =>
      match op.head!, args with
      | "ll", [] => (s, hx o.logLik, llVerdict o impl)
      | "val", [] => (s, hx (-o.logLik), "-")
      | "brk", bs =>
        match bs.mapM nat? with
        | some bps => refire s k o o.tab bps impl
        | none => (s, "bad-op", "-")
      | "setp", [name, v] =>
        match Hex.float? v with
        | none => (s, "bad-op", "-")
        | some v =>
          match setParam o name v with
          | none => (s, "exc:notfound", "-")
          | some t => refire s k o t o.bps impl
      | "setps", r =>
        match parsePairs r with
        | none => (s, "bad-op", "-")
        | some prs =>
          -- unknown names are ignored by setParametersValues / matchParametersValues
          let t := prs.foldl (fun t (nv : String × Float) => ((setParam { o with tab := t } nv.1 nv.2).getD t)) o.tab
          refire s k o t o.bps impl
      | _, _ => (s, "bad-op", "-")
  | _ => (s, "bad-op", "-")

def machine : Machine St := { init := fun _ => {}, step := step }

end Bpp.Drive.C13
