import BppModel.Proto
import BppModel.Hmm
import BppModel.HmmFull
/-
Driver for C13 (HMM likelihoods).  Registers: the staged tables (`states`/`trans`/`eq`/`emis`)
and named likelihood objects built from them.  The model answer of every query comes from the
model of the cached object (`Hmm.RescObj` / `Hmm.LowObj` / `Hmm.LogObj`); the verdict evaluates, on
the *implementation's* answer,
 * `path_sum`            : log-likelihood = log of the exact (Rat) sum over all hidden paths
                           (`Hmm.pathSum` by enumeration for small instances, `Hmm.fwdU` — equal to it
                           by theorem `forward_is_path_sum` — for longer ones), from the *current* tables;
 * `cross_algo`          : the algorithms agree (op `agree`);
 * `posterior_prob`      : posterior rows are ≥ 0 and sum to 1 (likelihood > 0, valid break points);
 * `posterior_marginal`  : posteriors equal the exact path marginals (small instances);
 * `site_likelihood`     : per-site likelihoods equal Σ_j posterior·emission of the exact marginals;
 * `history_independent` : the answer is bit-identical to what the cache-free specification
                           (`Hmm.rescSpec` / `Hmm.logSpec`, a fresh object) gives for the current tables.
-/
namespace Bpp.Drive.C13
open Bpp Bpp.Proto Bpp.Hmm

structure DTables where
  n : Nat := 0
  P : Array Float := #[]
  F : Array Float := #[]
  E : Array Float := #[]
  /-- the namespace of the parameters (`setNamespace`): derivative variables are full parameter names -/
  pre : String := ""
deriving Inhabited

def DTables.T (t : DTables) : Nat := if t.n == 0 then 0 else t.E.size / t.n

def ename (s j : Nat) : String := s!"e{s}_{j}"

/-- the model's view of the tables -/
def DTables.model (t : DTables) : Tables Float :=
  let n := t.n; let E := t.E
  { p := { n := n, P := fun i j => t.P[i * n + j]!, pi := fun k => t.F[k]! }
    e0 := fun j => E[j]!
    es := (List.range (t.T - 1)).map (fun s => fun j => E[(s + 1) * n + j]!)
    -- the harness' emission object: derivative with respect to e<s>_<j> is the indicator of that entry
    dE := fun var => (fun j => if var == t.pre ++ ename 0 j then 1.0 else 0.0,
                      (List.range (t.T - 1)).map (fun s => fun j => if var == t.pre ++ ename (s + 1) j then 1.0 else 0.0))
    d2E := fun _ => (fun _ => 0.0, (List.range (t.T - 1)).map (fun _ => fun _ => 0.0)) }

/-! exact copies of the tables -/
def ratOf (x : Float) : Rat := (floatToRat? x).getD 0
def DTables.paramsQ (t : DTables) : Params Rat :=
  let P := t.P.map ratOf; let F := t.F.map ratOf
  { n := t.n, P := fun i j => P[i * t.n + j]!, pi := fun k => F[k]! }
/-- `bump = some i`: entry `i` of the flat emission table is increased by exactly 1 -/
def DTables.emisQ' (t : DTables) (bump : Option Nat) : Emis Rat × List (Emis Rat) :=
  let E0 := t.E.map ratOf
  let E := match bump with | some i => E0.modify i (· + 1) | none => E0
  (fun j => E[j]!, (List.range (t.T - 1)).map (fun s => fun j => E[(s + 1) * t.n + j]!))
def DTables.emisQ (t : DTables) : Emis Rat × List (Emis Rat) := t.emisQ' none

def DTables.finite (t : DTables) : Bool :=
  (t.P.all Float.isFinite) && (t.F.all Float.isFinite) && (t.E.all Float.isFinite)
def DTables.nonneg (t : DTables) : Bool :=
  t.finite && (t.P.all (· ≥ 0)) && (t.F.all (· ≥ 0)) && (t.E.all (· ≥ 0))

/-- a built-in transition model: `Hmm.AutoTM` / `Hmm.FullTM` (rows = C19's simplices, equilibrium
vector by squaring until the rows agree) -/
inductive TM where
  | auto (m : AutoTM Float)
  | full (m : FullTM Float)

inductive Core where
  | resc (o : RescObj Float)
  | low (o : LowObj Float)
  | log (o : LogObj Float)

structure Obj where
  core : Core
  withParams : Bool
  tab : DTables
  /-- an update raised since the last successful recomputation: the object is outside the
  hypotheses of `history_independent` -/
  stale : Bool := false
  /-- the transition matrix is (a copy of) a built-in model: `tab.P`, `tab.F` are what it answers -/
  tm : Option TM := none

def Obj.bps (o : Obj) : List Nat :=
  match o.core with | .resc r => r.bps | .low l => l.bps | .log g => g.bps
def Obj.logLik (o : Obj) : Float :=
  match o.core with | .resc r => r.fw.logLik | .low l => l.logLik | .log g => g.fw.ll

structure St where
  stage : DTables := {}
  objs : List (String × Obj) := []
  tms : List (String × TM) := []
  /-- named `std::vector<std::vector<double>>` targets of `getHiddenStatesPosteriorProbabilities(probs, append)` -/
  bufs : List (String × List (List Float)) := []

def St.get? (s : St) (k : String) : Option Obj := (s.objs.find? (·.1 == k)).map (·.2)
def St.put (s : St) (k : String) (o : Obj) : St := { s with objs := (k, o) :: s.objs.filter (·.1 != k) }
def St.del (s : St) (k : String) : St := { s with objs := s.objs.filter (·.1 != k) }

def St.getBuf (s : St) (k : String) : List (List Float) := ((s.bufs.find? (·.1 == k)).map (·.2)).getD []
def St.putBuf (s : St) (k : String) (b : List (List Float)) : St := { s with bufs := (k, b) :: s.bufs.filter (·.1 != k) }

def St.getTM? (s : St) (k : String) : Option TM := (s.tms.find? (·.1 == k)).map (·.2)
def St.putTM (s : St) (k : String) (m : TM) : St := { s with tms := (k, m) :: s.tms.filter (·.1 != k) }

def hx (x : Float) : String := Hex.ofFloatCanon x
def hxs (l : List Float) : String := if l.isEmpty then "-" else " ".intercalate (l.map hx)
def floats? (l : List String) : Option (Array Float) := (l.mapM Hex.float?).map List.toArray
def implFloat? (s : String) : Option Float := if s == "nan" then some (0.0 / 0.0) else Hex.float? s
def implFloats? (l : List String) : Option (List Float) := if l == ["-"] then some [] else l.mapM implFloat?

def showAns : Ans Float → String
  | .exc => "exc:bpp"
  | .ub => "ub"
  | .val x => hx x
  | .mat m => hxs m.flatten

/-- rows separated by `;` (the rows of a target vector may have different lengths) -/
def showRows (m : List (List Float)) : String :=
  if m.isEmpty then "-" else " ; ".intercalate (m.map (fun r => " ".intercalate (r.map hx)))
def showAnsRows : Ans Float → String
  | .mat m => showRows m
  | a => showAns a
def implRows? (l : List String) : Option (List (List Float)) :=
  if l == ["-"] then some [] else (splitTok ";" l).mapM (fun r => r.mapM implFloat?)

/-! ## exact reference -/

def natLog (m : Nat) : Float :=
  let b := m.log2
  if b ≤ 900 then Float.log (Float.ofNat m)
  else
    let sh := b - 64
    Float.log (Float.ofNat (m >>> sh)) + Float.ofNat sh * Float.log 2.0

/-- log of a positive rational -/
def ratLog (q : Rat) : Float := natLog q.num.toNat - natLog q.den

def ratToFloat (q : Rat) : Float :=
  if q == 0 then 0.0 else
  let s : Float := if q < 0 then -1.0 else 1.0
  s * Float.exp (ratLog (if q < 0 then -q else q))

/-- the break points an object can hold (`Hmm.breaksOk`: `setBreakPoints` refuses the others) -/
def validBreaks (T : Nat) (bps : List Nat) : Bool := breaksOk T bps

/-- small enough for the enumeration of all hidden paths in exact arithmetic (a single state has one path of any
length: the length is bounded as well) -/
def small (t : DTables) : Bool := t.n ^ t.T ≤ 3000 && t.T ≤ 40

/-- exact likelihood of the current tables: enumeration when small, else the unscaled forward
recursion in exact arithmetic (`forward_is_path_sum`) -/
def exactLik' (t : DTables) (bps : List Nat) (bump : Option Nat) : Option Rat :=
  let T := t.T
  if T == 0 then none else
  let (e0, rest) := t.emisQ' bump
  let sites := mkSites rest bps
  if small t then some (pathSum t.paramsQ e0 sites)
  else if T ≤ 64 then some (fwdU t.paramsQ e0 sites)
  else none

def exactLik (t : DTables) (bps : List Nat) : Option Rat := exactLik' t bps none

/-- exact posterior marginals by path enumeration: `Σ_{paths with y_i = j} weight / Σ weight` -/
def exactPost (t : DTables) (bps : List Nat) : Option (List (List Rat)) :=
  let T := t.T
  if T == 0 || !small t then none else
  let (e0, rest) := t.emisQ
  let sites : List (Site Rat) := (true, e0) :: mkSites rest bps
  let p := t.paramsQ
  if t.n ^ T ≤ 200 then
    -- the definition theorem `posterior_is_path_marginal` is about
    let tot := pathSum p e0 (mkSites rest bps)
    if tot == 0 then none else
    some ((List.range T).map (fun i => (List.range t.n).map (fun j => pathMarginal p e0 (mkSites rest bps) i j / tot)))
  else
  let paths := allPaths t.n T
  let ws := paths.map (fun ys => (ys, pathW p 0 sites ys))
  let tot := ws.foldl (fun a x => a + x.2) (0 : Rat)
  if tot == 0 then none else
  some ((List.range T).map (fun i => (List.range t.n).map (fun j =>
    (ws.foldl (fun a x => if x.1[i]? == some j then a + x.2 else a) (0 : Rat)) / tot)))

def close (a b : Float) : Bool :=
  if a.isNaN || b.isNaN then false
  else if a == b then true
  else if a.isInf || b.isInf then false
  else Float.abs (a - b) ≤ 1e-9 * (if Float.abs b > 1.0 then Float.abs b else 1.0)

/-- double range: a single scale factor below ~1e-308 underflows (the rescaled classes then answer
-inf or lose digits in the denormal range).  Rounding/underflow is outside the exact-arithmetic
model, so numeric predicates are judged only when every scale factor of the (bit-identical) Float
run is ≥ 1e-250. -/
def rangeOkAt (lo : Float) (t : DTables) (bps : List Nat) : Bool :=
  let m := t.model
  (rescForward m.p m.e0 (mkSites m.es bps)).scales.all (fun c => c ≥ lo)
def rangeOk (t : DTables) (bps : List Nat) : Bool := rangeOkAt 1e-250 t bps

/-- some emission lies in (0, 1e-100): the regime in which the rescaled classes leave the double range -/
def DTables.extreme (t : DTables) : Bool := t.E.any (fun x => x > 0.0 && x < 1e-100)

/-- the rescaled recursion lost weight to the double range: a scale factor of the (bit-identical) Float run is
below 1e-250, or a normalised forward entry is exactly 0 (a state of relative weight < 1e-308 that a zero of the
transition matrix never refills) -/
def underflowed (t : DTables) (bps : List Nat) : Bool :=
  let m := t.model
  let fw := rescForward m.p m.e0 (mkSites m.es bps)
  t.extreme && (fw.scales.any (fun c => !(c ≥ 1e-250)) || fw.lik.any (fun r => r.any (· == 0.0)))

/-- verdict on a log-likelihood value answered by the implementation for tables `t`; `logClass`: the answer comes
from the log-sum class (no double-range excuse).  A wrong answer of the rescaled / low-memory class is attributed
to the recorded finding C13-rescaled-underflow only in the regime `underflowed`. -/
def llCheck (t : DTables) (bps : List Nat) (x : Float) (logClass : Bool := false) : String :=
  if !t.nonneg then "-" else
  match exactLik t bps with
  | none => "-"
  | some q =>
    if q == 0 then (if x == -(1.0 / 0.0) then "ok" else "FAIL:path_sum_zero")
    else if close x (ratLog q) then "ok"
    else if !logClass && underflowed t bps then "FAIL:rescaled_underflow"
    else "FAIL:path_sum"

def Obj.isLog (o : Obj) : Bool := match o.core with | .log _ => true | _ => false

def isExc (l : List String) : Bool := match l with | [a] => a.startsWith "exc:" | _ => false

/-- bit-identity of the implementation's answer with the cache-free specification -/
def histCheck (o : Obj) (impl : List String) (spec : Ans Float) : String :=
  if o.stale then "-" else
  if " ".intercalate impl == showAns spec then "ok" else "FAIL:history_independent"

def specOf (o : Obj) (op : Op Float) : Ans Float :=
  let t := o.tab.model
  match o.core with
  | .resc r => rescSpec t r.bps r.dVar r.d2Var op
  | .log g => logSpec t g.bps g.dVar g.d2Var op
  | .low l => lowSpec t l.maxSize l.bps op

/-- the precondition of the per-site derivative accessors (`Hmm.derivNamesOk`) -/
def namesOk (o : Obj) (second : Bool) : Bool :=
  match o.core with
  | .resc r => r.dVar != "" && (!second || r.d2Var != "")
  | .log g => g.dVar != "" && (!second || g.d2Var != "")
  | .low _ => true

def both (a b : String) : String := if a.startsWith "FAIL" then a else if b.startsWith "FAIL" then b else if a == "-" then b else a

def llVerdict (o : Obj) (impl : Option (List String)) : String :=
  match impl with
  | none => "-"
  | some ans =>
    if isExc ans then "-" else
    match ans with
    | [a] =>
      match implFloat? a with
      | none => "FAIL:parse"
      | some x => both (if o.stale then "-" else llCheck o.tab o.bps x o.isLog) (histCheck o ans (specOf o .logLik))
    | _ => "FAIL:parse"

/-- tolerance on a posterior row sum: 1e-9, widened for the log-space class whose exponent
`f + b - partial` carries an absolute rounding error proportional to |log-likelihood| -/
def sumTol (ll : Float) : Float := 1e-9 + (if ll.isFinite then Float.abs ll * 2e-13 else 0.0)
def sumsToOne (ll : Float) (r : List Float) : Bool :=
  let s := r.foldl (· + ·) 0.0
  !s.isNaN && Float.abs (s - 1.0) ≤ sumTol ll

/-- posterior rows answered by the implementation -/
def postJudge (o : Obj) (m : List (List Float)) (rows : Option (List Nat)) : String :=
      let t := o.tab
      if o.stale then "-" else
      if !t.nonneg then "-" else
      if !validBreaks t.T o.bps then "-" else   -- unreachable: setBreakPoints refuses such vectors
      match exactLik t o.bps with
      | some q =>
        if q == 0 then "-" else
        -- double range of the rescaled class (recorded finding C13-rescaled-underflow): with emissions below 1e-100
        -- forward entries underflow to 0 while backward entries overflow, and the product is NaN / wrong
        let bad := !(m.all (fun r => r.all (fun x => x ≥ 0.0) && sumsToOne o.logLik r))
        if bad && !o.isLog && t.extreme then "FAIL:rescaled_underflow" else
        if !(m.all (fun r => r.all (fun x => x ≥ 0.0) && sumsToOne o.logLik r)) then "FAIL:posterior_prob" else
        match exactPost t o.bps with
        | none => "ok"
        | some ex =>
          let ex' := match rows with | none => ex | some is => is.filterMap (fun i => ex[i]?)
          if ex'.length != m.length then "FAIL:parse" else
          if (ex'.zip m).all (fun (er, r) => (er.zip r).all (fun (q, x) => Float.abs (x - ratToFloat q) ≤ 1e-9)) then "ok"
          else if !o.isLog && underflowed t o.bps then "FAIL:rescaled_underflow"
          else "FAIL:posterior_marginal"
      | none =>
        -- too long for the exact reference: normalisation only; data of probability zero (log-likelihood -inf:
        -- some scale factor is 0) have no posterior
        if !o.logLik.isFinite then "-" else
        if m.all (fun r => r.all (fun x => x ≥ 0.0) && sumsToOne o.logLik r) then "ok"
        else if !o.isLog && t.extreme then "FAIL:rescaled_underflow"
        else "FAIL:posterior_prob"

def postVerdict (o : Obj) (impl : Option (List String)) (rows : Option (List Nat)) : String :=
  match impl with
  | none => "-"
  | some ans =>
    if isExc ans || o.stale then "-" else
    match implFloats? ans with
    | none => "FAIL:parse"
    | some xs =>
      let n := o.tab.n
      if xs.length % n != 0 then "FAIL:parse" else
      postJudge o ((List.range (xs.length / n)).map (fun i => (xs.drop (i * n)).take n)) rows

/-- `getHiddenStatesPosteriorProbabilities(probs, append)`: the rows that were in `probs` are kept
(`append`) or dropped, and the last `T` rows are the posterior matrix -/
def postIntoVerdict (o : Obj) (impl : Option (List String)) (buf : List (List Float)) (append : Bool) : String :=
  match impl with
  | none => "-"
  | some ans =>
    if isExc ans || o.stale then "-" else
    match implRows? ans with
    | none => "FAIL:parse"
    | some m =>
      let keep := if append then buf else []
      if m.length != keep.length + o.tab.T then "FAIL:append_layout"
      else if showRows (m.take keep.length) != showRows keep then "FAIL:append_preserves"
      else if !((m.drop keep.length).all (fun r => r.length == o.tab.n)) then "FAIL:append_layout"
      else postJudge o (m.drop keep.length) none

/-- per-site likelihoods answered by the implementation: `Σ_j posterior_i(j)·e_i(j)` of the exact marginals -/
def siteVerdict (o : Obj) (impl : Option (List String)) (rows : Option (List Nat)) : String :=
  match impl with
  | none => "-"
  | some ans =>
    if isExc ans || o.stale then "-" else
    match implFloats? ans with
    | none => "FAIL:parse"
    | some xs =>
      let t := o.tab
      if !t.nonneg || !validBreaks t.T o.bps then "-" else
      match exactPost t o.bps with
      | none => "-"
      | some ex =>
        let (e0, rest) := t.emisQ
        let es := e0 :: rest
        let want := (ex.zip es).map (fun (r, e) => ((List.range t.n).zip r).foldl (fun a (j, q) => a + q * e j) (0 : Rat))
        let want' := match rows with | none => want | some is => is.filterMap (fun i => want[i]?)
        if want'.length != xs.length then "FAIL:parse" else
        if (want'.zip xs).all (fun (q, x) => close x (ratToFloat q) || Float.abs (x - ratToFloat q) ≤ 1e-300) then "ok"
        else if !o.isLog && t.extreme then "FAIL:rescaled_underflow"
        else "FAIL:site_likelihood"

/-- cross-algorithm agreement on the implementation's answers (objects holding the same
non-negative tables and break points), and the exact path sum -/
def agreeVerdict (os : List (Option Obj)) (impl : Option (List String)) : String :=
  match impl with
  | none => "-"
  | some ans =>
    if ans.length != os.length then "FAIL:parse" else
    let prs := (os.zip ans).filterMap (fun (o, a) => match o with | some o => some (o, a) | none => none)
    match prs with
    | [] => "-"
    | (o0, _) :: _ =>
      let same := prs.all (fun (o, _) => o.tab.n == o0.tab.n && o.tab.P.toList == o0.tab.P.toList && o.tab.F.toList == o0.tab.F.toList
        && o.tab.E.toList == o0.tab.E.toList && o.bps == o0.bps && !o.stale)
      if !same || !o0.tab.nonneg then "-" else
      match prs.mapM (fun (_, a) => implFloat? a) with
      | none => "FAIL:parse"
      | some xs =>
        let x0 := xs.head!
        -- every answer against the exact path sum (each class on its own terms), then against each other
        let vs := (prs.zip xs).map (fun ((o, _), x) => llCheck o.tab o.bps x o.isLog)
        match vs.find? (·.startsWith "FAIL") with
        | some f => f
        | none =>
        if !(xs.all (fun x => close x x0 && close x0 x)) then
          (if underflowed o0.tab o0.bps then "FAIL:rescaled_underflow" else "FAIL:cross_algo")
        else
          let hs := prs.map (fun (o, a) => histCheck o [a] (specOf o .logLik))
          match hs.find? (·.startsWith "FAIL") with
          | some f => f
          | none => if vs.any (· == "ok") then "ok" else "-"

def parse2 (s : String) : Option (Nat × Nat) :=
  match s.splitOn "_" with
  | [a, b] => do let x ← a.toNat?; let y ← b.toNat?; pure (x, y)
  | _ => none

/-- exact first and second derivative of `-log L` with respect to the emission entry `(s, j)`:
`L` is affine in that entry, `L(e + 1) - L(e) = b`, so `d1 = -b / L`, `d2 = (b / L)²` -/
def exactDeriv (t : DTables) (bps : List Nat) (s j : Nat) : Option (Rat × Rat) :=
  if s ≥ t.T || j ≥ t.n then none else
  match exactLik t bps, exactLik' t bps (some (s * t.n + j)) with
  | some l0, some l1 =>
    if l0 == 0 then none else
    let b := l1 - l0
    some (-(b / l0), (b / l0) * (b / l0))
  | _, _ => none

/-- the derivative recursions start (and restart) from `eqFreq[j]` while the forward recursion uses
`Σ_k eqFreq[k]·P(k,j)`: they describe the same function only when the equilibrium vector is stationary -/
def stationary (t : DTables) : Bool :=
  (List.range t.n).all (fun j =>
    Float.abs ((List.range t.n).foldl (fun a k => a + t.F[k]! * t.P[k * t.n + j]!) 0.0 - t.F[j]!) ≤ 1e-13)

/-- verdict on a derivative (order 1 or 2) with respect to `var` answered by the implementation -/
def DTables.positive (t : DTables) : Bool :=
  t.finite && (t.P.all (· > 0)) && (t.F.all (· > 0)) && (t.E.all (· > 0))

/-- the recorded double-range finding of the log-sum derivative recursions: the class divides by every
emission probability and takes the logarithm of every transition / equilibrium entry (NaN when one is 0 or tiny) -/
def derivRangeClause (o : Obj) (order : Nat) (illCond : Bool := false) : Option String :=
  let t := o.tab
  if illCond then some "FAIL:rescaled_derivative_range" else
  match o.core with
  -- (as repaired the rescaled recursions divide once by each scale factor: no range of their own; what remains is the
  -- underflow of the forward recursion itself, finding C13-rescaled-underflow)
  | .resc _ => if underflowed t o.bps then some "FAIL:rescaled_underflow" else none
  | .log _ => if !t.positive || !t.E.all (· ≥ (if order == 1 then 1e-140 else 1e-95)) then some "FAIL:logsum_derivative_range" else none
  | .low _ => none

/-- verdict on a derivative (order 1 or 2) with respect to `var` answered by the implementation -/
def derivVerdict (o : Obj) (impl : List String) (var : String) (order : Nat) : String :=
  match impl with
  | [a] =>
    match implFloat? a with
    | none => "FAIL:parse"
    | some x =>
      let t := o.tab
      match o.core with
      | .low _ => "-"
      | _ =>
      if o.stale || !t.nonneg || !validBreaks t.T o.bps then "-" else
      if !var.startsWith t.pre then "-" else
      let var := (var.drop t.pre.length).toString
      if !var.startsWith "e" then
        -- a parameter of the transition table: the classes differentiate the emissions only and answer -0 without
        -- raising (recorded finding C13-derivative-transition-parameter).  Judged for table-backed `p<i>_<j>` / `f<k>`
        -- with a positive value on which the exact likelihood depends (all coefficients are non-negative: the
        -- derivative is then strictly positive); parameters of the built-in models: no exact reference here
        if o.tm.isSome || order != 1 then "-" else
        let body := (var.drop 1).toString
        let idx : Option (Bool × Nat) :=
          if var.startsWith "p" then (match parse2 body with | some (i, j) => if i < t.n && j < t.n then some (true, i * t.n + j) else none | none => none)
          else if var.startsWith "f" then (match body.toNat? with | some k => if k < t.n then some (false, k) else none | none => none)
          else none
        match idx with
        | none => "-"
        | some (isP, k) =>
          let cur := if isP then t.P[k]! else t.F[k]!
          let t' : DTables := if isP then { t with P := t.P.modify k (· + 1.0) } else { t with F := t.F.modify k (· + 1.0) }
          match exactLik t o.bps, exactLik t' o.bps with
          | some l0, some l1 =>
            if l0 == 0 || !(cur > 0.0) || l1 == l0 then "-"
            else if x == 0.0 then "FAIL:derivative_transition_parameter" else "ok"
          | _, _ => "-"
      else
      match parse2 (var.drop 1).toString with
      | none => "-"
      | some (s, j) =>
        match exactDeriv t o.bps s j with
        | none => "-"
        | some (d1, d2) =>
          let want := ratToFloat (if order == 1 then d1 else d2)
          -- the answer itself must be a double: the second derivative is the square of the first
          if !(Float.abs (ratToFloat d1) < 1e150) then "-" else
          if Float.abs (x - want) ≤ 1e-7 * (if Float.abs want > 1.0 then Float.abs want else 1.0) then "ok"
          else
            -- conditioning of the rescaled sums: the derivative is accumulated as Σ_i ds_i/c_i (order 1) resp.
            -- Σ_i [d2s_i/c_i − (ds_i/c_i)²] (order 2); when the terms exceed the result by more than 1e6 times the
            -- tolerance the sum has no correct digit left (recorded finding C13-rescaled-derivative-range)
            let ill := match o.core with
              | .resc _ =>
                let m := t.model
                let fw := rescForward m.p m.e0 (mkSites m.es o.bps)
                let de := m.dE (t.pre ++ var)
                let dfw := rescDForward m.p m.e0 m.es de.1 de.2 o.bps fw
                let cond := (dfw.dScales.zip fw.scales).foldl (fun a (ds, c) =>
                  let q := Float.abs (ds / c); a + (if order == 1 then q else q * q)) 0.0
                !(cond * 1e-13 ≤ 1e-7 * (if Float.abs want > 1.0 then Float.abs want else 1.0))
              | _ => false
            match derivRangeClause o order ill with
            | some c => c
            | none => if order == 1 then "FAIL:derivative1" else "FAIL:derivative2"
  | _ => "FAIL:parse"

/-- verdict on a per-site derivative term (both classes): the term of site `i` is the derivative of
`log P(x_i | x_start..i-1)` = `d log L(start..i) − d log L(start..i-1)`, `start` the first position of the
segment of `i` and `L` the exact likelihood of a prefix of the segment (affine in the emission entry) -/
def derivSiteVerdict (o : Obj) (impl : List String) (site : Nat) (second : Bool) : String :=
  match impl with
  | [a] =>
    match implFloat? a with
    | none => "FAIL:parse"
    | some x =>
      let t := o.tab
      let (var, var2) := match o.core with | .resc r => (r.dVar, r.d2Var) | .log g => (g.dVar, g.d2Var) | .low _ => ("", "")
      -- the second-order accessor of the rescaled class mixes the arrays of the two variables when they differ
      if second && var != var2 then "-" else
      if !t.nonneg || !validBreaks t.T o.bps then "-" else
      if !var.startsWith t.pre then "-" else
      let var := (var.drop t.pre.length).toString
      if !var.startsWith "e" then "-" else
      match parse2 (var.drop 1).toString with
      | none => "-"
      | some (sv, j) =>
        if sv ≥ t.T || j ≥ t.n then "-" else
        -- exact prefix likelihoods of the segment that contains `hi`: tables cut to the positions lo..hi
        let segStart (i : Nat) : Nat := (o.bps.filter (· ≤ i)).foldl (fun a b => if b > a then b else a) 0
        let prefixD (lo hi : Nat) : Option (Rat × Rat) :=
          -- d/de log L and d²/de² log L of the positions lo..hi (chain started at lo)
          let sub : DTables := { t with E := (t.E.toList.drop (lo * t.n)).take ((hi + 1 - lo) * t.n) |>.toArray }
          if sv < lo || sv > hi then some (0, 0) else
          match exactLik' sub [] none, exactLik' sub [] (some ((sv - lo) * t.n + j)) with
          | some l0, some l1 => if l0 == 0 then none else let b := (l1 - l0) / l0; some (b, -(b * b))
          | _, _ => none
        match o.core with
        | .low _ => "-"
        | _ =>
          let lo := segStart site
          let cur := prefixD lo site
          let prev := if site == lo then some (0, 0) else prefixD lo (site - 1)
          match cur, prev with
          | some (c1, c2), some (p1, p2) =>
            let want := ratToFloat (if second then c2 - p2 else c1 - p1)
            -- the log-sum class subtracts two prefix derivatives that are each O(|d log L|): absolute tolerance
            let scale := Float.abs (ratToFloat c1) + Float.abs (ratToFloat p1) + 1.0
            let tol := if second then 1e-7 * scale * scale else 1e-7 * scale
            if !(scale < 1e150) then "-" else
            if Float.abs (x - want) ≤ tol then "ok"
            else match derivRangeClause o 2 with
              | some c => c
              | none => if second then "FAIL:derivative2_site" else "FAIL:derivative1_site"
          | _, _ => "-"
  | _ => "FAIL:parse"

/-! ## built-in transition models -/

def rowsOfFlat (n : Nat) (xs : List Float) : List (List Float) :=
  (List.range n).map (fun i => (xs.drop (i * n)).take n)

/-- rows ≥ 0 summing to 1 -/
def stochasticRows (n : Nat) (xs : List Float) : Bool :=
  xs.length == n * n && (rowsOfFlat n xs).all (fun r => r.all (fun x => x ≥ 0.0) && Float.abs (r.foldl (· + ·) 0.0 - 1.0) ≤ 1e-12)

/-- a probability vector with `|(π·P)_j − π_j| ≤ tol` for every `j` -/
def stationaryOf (n : Nat) (P : List Float) (pi : List Float) (tol : Float := 1e-9) : Bool :=
  pi.length == n && pi.all (fun x => x ≥ 0.0) && Float.abs (pi.foldl (· + ·) 0.0 - 1.0) ≤ 1e-9 &&
  (List.range n).all (fun j =>
    let v := (List.range n).foldl (fun a k => a + (pi.getD k 0.0) * (P.getD (k * n + j) 0.0)) 0.0
    Float.abs (v - pi.getD j 0.0) ≤ tol)

/-- Gauss–Jordan elimination in exact arithmetic: the solution of `A x = b` (`A` square, given by rows with `b`
appended), `none` when a pivot is missing -/
def gaussSolve (rows : List (List Rat)) : Option (List Rat) :=
  let n := rows.length
  let step (acc : Option (List (List Rat))) (c : Nat) : Option (List (List Rat)) :=
    acc.bind (fun m =>
      match (List.range n).find? (fun r => r ≥ c && (m.getD r []).getD c 0 != 0) with
      | none => none
      | some r =>
        let pr := m.getD r []
        let pv := pr.getD c 0
        let prn := pr.map (· / pv)
        let m1 := (m.set r (m.getD c [])).set c prn
        some (m1.mapIdx (fun i row => if i == c then row else
          let f := row.getD c 0
          (row.zip prn).map (fun (x, y) => x - f * y))))
  ((List.range n).foldl step (some rows)).map (fun m => m.map (fun r => r.getD n 0))

/-- the stationary distribution of the `n × n` matrix `P` solved independently of the library: `π (P − I) = 0`
with the last equation replaced by `Σ π = 1`, in exact arithmetic on the doubles of `P` -/
def solveStationary (n : Nat) (P : List Float) : Option (List Rat) :=
  if n == 0 || P.length != n * n || !(P.all Float.isFinite) then none else
  let q := P.map ratOf
  let eqs := (List.range n).map (fun j =>
    if j + 1 == n then (List.replicate n (1 : Rat)) ++ [1]
    else (List.range n).map (fun k => q.getD (k * n + j) 0 - (if k == j then 1 else 0)) ++ [0])
  gaussSolve eqs

def parseLambda (name : String) : Option Nat :=
  if name.startsWith "lambda" then ((name.drop 6).toString.toNat?).bind (fun k => if k ≥ 1 && (name.drop 6).toString == toString k then some (k - 1) else none) else none

/-- "<i+1>.theta<k+1>" -/
def parseTheta (name : String) : Option (Nat × Nat) :=
  match name.splitOn ".theta" with
  | [a, b] => do
    let i ← a.toNat?; let k ← b.toNat?
    if i ≥ 1 && k ≥ 1 && name == s!"{i}.theta{k}" then some (i - 1, k - 1) else none
  | _ => none

/-- the three queries of a transition matrix answered from the parameters alone (no cache) -/
structure TMSpec where
  n : Nat
  pij : List (List Float)
  entry : Nat → Nat → Option Float
  eq : Option (List Float)

def TM.n : TM → Nat
  | .auto m => m.n
  | .full m => m.n

def TM.spec : TM → TMSpec
  | .auto m => { n := m.n, pij := autoMatrix m.n m.lam, entry := fun i j => (m.lam[i]?).map (fun li => autoEntry m.n li i j), eq := some m.eq }
  | .full m => { n := m.n, pij := fullMatrix m.rows, entry := fullEntry m.rows, eq := fullEqOf m.n (fullMatrix m.rows) }

/-- the cached object's answers -/
def TM.getPij : TM → TM × List (List Float)
  | .auto m => let r := m.getPij; (.auto r.1, r.2)
  | .full m => let r := m.getPij; (.full r.1, r.2)
def TM.getEq : TM → TM × Option (List Float)
  | .auto m => (.auto m, some m.eq)
  | .full m => let r := m.getEq; (.full r.1, r.2)

/-- `setParameterValue(name, v)` on a built-in transition model: the new model, or the exception -/
def TM.setParam (tm : TM) (name : String) (v : Float) : Except String TM :=
  match tm with
  | .auto m =>
    match parseLambda name with
    | none => .error "exc:notfound"
    | some i =>
      if i ≥ m.n then .error "exc:notfound" else
      let old := m.lam.getD i 0.0
      -- Parameter::setValue: nothing happens unless |v - old| > 0; then the constraint ]0,1[ is checked
      if !(Float.abs (v - old) > 0) then .ok (.auto (m.setLambda i old))
      else if !(v > 0.0 && v < 1.0) then .error "exc:constraint"
      else .ok (.auto (m.setLambda i v))
  | .full m =>
    match parseTheta name with
    | none => .error "exc:notfound"
    | some (i, j) =>
      let r := m.setTheta i j v
      match r.2 with
      | none => .ok (.full r.1)
      | some e => .error e.show

/-- the update of a built-in model held by a likelihood object, `setParameterValue(name, v)` on the likelihood:
`Parameter::setValue` on the likelihood's own copy of the parameter (nothing unless `|v - old| > 0`, then the
constraint), then `fireParameterChanged` → `matchParametersValues` on the model, which assigns and notifies the
model only when the value differs: an unchanged value leaves the model as it is (its equilibrium vector is not
recomputed) -/
def TM.matchParam (tm : TM) (name : String) (v : Float) : Except String TM :=
  match tm with
  | .auto m =>
    match parseLambda name with
    | none => .error "exc:notfound"
    | some i =>
      if i ≥ m.n then .error "exc:notfound" else
      let old := m.lam.getD i 0.0
      if !(Float.abs (v - old) > 0) then .ok tm else tm.setParam name v
  | .full m =>
    match parseTheta name with
    | none => .error "exc:notfound"
    | some (i, k) =>
      match (m.rows[i]?).bind (·.params[k]?) with
      | none => .error "exc:notfound"
      | some old => if !(Float.abs (v - old) > 0) then .ok tm else tm.setParam name v

/-- the parameter names of a built-in model, in the order of its parameter list -/
def TM.names : TM → List String
  | .auto m => (List.range m.n).map (fun i => s!"lambda{i + 1}")
  | .full m => (List.range m.n).flatMap (fun i => (List.range (m.n - 1)).map (fun k => s!"{i + 1}.theta{k + 1}"))

def showOpt (x : Option (List Float)) : String := match x with | some l => hxs l | none => "ub"

/-- verdict on a matrix returned by `getPij()` -/
def pijVerdict (tm : TM) (xs : List Float) : String :=
  let n := tm.n
  match tm with
  | .auto _ => if stochasticRows n xs then "ok" else "FAIL:autocorr_row_stochastic"
  | .full _ => if stochasticRows n xs then "ok" else "FAIL:full_matrix_row_stochastic"

/-- verdict on an equilibrium vector, for the matrix `P` -/
def eqVerdict (tm : TM) (P : List Float) (xs : List Float) : String :=
  let n := tm.n
  match tm with
  | .auto _ => if stationaryOf n P xs then "ok" else "FAIL:autocorr_stationary"
  | .full _ =>
    if !stochasticRows n P then "-" else
    -- a genuine stationary distribution: the residual `π·P − π` is small *and* the vector is the independently
    -- solved fixed point (a small residual alone says little for a matrix close to the identity)
    if !stationaryOf n P xs then "FAIL:full_stationary" else
    match solveStationary n P with
    | none => "-"
    | some star =>
      if (star.zip xs).all (fun (q, x) => Float.abs (x - ratToFloat q) ≤ 1e-9) then "ok" else "FAIL:full_stationary"

def histTM (impl : List String) (spec : String) : String :=
  if " ".intercalate impl == spec then "ok" else "FAIL:transition_history_independent"

def tmStep (s : St) (op : List String) (impl : Option (List String)) : St × String × String :=
  match op with
  | ["tm", k, kind, n] =>
    match nat? n with
    | none => (s, "bad-op", "-")
    | some n =>
      if kind == "auto" then (s.putTM k (.auto (AutoTM.build n)), "ok", "-")
      else if kind == "full" then
        match FullTM.build n with
        | some m => (s.putTM k (.full m), "ok", "-")
        | none => (s, "exc:constraint", "-")
      else (s, "bad-op", "-")
  | ["tmclone", k, k2] =>
    match s.getTM? k with
    | some m => (s.putTM k2 m, "ok", "-")
    | none => (s, "no-object", "-")
  | ["tmassign", k, k2] =>
    -- `*k2 = *k` (operator= of the class; both of the same class)
    match s.getTM? k, s.getTM? k2 with
    | some (.auto m), some (.auto _) => (s.putTM k2 (.auto m), "ok", "-")
    | some (.full m), some (.full _) => (s.putTM k2 (.full m), "ok", "-")
    | some _, some _ => (s, "class-mismatch", "-")
    | _, _ => (s, "no-object", "-")
  | o :: k :: args =>
    match s.getTM? k with
    | none => (s, "no-object", "-")
    | some tm =>
      let n := tm.n
      match o, args with
      | "tmset", [name, v] =>
        match Hex.float? v with
        | none => (s, "bad-op", "-")
        | some v =>
          match tm.setParam name v with
          | .ok tm' => (s.putTM k tm', "ok", "-")
          | .error e => (s, e, "-")
      | "tmsetP", r =>
        match floats? r, tm with
        | some a, .full m =>
          let r := m.setRows (rowsOfFlat n a.toList)
          (s.putTM k (.full r.1), match r.2 with | none => "ok" | some e => e.show, "-")
        | some _, .auto _ => (s, "bad-op", "-")
        | none, _ => (s, "bad-op", "-")
      | "tmpij", [] =>
        let (tm', p) := tm.getPij
        let verdict := match impl with
          | some i => if isExc i then "-" else (match implFloats? i with
            | some xs => both (pijVerdict tm xs) (histTM i (hxs tm.spec.pij.flatten))
            | none => "FAIL:parse")
          | none => "-"
        (s.putTM k tm', hxs p.flatten, verdict)
      | "tmPij", [i, j] =>
        match nat? i, nat? j with
        | some i, some j =>
          if i ≥ n || j ≥ n then (s, "bad-index", "-") else
          let out := match tm.spec.entry i j with | some x => hx x | none => "ub"
          (s, out, match impl with | some im => histTM im out | none => "-")
        | _, _ => (s, "bad-op", "-")
      | "tmeq", [] =>
        let (tm', e) := tm.getEq
        let verdict := match impl with
          | some i => if isExc i then "-" else (match implFloats? i with
            | some xs => both (eqVerdict tm tm.spec.pij.flatten xs) (histTM i (showOpt tm.spec.eq))
            | none => "FAIL:parse")
          | none => "-"
        (s.putTM k tm', showOpt e, verdict)
      | "tmall", [order] =>
        -- getPij(), every Pij(i,j) and getEquilibriumFrequencies() in one answer ("pe": matrix first, "ep":
        -- equilibrium vector first): `P ; Q ; E`
        let (tm1, p, e) :=
          if order == "ep" then let (t1, e) := tm.getEq; let (t2, p) := t1.getPij; (t2, p, e)
          else let (t1, p) := tm.getPij; let (t2, e) := t1.getEq; (t2, p, e)
        let q := (List.range n).flatMap (fun i => (List.range n).map (fun j => tm.spec.entry i j))
        let qs := if q.isEmpty then "-" else " ".intercalate (q.map (fun x => match x with | some x => hx x | none => "ub"))
        let out := hxs p.flatten ++ " ; " ++ qs ++ " ; " ++ showOpt e
        let verdict := match impl with
          | none => "-"
          | some i =>
            if isExc i then "-" else
            match (splitTok ";" i).map implFloats? with
            | [some P, some Q, some E] =>
              let sp := tm.spec
              if P.length != n * n || Q.length != n * n then "FAIL:parse"
              -- getPij() agrees entry-wise with Pij(i,j) (both read the same parameters with the same expression)
              else if hxs P != hxs Q then "FAIL:transition_pij_agree"
              else both (both (pijVerdict tm P) (eqVerdict tm P E))
                (histTM i (hxs sp.pij.flatten ++ " ; " ++ qs ++ " ; " ++ showOpt sp.eq))
            | _ => "FAIL:parse"
        (s.putTM k tm1, out, verdict)
      | _, _ => (s, "bad-op", "-")
  | _ => (s, "bad-op", "-")

/-! ## parameters -/

/-- `Parameter::setValue` with precision 0 (Parameter.cpp:55): the value is stored only when
`|value - old| > 0` (a NaN is never stored) -/
def upd (old v : Float) : Float := if Float.abs (v - old) > 0 then v else old


/-- the tables a likelihood object sees when its transition matrix is the built-in model `tm` -/
def tablesOfTM (t : DTables) (tm : TM) : DTables :=
  { t with P := tm.spec.pij.flatten.toArray, F := (tm.spec.eq.getD []).toArray }

inductive SetRes where
  | notfound
  | exc (e : String)
  | ok (t : DTables) (tm : Option TM)

/-- `setParameterValue(name, v)` (name without the namespace) on a likelihood object -/
def setParam (o : Obj) (t : DTables) (tm : Option TM) (name : String) (v : Float) : SetRes :=
  let body := (name.drop 1).toString
  if name.startsWith "e" then
    if !o.withParams then .notfound else
    match parse2 body with
    | some (s, j) => if s < t.T && j < t.n && body == s!"{s}_{j}" then .ok { t with E := t.E.modify (s * t.n + j) (upd · v) } tm else .notfound
    | none => .notfound
  else
  match tm with
  | some m =>
    match m.matchParam name v with
    | .ok m' => .ok (tablesOfTM t m') (some m')
    | .error "exc:notfound" => .notfound
    | .error e => .exc e
  | none =>
    if name.startsWith "p" then
      match parse2 body with
      | some (i, j) => if i < t.n && j < t.n && body == s!"{i}_{j}" then .ok { t with P := t.P.modify (i * t.n + j) (upd · v) } tm else .notfound
      | none => .notfound
    else if name.startsWith "f" then
      match body.toNat? with
      | some k => if k < t.n && body == s!"{k}" then .ok { t with F := t.F.modify k (upd · v) } tm else .notfound
      | none => .notfound
    else .notfound

/-- the parameter names of a likelihood object (alphabet: none; transition matrix; emissions), with the namespace -/
def Obj.names (o : Obj) : List String :=
  let t := o.tab
  let tr := match o.tm with
    | some m => m.names
    | none => (List.range t.n).flatMap (fun i => (List.range t.n).map (fun j => s!"p{i}_{j}")) ++ (List.range t.n).map (fun k => s!"f{k}")
  let em := if o.withParams then (List.range t.T).flatMap (fun s => (List.range t.n).map (fun j => ename s j)) else []
  (tr ++ em).map (t.pre ++ ·)

def parsePairs : List String → Option (List (String × Float))
  | [] => some []
  | a :: b :: rest => do let v ← Hex.float? b; let r ← parsePairs rest; pure ((a, v) :: r)
  | _ => none

/-- run one operation of the state machine of the object's class -/
def runOp (o : Obj) (op : Op Float) : Obj × Ans Float :=
  match o.core with
  | .resc r => let (r', a) := r.step op; ({ o with core := .resc r' }, a)
  | .low l => let (l', a) := l.step op; ({ o with core := .low l' }, a)
  | .log g => let (g', a) := g.step op; ({ o with core := .log g' }, a)

/-- an update (new tables or new break points) -/
def update (s : St) (k : String) (o : Obj) (t : DTables) (op : Op Float) (impl : Option (List String))
    (tm : Option TM := o.tm) : St × String × String :=
  let (o1, a) := runOp { o with tab := t, tm := tm } op
  match a with
  | .exc => (s.put k { o1 with stale := true }, showAns a, "-")
  | _ => let o2 := { o1 with stale := false }; (s.put k o2, showAns a, llVerdict o2 impl)

def rowsOf (m : List (List Float)) (i : Nat) : List (List Float) := match m[i]? with | some r => [r] | none => []

def step (s : St) (op : List String) (impl : Option (List String)) : St × String × String :=
  match op with
  | ["states", n] =>
    match nat? n with
    | some n => ({ s with stage := { n := n } }, "ok", "-")
    | none => (s, "bad-op", "-")
  | "trans" :: r =>
    match floats? r with
    | some a => ({ s with stage := { s.stage with P := a } }, "ok", "-")
    | none => (s, "bad-op", "-")
  | "eq" :: r =>
    match floats? r with
    | some a => ({ s with stage := { s.stage with F := a } }, "ok", "-")
    | none => (s, "bad-op", "-")
  | "emis" :: r =>
    match floats? r with
    | some a =>
      let st := { s.stage with E := s.stage.E ++ a }
      ({ s with stage := st }, toString (st.E.size / (if st.n == 0 then 1 else st.n)), "-")
    | none => (s, "bad-op", "-")
  | "tm" :: _ | "tmset" :: _ | "tmsetP" :: _ | "tmpij" :: _ | "tmPij" :: _ | "tmeq" :: _ | "tmclone" :: _ | "tmassign" :: _ | "tmall" :: _ =>
    tmStep s op impl
  | "build" :: k :: algo :: wp :: r =>
    let t := s.stage
    if t.n == 0 || t.P.size != t.n * t.n || t.F.size != t.n || t.E.isEmpty || t.E.size % t.n != 0 then (s, "bad-stage", "-")
    else
      let chunk := match r with | [c] => (nat? c).getD 0 | _ => 0
      let core : Option Core := match algo with
        | "resc" => (RescObj.build t.model).map Core.resc
        | "low" => (LowObj.build t.model chunk).map Core.low
        | "log" => some (Core.log (LogObj.build t.model))
        | _ => none
      if algo != "resc" && algo != "low" && algo != "log" then (s, "bad-op", "-") else
      match core with
      | none => (s.del k, "exc:bpp", "-")
      | some c =>
        let o : Obj := { core := c, withParams := wp == "1", tab := t }
        (s.put k o, hx o.logLik, llVerdict o impl)
  | "buildtm" :: k :: algo :: wp :: tmk :: r =>
    match s.getTM? tmk with
    | none => (s, "no-object", "-")
    | some tm =>
      let t0 := s.stage
      if t0.n != tm.n || t0.E.isEmpty || t0.E.size % t0.n != 0 then (s, "bad-stage", "-") else
      let t := tablesOfTM { t0 with pre := "" } tm
      let chunk := match r with | [c] => (nat? c).getD 0 | _ => 0
      let core : Option Core := match algo with
        | "resc" => (RescObj.build t.model).map Core.resc
        | "low" => (LowObj.build t.model chunk).map Core.low
        | "log" => some (Core.log (LogObj.build t.model))
        | _ => none
      if algo != "resc" && algo != "low" && algo != "log" then (s, "bad-op", "-") else
      match core with
      | none => (s.del k, "exc:bpp", "-")
      | some c =>
        let o : Obj := { core := c, withParams := wp == "1", tab := t, tm := some tm }
        (s.put k o, hx o.logLik, llVerdict o impl)
  | ["clone", a, b] =>
    match s.get? a with
    | none => (s, "no-object", "-")
    | some o => (s.put b o, hx o.logLik, llVerdict o impl)
  | ["assign", a, b] =>
    -- `*b = *a` (operator= of the likelihood class; both objects must be of the same class)
    match s.get? a, s.get? b with
    | some oa, some ob =>
      let same := match oa.core, ob.core with
        | .resc _, .resc _ | .low _, .low _ | .log _, .log _ => true
        | _, _ => false
      if !same then (s, "class-mismatch", "-") else (s.put b oa, hx oa.logLik, llVerdict oa impl)
    | _, _ => (s, "no-object", "-")
  | "agree" :: ks =>
    let os := ks.map s.get?
    let out := " ".intercalate (os.map (fun o => match o with | some o => hx o.logLik | none => "none"))
    (s, out, agreeVerdict os impl)
  | _ :: k :: args =>
    match s.get? k with
    | none => (s, "no-object", "-")
    | some o =>
      match op.head!, args with
      | "ll", [] => (s, hx o.logLik, llVerdict o impl)
      | "val", [] => (s, hx (-o.logLik), "-")
      | "brk", bs =>
        match bs.mapM nat? with
        | some bps =>
          -- an invalid vector is refused and the object is unchanged (in particular not "stale")
          if !(breaksOk o.tab.T bps) then
            (s, showAns (runOp o (.setBreaks bps)).2,
              match impl with | some i => if isExc i then "ok" else "FAIL:invalid_breaks_refused" | none => "-")
          else update s k o o.tab (.setBreaks bps) impl
        | none => (s, "bad-op", "-")
      | "setp", [name, v] =>
        match Hex.float? v with
        | none => (s, "bad-op", "-")
        | some v =>
          match setParam o o.tab o.tm name v with
          | .notfound => (s, "exc:notfound", "-")
          | .exc e => (s, e, "-")
          | .ok t tm => update s k o t (.setTables t.model) impl tm
      | "setps", r =>
        match parsePairs r with
        | none => (s, "bad-op", "-")
        | some prs =>
          -- full names; unknown names are ignored by setParametersValues / matchParametersValues
          let (t, tm) := prs.foldl (fun (acc : DTables × Option TM) (nv : String × Float) =>
            if !nv.1.startsWith acc.1.pre then acc else
            match setParam o acc.1 acc.2 (nv.1.drop acc.1.pre.length).toString nv.2 with
            | .ok t tm => (t, tm)
            | _ => acc) (o.tab, o.tm)
          update s k o t (.setTables t.model) impl tm
      | "ns", pre =>
        -- setNamespace: the parameter (and derivative variable) names change, the cached derivative names are forgotten
        let t := { o.tab with pre := pre.headD "" }
        update s k o t (.setTables t.model) impl
      | "names", [] => (s, (let l := o.names; if l.isEmpty then "-" else " ".intercalate l), "-")
      | "post", [] =>
        let (o1, a) := runOp o .posterior
        (s.put k o1, showAns a, both (postVerdict o impl none) (match impl with | some i => if isExc i then "-" else histCheck o i (specOf o .posterior) | none => "-"))
      | "postb", [b, app] =>
        -- getHiddenStatesPosteriorProbabilities(probs, append) on the named target vector
        let append := app == "1"
        let buf := s.getBuf b
        let mop : Op Float := .posteriorInto buf append
        let (o1, a) := runOp o mop
        let s1 := match a with | .mat m => s.putBuf b m | _ => s
        (s1.put k o1, showAnsRows a,
          both (postIntoVerdict o impl buf append)
            (match impl with
             | some i => if isExc i || o.stale then "-" else
                 if " ".intercalate i == showAnsRows (specOf o mop) then "ok" else "FAIL:history_independent"
             | none => "-"))
      | "post1", [site] =>
        match nat? site with
        | none => (s, "bad-op", "-")
        | some i =>
          if i ≥ o.tab.T then (s, "bad-site", "-") else
          let mop : Op Float := .posteriorSite i
          let (o1, a) := runOp o mop
          (s.put k o1, showAns a, both (postVerdict o impl (some [i]))
            (match impl with | some im => if isExc im then "-" else histCheck o im (specOf o mop) | none => "-"))
      | "sl", [site] =>
        match nat? site with
        | none => (s, "bad-op", "-")
        | some i =>
          if i ≥ o.tab.T then (s, "bad-site", "-") else
          let mop : Op Float := .siteLik i
          let (o1, a) := runOp o mop
          (s.put k o1, showAns a, both (siteVerdict o impl (some [i]))
            (match impl with | some im => if isExc im then "-" else histCheck o im (specOf o mop) | none => "-"))
      | "sls", [] =>
        let mop : Op Float := .siteLiks
        let (o1, a) := runOp o mop
        (s.put k o1, showAns a, both (siteVerdict o impl none)
          (match impl with | some im => if isExc im then "-" else histCheck o im (specOf o mop) | none => "-"))
      | "dsite", [site] | "d2site", [site] =>
        -- getDLogLikelihoodForASite / getD2LogLikelihoodForASite
        match nat? site with
        | none => (s, "bad-op", "-")
        | some i =>
          let second := op.head! == "d2site"
          let mop : Op Float := if second then .d2Site i else .dSite i
          let (o1, a) := runOp o mop
          match a with
          | .ub => (s, "ub", "-")     -- the harness refuses these (out of range of the array that is read)
          | _ =>
            (s.put k o1, showAns a,
              match impl with
              | some im => if isExc im || o.stale || !namesOk o second then "-" else
                  both (derivSiteVerdict o im i second) (histCheck o im (specOf o mop))
              | none => "-")
      | dop, [var] =>
        if dop != "d1" && dop != "d2" then (s, "bad-op", "-") else
        let mop : Op Float := if dop == "d1" then .d1 var else .d2 var
        let (o1, a) := runOp o mop
        -- the low-memory class does not implement derivatives: the call raises and changes nothing
        let o2 := match a, o.core with | .exc, .low _ => o1 | .exc, _ => { o1 with stale := true } | _, _ => o1
        (s.put k o2, showAns a,
            match impl with
            | some i =>
                (match o.core with
                 | .low _ => if isExc i then "ok" else "FAIL:history_independent"
                 | _ => if isExc i || var == "" then "-" else
                     both (derivVerdict o i var (if dop == "d1" then 1 else 2)) (histCheck o i (specOf o mop)))
            | none => "-")
      | _, _ => (s, "bad-op", "-")
  | _ => (s, "bad-op", "-")

/-- a crash / sanitizer abort / time-out of the harness inside an operation is a failure of its own -/
def step' (s : St) (op : List String) (impl : Option (List String)) : St × String × String :=
  match impl with
  | some [a] => if a.startsWith "crash" || a == "hang" || a == "short" then (let r := step s op none; (r.1, r.2.1, "FAIL:crash")) else step s op impl
  | _ => step s op impl

def machine : Machine St := { init := fun _ => {}, step := step' }

end Bpp.Drive.C13
