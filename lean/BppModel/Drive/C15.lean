import BppModel.Proto
import BppModel.Tree
import BppModel.Drive.C14
/-
Driver for C15 (TreeGraphImpl on GlobalGraph).

Per case: `t` the model (graph + cached validity flag), `prev` the implementation's previous
report.  Verdicts on the implementation's answer `<result> ; <raw graph> V <flag>`:
  consistent:<clause>  the reported graph violates `Consistent` (C14)
  cache_sound          the reported flag is 1 but `isTree` of the reported graph is not true
  valid_answer         `isValid()` answered something else than `isTree` of the reported graph
  tree_spec            a structural query differs from the reference rooted tree (parent function
                       recomputed from the reported edge triples), when the graph is a valid rooted tree
  mrca_spec            `MRCA` differs from the deepest common ancestor in the reference tree
  rootAt_spec          `rootAt(n)` on a valid tree with node n did not succeed, or the result is not a valid
                       tree rooted at n with the same undirected edge set (same ids, same end points)
-/
namespace Bpp.Drive.C15
open Bpp Bpp.Proto Bpp.Graph Bpp.Drive.C14

structure St where
  t : T := T.empty true
  prev : Option T := none

def showT (t : T) : String := showGraph t.g ++ " V " ++ showBool t.valid

def parseT (tk : List String) : Option T :=
  let (gt, rest) := takeUntil ["V"] tk
  match parseGraph gt, rest with
  | some (g, _), ["V", v] => some { g := g, valid := v == "1" }
  | _, _ => none

def showR {α : Type} (f : α → String) : TRes α → String
  | .ok a => f a
  | .exc => "exc:bpp"
  | .fuel => "diverges"
  | .ub => "ub"

/-! ### the reference rooted tree: a parent function read off the edge triples -/

structure Ref where
  root : Nat
  nodes : List Nat
  /-- (child, parent, edge) -/
  up : List (Nat × Nat × Nat)

def Ref.parent (r : Ref) (n : Nat) : Option Nat := (r.up.find? (fun t => t.1 = n)).map (·.2.1)
def Ref.children (r : Ref) (n : Nat) : List Nat := (r.up.filter (fun t => t.2.1 = n)).map (·.1)

/-- ancestors of `n`, itself first, up to the root -/
def Ref.line (r : Ref) : Nat → Nat → List Nat
  | 0, n => [n]
  | fuel + 1, n => match r.parent n with | some p => n :: r.line fuel p | none => [n]

/-- the graph is a rooted tree in the graph-theoretic sense: directed, the root is a node without
incoming edge, every other node has exactly one incoming edge, and every node reaches the root -/
def refOf (g : G) : Option Ref :=
  if !g.directed || !g.hasNode g.root then none
  else
    let up := g.edges.map (fun p => (p.2.2, p.2.1, p.1))
    let nodes := AL.keys g.nodes
    let r : Ref := { root := g.root, nodes := nodes, up := up }
    let oneParent := nodes.all (fun n => (up.filter (fun t => t.1 = n)).length == (if n = g.root then 0 else 1))
    let reach := nodes.all (fun n => (r.line nodes.length n).getLast? == some g.root)
    if oneParent && reach then some r else none

def Ref.leavesUnder (r : Ref) : Nat → Nat → List Nat
  | 0, n => [n]
  | fuel + 1, n =>
    let cs := r.children n
    if cs.isEmpty then [n] else cs.flatMap (r.leavesUnder fuel)

def Ref.subtree (r : Ref) : Nat → Nat → List Nat
  | 0, n => [n]
  | fuel + 1, n => n :: (r.children n).flatMap (r.subtree fuel)

/-- deepest common ancestor (a node is an ancestor of itself) -/
def Ref.mrca (r : Ref) (l : List Nat) : Option Nat :=
  match l with
  | [] => none
  | x :: rest =>
    let lines := rest.map (r.line r.nodes.length)
    (r.line r.nodes.length x).find? (fun a => lines.all (fun ln => ln.contains a))

def Ref.path (r : Ref) (a b : Nat) : Option (List Nat) :=
  let la := r.line r.nodes.length a
  let lb := r.line r.nodes.length b
  match la.find? (fun x => lb.contains x) with
  | some m => some (la.takeWhile (· ≠ m) ++ [m] ++ (lb.takeWhile (· ≠ m)).reverse)
  | none => none

/-- does climbing by single fathers from `n` run into a cycle? (such calls are not exercised:
the harness answers `skip-cycle` without calling) -/
def climbCycles (g : G) (n : Nat) : Bool :=
  match T.climb g (g.nodes.length + 2) n [] with
  | .fuel => true
  | _ => false

/-! ### one step -/

def judge (st : St) (impl : Option (List String)) (want : Option String) (clause : String) (isValidQuery : Bool) : String × Option T :=
  match impl with
  | none => ("-", none)
  | some tk =>
    match splitTok ";" tk with
    | [res, stt] =>
      match parseT stt with
      | some ti =>
        let res := " ".intercalate res
        let treeNow := T.isTree ti.g
        let v :=
          match ti.g.check with
          | some c => "FAIL:consistent:" ++ c
          | none =>
            if ti.valid && treeNow != .ok true then "FAIL:cache_sound"
            else if isValidQuery && res != showR showBool treeNow then "FAIL:valid_answer"
            else if (match want with | some w => res != C14.norm w | none => false) then "FAIL:" ++ clause
            else "ok"
        (v, some ti)
      | none => ("FAIL:parse", none)
    | _ => ("FAIL:parse", none)

def finish (st : St) (res : String) (t' : T) (jv : String × Option T) : St × String × String :=
  let prev := match jv.2 with | some ti => some ti | none => st.prev
  ({ t := t', prev := prev }, res ++ " ; " ++ showT t', jv.1)

def gres {α : Type} (f : α → String) : GOut α → String
  | .ok a _ => f a
  | .exc _ => "exc:bpp"

def step2 (st : St) (op : List String) (impl : Option (List String)) : St × String × String :=
  let nat (s : String) : Nat := s.toNat?.getD 0
  let t := st.t
  let g := t.g
  let query (res : String) (t' : T) (want : Option String) (clause : String) :=
    finish st res t' (judge st impl want clause false)
  match op with
  | ["t.path", a, b, inc] =>
    let r := T.nodePath g (nat a) (nat b) (nat inc != 0)
    let want := match refOf g with
      | some rf => if rf.nodes.contains (nat a) && rf.nodes.contains (nat b) && nat inc != 0 then (rf.path (nat a) (nat b)).map (fun l => "l " ++ showNats l) else none
      | none => none
    query (showR (fun l => "l " ++ showNats l) r) t want "tree_spec"
  | ["t.epath", a, b] =>
    let r := T.edgePath g (nat a) (nat b)
    let want := match refOf g with
      | some rf => if rf.nodes.contains (nat a) && rf.nodes.contains (nat b) then
          (rf.path (nat a) (nat b)).map (fun l =>
            let es := (l.zip l.tail).filterMap (fun q => (rf.up.find? (fun t => (t.1 = q.1 ∧ t.2.1 = q.2) ∨ (t.1 = q.2 ∧ t.2.1 = q.1))).map (·.2.2))
            "l " ++ showNats es)
        else none
      | none => none
    query (showR (fun l => "l " ++ showNats l) r) t want "tree_spec"
  | "t.mrca" :: ns =>
    let l := ns.map nat
    let r := T.mrca g l
    let want := match refOf g with
      | some rf => if l.all rf.nodes.contains then (rf.mrca l).map toString else none
      | none => none
    query (showR toString r) t want "mrca_spec"
  | _ => (st, "bad-op", "-")

def step (st : St) (op : List String) (impl : Option (List String)) : St × String × String :=
  let nat (s : String) : Nat := s.toNat?.getD 0
  let okS (_ : Unit) := "ok"
  let t := st.t
  let g := t.g
  let fuel := g.nodes.length + 2
  -- a mutator: no reference answer beyond the invariants
  let mutr {α : Type} (r : GOut α × T) (f : α → String) := finish st (gres f r.1) r.2 (judge st impl none "" false)
  -- a structural query: the reference answer when the graph is a valid rooted tree
  let query (res : String) (t' : T) (want : Option String) (clause : String) :=
    finish st res t' (judge st impl want clause false)
  match op with
  | ["t.createNode"] => mutr t.createNode toString
  | ["t.link", a, b] => mutr (t.link (nat a) (nat b)) toString
  | ["t.unlink", a, b] => mutr (t.unlink (nat a) (nat b)) showNats
  | ["t.deleteNode", n] => mutr (t.deleteNode (nat n)) okS
  | ["t.setRoot", n] => mutr (t.setRoot (nat n)) okS
  | ["t.makeDirected"] => mutr (GOut.ok () t.makeDirected.g, t.makeDirected) okS
  | ["t.makeUndirected"] => mutr t.makeUndirected okS
  | ["t.setFather", n, f] => mutr (t.setFather (nat n) (nat f)) okS
  | ["t.addSon", n, s] => mutr (t.addSon (nat n) (nat s)) okS
  | ["t.removeSon", n, s] => mutr (t.removeSon (nat n) (nat s)) okS
  | ["t.rootAt", n] =>
    -- re-rooting specification, judged on the implementation's reports before and after
    let undirectedEdges (g : G) := g.edges.map (fun p => (p.1, min p.2.1 p.2.2, max p.2.1 p.2.2))
    let spec : String × Option T :=
      let base := judge st impl none "" false
      match st.prev, base.2, impl with
      | some p, some ti, some tk =>
        if base.1 != "ok" then base
        else if T.isTree p.g == .ok true && p.g.hasNode (nat n) then
          let res := match splitTok ";" tk with | [r, _] => " ".intercalate r | _ => ""
          if res != "ok" || T.isTree ti.g != .ok true || ti.g.root != nat n || !ti.g.directed
             || undirectedEdges ti.g != undirectedEdges p.g || AL.keys ti.g.nodes != AL.keys p.g.nodes
          then ("FAIL:rootAt_spec", base.2) else base
        else base
      | _, _, _ => base
    match t.rootAt (nat n) with
    | .ok r => finish st (gres okS r.1) r.2 spec
    | .fuel => finish st "diverges" t (judge st impl none "" false)
    | .exc => finish st "exc:bpp" t (judge st impl none "" false)
    | .ub => finish st "ub" t (judge st impl none "" false)
  | ["t.unRoot", j] => mutr (t.unRoot (nat j != 0)) okS
  | ["t.valid"] =>
    let (r, t') := t.isValid
    finish st (showR showBool r) t' (judge st impl none "" true)
  | ["t.rooted"] => query (showBool g.directed) t none ""
  | ["t.qn", n] =>
    let n := nat n
    let o (x : Option String) := showOpt x
    let res := s!"hf {o ((T.hasFather g n).map showBool)} fa {o ((T.father g n).map toString)} ef {o ((T.edgeToFather g n).map toString)} " ++
      s!"sons {o ((g.outNeighbors n).map showNats)} br {o ((g.outEdges n).map showNats)} " ++
      s!"ns {o ((RowQ.nbOut (g.rowOf n)).map toString)} lf {o ((T.isLeafT g n).map showBool)}"
    -- reference: father / sons / leaf from the parent function, when the reported graph is a rooted tree
    let want := fun (gi : G) => match refOf gi with
      | some r => if r.nodes.contains n then
          let cs := r.children n
          let ef := (r.up.find? (fun t => t.1 = n)).map (·.2.2)
          some (s!"hf {showBool (r.parent n).isSome} fa {o ((r.parent n).map toString)} ef {o (ef.map toString)} " ++
            s!"sons {showNats cs} br {showNats ((r.up.filter (fun t => t.2.1 = n)).map (·.2.2))} ns {cs.length} lf {showBool cs.isEmpty}")
        else none
      | none => none
    -- children must be compared in the implementation's order (ascending id): the edge table is ascending
    -- in edge id, not in child id, so sort the reference lists through the model's own order when they agree as sets
    let wantStr := match impl with
      | some tk => match splitTok ";" tk with
        | [_, stt] => (parseT stt).bind (fun ti => want ti.g)
        | _ => none
      | none => none
    -- order-insensitive comparison for the two list fields is done by canonicalising both sides
    let canon (s : String) : String :=
      let ts := toks s
      let (a, r1) := takeUntil ["sons"] ts
      let (sons, r2) := takeUntil ["br"] (r1.drop 1)
      let (br, r3) := takeUntil ["ns"] (r2.drop 1)
      let srt (l : List String) := (l.filterMap String.toNat?).mergeSort
      " ".intercalate a ++ " sons " ++ showNats (srt sons) ++ " br " ++ showNats (srt br) ++ " " ++ " ".intercalate r3
    let jv := match wantStr, impl with
      | some w, some tk =>
        (match splitTok ";" tk with
         | [r, _] => if canon (" ".intercalate r) != canon w then ("FAIL:tree_spec", (judge st impl none "" false).2) else judge st impl none "" false
         | _ => judge st impl none "" false)
      | _, _ => judge st impl none "" false
    finish st res t jv
  | ["t.leavesUnder", n] | ["t.subN", n] | ["t.subE", n] =>
    let n := nat n
    let (v, t') := t.isValid
    match v with
    | .ok true =>
      if !t'.g.directed then finish st "unrooted" t' (judge st impl none "" false) else
      let r := match op.head! with
        | "t.leavesUnder" => T.leavesUnder t'.g fuel n []
        | "t.subN" => T.subtreeNodes t'.g fuel n []
        | _ => T.subtreeEdges t'.g fuel n []
      let want := match impl with
        | some tk => (match splitTok ";" tk with
          | [_, stt] => (parseT stt).bind (fun ti => (refOf ti.g).bind (fun r =>
              if !r.nodes.contains n then none
              else match op.head! with
                | "t.leavesUnder" => some ("l " ++ showNats (r.leavesUnder r.nodes.length n).mergeSort)
                | "t.subN" => some ("l " ++ showNats (r.subtree r.nodes.length n).mergeSort)
                | _ => some ("l " ++ showNats ((r.subtree r.nodes.length n).filterMap (fun c =>
                        if c = n then none else (r.up.find? (fun t => t.1 = c)).map (·.2.2))).mergeSort)))
          | _ => none)
        | none => none
      -- compare as sets (the traversal order is the implementation's); the exact order is tied by the model
      let jv := match want, impl with
        | some w, some tk =>
          (match splitTok ";" tk with
           | [rr, _] =>
             let got := "l " ++ showNats ((rr.drop 1).filterMap String.toNat?).mergeSort
             if got != w then ("FAIL:tree_spec", (judge st impl none "" false).2) else judge st impl none "" false
           | _ => judge st impl none "" false)
        | _, _ => judge st impl none "" false
      finish st (showR (fun l => "l " ++ showNats l) r) t' jv
    | .ok false => finish st "notvalid" t' (judge st impl none "" false)
    | r => finish st (showR showBool r) t' (judge st impl none "" false)
  | ["t.path", a, b, _] | ["t.epath", a, b] =>
    if g.hasNode (nat a) && g.hasNode (nat b) && (climbCycles g (nat a) || climbCycles g (nat b)) then
      finish st "skip-cycle" t (judge st impl none "" false)
    else step2 st op impl
  | "t.mrca" :: ns =>
    let l := (ns.map nat).eraseDups
    if g.directed && ns.length > 1 && l.length > 1 && l.any (climbCycles g) then
      finish st "skip-cycle" t (judge st impl none "" false)
    else step2 st op impl
  | _ => step2 st op impl

def init (tk : List String) : St :=
  let d := !(tk.length > 1 && tk[1]! == "undir")
  { t := T.empty d, prev := none }

def machine : Machine St := { init := init, step := step }

end Bpp.Drive.C15
