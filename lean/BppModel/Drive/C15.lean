import BppModel.Proto
import BppModel.Tree
import BppModel.TreeRef
import BppModel.Dag
import BppModel.TreeObs
import BppModel.Drive.C14
/-
Driver for C15: TreeGraphImpl on GlobalGraph (ops `t.*`), DAGraphImpl on GlobalGraph (ops `d.*`),
AssociationTreeGraphImplObserver (ops `o.*`).

Verdicts on the implementation's answer `<result> ; <raw state> V <flag> [R <flag>]`:
  consistent:<clause>  the reported graph violates `Consistent` (C14)
  cache_sound          the reported validity flag is 1 but `isTree` / `isDA` of the reported graph is not true
  valid_answer         `isValid()` answered something else than `isTree` / `isDA` of the reported graph
  valid_iff            `isValid()` answered something else than the reference decision on the edge table
                       (`isTreeRef`: rooted / unrooted tree spanning all nodes; `isAcyclicRef`: transitive closure)
  tree_spec            a structural query of a valid rooted tree differs from the reference rooted tree
                       (`Ref` read off the reported edge triples): father / sons / branches / leaves-under /
                       subtree nodes and edges / node path / edge path
  mrca_spec            `MRCA` is not the most recent common ancestor in the reference tree (`Ref.isMrca`)
  rootAt_spec          `rootAt(n)` on a valid tree (rooted or not) with node n did not succeed, or the result is
                       not a valid tree rooted at n with the same nodes and the same undirected edge set
                       (same ids, same end points), n its only father-less node
  terminates           the call did not return within the harness watchdog although the model answers (the harness does not
                       make the calls on which the model itself runs out of fuel)
  no_crash             the call killed the harness worker (sanitizer abort, stack overflow, signal)
  rooted_cache         the reported rootedness flag of a DAG is 1 but there is not exactly one father-less node
  keeps_object         `setFather` / `addSon` with an edge object succeeded but the object is not the one of
                       the new link (`getEdgeLinking(father, son)`); `addSon` with a free object, two known nodes and no
                       relation yet between them (`TW.addSonReady`) did not succeed; `setFather` with an object attached
                       to another branch (`TW.setFatherForeign`) was not refused or changed something; the observer's maps
                       are no longer inverse of each other / name dead ids (`obs:<clause>`, C14); `rootAt` changed an association
-/
namespace Bpp.Drive.C15
open Bpp Bpp.Proto Bpp.Graph Bpp.Drive.C14

structure St where
  t : T := T.empty true
  d : D := D.empty
  tw : TW := TW.init true
  /-- the implementation's previous report (tree / observer mode) -/
  prev : Option T := none
  prevW : Option TW := none
  prevD : Option D := none

def showT (t : T) : String := showGraph t.g ++ " V " ++ showBool t.valid
def showD (d : D) : String := showGraph d.g ++ " V " ++ showBool d.valid ++ " R " ++ showBool d.rooted
def showTW (tw : TW) : String := showWorld tw.w ++ " V " ++ showBool tw.valid

def parseT (tk : List String) : Option T :=
  let (gt, rest) := takeUntil ["V"] tk
  match parseGraph gt, rest with
  | some (g, _), ["V", v] => some { g := g, valid := v == "1" }
  | _, _ => none

def parseD (tk : List String) : Option D :=
  let (gt, rest) := takeUntil ["V"] tk
  match parseGraph gt, rest with
  | some (g, _), ["V", v, "R", r] => some { g := g, valid := v == "1", rooted := r == "1" }
  | _, _ => none

/-! The observer tables as `harness/C15.cpp` prints them (plain object labels; `harness/C14.cpp` now
prints identities and `Drive/C14.lean` parses those, so the plain-label parser lives here). -/

def parseOpt0 (s : String) : Option (Option Nat) := if s == "-" then some none else s.toNat?.map some

/-- one observer block `X k gN .. gE .. Ng .. Eg .. iN .. iE .. Ni .. Ei ..` -/
def parseObs0 (t : List String) : Option (Nat × Obs × List String) :=
  match t with
  | "X" :: k :: "gN" :: r =>
    let (gN, r) := takeUntil ["gE"] r
    let (gE, r) := takeUntil ["Ng"] (r.drop 1)
    let (ng, r) := takeUntil ["Eg"] (r.drop 1)
    let (eg, r) := takeUntil ["iN"] (r.drop 1)
    let (iN, r) := takeUntil ["iE"] (r.drop 1)
    let (iE, r) := takeUntil ["Ni"] (r.drop 1)
    let (ni, r) := takeUntil ["Ei"] (r.drop 1)
    let (ei, r) := takeUntil ["X"] (r.drop 1)
    match k.toNat?, gN.mapM parseOpt0, gE.mapM parseOpt0, ng.mapM parsePair, eg.mapM parsePair,
          iN.mapM parseOpt0, iE.mapM parseOpt0, ni.mapM parsePair, ei.mapM parsePair with
    | some k, some gN, some gE, some ng, some eg, some iN, some iE, some ni, some ei =>
      some (k, { gN := gN, gE := gE, Ng := ng, Eg := eg, iN := iN, iE := iE, Ni := ni, Ei := ei }, r)
    | _, _, _, _, _, _, _, _, _ => none
  | _ => none

partial def parseObsList0 (t : List String) (acc : List (Option Obs)) : Option (List (Option Obs)) :=
  match t with
  | [] => some acc
  | _ =>
    match parseObs0 t with
    | some (k, o, r) => parseObsList0 r ((acc ++ List.replicate (k + 1 - acc.length) none).set k (some o))
    | none => none

def parseWorld (t : List String) : Option World :=
  match parseGraph t with
  | some (g, r) =>
    match parseObsList0 r [] with
    | some os => some { g := g, obs := os ++ List.replicate (3 - os.length) none }
    | none => none
  | none => none

def parseTW (tk : List String) : Option TW :=
  let (wt, rest) := takeUntil ["V"] tk
  match parseWorld wt, rest with
  | some w, ["V", v] => some { w := w, valid := v == "1" }
  | _, _ => none

def showR {α : Type} (f : α → String) : TRes α → String
  | .ok a => f a
  | .exc => "exc:bpp"
  | .fuel => "diverges"
  | .ub => "ub"

def gres {α : Type} (f : α → String) : GOut α → String
  | .ok a _ => f a
  | .exc _ => "exc:bpp"

/-- does climbing by single fathers from `n` run into a cycle? (such calls are not exercised:
the harness answers `skip-cycle` without calling) -/
def climbCycles (g : G) (n : Nat) : Bool :=
  match T.climb g (g.nodes.length + 2) n [] with
  | .fuel => true
  | _ => false

/-- the implementation's result tokens and state tokens -/
def splitImpl (impl : Option (List String)) : Option (List String × List String) :=
  match impl with
  | some tk => match splitTok ";" tk with | [r, s] => some (r, s) | _ => none
  | none => none

def natsOf (tk : List String) : List Nat := tk.filterMap String.toNat?

/-! ### tree mode -/

/-- invariants of every report of the tree container; `extra` judges the result on the parsed report -/
def judgeT (impl : Option (List String)) (isValidQuery : Bool) (extra : List String → T → Option String) : String × Option T :=
  match impl with
  | none => ("-", none)
  | some ["hang"] => ("FAIL:terminates", none)
  | some [c] => if c.startsWith "crash:" then ("FAIL:no_crash", none) else ("FAIL:parse", none)
  | some _ =>
    match splitImpl impl with
    | some (res, stt) =>
      match parseT stt with
      | some ti =>
        let treeNow := T.isTree ti.g
        let resS := " ".intercalate res
        let v :=
          match ti.g.check with
          | some c => "FAIL:consistent:" ++ c
          | none =>
            if ti.valid && treeNow != .ok true then "FAIL:cache_sound"
            else if isValidQuery && resS != showR showBool treeNow then "FAIL:valid_answer"
            else if isValidQuery && (resS == "1" || resS == "0") && resS != showBool (isTreeRef ti.g) then "FAIL:valid_iff"
            else match extra res ti with
              | some c => "FAIL:" ++ c
              | none => "ok"
        (v, some ti)
      | none => ("FAIL:parse", none)
    | none => ("FAIL:parse", none)

def finishT (st : St) (res : String) (t' : T) (jv : String × Option T) : St × String × String :=
  let prev := match jv.2 with | some ti => some ti | none => st.prev
  ({ st with t := t', prev := prev }, res ++ " ; " ++ showT t', jv.1)

/-- a list answer `l a b c` judged by a predicate of the reference tree, when the reported graph is
a valid rooted tree and the queried nodes are in it -/
def listSpec (nodes : List Nat) (p : Ref → List Nat → Bool) (clause : String) (res : List String) (ti : T) : Option String :=
  match refOf ti.g with
  | some r =>
    if nodes.all r.nodes.contains then
      match res with
      | "l" :: l => if p r (natsOf l) then none else some clause
      | _ => some clause
    else none
  | none => none

def stepT (st : St) (op : List String) (impl : Option (List String)) : St × String × String :=
  let nat (s : String) : Nat := s.toNat?.getD 0
  let okS (_ : Unit) := "ok"
  let t := st.t
  let g := t.g
  let none2 : List String → T → Option String := fun _ _ => none
  let mutr {α : Type} (r : GOut α × T) (f : α → String) := finishT st (gres f r.1) r.2 (judgeT impl false none2)
  let showL (l : List Nat) := "l " ++ showNats l
  -- a query that needs a rooted tree raises on an unrooted one (theorems `*_refuses_unrooted`)
  let refuses (spec : List String → T → Option String) : List String → T → Option String := fun res ti =>
    if !ti.g.directed && res != ["exc:bpp"] && res != ["notvalid"] then some "refuses_unrooted" else spec res ti
  match op with
  | ["t.createNode"] => mutr t.createNode toString
  | ["t.link", a, b] => mutr (t.link (nat a) (nat b)) toString
  | ["t.linkE", a, b, e] => mutr (t.linkE (nat a) (nat b) (nat e)) okS
  | ["t.unlink", a, b] => mutr (t.unlink (nat a) (nat b)) showNats
  | ["t.deleteNode", n] => mutr (t.deleteNode (nat n)) okS
  | ["t.setRoot", n] => mutr (t.setRoot (nat n)) okS
  | ["t.makeDirected"] => mutr (GOut.ok () t.makeDirected.g, t.makeDirected) okS
  | ["t.makeUndirected"] => mutr t.makeUndirected okS
  | ["t.setFather", n, f] => mutr (t.setFather (nat n) (nat f)) okS
  | ["t.setFatherE", n, f, e] => mutr (t.setFatherE (nat n) (nat f) (nat e)) okS
  | ["t.addSon", n, s] => mutr (t.addSon (nat n) (nat s)) okS
  | ["t.addSonE", n, s, e] => mutr (t.addSonE (nat n) (nat s) (nat e)) okS
  | ["t.removeSon", n, s] => mutr (t.removeSon (nat n) (nat s)) okS
  | ["t.removeSons", n] => mutr (t.removeSons (nat n)) showL
  | ["t.unRoot", j] => mutr (t.unRoot (nat j != 0)) okS
  | ["t.rootAt", n] =>
    -- re-rooting specification, judged on the implementation's reports before and after
    let undirectedEdges (g : G) := g.edges.map (fun p => (p.1, min p.2.1 p.2.2, max p.2.1 p.2.2))
    let prev := st.prev
    let spec : List String → T → Option String := fun res ti =>
      match prev with
      | some p =>
        if T.isTree p.g == .ok true && p.g.hasNode (nat n) then
          if res != ["ok"] || T.isTree ti.g != .ok true || !isRootedTree ti.g || ti.g.root != nat n || !ti.g.directed
             || undirectedEdges ti.g != undirectedEdges p.g || AL.keys ti.g.nodes != AL.keys p.g.nodes
             || (AL.keys ti.g.nodes).any (fun x => x != nat n && T.hasFather ti.g x != some true)
             || T.hasFather ti.g (nat n) != some false
          then some "rootAt_spec" else none
        else none
      | none => none
    match t.rootAt (nat n) with
    | .ok r => finishT st (gres okS r.1) r.2 (judgeT impl false spec)
    | .fuel => finishT st "diverges" t (judgeT impl false none2)
    | .exc => finishT st "exc:bpp" t (judgeT impl false none2)
    | .ub => finishT st "ub" t (judgeT impl false none2)
  | ["t.valid"] =>
    let (r, t') := t.isValid
    finishT st (showR showBool r) t' (judgeT impl true none2)
  | ["t.rooted"] => finishT st (showBool g.directed) t (judgeT impl false none2)
  | ["t.qn", n] =>
    let n := nat n
    let o (x : Option String) := showOpt x
    let res := s!"hf {o ((T.hasFather g n).map showBool)} fa {o ((T.father g n).map toString)} ef {o ((T.edgeToFather g n).map toString)} " ++
      s!"sons {o ((g.outNeighbors n).map showNats)} br {o ((g.outEdges n).map showNats)} " ++
      s!"ns {o ((RowQ.nbOut (g.rowOf n)).map toString)} lf {o ((T.isLeafT g n).map showBool)}"
    -- father / sons / branches / leaf against the parent function of the reported edge table
    let spec : List String → T → Option String := fun res ti =>
      match refOf ti.g with
      | some r =>
        if r.nodes.contains n then
          let (a, r1) := takeUntil ["sons"] res
          let (sons, r2) := takeUntil ["br"] (r1.drop 1)
          let (br, r3) := takeUntil ["ns"] (r2.drop 1)
          let cs := r.children n
          let wantA := ["hf", showBool (r.parent n).isSome, "fa", o ((r.parent n).map toString), "ef", o ((r.edgeUp n).map toString)]
          let wantC := ["ns", toString cs.length, "lf", showBool cs.isEmpty]
          if a != wantA || r3 != wantC || !(natsOf sons).isPerm cs || !(natsOf br).isPerm (r.branches n)
             || (natsOf sons).zip (natsOf br) != ((natsOf sons).map (fun c => (c, (r.edgeUp c).getD 0)))
          then some "tree_spec" else none
        else none
      | none => none
    finishT st res t (judgeT impl false spec)
  | ["t.subN", n] =>
    let (r, t') := t.getSubtree false (nat n)
    finishT st (showR showL r) t' (judgeT impl false (refuses (listSpec [nat n] (fun rf l => rf.isSubtree (nat n) l) "tree_spec")))
  | ["t.subE", n] =>
    let (r, t') := t.getSubtree true (nat n)
    finishT st (showR showL r) t' (judgeT impl false (refuses (listSpec [nat n] (fun rf l => rf.isSubtreeEdges (nat n) l) "tree_spec")))
  | ["t.leavesUnder", n] =>
    let (v, t') := t.isValid
    match v with
    | .ok true =>
      finishT st (showR showL (T.leavesUnderQ t'.g (nat n))) t'
        (judgeT impl false (refuses (listSpec [nat n] (fun rf l => rf.isLeavesUnder (nat n) l) "tree_spec")))
    | .ok false => finishT st "notvalid" t' (judgeT impl false none2)
    | r => finishT st (showR showBool r) t' (judgeT impl false none2)
  | ["t.path", a, b, inc] =>
    if g.directed && g.hasNode (nat a) && g.hasNode (nat b) && (climbCycles g (nat a) || climbCycles g (nat b)) then
      finishT st "skip-cycle" t (judgeT impl false none2)
    else
      let r := T.nodePath g (nat a) (nat b) (nat inc != 0)
      -- without the common ancestor the answer is the path minus the most recent common ancestor
      let spec := listSpec [nat a, nat b] (fun rf l =>
        if nat inc != 0 then rf.isPath (nat a) (nat b) l
        else rf.nodes.any (fun m => rf.isMrca [nat a, nat b] m && !l.contains m &&
          (List.range (l.length + 1)).any (fun i => rf.isPath (nat a) (nat b) (l.take i ++ [m] ++ l.drop i)))) "tree_spec"
      finishT st (showR showL r) t (judgeT impl false (refuses spec))
  | ["t.epath", a, b] =>
    if g.directed && g.hasNode (nat a) && g.hasNode (nat b) && (climbCycles g (nat a) || climbCycles g (nat b)) then
      finishT st "skip-cycle" t (judgeT impl false none2)
    else
      let r := T.edgePath g (nat a) (nat b)
      -- the edges along the (unique) path: the path is recomputed on the reference from the two ancestor lines
      let spec := listSpec [nat a, nat b] (fun rf l =>
        rf.nodes.any (fun m => rf.isMrca [nat a, nat b] m &&
          (let p := (rf.anc (nat a)).takeWhile (· != m) ++ [m] ++ ((rf.anc (nat b)).takeWhile (· != m)).reverse
           rf.isPath (nat a) (nat b) p && rf.isEdgePath p l))) "tree_spec"
      finishT st (showR showL r) t (judgeT impl false (refuses spec))
  | "t.mrca" :: ns =>
    let l := ns.map nat
    if g.directed && l.length > 1 && l.any (climbCycles g) then
      finishT st "skip-cycle" t (judgeT impl false none2)
    else
      let r := T.mrca g l
      let spec : List String → T → Option String := fun res ti =>
        match refOf ti.g with
        | some rf =>
          if l.all rf.nodes.contains && !l.isEmpty then
            match res with
            | [m] => (match m.toNat? with | some m => if rf.isMrca l m then none else some "mrca_spec" | none => some "mrca_spec")
            | _ => some "mrca_spec"
          else none
        | none => none
      finishT st (showR toString r) t (judgeT impl false (refuses spec))
  | _ => (st, "bad-op", "-")

/-! ### DAG mode -/

def judgeD (impl : Option (List String)) (isValidQuery : Bool) (extra : List String → D → Option String) : String × Option D :=
  match impl with
  | none => ("-", none)
  | some ["hang"] => ("FAIL:terminates", none)
  | some [c] => if c.startsWith "crash:" then ("FAIL:no_crash", none) else ("FAIL:parse", none)
  | some _ =>
    match splitImpl impl with
    | some (res, stt) =>
      match parseD stt with
      | some di =>
        let daNow := D.isDA di.g
        let resS := " ".intercalate res
        let v :=
          match di.g.check with
          | some c => "FAIL:consistent:" ++ c
          | none =>
            if di.valid && daNow != .ok true then "FAIL:cache_sound"
            else if di.rooted && D.nbFatherless di.g != 1 then "FAIL:rooted_cache"
            else if isValidQuery && resS != showR showBool daNow then "FAIL:valid_answer"
            else if isValidQuery && (resS == "1" || resS == "0") && di.g.directed && resS != showBool (isAcyclicRef di.g) then "FAIL:valid_iff"
            else match extra res di with
              | some c => "FAIL:" ++ c
              | none => "ok"
        (v, some di)
      | none => ("FAIL:parse", none)
    | none => ("FAIL:parse", none)

def finishD (st : St) (res : String) (d' : D) (jv : String × Option D) : St × String × String :=
  let prev := match jv.2 with | some di => some di | none => st.prevD
  ({ st with d := d', prevD := prev }, res ++ " ; " ++ showD d', jv.1)

def stepD (st : St) (op : List String) (impl : Option (List String)) : St × String × String :=
  let nat (s : String) : Nat := s.toNat?.getD 0
  let okS (_ : Unit) := "ok"
  let d := st.d
  let g := d.g
  let none2 : List String → D → Option String := fun _ _ => none
  let mutr {α : Type} (r : GOut α × D) (f : α → String) := finishD st (gres f r.1) r.2 (judgeD impl false none2)
  let showL (l : List Nat) := "l " ++ showNats l
  match op with
  | ["d.createNode"] => mutr d.createNode toString
  | ["d.link", a, b] => mutr (d.link (nat a) (nat b)) toString
  | ["d.linkE", a, b, e] => mutr (d.linkE (nat a) (nat b) (nat e)) okS
  | ["d.unlink", a, b] => mutr (d.unlink (nat a) (nat b)) showNats
  | ["d.deleteNode", n] => mutr (d.deleteNode (nat n)) okS
  | ["d.setRoot", n] => mutr (d.setRoot (nat n)) okS
  | ["d.addSon", n, s] => mutr (d.addSon (nat n) (nat s)) okS
  | ["d.addSonE", n, s, e] => mutr (d.addSonE (nat n) (nat s) (nat e)) okS
  | ["d.addFather", n, f] => mutr (d.addFather (nat n) (nat f)) okS
  | ["d.addFatherE", n, f, e] => mutr (d.addFatherE (nat n) (nat f) (nat e)) okS
  | ["d.removeSon", n, s] => mutr (d.removeSon (nat n) (nat s)) okS
  | ["d.removeFather", n, f] => mutr (d.removeFather (nat n) (nat f)) okS
  | ["d.removeSons", n] => mutr (d.removeSons (nat n)) showL
  | ["d.removeFathers", n] => mutr (d.removeFathers (nat n)) showL
  | ["d.rootAt", n] =>
    -- whatever happens (also when it raises half way) the nodes and the undirected edge set with its ids stay;
    -- a call that succeeds leaves the node as the root (theorem `dag_rootAt_shape`)
    let undirectedEdges (g : G) := g.edges.map (fun p => (p.1, min p.2.1 p.2.2, max p.2.1 p.2.2))
    let prev := st.prevD
    let spec : List String → D → Option String := fun res di =>
      match prev with
      | some p =>
        if undirectedEdges di.g != undirectedEdges p.g || AL.keys di.g.nodes != AL.keys p.g.nodes
           || (res == ["ok"] && di.g.root != nat n) || (res != ["ok"] && !p.g.hasNode (nat n) && di.g != p.g)
        then some "dag_rootAt" else none
      | none => none
    match d.rootAt (nat n) with
    | .ok r => finishD st (gres okS r.1) r.2 (judgeD impl false spec)
    | .fuel => finishD st "diverges" d (judgeD impl false none2)
    | .exc => finishD st "exc:bpp" d (judgeD impl false none2)
    | .ub => finishD st "ub" d (judgeD impl false none2)
  | ["d.valid"] =>
    let (r, d') := d.isValid
    finishD st (showR showBool r) d' (judgeD impl true none2)
  | ["d.rooted"] =>
    let (r, d') := d.isRooted
    -- the answer: true iff at most one node of the reported graph has no father
    let spec : List String → D → Option String := fun res di =>
      if res != [showBool (decide (D.nbFatherless di.g ≤ 1))] then some "rooted_answer" else none
    finishD st (showBool r) d' (judgeD impl false spec)
  | ["d.belowN", n] =>
    let (r, d') := d.getBelow false (nat n)
    finishD st (showR showL r) d' (judgeD impl false none2)
  | ["d.belowE", n] =>
    let (r, d') := d.getBelow true (nat n)
    finishD st (showR showL r) d' (judgeD impl false none2)
  | ["d.leavesUnder", n] =>
    let (v, d') := d.isValid
    match v with
    | .ok true => finishD st (showR showL (d'.leavesUnderQ (nat n))) d' (judgeD impl false none2)
    | .ok false => finishD st "notvalid" d' (judgeD impl false none2)
    | r => finishD st (showR showBool r) d' (judgeD impl false none2)
  | ["d.qn", n] =>
    let n := nat n
    let o (x : Option String) := showOpt x
    let res := s!"hf {o ((T.hasFather g n).map showBool)} fa {o ((g.inNeighbors n).map showNats)} nf {o ((RowQ.nbIn (g.rowOf n)).map toString)} " ++
      s!"sons {o ((g.outNeighbors n).map showNats)} ns {o ((RowQ.nbOut (g.rowOf n)).map toString)} lf {o ((g.isLeaf n).map showBool)}"
    -- fathers and sons against the edge table of the report
    let spec : List String → D → Option String := fun res di =>
      if di.g.hasNode n then
        let (_, r1) := takeUntil ["fa"] res
        let (fa, r2) := takeUntil ["nf"] (r1.drop 1)
        let (_, r3) := takeUntil ["sons"] r2
        let (sons, _) := takeUntil ["ns"] (r3.drop 1)
        let tops := (di.g.edges.filter (fun p => p.2.2 == n)).map (·.2.1)
        let bots := (di.g.edges.filter (fun p => p.2.1 == n)).map (·.2.2)
        if !(natsOf fa).isPerm tops || !(natsOf sons).isPerm bots then some "dag_query" else none
      else none
    finishD st res d (judgeD impl false spec)
  | _ => (st, "bad-op", "-")

/-! ### tree observer mode -/

def showW : TW.WRes → String
  | .ok => "ok"
  | .exc .bpp => "exc:bpp"
  | .exc .std => "exc:std"
  | .ub => "ub"

def judgeW (impl : Option (List String)) (isValidQuery : Bool) (extra : List String → TW → Option String) : String × Option TW :=
  match impl with
  | none => ("-", none)
  | some ["hang"] => ("FAIL:terminates", none)
  | some [c] => if c.startsWith "crash:" then ("FAIL:no_crash", none) else ("FAIL:parse", none)
  | some _ =>
    match splitImpl impl with
    | some (res, stt) =>
      match parseTW stt with
      | some wi =>
        let treeNow := T.isTree wi.w.g
        let resS := " ".intercalate res
        let v :=
          match wi.w.g.check with
          | some c => "FAIL:consistent:" ++ c
          | none =>
            match (wi.w.getObs 0).bind (fun o => o.check wi.w.g) with
            | some c => "FAIL:keeps_object:obs:" ++ c
            | none =>
              if wi.valid && treeNow != .ok true then "FAIL:cache_sound"
              else if isValidQuery && resS != showR showBool treeNow then "FAIL:valid_answer"
              else match extra res wi with
                | some c => "FAIL:" ++ c
                | none => "ok"
        (v, some wi)
      | none => ("FAIL:parse", none)
    | none => ("FAIL:parse", none)

def finishW (st : St) (res : String) (tw' : TW) (jv : String × Option TW) : St × String × String :=
  let prev := match jv.2 with | some wi => some wi | none => st.prevW
  ({ st with tw := tw', prevW := prev }, res ++ " ; " ++ showTW tw', jv.1)

/-- `setFather` through the observer: the object is the one of the new link; the other associations
are the ones of before, minus the branch to the former father -/
def setFatherW (st : St) (impl : Option (List String)) (a f : Obj) (x : Option Obj) : St × String × String :=
  let tw := st.tw
  let prev := st.prevW
  let extra : List String → TW → Option String := fun res wi =>
    match x, wi.w.getObs 0 with
    | some x', some o =>
      -- an object attached to another branch is refused and nothing changes
      if (match prev with | some p => p.setFatherForeign 0 a x' && (res != ["exc:bpp"] || wi.w != p.w || wi.valid != p.valid) | none => false)
      then some "keeps_object" else
      if res == ["ok"] && World.edgeLinking wi.w o f a != some (some x') then some "keeps_object" else
      (match prev with
       | some p =>
         (match p.w.getObs 0 with
          | some po =>
            if res == ["ok"] && po.Ng != o.Ng then some "keeps_object" else
            if res == ["ok"] && po.Eg.any (fun q => wi.w.g.hasEdge q.2 && q.1 != x' && AL.find q.1 o.Eg != some q.2) then some "keeps_object" else none
          | none => none)
       | none => none)
    | _, _ => none
  let r := tw.setFather 0 a f x
  finishW st (showW r.1) r.2 (judgeW impl false extra)

def stepW (st : St) (op : List String) (impl : Option (List String)) : St × String × String :=
  let nat (s : String) : Nat := s.toNat?.getD 0
  let tw := st.tw
  let none2 : List String → TW → Option String := fun _ _ => none
  let mutr (r : TW.WRes × TW) (extra : List String → TW → Option String) := finishW st (showW r.1) r.2 (judgeW impl false extra)
  -- after a successful call with an edge object `x`: the object is the one of the link father -> son
  let keeps (f s : Obj) (x : Option Obj) : List String → TW → Option String := fun res wi =>
    match x, wi.w.getObs 0 with
    | some x, some o =>
      if res == ["ok"] && World.edgeLinking wi.w o f s != some (some x) then some "keeps_object" else none
    | _, _ => none
  match op with
  | ["o.createNode", a] => mutr (tw.createNode 0 (nat a)) none2
  | ["o.link", a, b, x] => mutr (tw.link 0 (nat a) (nat b) (optObj x)) (keeps (nat a) (nat b) (optObj x))
  | ["o.unlink", a, b] => mutr (tw.unlink 0 (nat a) (nat b)) none2
  | ["o.deleteNode", a] => mutr (tw.deleteNode 0 (nat a)) none2
  | ["o.addSon", a, s, x] =>
    let prev := st.prevW
    -- with an edge object and everything it needs (judged on the implementation's previous report) the call must go through
    let extra : List String → TW → Option String := fun res wi =>
      match keeps (nat a) (nat s) (optObj x) res wi with
      | some c => some c
      | none =>
        match prev, optObj x with
        | some p, some x' => if p.addSonReady 0 (nat a) (nat s) x' && res != ["ok"] then some "keeps_object" else none
        | _, _ => none
    mutr (tw.addSon 0 (nat a) (nat s) (optObj x)) extra
  | ["o.setFatherCur", a, f] =>
    -- with the object of the branch to the current father (none: without object)
    let x : Option Obj := match tw.w.getObs 0 with
      | some ob => (tw.edgeToFather ob (nat a)).join
      | none => none
    setFatherW st impl (nat a) (nat f) x
  | ["o.setFather", a, f, x] => setFatherW st impl (nat a) (nat f) (optObj x)
  | ["o.rootAt", a] =>
    let prev := st.prevW
    -- re-rooting changes no association
    let extra : List String → TW → Option String := fun _ wi =>
      match prev with
      | some p => if p.w.obs != wi.w.obs then some "keeps_object" else none
      | none => none
    match tw.rootAt 0 (nat a) with
    | .ok r => finishW st (showW r.1) r.2 (judgeW impl false extra)
    | .fuel => finishW st "diverges" tw (judgeW impl false none2)
    | .exc => finishW st "exc:bpp" tw (judgeW impl false none2)
    | .ub => finishW st "ub" tw (judgeW impl false none2)
  | ["o.valid"] =>
    let (r, tw') := tw.isValid
    finishW st (showR showBool r) tw' (judgeW impl true none2)
  | ["o.qn", a] =>
    let o (x : Option String) := showOpt x
    let res := match tw.w.getObs 0 with
      | some ob =>
        s!"fa {o ((tw.fatherOf ob (nat a)).map showOO)} ef {o ((tw.edgeToFather ob (nat a)).map showOO)} " ++
        s!"sons {o ((World.nodeQuery tw.w ob (nat a) (fun g n => g.outNeighbors n) false).map showObjs)} " ++
        s!"br {o ((World.nodeQuery tw.w ob (nat a) (fun g n => g.outEdges n) true).map showObjs)}"
      | none => "ub"
    finishW st res tw (judgeW impl false none2)
  | ["o.qp", a, b] =>
    let res := match tw.w.getObs 0 with
      | some ob => "linking " ++ showOpt ((World.edgeLinking tw.w ob (nat a) (nat b)).map showOO)
      | none => "ub"
    finishW st res tw (judgeW impl false none2)
  | _ => (st, "bad-op", "-")

def step (st : St) (op : List String) (impl : Option (List String)) : St × String × String :=
  match op with
  | o :: _ =>
    if o.startsWith "d." then stepD st op impl
    else if o.startsWith "o." then stepW st op impl
    else stepT st op impl
  | [] => (st, "bad-op", "-")

def init (tk : List String) : St :=
  let kind := tk[1]?.getD "dir"
  { t := T.empty (kind != "undir"), d := D.empty, tw := TW.init (kind != "obsundir"), prev := none, prevW := none, prevD := none }

def machine : Machine St := { init := init, step := step }

end Bpp.Drive.C15
