import BppModel.Proto
import BppModel.Tree
import BppModel.TreeRef
import BppModel.Dag
import BppModel.TreeObs
import BppModel.TreeCopy
import BppModel.TreeObsCopy
import BppModel.DagObs
import BppModel.Drive.C14
/-
Driver for C15: TreeGraphImpl on GlobalGraph (ops `t.*`), DAGraphImpl on GlobalGraph (ops `d.*`),
AssociationTreeGraphImplObserver (ops `o.*`).

Verdicts on the implementation's answer `<result> ; <raw state> V <flag> [R <flag>]`:
  consistent:<clause>  the reported graph violates `Consistent` (C14)
  cache_sound          the reported validity flag is 1 but `isTree` / `isDA` of the reported graph is not true
  valid_answer         `isValid()` answered something else than `isTree` / `isDA` of the reported graph
  valid_iff            `isValid()` answered something else than the reference decision on the edge table
                       (`isTreeRef`: rooted / unrooted tree spanning all nodes; `isAcyclicRef`: transitive closure)
  tree_spec            a structural query of a valid rooted tree differs from the reference rooted tree
                       (`Ref` read off the reported edge triples): father / sons / branches / leaves-under /
                       subtree nodes and edges / node path / edge path
  mrca_spec            `MRCA` is not the most recent common ancestor in the reference tree (`Ref.isMrca`)
  rootAt_spec          `rootAt(n)` on a valid tree (rooted or not) with node n did not succeed, or the result is
                       not a valid tree rooted at n with the same nodes and the same undirected edge set
                       (same ids, same end points), n its only father-less node
  terminates           the call did not return within the harness watchdog although the model answers (the harness does not
                       make the calls on which the model itself runs out of fuel)
  no_crash             the call killed the harness worker (sanitizer abort, stack overflow, signal)
  rooted_cache         the reported rootedness flag of a DAG is 1 but there is not exactly one father-less node
  refuses_unrooted     a query that needs a rooted tree (leaves-under, subtree, node / edge path, MRCA) answered on an undirected graph
  dag_rootAt           `rootAt` of a DAG changed the nodes or the undirected edge set (ids, end points), or succeeded without making
                       the node the root, or changed something for an absent node
  dag_rerooted         (explored only) `rootAt(n)` succeeded on a valid DAG with a single father-less node, but the result is not a
                       valid DAG whose single father-less node is n
  copy_same_relations  after a copy construction / assignment the target container does not report the tables and flags of the source
                       (observers: not the same object<->id relations, by label)
  copy_independent     an operation on one container changed the reported state of another one; an observer holds an object
                       that belongs to another observer's pool (`copy_independent:<map>`)
  removes_relation     `removeSon` / `removeFather` through an observer succeeded but the relation is still in the edge table, or another
                       edge or a node went away
  dag_query            fathers / sons of a DAG node are not the ones of the reported edge table
  keeps_object         `setFather` / `addSon` with an edge object succeeded but the object is not the one of
                       the new link (`getEdgeLinking(father, son)`); `addSon` with a free object, two known nodes and no
                       relation yet between them (`TW.addSonReady`) did not succeed; `setFather` with two known nodes, a free object or the one of
                       the current branch and at most one incoming neighbour (`TW.setFatherReady`) did not succeed; `setFather` with an object attached
                       to another branch (`TW.setFatherForeign`) was not refused or changed something; the observer's maps
                       are no longer inverse of each other / name dead ids (`obs:<clause>`, C14); `rootAt` changed an association
-/
namespace Bpp.Drive.C15
open Bpp Bpp.Proto Bpp.Graph Bpp.Drive.C14

structure St where
  /-- the selected tree container (slot `sel` of `th`, whose entry there is stale) -/
  t : T := T.empty true
  d : D := D.empty
  tw : TW := TW.init true
  /-- the implementation's previous report (tree / observer mode) -/
  prev : Option T := none
  prevW : Option TW := none
  prevD : Option D := none
  /-- the other containers of the case (heap operations `h.*`), the selected slot, the implementation's previous
  report of every slot -/
  th : TH := {}
  dh : DH := {}
  sel : Nat := 0
  prevTH : List (Option T) := []
  prevDH : List (Option D) := []
  /-- the observer the `o.*` operations go through -/
  osel : Nat := 0
  isDag : Bool := false
  /-- the DAG observer mode -/
  dw : DW := DW.init
  prevDW : Option DW := none

def showT (t : T) : String := showGraph t.g ++ " V " ++ showBool t.valid
def showD (d : D) : String := showGraph d.g ++ " V " ++ showBool d.valid ++ " R " ++ showBool d.rooted
def showTW (tw : TW) : String := showWorld tw.w ++ " V " ++ showBool tw.valid

def showSlots {α : Type} (f : α → String) (l : List (Option α)) : String :=
  " # ".intercalate (l.map (fun o => match o with | some a => f a | none => "-"))

/-- every slot but `skip`: consistent tables, sound caches (`check1`), and unchanged since the previous report -/
def othersVerdict {α : Type} [BEq α] (check1 : α → Option String) (prevAll slots : List (Option α)) (skip : Option Nat) : Option String :=
  (List.range slots.length).findSome? (fun k =>
    if some k == skip then none else
    match (slots[k]?).join with
    | none => none
    | some a =>
      match check1 a with
      | some c => some c
      | none =>
        match (prevAll[k]?).join with
        | some p => if p != a then some "copy_independent" else none
        | none => none)

def parseT (tk : List String) : Option T :=
  let (gt, rest) := takeUntil ["V"] tk
  match parseGraph gt, rest with
  | some (g, _), ["V", v] => some { g := g, valid := v == "1" }
  | _, _ => none

def parseSlots {α : Type} (f : List String → Option α) (tk : List String) : Option (List (Option α)) :=
  (splitTok "#" tk).mapM (fun t => if t == ["-"] then some none else (f t).map some)

def checkT (t : T) : Option String :=
  match t.g.check with
  | some c => some ("consistent:" ++ c)
  | none => if t.valid && T.isTree t.g != .ok true then some "cache_sound" else none

def parseD (tk : List String) : Option D :=
  let (gt, rest) := takeUntil ["V"] tk
  match parseGraph gt, rest with
  | some (g, _), ["V", v, "R", r] => some { g := g, valid := v == "1", rooted := r == "1" }
  | _, _ => none

/-! The observer tables as `harness/C15.cpp` prints them (plain object labels; `harness/C14.cpp` now
prints identities and `Drive/C14.lean` parses those, so the plain-label parser lives here). -/

def parseOpt0 (s : String) : Option (Option Nat) := if s == "-" then some none else s.toNat?.map some

/-- one observer block `X k gN .. gE .. Ng .. Eg .. iN .. iE .. Ni .. Ei ..` -/
def parseObs0 (t : List String) : Option (Nat × Obs × List String) :=
  match t with
  | "X" :: k :: "gN" :: r =>
    let (gN, r) := takeUntil ["gE"] r
    let (gE, r) := takeUntil ["Ng"] (r.drop 1)
    let (ng, r) := takeUntil ["Eg"] (r.drop 1)
    let (eg, r) := takeUntil ["iN"] (r.drop 1)
    let (iN, r) := takeUntil ["iE"] (r.drop 1)
    let (iE, r) := takeUntil ["Ni"] (r.drop 1)
    let (ni, r) := takeUntil ["Ei"] (r.drop 1)
    let (ei, r) := takeUntil ["X"] (r.drop 1)
    match k.toNat?, gN.mapM parseOpt0, gE.mapM parseOpt0, ng.mapM parsePair, eg.mapM parsePair,
          iN.mapM parseOpt0, iE.mapM parseOpt0, ni.mapM parsePair, ei.mapM parsePair with
    | some k, some gN, some gE, some ng, some eg, some iN, some iE, some ni, some ei =>
      some (k, { gN := gN, gE := gE, Ng := ng, Eg := eg, iN := iN, iE := iE, Ni := ni, Ei := ei }, r)
    | _, _, _, _, _, _, _, _, _ => none
  | _ => none

partial def parseObsList0 (t : List String) (acc : List (Option Obs)) : Option (List (Option Obs)) :=
  match t with
  | [] => some acc
  | _ =>
    match parseObs0 t with
    | some (k, o, r) => parseObsList0 r ((acc ++ List.replicate (k + 1 - acc.length) none).set k (some o))
    | none => none

def parseWorld (t : List String) : Option World :=
  match parseGraph t with
  | some (g, r) =>
    match parseObsList0 r [] with
    | some os => some { g := g, obs := os ++ List.replicate (3 - os.length) none }
    | none => none
  | none => none

def parseTW (tk : List String) : Option TW :=
  let (wt, rest) := takeUntil ["V"] tk
  match parseWorld wt, rest with
  | some w, ["V", v] => some { w := w, valid := v == "1" }
  | _, _ => none

/-- the report with the identity of every stored object (`l`, `l@j`, `l@?`): the world by labels, and the tables with identities -/
def parseTWI (tk : List String) : Option (TW × List (Option IObs)) :=
  let (wt, rest) := takeUntil ["V"] tk
  match parseWorldI wt, rest with
  | some (g, ios), ["V", v] =>
    some ({ w := { g := g, obs := ios.map (fun o => o.map IObs.labels) }, valid := v == "1" }, ios)
  | _, _ => none

def showR {α : Type} (f : α → String) : TRes α → String
  | .ok a => f a
  | .exc => "exc:bpp"
  | .fuel => "diverges"
  | .ub => "ub"

def gres {α : Type} (f : α → String) : GOut α → String
  | .ok a _ => f a
  | .exc _ => "exc:bpp"

/-- does climbing by single fathers from `n` run into a cycle? (such calls are not exercised:
the harness answers `skip-cycle` without calling) -/
def climbCycles (g : G) (n : Nat) : Bool :=
  match T.climb g (g.nodes.length + 2) n [] with
  | .fuel => true
  | _ => false

/-- the implementation's result tokens and state tokens -/
def splitImpl (impl : Option (List String)) : Option (List String × List String) :=
  match impl with
  | some tk => match splitTok ";" tk with | [r, s] => some (r, s) | _ => none
  | none => none

def natsOf (tk : List String) : List Nat := tk.filterMap String.toNat?

/-! ### tree mode -/

/-- invariants of every report of the tree container; `extra` judges the result on the parsed report -/
def judgeT (impl : Option (List String)) (isValidQuery : Bool) (extra : List String → T → Option String) (st : St) :
    String × Option T × List (Option T) :=
  match impl with
  | none => ("-", none, [])
  | some ["hang"] => ("FAIL:terminates", none, [])
  | some [c] => if c.startsWith "crash:" then ("FAIL:no_crash", none, []) else ("FAIL:parse", none, [])
  | some _ =>
    match splitImpl impl with
    | some (res, stt) =>
      match parseSlots parseT stt with
      | none => ("FAIL:parse", none, [])
      | some slots =>
      match (slots[st.sel]?).join with
      | some ti =>
        let treeNow := T.isTree ti.g
        let resS := " ".intercalate res
        let v :=
          match ti.g.check with
          | some c => "FAIL:consistent:" ++ c
          | none =>
            if ti.valid && treeNow != .ok true then "FAIL:cache_sound"
            else if isValidQuery && resS != showR showBool treeNow then "FAIL:valid_answer"
            else if isValidQuery && (resS == "1" || resS == "0") && resS != showBool (isTreeRef ti.g) then "FAIL:valid_iff"
            else match extra res ti with
              | some c => "FAIL:" ++ c
              | none =>
                -- the other containers of the case: consistent, sound, and untouched by this operation
                match othersVerdict checkT st.prevTH slots (some st.sel) with
                | some c => "FAIL:" ++ c
                | none => "ok"
        (v, some ti, slots)
      | none => ("FAIL:parse", none, [])
    | none => ("FAIL:parse", none, [])

def finishT (st : St) (res : String) (t' : T) (jv : St → String × Option T × List (Option T)) : St × String × String :=
  let j := jv st
  let prev := match j.2.1 with | some ti => some ti | none => st.prev
  let prevTH := if j.2.2.isEmpty then st.prevTH else j.2.2
  ({ st with t := t', prev := prev, prevTH := prevTH }, res ++ " ; " ++ showSlots showT (st.th.set st.sel t').slots, j.1)

/-- heap operations on tree containers (`h.sel`, `h.copy`, `h.assign`, `h.gassign`) -/
def stepTH (st : St) (op : List String) (impl : Option (List String)) : St × String × String :=
  let nat (s : String) : Nat := s.toNat?.getD 0
  let h : TH := st.th.set st.sel st.t
  -- the verdict on the implementation's report: `target` = the slot that was written (with the slot it must now equal)
  let judge (target : Option (Nat × Nat)) (graphOnly : Bool) : String × List (Option T) :=
    match splitImpl impl with
    | some (res, stt) =>
      match parseSlots parseT stt with
      | none => ("FAIL:parse", [])
      | some slots =>
        let tgt := if res == ["ok"] then target else none
        let v :=
          match othersVerdict checkT st.prevTH slots (tgt.map (·.1)) with
          | some c => "FAIL:" ++ c
          | none =>
            match tgt with
            | none => "ok"
            | some (k, j) =>
              match (slots[k]?).join, (slots[j]?).join with
              | some a, some b =>
                (match checkT a with
                 | some c => "FAIL:" ++ c
                 | none =>
                   if (if graphOnly then a.g != b.g else a != b) then "FAIL:copy_same_relations" else "ok")
              | _, _ => "FAIL:copy_same_relations"
        (v, slots)
    | none => (match impl with | none => "-" | _ => "FAIL:parse", [])
  let fin (h' : TH) (sel' : Nat) (res : String) (jv : String × List (Option T)) : St × String × String :=
    let t' := (h'.get sel').getD st.t
    ({ st with th := h', sel := sel', t := t', prevTH := if jv.2.isEmpty then st.prevTH else jv.2,
               prev := (match (jv.2[sel']?).join with | some ti => some ti | none => st.prev) },
     res ++ " ; " ++ showSlots showT h'.slots, jv.1)
  let okSlot (k : Nat) := decide (k < 3)
  match op with
  | ["h.sel", k] =>
    if okSlot (nat k) && (h.get (nat k)).isSome then fin h (nat k) "ok" (judge none false) else fin h st.sel "bad-slot" (judge none false)
  | ["h.copy", j, k] =>
    if okSlot (nat j) && okSlot (nat k) && (h.get (nat j)).isSome && nat j != nat k then
      fin (TH.step h (.copy (nat j) (nat k))) st.sel "ok" (judge (some (nat k, nat j)) false)
    else fin h st.sel "bad-slot" (judge none false)
  | ["h.assign", j, k] =>
    if okSlot (nat j) && okSlot (nat k) && (h.get (nat j)).isSome && (h.get (nat k)).isSome then
      fin (TH.step h (.assign (nat j) (nat k))) st.sel "ok" (judge (some (nat k, nat j)) false)
    else fin h st.sel "bad-slot" (judge none false)
  | ["h.gassign", j, k] =>
    if okSlot (nat j) && okSlot (nat k) && (h.get (nat j)).isSome && (h.get (nat k)).isSome then
      fin (TH.step h (.graphAssign (nat j) (nat k))) st.sel "ok" (judge (some (nat k, nat j)) true)
    else fin h st.sel "bad-slot" (judge none false)
  | _ => (st, "bad-op", "-")

/-- a list answer `l a b c` judged by a predicate of the reference tree, when the reported graph is
a valid rooted tree and the queried nodes are in it -/
def listSpec (nodes : List Nat) (p : Ref → List Nat → Bool) (clause : String) (res : List String) (ti : T) : Option String :=
  match refOf ti.g with
  | some r =>
    if nodes.all r.nodes.contains then
      match res with
      | "l" :: l => if p r (natsOf l) then none else some clause
      | _ => some clause
    else none
  | none => none

def stepT (st : St) (op : List String) (impl : Option (List String)) : St × String × String :=
  let nat (s : String) : Nat := s.toNat?.getD 0
  let okS (_ : Unit) := "ok"
  let t := st.t
  let g := t.g
  let none2 : List String → T → Option String := fun _ _ => none
  let mutr {α : Type} (r : GOut α × T) (f : α → String) := finishT st (gres f r.1) r.2 (judgeT impl false none2)
  let showL (l : List Nat) := "l " ++ showNats l
  -- a query that needs a rooted tree raises on an unrooted one (theorems `*_refuses_unrooted`)
  let refuses (spec : List String → T → Option String) : List String → T → Option String := fun res ti =>
    if !ti.g.directed && res != ["exc:bpp"] && res != ["notvalid"] then some "refuses_unrooted" else spec res ti
  match op with
  | ["t.createNode"] => mutr t.createNode toString
  | ["t.link", a, b] => mutr (t.link (nat a) (nat b)) toString
  | ["t.linkE", a, b, e] => mutr (t.linkE (nat a) (nat b) (nat e)) okS
  | ["t.unlink", a, b] => mutr (t.unlink (nat a) (nat b)) showNats
  | ["t.deleteNode", n] => mutr (t.deleteNode (nat n)) okS
  | ["t.setRoot", n] => mutr (t.setRoot (nat n)) okS
  | ["t.makeDirected"] => mutr (GOut.ok () t.makeDirected.g, t.makeDirected) okS
  | ["t.makeUndirected"] => mutr t.makeUndirected okS
  | ["t.setFather", n, f] => mutr (t.setFather (nat n) (nat f)) okS
  | ["t.setFatherE", n, f, e] => mutr (t.setFatherE (nat n) (nat f) (nat e)) okS
  | ["t.addSon", n, s] => mutr (t.addSon (nat n) (nat s)) okS
  | ["t.addSonE", n, s, e] => mutr (t.addSonE (nat n) (nat s) (nat e)) okS
  | ["t.removeSon", n, s] => mutr (t.removeSon (nat n) (nat s)) okS
  | ["t.removeSons", n] => mutr (t.removeSons (nat n)) showL
  | ["t.unRoot", j] => mutr (t.unRoot (nat j != 0)) okS
  | ["t.rootAt", n] =>
    -- re-rooting specification, judged on the implementation's reports before and after
    let undirectedEdges (g : G) := g.edges.map (fun p => (p.1, min p.2.1 p.2.2, max p.2.1 p.2.2))
    let prev := st.prev
    let spec : List String → T → Option String := fun res ti =>
      match prev with
      | some p =>
        if T.isTree p.g == .ok true && p.g.hasNode (nat n) then
          if res != ["ok"] || T.isTree ti.g != .ok true || !isRootedTree ti.g || ti.g.root != nat n || !ti.g.directed
             || undirectedEdges ti.g != undirectedEdges p.g || AL.keys ti.g.nodes != AL.keys p.g.nodes
             || (AL.keys ti.g.nodes).any (fun x => x != nat n && T.hasFather ti.g x != some true)
             || T.hasFather ti.g (nat n) != some false
          then some "rootAt_spec" else none
        else none
      | none => none
    match t.rootAt (nat n) with
    | .ok r => finishT st (gres okS r.1) r.2 (judgeT impl false spec)
    | .fuel => finishT st "diverges" t (judgeT impl false none2)
    | .exc => finishT st "exc:bpp" t (judgeT impl false none2)
    | .ub => finishT st "ub" t (judgeT impl false none2)
  | ["t.createNodeFromNode", o] => mutr (t.lift (t.g.createNodeFromNode (nat o))) toString
  | ["t.createNodeOnEdge", e] => mutr (t.lift (t.g.createNodeOnEdge (nat e))) toString
  | ["t.createNodeFromEdge", e] => mutr (t.lift (t.g.createNodeFromEdge (nat e))) toString
  | ["t.orientate"] => mutr t.orientate okS
  | ["t.setOutGroup", n] =>
    match t.setOutGroup (nat n) with
    | .ok r => finishT st (gres okS r.1) r.2 (judgeT impl false none2)
    | .fuel => finishT st "diverges" t (judgeT impl false none2)
    | .exc => finishT st "exc:bpp" t (judgeT impl false none2)
    | .ub => finishT st "ub" t (judgeT impl false none2)
  | ["t.valid"] =>
    let (r, t') := t.isValid
    finishT st (showR showBool r) t' (judgeT impl true none2)
  | ["t.rooted"] => finishT st (showBool g.directed) t (judgeT impl false none2)
  | ["t.qn", n] =>
    let n := nat n
    let o (x : Option String) := showOpt x
    let res := s!"hf {o ((T.hasFather g n).map showBool)} fa {o ((T.father g n).map toString)} ef {o ((T.edgeToFather g n).map toString)} " ++
      s!"sons {o ((g.outNeighbors n).map showNats)} br {o ((g.outEdges n).map showNats)} " ++
      s!"ns {o ((RowQ.nbOut (g.rowOf n)).map toString)} lf {o ((T.isLeafT g n).map showBool)}"
    -- father / sons / branches / leaf against the parent function of the reported edge table
    let spec : List String → T → Option String := fun res ti =>
      match refOf ti.g with
      | some r =>
        if r.nodes.contains n then
          let (a, r1) := takeUntil ["sons"] res
          let (sons, r2) := takeUntil ["br"] (r1.drop 1)
          let (br, r3) := takeUntil ["ns"] (r2.drop 1)
          let cs := r.children n
          let wantA := ["hf", showBool (r.parent n).isSome, "fa", o ((r.parent n).map toString), "ef", o ((r.edgeUp n).map toString)]
          let wantC := ["ns", toString cs.length, "lf", showBool cs.isEmpty]
          if a != wantA || r3 != wantC || !(natsOf sons).isPerm cs || !(natsOf br).isPerm (r.branches n)
             || (natsOf sons).zip (natsOf br) != ((natsOf sons).map (fun c => (c, (r.edgeUp c).getD 0)))
          then some "tree_spec" else none
        else none
      | none => none
    finishT st res t (judgeT impl false spec)
  | ["t.subN", n] =>
    let (r, t') := t.getSubtree false (nat n)
    finishT st (showR showL r) t' (judgeT impl false (refuses (listSpec [nat n] (fun rf l => rf.isSubtree (nat n) l) "tree_spec")))
  | ["t.subE", n] =>
    let (r, t') := t.getSubtree true (nat n)
    finishT st (showR showL r) t' (judgeT impl false (refuses (listSpec [nat n] (fun rf l => rf.isSubtreeEdges (nat n) l) "tree_spec")))
  | ["t.leavesUnder", n] =>
    let (v, t') := t.isValid
    match v with
    | .ok true =>
      finishT st (showR showL (T.leavesUnderQ t'.g (nat n))) t'
        (judgeT impl false (refuses (listSpec [nat n] (fun rf l => rf.isLeavesUnder (nat n) l) "tree_spec")))
    | .ok false => finishT st "notvalid" t' (judgeT impl false none2)
    | r => finishT st (showR showBool r) t' (judgeT impl false none2)
  | ["t.path", a, b, inc] =>
    if g.directed && g.hasNode (nat a) && g.hasNode (nat b) && (climbCycles g (nat a) || climbCycles g (nat b)) then
      finishT st "skip-cycle" t (judgeT impl false none2)
    else
      let r := T.nodePath g (nat a) (nat b) (nat inc != 0)
      -- without the common ancestor the answer is the path minus the most recent common ancestor
      let spec := listSpec [nat a, nat b] (fun rf l =>
        if nat inc != 0 then rf.isPath (nat a) (nat b) l
        else rf.nodes.any (fun m => rf.isMrca [nat a, nat b] m && !l.contains m &&
          (List.range (l.length + 1)).any (fun i => rf.isPath (nat a) (nat b) (l.take i ++ [m] ++ l.drop i)))) "tree_spec"
      finishT st (showR showL r) t (judgeT impl false (refuses spec))
  | ["t.epath", a, b] =>
    if g.directed && g.hasNode (nat a) && g.hasNode (nat b) && (climbCycles g (nat a) || climbCycles g (nat b)) then
      finishT st "skip-cycle" t (judgeT impl false none2)
    else
      let r := T.edgePath g (nat a) (nat b)
      -- the edges along the (unique) path: the path is recomputed on the reference from the two ancestor lines
      let spec := listSpec [nat a, nat b] (fun rf l =>
        rf.nodes.any (fun m => rf.isMrca [nat a, nat b] m &&
          (let p := (rf.anc (nat a)).takeWhile (· != m) ++ [m] ++ ((rf.anc (nat b)).takeWhile (· != m)).reverse
           rf.isPath (nat a) (nat b) p && rf.isEdgePath p l))) "tree_spec"
      finishT st (showR showL r) t (judgeT impl false (refuses spec))
  | "t.mrca" :: ns =>
    let l := ns.map nat
    if g.directed && l.length > 1 && l.any (climbCycles g) then
      finishT st "skip-cycle" t (judgeT impl false none2)
    else
      let r := T.mrca g l
      let spec : List String → T → Option String := fun res ti =>
        match refOf ti.g with
        | some rf =>
          if l.all rf.nodes.contains && !l.isEmpty then
            match res with
            | [m] => (match m.toNat? with | some m => if rf.isMrca l m then none else some "mrca_spec" | none => some "mrca_spec")
            | _ => some "mrca_spec"
          else none
        | none => none
      finishT st (showR toString r) t (judgeT impl false (refuses spec))
  | _ => (st, "bad-op", "-")

/-! ### DAG mode -/

def checkD (d : D) : Option String :=
  match d.g.check with
  | some c => some ("consistent:" ++ c)
  | none =>
    if d.valid && D.isDA d.g != .ok true then some "cache_sound"
    else if d.rooted && D.nbFatherless d.g != 1 then some "rooted_cache" else none

def judgeD (impl : Option (List String)) (isValidQuery : Bool) (extra : List String → D → Option String) (st : St) :
    String × Option D × List (Option D) :=
  match impl with
  | none => ("-", none, [])
  | some ["hang"] => ("FAIL:terminates", none, [])
  | some [c] => if c.startsWith "crash:" then ("FAIL:no_crash", none, []) else ("FAIL:parse", none, [])
  | some _ =>
    match splitImpl impl with
    | some (res, stt) =>
      match parseSlots parseD stt with
      | none => ("FAIL:parse", none, [])
      | some slots =>
      match (slots[st.sel]?).join with
      | some di =>
        let daNow := D.isDA di.g
        let resS := " ".intercalate res
        let v :=
          match di.g.check with
          | some c => "FAIL:consistent:" ++ c
          | none =>
            if di.valid && daNow != .ok true then "FAIL:cache_sound"
            else if di.rooted && D.nbFatherless di.g != 1 then "FAIL:rooted_cache"
            else if isValidQuery && resS != showR showBool daNow then "FAIL:valid_answer"
            else if isValidQuery && (resS == "1" || resS == "0") && di.g.directed && resS != showBool (isAcyclicRef di.g) then "FAIL:valid_iff"
            else match extra res di with
              | some c => "FAIL:" ++ c
              | none =>
                match othersVerdict checkD st.prevDH slots (some st.sel) with
                | some c => "FAIL:" ++ c
                | none => "ok"
        (v, some di, slots)
      | none => ("FAIL:parse", none, [])
    | none => ("FAIL:parse", none, [])

def finishD (st : St) (res : String) (d' : D) (jv : St → String × Option D × List (Option D)) : St × String × String :=
  let j := jv st
  let prev := match j.2.1 with | some di => some di | none => st.prevD
  let prevDH := if j.2.2.isEmpty then st.prevDH else j.2.2
  ({ st with d := d', prevD := prev, prevDH := prevDH }, res ++ " ; " ++ showSlots showD (st.dh.set st.sel d').slots, j.1)

/-- heap operations on DAG containers -/
def stepDH (st : St) (op : List String) (impl : Option (List String)) : St × String × String :=
  let nat (s : String) : Nat := s.toNat?.getD 0
  let h : DH := st.dh.set st.sel st.d
  let judge (target : Option (Nat × Nat)) (graphOnly : Bool) : String × List (Option D) :=
    match splitImpl impl with
    | some (res, stt) =>
      match parseSlots parseD stt with
      | none => ("FAIL:parse", [])
      | some slots =>
        let tgt := if res == ["ok"] then target else none
        let v :=
          match othersVerdict checkD st.prevDH slots (tgt.map (·.1)) with
          | some c => "FAIL:" ++ c
          | none =>
            match tgt with
            | none => "ok"
            | some (k, j) =>
              match (slots[k]?).join, (slots[j]?).join with
              | some a, some b =>
                (match checkD a with
                 | some c => "FAIL:" ++ c
                 | none =>
                   if (if graphOnly then a.g != b.g else a != b) then "FAIL:copy_same_relations" else "ok")
              | _, _ => "FAIL:copy_same_relations"
        (v, slots)
    | none => (match impl with | none => "-" | _ => "FAIL:parse", [])
  let fin (h' : DH) (sel' : Nat) (res : String) (jv : String × List (Option D)) : St × String × String :=
    let d' := (h'.get sel').getD st.d
    ({ st with dh := h', sel := sel', d := d', prevDH := if jv.2.isEmpty then st.prevDH else jv.2,
               prevD := (match (jv.2[sel']?).join with | some di => some di | none => st.prevD) },
     res ++ " ; " ++ showSlots showD h'.slots, jv.1)
  let okSlot (k : Nat) := decide (k < 3)
  match op with
  | ["h.sel", k] =>
    if okSlot (nat k) && (h.get (nat k)).isSome then fin h (nat k) "ok" (judge none false) else fin h st.sel "bad-slot" (judge none false)
  | ["h.copy", j, k] =>
    if okSlot (nat j) && okSlot (nat k) && (h.get (nat j)).isSome && nat j != nat k then
      fin (DH.step h (.copy (nat j) (nat k))) st.sel "ok" (judge (some (nat k, nat j)) false)
    else fin h st.sel "bad-slot" (judge none false)
  | ["h.assign", j, k] =>
    if okSlot (nat j) && okSlot (nat k) && (h.get (nat j)).isSome && (h.get (nat k)).isSome then
      fin (DH.step h (.assign (nat j) (nat k))) st.sel "ok" (judge (some (nat k, nat j)) false)
    else fin h st.sel "bad-slot" (judge none false)
  | ["h.gassign", j, k] =>
    if okSlot (nat j) && okSlot (nat k) && (h.get (nat j)).isSome && (h.get (nat k)).isSome then
      fin (DH.step h (.graphAssign (nat j) (nat k))) st.sel "ok" (judge (some (nat k, nat j)) true)
    else fin h st.sel "bad-slot" (judge none false)
  | _ => (st, "bad-op", "-")

def stepD (st : St) (op : List String) (impl : Option (List String)) : St × String × String :=
  let nat (s : String) : Nat := s.toNat?.getD 0
  let okS (_ : Unit) := "ok"
  let d := st.d
  let g := d.g
  let none2 : List String → D → Option String := fun _ _ => none
  let mutr {α : Type} (r : GOut α × D) (f : α → String) := finishD st (gres f r.1) r.2 (judgeD impl false none2)
  let showL (l : List Nat) := "l " ++ showNats l
  match op with
  | ["d.createNode"] => mutr d.createNode toString
  | ["d.link", a, b] => mutr (d.link (nat a) (nat b)) toString
  | ["d.linkE", a, b, e] => mutr (d.linkE (nat a) (nat b) (nat e)) okS
  | ["d.unlink", a, b] => mutr (d.unlink (nat a) (nat b)) showNats
  | ["d.deleteNode", n] => mutr (d.deleteNode (nat n)) okS
  | ["d.setRoot", n] => mutr (d.setRoot (nat n)) okS
  | ["d.addSon", n, s] => mutr (d.addSon (nat n) (nat s)) okS
  | ["d.addSonE", n, s, e] => mutr (d.addSonE (nat n) (nat s) (nat e)) okS
  | ["d.addFather", n, f] => mutr (d.addFather (nat n) (nat f)) okS
  | ["d.addFatherE", n, f, e] => mutr (d.addFatherE (nat n) (nat f) (nat e)) okS
  | ["d.removeSon", n, s] => mutr (d.removeSon (nat n) (nat s)) okS
  | ["d.removeFather", n, f] => mutr (d.removeFather (nat n) (nat f)) okS
  | ["d.removeSons", n] => mutr (d.removeSons (nat n)) showL
  | ["d.removeFathers", n] => mutr (d.removeFathers (nat n)) showL
  | ["d.rootAt", n] =>
    -- whatever happens (also when it raises half way) the nodes and the undirected edge set with its ids stay;
    -- a call that succeeds leaves the node as the root (theorem `dag_rootAt_shape`)
    let undirectedEdges (g : G) := g.edges.map (fun p => (p.1, min p.2.1 p.2.2, max p.2.1 p.2.2))
    let prev := st.prevD
    let spec : List String → D → Option String := fun res di =>
      match prev with
      | some p =>
        if undirectedEdges di.g != undirectedEdges p.g || AL.keys di.g.nodes != AL.keys p.g.nodes
           || (res == ["ok"] && di.g.root != nat n) || (res != ["ok"] && !p.g.hasNode (nat n) && di.g != p.g)
        then some "dag_rootAt"
        -- explored, not proved (see level_note): a valid DAG with a single father-less node, re-rooted at one of its nodes,
        -- is again a valid DAG whose single father-less node is the new root
        else if res == ["ok"] && p.g.hasNode (nat n) && D.isDA p.g == .ok true && D.nbFatherless p.g == 1
                && (D.isDA di.g != .ok true || D.nbFatherless di.g != 1 || T.hasFather di.g (nat n) != some false)
        then some "dag_rerooted" else none
      | none => none
    match d.rootAt (nat n) with
    | .ok r => finishD st (gres okS r.1) r.2 (judgeD impl false spec)
    | .fuel => finishD st "diverges" d (judgeD impl false none2)
    | .exc => finishD st "exc:bpp" d (judgeD impl false none2)
    | .ub => finishD st "ub" d (judgeD impl false none2)
  | ["d.valid"] =>
    let (r, d') := d.isValid
    finishD st (showR showBool r) d' (judgeD impl true none2)
  | ["d.rooted"] =>
    let (r, d') := d.isRooted
    -- the answer: true iff at most one node of the reported graph has no father
    let spec : List String → D → Option String := fun res di =>
      if res != [showBool (decide (D.nbFatherless di.g ≤ 1))] then some "rooted_answer" else none
    finishD st (showBool r) d' (judgeD impl false spec)
  | ["d.belowN", n] =>
    let (r, d') := d.getBelow false (nat n)
    finishD st (showR showL r) d' (judgeD impl false none2)
  | ["d.belowE", n] =>
    let (r, d') := d.getBelow true (nat n)
    finishD st (showR showL r) d' (judgeD impl false none2)
  | ["d.leavesUnder", n] =>
    let (v, d') := d.isValid
    match v with
    | .ok true => finishD st (showR showL (d'.leavesUnderQ (nat n))) d' (judgeD impl false none2)
    | .ok false => finishD st "notvalid" d' (judgeD impl false none2)
    | r => finishD st (showR showBool r) d' (judgeD impl false none2)
  | ["d.qn", n] =>
    let n := nat n
    let o (x : Option String) := showOpt x
    let res := s!"hf {o ((T.hasFather g n).map showBool)} fa {o ((g.inNeighbors n).map showNats)} nf {o ((RowQ.nbIn (g.rowOf n)).map toString)} " ++
      s!"sons {o ((g.outNeighbors n).map showNats)} ns {o ((RowQ.nbOut (g.rowOf n)).map toString)} lf {o ((g.isLeaf n).map showBool)}"
    -- fathers and sons against the edge table of the report
    let spec : List String → D → Option String := fun res di =>
      if di.g.hasNode n then
        let (_, r1) := takeUntil ["fa"] res
        let (fa, r2) := takeUntil ["nf"] (r1.drop 1)
        let (_, r3) := takeUntil ["sons"] r2
        let (sons, _) := takeUntil ["ns"] (r3.drop 1)
        let tops := (di.g.edges.filter (fun p => p.2.2 == n)).map (·.2.1)
        let bots := (di.g.edges.filter (fun p => p.2.1 == n)).map (·.2.2)
        if !(natsOf fa).isPerm tops || !(natsOf sons).isPerm bots then some "dag_query" else none
      else none
    finishD st res d (judgeD impl false spec)
  | _ => (st, "bad-op", "-")

/-! ### tree observer mode -/

def showW : TW.WRes → String
  | .ok => "ok"
  | .exc .bpp => "exc:bpp"
  | .exc .std => "exc:std"
  | .ub => "ub"

def judgeW (impl : Option (List String)) (isValidQuery : Bool) (extra : List String → TW → Option String) : String × Option TW :=
  match impl with
  | none => ("-", none)
  | some ["hang"] => ("FAIL:terminates", none)
  | some [c] => if c.startsWith "crash:" then ("FAIL:no_crash", none) else ("FAIL:parse", none)
  | some _ =>
    match splitImpl impl with
    | some (res, stt) =>
      match parseTWI stt with
      | some (wi, ios) =>
        let treeNow := T.isTree wi.w.g
        let resS := " ".intercalate res
        let v :=
          match wi.w.g.check with
          | some c => "FAIL:consistent:" ++ c
          | none =>
            -- no observer holds an object of another observer's pool
            match (List.range ios.length).findSome? (fun k => ((ios[k]?).join).bind (IObs.foreign k)) with
            | some c => "FAIL:copy_independent:" ++ c
            | none =>
            match (List.range wi.w.obs.length).findSome? (fun k => (wi.w.getObs k).bind (fun o => o.check wi.w.g)) with
            | some c => "FAIL:keeps_object:obs:" ++ c
            | none =>
              if wi.valid && treeNow != .ok true then "FAIL:cache_sound"
              else if isValidQuery && resS != showR showBool treeNow then "FAIL:valid_answer"
              else match extra res wi with
                | some c => "FAIL:" ++ c
                | none => "ok"
        (v, some wi)
      | none => ("FAIL:parse", none)
    | none => ("FAIL:parse", none)

def finishW (st : St) (res : String) (tw' : TW) (jv : String × Option TW) : St × String × String :=
  let prev := match jv.2 with | some wi => some wi | none => st.prevW
  ({ st with tw := tw', prevW := prev }, res ++ " ; " ++ showTW tw', jv.1)

/-- `setFather` through the observer: the object is the one of the new link; the other associations
are the ones of before, minus the branch to the former father -/
def setFatherW (st : St) (impl : Option (List String)) (a f : Obj) (x : Option Obj) : St × String × String :=
  let tw := st.tw
  let prev := st.prevW
  let extra : List String → TW → Option String := fun res wi =>
    match x, wi.w.getObs st.osel with
    | some x', some o =>
      -- an object attached to another branch is refused and nothing changes
      if (match prev with | some p => p.setFatherForeign st.osel a x' && (res != ["exc:bpp"] || wi.w != p.w || wi.valid != p.valid) | none => false)
      then some "keeps_object" else
      if res == ["ok"] && World.edgeLinking wi.w o f a != some (some x') then some "keeps_object" else
      -- with everything it needs (judged on the implementation's previous report) the call must go through (`setFather_succeeds`)
      if (match prev with | some p => p.setFatherReady st.osel a f x' && res != ["ok"] | none => false) then some "keeps_object" else
      (match prev with
       | some p =>
         (match p.w.getObs st.osel with
          | some po =>
            if res == ["ok"] && po.Ng != o.Ng then some "keeps_object" else
            if res == ["ok"] && po.Eg.any (fun q => wi.w.g.hasEdge q.2 && q.1 != x' && AL.find q.1 o.Eg != some q.2) then some "keeps_object" else none
          | none => none)
       | none => none)
    | _, _ => none
  let r := tw.setFather st.osel a f x
  finishW st (showW r.1) r.2 (judgeW impl false extra)

def stepW (st : St) (op : List String) (impl : Option (List String)) : St × String × String :=
  let nat (s : String) : Nat := s.toNat?.getD 0
  let tw := st.tw
  let none2 : List String → TW → Option String := fun _ _ => none
  let mutr (r : TW.WRes × TW) (extra : List String → TW → Option String) := finishW st (showW r.1) r.2 (judgeW impl false extra)
  -- after a successful call with an edge object `x`: the object is the one of the link father -> son
  let keeps (f s : Obj) (x : Option Obj) : List String → TW → Option String := fun res wi =>
    match x, wi.w.getObs st.osel with
    | some x, some o =>
      if res == ["ok"] && World.edgeLinking wi.w o f s != some (some x) then some "keeps_object" else none
    | _, _ => none
  match op with
  | ["o.createNode", a] => mutr (tw.createNode st.osel (nat a)) none2
  | ["o.link", a, b, x] => mutr (tw.link st.osel (nat a) (nat b) (optObj x)) (keeps (nat a) (nat b) (optObj x))
  | ["o.unlink", a, b] => mutr (tw.unlink st.osel (nat a) (nat b)) none2
  | ["o.deleteNode", a] => mutr (tw.deleteNode st.osel (nat a)) none2
  | ["o.addSon", a, s, x] =>
    let prev := st.prevW
    -- with an edge object and everything it needs (judged on the implementation's previous report) the call must go through
    let extra : List String → TW → Option String := fun res wi =>
      match keeps (nat a) (nat s) (optObj x) res wi with
      | some c => some c
      | none =>
        match prev, optObj x with
        | some p, some x' => if p.addSonReady st.osel (nat a) (nat s) x' && res != ["ok"] then some "keeps_object" else none
        | _, _ => none
    mutr (tw.addSon st.osel (nat a) (nat s) (optObj x)) extra
  | ["o.setFatherCur", a, f] =>
    -- with the object of the branch to the current father (none: without object)
    let x : Option Obj := match tw.w.getObs st.osel with
      | some ob => (tw.edgeToFather ob (nat a)).join
      | none => none
    setFatherW st impl (nat a) (nat f) x
  | ["o.setFather", a, f, x] => setFatherW st impl (nat a) (nat f) (optObj x)
  | ["o.sel", k] =>
    if nat k < 3 && (tw.w.getObs (nat k)).isSome then
      let r := finishW st "ok" tw (judgeW impl false none2)
      ({ r.1 with osel := nat k }, r.2)
    else finishW st "bad-slot" tw (judgeW impl false none2)
  | [o, j, k] =>
    if o == "o.copy" || o == "o.clone" || o == "o.assign" then
      let j := nat j
      let k := nat k
      -- the copy has the relations of the source (by label) and nothing else changed
      let prev := st.prevW
      let extra : List String → TW → Option String := fun res wi =>
        match prev with
        | some p =>
          if wi.w.g != p.w.g || wi.valid != p.valid then some "copy_independent" else
          if (List.range 3).any (fun i => i != k && wi.w.getObs i != p.w.getObs i) then some "copy_independent" else
          if res.head? == some "ok" && j != k then
            (match wi.w.getObs j, wi.w.getObs k with
             | some oj, some ok => if oj.sameRelations ok && ok.sameRelations oj then none else some "copy_same_relations"
             | _, _ => some "copy_same_relations")
          else none
        | none => none
      if j ≥ 3 || k ≥ 3 || (tw.w.getObs j).isNone || (o == "o.assign" && (tw.w.getObs k).isNone) || (o != "o.assign" && (j == k || k == 0)) then
        finishW st "bad-slot" tw (judgeW impl false none2)
      else
        let r := if o == "o.copy" then tw.copyObs j k else if o == "o.clone" then tw.cloneObs j k else tw.assignObs j k
        let res := match r.1 with
          | .ok => if o == "o.assign" && j == k then "ok self" else "ok shared 1"
          | x => showW x
        let fin := finishW st res r.2 (judgeW impl false extra)
        -- the selected observer may have been replaced: it stays selected
        fin
    else if o == "o.removeSon" then
      let prev := st.prevW
      let extra : List String → TW → Option String := fun res wi =>
        match prev with
        | some p =>
          (match p.w.getObs st.osel with
           | some po =>
             match AL.find (nat j) po.Ng, AL.find (nat k) po.Ng with
             | some ia, some ib => if res == ["ok"] && !relationRemoved p.w.g wi.w.g ia ib then some "removes_relation" else none
             | _, _ => none
           | none => none)
        | none => none
      mutr (tw.removeSon st.osel (nat j) (nat k)) extra
    else if o == "o.qp" then
      let res := match tw.w.getObs st.osel with
        | some ob => "linking " ++ showOpt ((World.edgeLinking tw.w ob (nat j) (nat k)).map showOO)
        | none => "ub"
      finishW st res tw (judgeW impl false none2)
    else if o == "o.qi" then
      -- the index overloads (called by the harness on an indexed temporary copy of the observer) answer what the object
      -- overloads answer (theorems `obs_copy_same_tree(_rest)`): the model's answers are those of the object level
      let (v, tw1) := tw.isValid
      if v == .exc then finishW st "exc:bpp" tw1 (judgeW impl false none2) else
      if v != .ok true || !tw1.w.g.directed then finishW st "notrooted" tw1 (judgeW impl false none2) else
      let a := nat j
      let b := nat k
      let sh (r : TRes (List Obj)) : String := match r with | .ok l => showObjs l | .exc => "exc:bpp" | .fuel => "diverges" | .ub => "ub"
      match tw1.w.getObs st.osel with
      | none => finishW st "ub" tw1 (judgeW impl false none2)
      | some ob =>
        if (AL.find a ob.Ng).isNone || (AL.find b ob.Ng).isNone then finishW st "exc:bpp" tw1 (judgeW impl false none2) else
        let ef := tw1.edgeToFather ob a
        let ends : Option (Option Obj × Option Obj) := match ef with | some (some x) => World.edgeEnds tw1.w ob x | _ => none
        let endS (f : Option Obj × Option Obj → Option Obj) : String := match ends with | some p => (match f p with | some n => toString n | none => "exc:bpp") | none => "exc:bpp"
        let res := s!"ef {showOpt (ef.map showOO)} hf {showOpt ((tw1.hasFatherObj ob a).map showBool)} " ++
          s!"sons {showOpt ((World.nodeQuery tw1.w ob a (fun g n => g.outNeighbors n) false).map showObjs)} " ++
          s!"br {showOpt ((World.nodeQuery tw1.w ob a (fun g n => g.outEdges n) true).map showObjs)} " ++
          s!"lu {sh (tw1.leavesUnderObj ob a)} np {sh (tw1.nodePathObj ob a b)} ep {sh (tw1.edgePathObj ob a b)} " ++
          s!"sn {sh (tw1.subtreeNodesObj ob a)} se {sh (tw1.subtreeEdgesObj ob a)} so {endS (·.2)} fe {endS (·.1)}"
        finishW st res tw1 (judgeW impl false none2)
    else if o == "o.qt" then
      -- the object-level queries of a valid rooted tree
      let (v, tw1) := tw.isValid
      if v == .exc then finishW st "exc:bpp" tw1 (judgeW impl false none2) else
      if v != .ok true || !tw1.w.g.directed then finishW st "notrooted" tw1 (judgeW impl false none2) else
      let a := nat j
      let b := nat k
      let sh (r : TRes (List Obj)) : String := match r with | .ok l => showObjs l | .exc => "exc:bpp" | .fuel => "diverges" | .ub => "ub"
      match tw1.w.getObs st.osel with
      | none => finishW st "ub" tw1 (judgeW impl false none2)
      | some ob =>
        let res := s!"hf {showOpt ((tw1.hasFatherObj ob a).map showBool)} ns {showOpt ((tw1.nbSonsObj ob a).map toString)} " ++
          s!"lu {sh (tw1.leavesUnderObj ob a)} sn {sh (tw1.subtreeNodesObj ob a)} se {sh (tw1.subtreeEdgesObj ob a)} " ++
          s!"np {sh (tw1.nodePathObj ob a b)} ep {sh (tw1.edgePathObj ob a b)} " ++
          s!"mr {match tw1.mrcaObj ob [a, b] with | .ok m => showOO m | .exc => "exc:bpp" | .fuel => "diverges" | .ub => "ub"}"
        -- against the reference tree of the reported graph, when every node carries an object of the observer
        let spec : List String → TW → Option String := fun res wi =>
          match refOf wi.w.g, wi.w.getObs st.osel with
          | some rf, some o =>
            match AL.find a o.Ng, AL.find b o.Ng with
            | some ia, some ib =>
              if o.Ng.length != rf.nodes.length then none else
              let ids (l : List String) : Option (List Nat) := l.mapM (fun x => x.toNat?.bind (fun y => AL.find y o.Ng))
              let (_, r1) := takeUntil ["lu"] res
              let (lu, r2) := takeUntil ["sn"] (r1.drop 1)
              let (sn, r3) := takeUntil ["se"] (r2.drop 1)
              let (_, r4) := takeUntil ["np"] (r3.drop 1)
              let (np, r5) := takeUntil ["ep"] (r4.drop 1)
              let (_, r6) := takeUntil ["mr"] (r5.drop 1)
              let mr := r6.drop 1
              if (match ids lu with | some l => !rf.isLeavesUnder ia l | none => true) then some "tree_spec" else
              if (match ids sn with | some l => !rf.isSubtree ia l | none => true) then some "tree_spec" else
              if (match ids np with | some l => !rf.isPath ia ib l | none => true) then some "tree_spec" else
              if (match ids mr with | some [m] => !rf.isMrca [ia, ib] m | _ => true) then some "mrca_spec" else none
            | _, _ => none
          | _, _ => none
        finishW st res tw1 (judgeW impl false spec)
    else (st, "bad-op", "-")
  | ["o.removeSons", a] =>
    let r := tw.removeSons st.osel (nat a)
    let res := match r.1, r.2.1 with
      | some l, _ => "l " ++ showObjs l
      | none, x => showW x
    finishW st res r.2.2 (judgeW impl false none2)
  | ["o.rootAt", a] =>
    let prev := st.prevW
    -- re-rooting changes no association
    let extra : List String → TW → Option String := fun _ wi =>
      match prev with
      | some p => if p.w.obs != wi.w.obs then some "keeps_object" else none
      | none => none
    match tw.rootAt st.osel (nat a) with
    | .ok r => finishW st (showW r.1) r.2 (judgeW impl false extra)
    | .fuel => finishW st "diverges" tw (judgeW impl false none2)
    | .exc => finishW st "exc:bpp" tw (judgeW impl false none2)
    | .ub => finishW st "ub" tw (judgeW impl false none2)
  | ["o.setRoot", a] => mutr (tw.setRootObj st.osel (nat a)) none2
  | ["o.valid"] =>
    let (r, tw') := tw.isValid
    finishW st (showR showBool r) tw' (judgeW impl true none2)
  | ["o.qn", a] =>
    let o (x : Option String) := showOpt x
    let res := match tw.w.getObs st.osel with
      | some ob =>
        s!"fa {o ((tw.fatherOf ob (nat a)).map showOO)} ef {o ((tw.edgeToFather ob (nat a)).map showOO)} " ++
        s!"sons {o ((World.nodeQuery tw.w ob (nat a) (fun g n => g.outNeighbors n) false).map showObjs)} " ++
        s!"br {o ((World.nodeQuery tw.w ob (nat a) (fun g n => g.outEdges n) true).map showObjs)}"
      | none => "ub"
    finishW st res tw (judgeW impl false none2)
  | _ => (st, "bad-op", "-")

/-! ### DAG observer mode -/

def showDW (dw : DW) : String := showWorld dw.w ++ " V " ++ showBool dw.valid ++ " R " ++ showBool dw.rooted

def parseDWI (tk : List String) : Option (DW × List (Option IObs)) :=
  let (wt, rest) := takeUntil ["V"] tk
  match parseWorldI wt, rest with
  | some (g, ios), ["V", v, "R", r] =>
    some ({ w := { g := g, obs := ios.map (fun o => o.map IObs.labels) }, valid := v == "1", rooted := r == "1" }, ios)
  | _, _ => none

def judgeDW (impl : Option (List String)) (isValidQuery : Bool) (extra : List String → DW → Option String) : String × Option DW :=
  match impl with
  | none => ("-", none)
  | some ["hang"] => ("FAIL:terminates", none)
  | some [c] => if c.startsWith "crash:" then ("FAIL:no_crash", none) else ("FAIL:parse", none)
  | some _ =>
    match splitImpl impl with
    | some (res, stt) =>
      match parseDWI stt with
      | some (wi, ios) =>
        let resS := " ".intercalate res
        let v :=
          match checkD wi.toD with
          | some c => "FAIL:" ++ c
          | none =>
            match (List.range ios.length).findSome? (fun k => ((ios[k]?).join).bind (IObs.foreign k)) with
            | some c => "FAIL:copy_independent:" ++ c
            | none =>
            match (List.range wi.w.obs.length).findSome? (fun k => (wi.w.getObs k).bind (fun o => o.check wi.w.g)) with
            | some c => "FAIL:keeps_object:obs:" ++ c
            | none =>
              if isValidQuery && resS != showR showBool (D.isDA wi.w.g) then "FAIL:valid_answer"
              else if isValidQuery && (resS == "1" || resS == "0") && wi.w.g.directed && resS != showBool (isAcyclicRef wi.w.g) then "FAIL:valid_iff"
              else match extra res wi with
                | some c => "FAIL:" ++ c
                | none => "ok"
        (v, some wi)
      | none => ("FAIL:parse", none)
    | none => ("FAIL:parse", none)

def finishDW (st : St) (res : String) (dw' : DW) (jv : String × Option DW) : St × String × String :=
  let prev := match jv.2 with | some wi => some wi | none => st.prevDW
  ({ st with dw := dw', prevDW := prev }, res ++ " ; " ++ showDW dw', jv.1)

def stepDW (st : St) (op : List String) (impl : Option (List String)) : St × String × String :=
  let nat (s : String) : Nat := s.toNat?.getD 0
  let dw := st.dw
  let k := st.osel
  let none2 : List String → DW → Option String := fun _ _ => none
  let mutr (r : TW.WRes × DW) (extra : List String → DW → Option String) := finishDW st (showW r.1) r.2 (judgeDW impl false extra)
  -- after a successful call with an edge object `x`: the object is the one of the relation father -> son
  let keeps (f s : Obj) (x : Option Obj) : List String → DW → Option String := fun res wi =>
    match x, wi.w.getObs k with
    | some x, some o =>
      if res == ["ok"] && World.edgeLinking wi.w o f s != some (some x) then some "keeps_object" else none
    | _, _ => none
  let sh (r : TRes (List Obj)) : String := match r with | .ok l => showObjs l | .exc => "exc:bpp" | .fuel => "diverges" | .ub => "ub"
  let o (x : Option String) := showOpt x
  -- after a successful removal of the relation father -> son (objects): it is gone, the others are there
  let removed (f s : Obj) : List String → DW → Option String := fun res wi =>
    match st.prevDW with
    | some p =>
      (match p.w.getObs k with
       | some po =>
         match AL.find f po.Ng, AL.find s po.Ng with
         | some ia, some ib => if res == ["ok"] && !relationRemoved p.w.g wi.w.g ia ib then some "removes_relation" else none
         | _, _ => none
       | none => none)
    | none => none
  match op with
  | ["w.sel", j] =>
    if nat j < 3 && (dw.w.getObs (nat j)).isSome then
      let r := finishDW st "ok" dw (judgeDW impl false none2)
      ({ r.1 with osel := nat j }, r.2)
    else finishDW st "bad-slot" dw (judgeDW impl false none2)
  | ["w.createNode", a] => mutr (dw.createNode k (nat a)) none2
  | ["w.link", a, b, x] => mutr (dw.link k (nat a) (nat b) (optObj x)) (keeps (nat a) (nat b) (optObj x))
  | ["w.unlink", a, b] => mutr (dw.unlink k (nat a) (nat b)) none2
  | ["w.deleteNode", a] => mutr (dw.deleteNode k (nat a)) none2
  | ["w.addFather", n, f, x] => mutr (dw.addFather k (nat n) (nat f) (optObj x)) (keeps (nat f) (nat n) (optObj x))
  | ["w.addSon", n, s, x] => mutr (dw.addSon k (nat n) (nat s) (optObj x)) (keeps (nat n) (nat s) (optObj x))
  | ["w.removeFather", n, f] => mutr (dw.removeFather k (nat n) (nat f)) (removed (nat f) (nat n))
  | ["w.removeSon", n, s] => mutr (dw.removeSon k (nat n) (nat s)) (removed (nat n) (nat s))
  | ["w.removeFathers", n] =>
    let r := dw.removeAll k (nat n) true
    finishDW st (match r.1, r.2.1 with | some l, _ => "l " ++ showObjs l | none, x => showW x) r.2.2 (judgeDW impl false none2)
  | ["w.removeSons", n] =>
    let r := dw.removeAll k (nat n) false
    finishDW st (match r.1, r.2.1 with | some l, _ => "l " ++ showObjs l | none, x => showW x) r.2.2 (judgeDW impl false none2)
  | ["w.rootAt", a] =>
    let prev := st.prevDW
    let undirectedEdges (g : G) := g.edges.map (fun p => (p.1, min p.2.1 p.2.2, max p.2.1 p.2.2))
    -- re-rooting changes no association, no node, no undirected edge
    let extra : List String → DW → Option String := fun _ wi =>
      match prev with
      | some p =>
        if p.w.obs != wi.w.obs then some "keeps_object"
        else if undirectedEdges wi.w.g != undirectedEdges p.w.g || AL.keys wi.w.g.nodes != AL.keys p.w.g.nodes then some "dag_rootAt"
        else none
      | none => none
    match dw.rootAt k (nat a) with
    | .ok r => finishDW st (showW r.1) r.2 (judgeDW impl false extra)
    | .fuel => finishDW st "diverges" dw (judgeDW impl false none2)
    | .exc => finishDW st "exc:bpp" dw (judgeDW impl false none2)
    | .ub => finishDW st "ub" dw (judgeDW impl false none2)
  | ["w.valid"] =>
    let (r, dw') := dw.isValid
    finishDW st (showR showBool r) dw' (judgeDW impl true none2)
  | ["w.rooted"] =>
    let (r, dw') := dw.isRooted
    let spec : List String → DW → Option String := fun res wi =>
      if res != [showBool (decide (D.nbFatherless wi.w.g ≤ 1))] then some "rooted_answer" else none
    finishDW st (showBool r) dw' (judgeDW impl false spec)
  | ["w.qn", a] =>
    let res := match dw.w.getObs k with
      | some ob =>
        s!"hf {o (((AL.find (nat a) ob.Ng).bind (T.hasFather dw.w.g)).map showBool)} fa {o ((dw.fathersObj ob (nat a)).map showObjs)} " ++
        s!"nf {o ((dw.nbFathersObj ob (nat a)).map toString)} sons {o ((dw.sonsObj ob (nat a)).map showObjs)} ns {o ((dw.nbSonsObj ob (nat a)).map toString)}"
      | none => "ub"
    -- fathers and sons, as objects, against the edge table of the report (when every node carries an object of the observer)
    let spec : List String → DW → Option String := fun res wi =>
      match wi.w.getObs k with
      | some ob =>
        match AL.find (nat a) ob.Ng with
        | some ia =>
          if ob.Ng.length != wi.w.g.nodes.length then none else
          let ids (l : List String) : Option (List Nat) := l.mapM (fun x => x.toNat?.bind (fun y => AL.find y ob.Ng))
          let (_, r1) := takeUntil ["fa"] res
          let (fa, r2) := takeUntil ["nf"] (r1.drop 1)
          let (_, r3) := takeUntil ["sons"] r2
          let (sons, _) := takeUntil ["ns"] (r3.drop 1)
          let tops := (wi.w.g.edges.filter (fun p => p.2.2 == ia)).map (·.2.1)
          let bots := (wi.w.g.edges.filter (fun p => p.2.1 == ia)).map (·.2.2)
          if (match ids fa with | some l => !l.isPerm tops | none => true) || (match ids sons with | some l => !l.isPerm bots | none => true)
          then some "dag_query" else none
        | none => none
      | none => none
    finishDW st res dw (judgeDW impl false spec)
  | ["w.setRoot", a] => mutr (dw.setRootObj k (nat a)) none2
  | ["w.qi", a, x] =>
    -- the index overloads of the DAG observer, called by the harness on an indexed temporary copy
    let res := match dw.w.getObs k with
      | some ob =>
        let na := if (AL.find (nat a) ob.Ng).isNone then "hf exc:bpp fa exc:bpp sons exc:bpp" else
          s!"hf {o (((AL.find (nat a) ob.Ng).bind (T.hasFather dw.w.g)).map showBool)} fa {o ((dw.fathersObj ob (nat a)).map showObjs)} sons {o ((dw.sonsObj ob (nat a)).map showObjs)}"
        let oo (r : Option (Option Obj)) : String := match r with | some (some n) => toString n | _ => "exc:bpp"
        let ex := if (AL.find (nat x) ob.Eg).isNone then "son exc:bpp fe exc:bpp" else
          s!"son {oo (dw.sonOfEdge ob (nat x))} fe {oo (dw.fatherOfEdge ob (nat x))}"
        na ++ " " ++ ex
      | none => "ub"
    finishDW st res dw (judgeDW impl false none2)
  | ["w.qe", x] =>
    let res := match dw.w.getObs k with
      | some ob => s!"son {o ((dw.sonOfEdge ob (nat x)).map showOO)} fa {o ((dw.fatherOfEdge ob (nat x)).map showOO)}"
      | none => "ub"
    finishDW st res dw (judgeDW impl false none2)
  | ["w.below", a] =>
    match dw.w.getObs k with
    | none => finishDW st "ub" dw (judgeDW impl false none2)
    | some ob =>
      let (bn, dw1) := dw.belowObj ob (nat a) false
      let (be, dw2) := dw1.belowObj ob (nat a) true
      let (v, dw3) := dw2.isValid
      let lu := if v == .ok true then sh (dw3.leavesUnderObj ob (nat a)) else "notvalid"
      finishDW st s!"bn {sh bn} be {sh be} lu {lu}" dw3 (judgeDW impl false none2)
  | [c, j, i] =>
    if c == "w.copy" || c == "w.clone" || c == "w.assign" then
      let j := nat j
      let i := nat i
      let prev := st.prevDW
      let extra : List String → DW → Option String := fun res wi =>
        match prev with
        | some p =>
          if wi.w.g != p.w.g || wi.valid != p.valid || wi.rooted != p.rooted then some "copy_independent" else
          if (List.range 3).any (fun m => m != i && wi.w.getObs m != p.w.getObs m) then some "copy_independent" else
          if res.head? == some "ok" && j != i then
            (match wi.w.getObs j, wi.w.getObs i with
             | some oj, some oi => if oj.sameRelations oi && oi.sameRelations oj then none else some "copy_same_relations"
             | _, _ => some "copy_same_relations")
          else none
        | none => none
      if j ≥ 3 || i ≥ 3 || (dw.w.getObs j).isNone || (c == "w.assign" && (dw.w.getObs i).isNone) || (c != "w.assign" && (j == i || i == 0)) then
        finishDW st "bad-slot" dw (judgeDW impl false none2)
      else
        let r := if c == "w.copy" then dw.copyObs j i else if c == "w.clone" then dw.cloneObs j i else dw.assignObs j i
        let res := match r.1 with
          | .ok => if c == "w.assign" && j == i then "ok self" else "ok shared 1"
          | x => showW x
        finishDW st res r.2 (judgeDW impl false extra)
    else (st, "bad-op", "-")
  | _ => (st, "bad-op", "-")

def step (st : St) (op : List String) (impl : Option (List String)) : St × String × String :=
  match op with
  | o :: _ =>
    if o.startsWith "h." then (if st.isDag then stepDH st op impl else stepTH st op impl)
    else if o.startsWith "w." then stepDW st op impl
    else if o.startsWith "d." then stepD st op impl
    else if o.startsWith "o." then stepW st op impl
    else stepT st op impl
  | [] => (st, "bad-op", "-")

def init (tk : List String) : St :=
  let kind := tk[1]?.getD "dir"
  { t := T.empty (kind != "undir"), d := D.empty, tw := TW.init (kind != "obsundir"), prev := none, prevW := none, prevD := none,
    isDag := kind == "dag" }

def machine : Machine St := { init := init, step := step }

end Bpp.Drive.C15
