import BppModel.Proto
import BppModel.Alias
import BppModel.AliasSpec
/-
Driver for C03 (AbstractParameterAliasable).  Three object slots.  After each operation the
model prints the result and the view of every slot (`Alias.viewOf`); the implementation's
answer is parsed back into a view and the clauses of the property (`Alias.checkStep`) are
evaluated on (previous implementation view, operation, answer, new implementation view).
-/
namespace Bpp.Drive.C03
open Bpp Bpp.Proto Bpp.Alias
open Bpp.ParamList (Bnd Con Par)

structure St where
  m : World := World.init
  impl : View := (List.range NSLOT).map (fun _ => none)
  implOk : Bool := true

/-! ### printing -/

def showName (s : String) : String := if s.isEmpty then "-" else s
def readName (s : String) : String := if s == "-" then "" else s

def showQ (v : Rat) : String :=
  let x := v * 4
  if x.den == 1 then toString x.num else "x" ++ toString v.num ++ "/" ++ toString v.den

def showBnd : Bnd → String
  | .negInf => "-inf"
  | .posInf => "+inf"
  | .fin q => showQ q

def showCon : Option Con → String
  | none => "-"
  | some c => "c:" ++ showBool c.inclLo ++ ":" ++ showBnd c.lo ++ ":" ++ showBnd c.hi ++ ":" ++ showBool c.inclHi

def showSV : Option SV → String
  | none => " ; -"
  | some s =>
    " ; pre=" ++ showName s.pre ++ " P" ++
    String.join (s.params.map (fun p => " " ++ showName p.name ++ "," ++ showQ p.value ++ "," ++ showCon p.con)) ++
    " L" ++ String.join (s.links.map (fun l => " " ++ showName l.1 ++ ">" ++ showName l.2)) ++
    " I" ++ String.join (s.indep.map (fun e => " " ++ showName e.1 ++ "@" ++
      (match e.2 with | some n => toString n | none => "x")))

def showErr : Err → String
  | .constraint => "exc:constraint"
  | .notfound => "exc:notfound"
  | .bpp => "exc:bpp"
  | .ub => "exc:ub"
  | .hang => "hang"

def showOut : Out → String
  | .ok => "ok"
  | .err e => showErr e
  | .flag b => "flag " ++ showBool b
  | .strs l => "strs" ++ String.join (l.map (fun s => " " ++ showName s))
  | .pairs l => "pairs" ++ String.join (l.map (fun e => " " ++ showName e.1 ++ ":" ++ showName e.2))
  | .str s => "str " ++ showName s

def showView (out : Out) (v : View) : String := showOut out ++ String.join (v.map showSV)

/-! ### parsing -/

def quarter? (s : String) : Option Rat := (int? s).map (fun n => (n : Rat) / 4)

def bnd? (s : String) : Option Bnd :=
  if s == "-inf" then some .negInf else if s == "+inf" then some .posInf else (quarter? s).map .fin

def bool? (s : String) : Option Bool :=
  if s == "1" then some true else if s == "0" then some false else none

def con? (s : String) : Option (Option Con) :=
  if s == "-" then some none
  else match s.splitOn ":" with
    | ["c", il, lo, hi, ih] =>
      match bool? il, bnd? lo, bnd? hi, bool? ih with
      | some il, some lo, some hi, some ih => some (some ⟨lo, hi, il, ih⟩)
      | _, _, _, _ => none
    | _ => none

def isSlot (k : Nat) : Bool := decide (k < NSLOT)

def pairQ? (s : String) : Option (String × Rat) :=
  match s.splitOn "=" with
  | [n, q] => (quarter? q).map (fun q => (readName n, q))
  | _ => none

def pairS? (s : String) : Option (String × String) :=
  match s.splitOn ":" with
  | [a, b] => some (readName a, readName b)
  | _ => none

def parseOp (t : List String) : Option Op :=
  match t with
  | ["new", k, pre] => do let k ← nat? k; guard (isSlot k); pure (.new k (readName pre))
  | ["add", k, n, q, c] => do
    let k ← nat? k; let q ← quarter? q; let c ← con? c; guard (isSlot k); pure (.add k ⟨readName n, q, c⟩)
  | ["alias", k, a, b] => do let k ← nat? k; guard (isSlot k); pure (.alias k (readName a) (readName b))
  | ["unalias", k, a, b] => do let k ← nat? k; guard (isSlot k); pure (.unalias k (readName a) (readName b))
  | "bulk" :: k :: es => do let k ← nat? k; let es ← es.mapM pairS?; guard (isSlot k); pure (.bulk k es)
  | ["setv", k, n, q] => do let k ← nat? k; let q ← quarter? q; guard (isSlot k); pure (.setv k (readName n) q)
  | "setvs" :: k :: es => do let k ← nat? k; let es ← es.mapM pairQ?; guard (isSlot k); pure (.setvs k es)
  | "matchvs" :: k :: es => do let k ← nat? k; let es ← es.mapM pairQ?; guard (isSlot k); pure (.matchvs k es)
  | "setallv" :: k :: es => do let k ← nat? k; let es ← es.mapM pairQ?; guard (isSlot k); pure (.setallv k es)
  | ["copy", s, d] => do let s ← nat? s; let d ← nat? d; guard (isSlot s && isSlot d); pure (.copy s d)
  | ["assign", s, d] => do let s ← nat? s; let d ← nat? d; guard (isSlot s && isSlot d); pure (.assign s d)
  | ["ns", k, pre] => do let k ← nat? k; guard (isSlot k); pure (.ns k (readName pre))
  | ["aliases", k] => do let k ← nat? k; guard (isSlot k); pure (.aliases k)
  | ["aliasof", k, n] => do let k ← nat? k; guard (isSlot k); pure (.aliasOf k (readName n))
  | ["from", k, n] => do let k ← nat? k; guard (isSlot k); pure (.from k (readName n))
  | _ => none

/-- a source list with a repeated name cannot be built by the harness (`addParameter` raises) -/
def srcNodup : Op → Bool
  | .setvs _ src | .matchvs _ src | .setallv _ src => decide (src.map (·.1)).Nodup
  | _ => true

def parseOut (t : List String) : Option Out :=
  match t with
  | ["ok"] => some .ok
  | ["exc:constraint"] => some (.err .constraint)
  | ["exc:notfound"] => some (.err .notfound)
  | ["exc:bpp"] => some (.err .bpp)
  | ["exc:ub"] => some (.err .ub)
  | ["hang"] => some (.err .hang)
  | ["flag", b] => (bool? b).map .flag
  | "strs" :: l => some (.strs (l.map readName))
  | "pairs" :: l => (l.mapM pairS?).map .pairs
  | ["str", s] => some (.str (readName s))
  | [c] => if c.startsWith "crash:" then some (.err .ub) else none
  | _ => none

def pv? (s : String) : Option PV :=
  match s.splitOn "," with
  | [n, q, c] => do let q ← quarter? q; let c ← con? c; pure ⟨readName n, q, c⟩
  | _ => none

def link? (s : String) : Option (String × String) :=
  match s.splitOn ">" with
  | [a, b] => some (readName a, readName b)
  | _ => none

def indep? (s : String) : Option (String × Option Nat) :=
  match s.splitOn "@" with
  | [n, p] => if p == "x" then some (readName n, none) else (nat? p).map (fun k => (readName n, some k))
  | _ => none

def sv? (t : List String) : Option (Option SV) :=
  match t with
  | ["-"] => some none
  | pre :: "P" :: rest =>
    if !pre.startsWith "pre=" then none else
    let ps := rest.takeWhile (· ≠ "L")
    let r1 := (rest.dropWhile (· ≠ "L")).drop 1
    let ls := r1.takeWhile (· ≠ "I")
    let is := (r1.dropWhile (· ≠ "I")).drop 1
    do
      let ps ← ps.mapM pv?
      let ls ← ls.mapM link?
      let is ← is.mapM indep?
      pure (some { pre := readName (pre.drop 4).toString, params := ps, links := ls, indep := is })
  | _ => none

def parseImpl (prev : View) (t : List String) : Option (Out × View) :=
  match splitTok ";" t with
  | [res] => (parseOut res).map (fun o => (o, prev))      -- `hang` / `crash:<rc>`: no state printed
  | res :: slots =>
    if slots.length != NSLOT then none else do
      let out ← parseOut res
      let v ← slots.mapM sv?
      pure (out, v)
  | _ => none

/-! ### the machine -/

def step (s : St) (opToks : List String) (impl : Option (List String)) : St × String × String :=
  match parseOp opToks with
  | none => (s, "bad-op", "-")
  | some op =>
    if !srcNodup op then (s, "bad-op", "-") else
    if !op.needs.all (fun k => (s.m.objs k).isSome) then
      -- the script names an empty slot: not a library outcome
      (s, "absent" ++ String.join ((viewOf s.m).map showSV), "-") else
    let (m', out) := Alias.step s.m op
    let line := showView out (viewOf m')
    match impl with
    | none => ({ s with m := m' }, line, "-")
    | some t =>
      if !s.implOk then ({ s with m := m' }, line, "-")
      else match parseImpl s.impl t with
        | none => ({ s with m := m', implOk := false }, line, "-")
        | some (o, a) =>
          let verdict := match checkStep s.impl op o a with
            | none => (match checkKnown s.impl op o a with
              | none => "ok"
              | some c => "FAIL:" ++ c)
            | some c => "FAIL:" ++ c
          ({ m := m', impl := a, implOk := true }, line, verdict)

def machine : Machine St := { init := fun _ => {}, step := step }

end Bpp.Drive.C03
