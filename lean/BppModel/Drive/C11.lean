import BppModel.Proto
import BppModel.Transform
import BppModel.Reparam
import BppModel.ReparamObj
/-
Driver for C11 (TransformedParameter.h, ReparametrizationFunctionWrapper).
Registers t0..t3 hold transformed parameters.  The model runs at `Float`
(bit-exact tie); the verdicts are the Float shadows of the theorems of
lean/BppProofs/Props/C11.lean evaluated on the *implementation's* answers:
round trip (`*_roundtrip`), `back_in_domain`, monotonicity (`strict_mono`) and
finite differences against `d1`, `d2` (`d1_is_derivative`, `d2_is_derivative`), `clone_carries`
(`t.clone`); and of lean/BppProofs/Props/C11Wrapper.lean / C11Copy.lean for the wrapper ops.

Since round 3 the wrappers are *objects* (`BppModel/ReparamObj.lean`): function registers f0 f1,
wrapper registers w0..w3 of the three classes, a current register.  `w.new` / `w.newsub` (drop
everything, one function, one class-2 wrapper), `f.new`, `w.mk` (either constructor, any class, any
sub-list), `w.use`, `w.clone` / `w.copy` / `w.assign` (`copy_carries`, `assign_carries`:
`copyVerdict`), `w.names` (`every_wrapper_aligned`), `w.set`, `w.touch` = `f()` on current values
(`wrap_f_eq`, `back_in_domain`, `wrap_sync`, `wrap_near`, `wrap_untouched`, `set_never_raises`:
`setVerdict` on the slot views `Wr.view?` before and after, following `interleaved_eval`), `w.get`
(`wrap_f_eq`, `get_is_pure`, shared function), `w.pv` / `w.all` / `w.match` / `w.pvs` / `w.fire`
(`inherited_private` = `inherited_setters_stay_private`), `w.en` (`enable_delegates`), `w.d1`, `w.d2`
(`derivative_defined`), `w.fd`, `w.fd1`, `w.fdx` (`chain_rule_1/2/2_cross`), `f.set` (the owner moves
the function); `wrap_preserves_values`, `wrap_nudge` at every construction.
-/
namespace Bpp.Drive.C11
open Bpp Bpp.Proto Bpp.Transform Bpp.Reparam Bpp.ReparamObj

abbrev F := Float

def pi : F := libPI
def tiny : F := libTINY

def fl? (s : String) : Option F := if s == "nan" then some (0.0 / 0.0) else Hex.float? s
def sh (x : F) : String := Hex.ofFloatCanon x
def shs (l : List F) : String := " ".intercalate (l.map sh)
def fls? (l : List String) : Option (List F) := l.mapM fl?

def fmax (a b : F) : F := if a < b then b else a
def fabs (a : F) : F := Float.abs a
def finite (x : F) : Bool := !(x.isNaN || x.isInf)
def eps : F := Float.ofScientific 1 true 0 / 4503599627370496.0   -- 2^-52
/-- absolute floor of the finite-difference allowances: quantities in the subnormal range carry no
relative precision (found by the directed search: coefficient 5e-324) -/
def absFloor : F := 1e-280

/-- the wrapped function as the wrapper sees it: the coefficients of the polynomial, which of the
function's parameters each wrapper coordinate stands for (`sel`, all of them in order for the first
constructor, the given sub-list in the given order for the second one, h:53-59), and the function's
initial values (`base`): the parameters outside `sel` keep them for ever. -/
structure Ctx where
  cs : List (Coef Float)
  sel : List Nat
  base : List Float

/-- the objects of a case: a world of function objects and wrapper objects (`BppModel/ReparamObj`),
the polynomial coefficients of each function, and the registers of the protocol: function registers
`f0 f1`, wrapper registers `w0..w3` (index of the wrapper in the world and its class: 0 =
ReparametrizationFunctionWrapper, 1 = ...DerivableFirstOrderWrapper, 2 = ...DerivableSecondOrderWrapper),
and the current wrapper register (`w.use`) the single-wrapper operations act on -/
structure St where
  t : Array (Option (TP F)) := Array.replicate 4 none
  world : World F := {}
  cs : Array (List (Coef F)) := #[]
  freg : Array (Option Nat) := Array.replicate 2 none
  wreg : Array (Option (Nat × Nat)) := Array.replicate 4 none
  cur : Nat := 0

/-! ### executable predicates (Float shadows of the theorems) -/

/-- bounds of the original interval of a transformed parameter: (lo?, hi?) -/
def domain : TP F → Option F × Option F
  | .r t => if t.positive then (some t.bound, none) else (none, some t.bound)
  | .i t => (some t.lo, some t.hi)
  | .p _ => (none, none)

/-- +1 increasing, -1 decreasing -/
def orientation : TP F → F
  | .r t => if t.positive then 1.0 else -1.0
  | _ => 1.0

def tpScale : TP F → F
  | .r t => t.scale
  | .i t => t.scale
  | .p _ => 1.0

/-- is the register inside the property's quantifier (unit scale for half-lines, positive scale,
lo < hi)? -/
def inScope : TP F → Bool
  | .r t => t.scale == 1.0
  | .i t => t.scale > 0.0 && t.lo < t.hi
  | .p _ => true

def magnitude (p : TP F) (v : F) : F :=
  let m := fmax 1.0 (fabs v)
  match domain p with
  | (a, b) =>
    let m := match a with | some a => fmax m (fabs a) | none => m
    match b with | some b => fmax m (fabs b) | none => m

/-- round trip `getOriginal (setOriginal v) = v` up to 2^-44 of the magnitude of the data -/
def roundTripOk (p : TP F) (v orig : F) : Bool :=
  fabs (orig - v) ≤ (Float.ofScientific 1 true 0 / 17592186044416.0) * magnitude p v

/-- closed-interval containment (the open interval of `back_in_domain`, closed by rounding) -/
def inDomain (p : TP F) (orig : F) : Bool :=
  match domain p with
  | (a, b) =>
    (match a with | some a => a ≤ orig | none => true) &&
    (match b with | some b => orig ≤ b | none => true)

/-- which difference quotient of the first derivative is compared with the second derivative at the
coordinate `x`: the central one, except for a half-line transform when the junction `0` lies within
`[x-h, x+h]` — there `d1` is not differentiable (`r_d2_not_derivative_at_junction`) and what the code
returns is the *right* derivative (`r_d2_is_right_derivative`, `chain_rule_2_right`): the forward
quotient over `[x, x+h]` for `x ≥ 0`; for `x < 0` the backward quotient over `[x-h, x]`, on which `d1`
is smooth.  `0` = central, `1` = forward, `-1` = backward.  Nothing is skipped. -/
def fdSide (p : TP F) (x h : F) : Int :=
  match p with
  | .r _ => if x - h ≤ 0.0 && 0.0 ≤ x + h then (if x ≥ 0.0 then 1 else -1) else 0
  | _ => 0

def quot2 (side : Int) (am a0 ap h : F) : F :=
  if side == 1 then (ap - a0) / h else if side == -1 then (a0 - am) / h else (ap - am) / (2.0 * h)

/-- strictly inside the open interval: what `*_back_in_domain` prove over the reals.  In double the
back-transformed value can sit *on* a bound (tanh / exp saturate, or the forward map of a value within
an ulp-fraction of a bound is infinite): judged, clause `back_in_open_domain_float` -/
def inOpenDomain (p : TP F) (orig : F) : Bool :=
  match domain p with
  | (a, b) =>
    (match a with | some a => a < orig | none => true) &&
    (match b with | some b => orig < b | none => true)

/-- `strict_mono` over the reals, judged strictly on the implementation's two values for `x1 < x2`
(`o1`, `o2` already multiplied by the orientation).  Decreasing is a violation.  Equal values: a
violation when the real increment (smallest slope `d` times the distance) is resolvable in double at
the magnitude `mag` of the data; otherwise the map is flat *in double* (tanh saturates beyond
|x/scale| ~ 19, although coordinates up to 30 are in the quantifier): clause `strict_mono_float_flat` -/
def monoVerdict (o1 o2 d dx mag : F) : String :=
  if o1 < o2 then "ok"
  else if o2 < o1 then "FAIL:strict_mono"
  else if d * dx > 8.0 * eps * mag then "FAIL:strict_mono"
  else "FAIL:strict_mono_float_flat"

/-- `mag`: magnitude of the data entering `g` (bounds, values): the rounding error of `g` is a few
ulps of it (cancellation in `tanh + 1` is amplified by the width of the interval) -/
def fdOk (gm g0 gp am a0 ap bm b0 bp h s mag : F) (side : Int) : String :=
  if !([gm, g0, gp, am, a0, ap, bm, b0, bp].all finite) then "-" else
  let q1 := (gp - gm) / (2.0 * h)
  let tol1 := 1e-3 * (fabs am + fabs a0 + fabs ap) + 16.0 * eps * fmax mag (fmax (fabs gm) (fabs gp)) / h + absFloor
  if !(fabs (q1 - a0) ≤ tol1) then "FAIL:d1_is_derivative" else
  let q2 := quot2 side am a0 ap h
  let tol2 := 1e-3 * ((fabs bm + fabs b0 + fabs bp) + (fabs am + fabs a0 + fabs ap) / fabs s)
    + 32.0 * eps * fmax (fabs am) (fmax (fabs a0) (fabs ap)) / h + absFloor
  if !(fabs (q2 - b0) ≤ tol2) then "FAIL:d2_is_derivative" else "ok"

/-! ### the machine -/

def newVerdict (impl : Option (List String)) (model : String) : String :=
  match impl with
  | none => "-"
  | some t => if " ".intercalate t == model then "ok" else "-"


/-! ### the wrapper -/

def nan : F := 0.0 / 0.0

def parseShape (k : String) (lo hi : F) : Option (Shape F) :=
  match k with
  | "none" => some .none
  | "cc" => some (.cc lo hi)
  | "oo" => some (.oo lo hi)
  | "co" => some (.co lo hi)
  | "oc" => some (.oc lo hi)
  | "gt" => some (.gt lo)
  | "ge" => some (.ge lo)
  | "lt" => some (.lt hi)
  | "le" => some (.le hi)
  | _ => none

/-- `{shape lo hi value c q e}*` -/
def parseParams : List String → Option (List ((Shape F × F) × Coef F))
  | [] => some []
  | k :: lo :: hi :: v :: c :: q :: e :: rest =>
    match fl? lo, fl? hi, fl? v, fl? c, fl? q, fl? e with
    | some lo, some hi, some v, some c, some q, some e =>
      match parseShape k lo hi, parseParams rest with
      | some sh, some l => some (((sh, v), { c := c, q := q, e := e }) :: l)
      | _, _ => none
    | _, _, _, _, _, _ => none
  | _ => none

/-- `{i x}*` with strictly increasing indices below `n`, as a list aligned with the parameters -/
def parseUpd (n : Nat) (l : List String) : Option (List (Option F)) :=
  let rec pairs : List String → Option (List (Nat × F))
    | [] => some []
    | i :: x :: rest =>
      match nat? i, fl? x, pairs rest with
      | some i, some x, some l => some ((i, x) :: l)
      | _, _, _ => none
    | _ => none
  match pairs l with
  | none => none
  | some ps =>
    let idx := ps.map (·.1)
    let incr := (idx.zip (idx.drop 1)).all (fun (a, b) => a < b)
    if !incr || !(idx.all (· < n)) then none
    else some ((List.range n).map (fun i => (ps.find? (·.1 == i)).map (·.2)))

def single (n i : Nat) (x : F) : List (Option F) :=
  (List.range n).map (fun j => if j == i then some x else none)

def polyDf (cs : List (Coef F)) (p : List F) (i : Nat) : F := (Poly.df cs p i).getD nan
def polyD2f (cs : List (Coef F)) (_p : List F) (i j : Nat) : F := (Poly.d2f cs i j).getD nan

/-- magnitude of the terms of the polynomial at `p` (for rounding allowances) -/
def polyMag (cs : List (Coef F)) (p : List F) : F :=
  let zs := cs.zip p
  let m := zs.foldl (fun acc (k, x) => acc + fabs (k.c * x) + fabs (k.q * (x * x))) 1.0
  (zs.zip (p.drop 1)).foldl (fun acc ((k, x), x') => acc + fabs (k.e * (x * x'))) m

namespace Ctx

/-- the wrapper coordinate standing for the function's parameter `i` -/
def slotOf (c : Ctx) (i : Nat) : Option Nat := c.sel.findIdx? (· == i)

/-- the function's full point, given the values of the wrapper's coordinates -/
def expand (c : Ctx) (p : List F) : List F :=
  (List.range c.base.length).map (fun j =>
    match c.slotOf j with
    | some k => p[k]?.getD nan
    | none => c.base[j]?.getD nan)

/-- the values of the wrapper's coordinates inside a full point of the function -/
def restrict (c : Ctx) (full : List F) : List F := c.sel.map (fun i => full[i]?.getD nan)

/-- the wrapped function and its derivatives in the wrapper's coordinates -/
def f (c : Ctx) (p : List F) : F := Poly.f c.cs (c.expand p)
def df (c : Ctx) (p : List F) (k : Nat) : F :=
  match c.sel[k]? with | some i => polyDf c.cs (c.expand p) i | none => nan
def d2f (c : Ctx) (p : List F) (k k' : Nat) : F :=
  match c.sel[k]?, c.sel[k']? with | some i, some j => polyD2f c.cs (c.expand p) i j | _, _ => nan
def mag (c : Ctx) (p : List F) : F := polyMag c.cs (c.expand p)

/-- an update aligned with the function's parameters, re-aligned with the wrapper's coordinates;
`none` when it names a parameter the wrapper does not have (ParameterNotFoundException) -/
def toW (c : Ctx) (updF : List (Option F)) : Option (List (Option F)) :=
  if (List.range updF.length).any (fun j => (updF[j]?.join).isSome && (c.slotOf j).isNone) then none
  else some (c.sel.map (fun i => updF[i]?.join))

end Ctx

/-- `init_` moves the value (closer than `tiny` to a closed bound or to the corrected open bound):
the model's own test `Reparam.isNudged`, whose negation over the reals is the hypothesis `NotNudged`
of `wrap_nudge` / `all_histories_accepted` (`isNudged_false_iff`) -/
def nudged (sh : Shape F) (v : F) : Bool := Reparam.isNudged tiny sh v

/-- the property's quantifier on constraints: bounds within [-1e3,1e3] (beyond ~1e4 an ulp of the
bound exceeds `TINY()` and the corrected bounds collapse -- rounding, not modelled) and finite
intervals wider than `4 TINY()` (hypothesis `Roomy` of `Admits`).  Every *value* accepted by such a
constraint is inside the theorems' hypotheses: nothing is excluded next to a bound. -/
def quantOk (sh : Shape F) : Bool :=
  let okb := fun (x : F) => fabs x ≤ 1000.0
  match sh with
  | .cc a b | .oo a b | .co a b | .oc a b => okb a && okb b && b - a > 4.0 * tiny
  | .gt a | .ge a => okb a
  | .lt b | .le b => okb b
  | .none => true

def shapeMag (sh : Shape F) (v : F) : F :=
  let m := fmax 1.0 (fabs v)
  match sh with
  | .cc a b | .oo a b | .co a b | .oc a b => fmax m (fmax (fabs a) (fabs b))
  | .gt a | .ge a => fmax m (fabs a)
  | .lt b | .le b => fmax m (fabs b)
  | .none => m

def two44 : F := Float.ofScientific 1 true 0 / 17592186044416.0

def showW (w : W F) : String :=
  shs (w.map (·.tp.x)) ++ " ; " ++ shs (w.map (fun s => s.tp.getOriginal pi)) ++ " ; " ++ shs (w.map (·.fn))

def splitSemi (t : List String) : List (List String) := splitTok ";" t

/-- verdict of `w.new` (`wrap_preserves_values`, `wrap_nudge`): for *every* value accepted by its
constraint wrapping succeeds, the function's parameters are untouched and each transformed parameter
back-transforms to `corrected tiny shape value` (to rounding), which is the initial value up to
`2 tiny` when `init_` moves it, exactly the initial value otherwise, and which the constraint accepts -/
def newWVerdict (impl : Option (List String)) (ps all : List (Shape F × F)) (agree : Bool) : String :=
  -- `ps`: the parameters the wrapper reparametrises (`functionParameters_`), in its order; `all`: the
  -- function's own parameters; `agree`: the list given to the second constructor carried the
  -- function's own values (hypothesis of `newSub_refines_init`)
  -- whatever the interval (also one narrower than 2-3 TINY, outside `Roomy`): a wrapper that is built
  -- has no NaN coordinate (`mkIT`: `init_` raises instead)
  let nanCoord := match impl with
    | some t => (match splitSemi t with | xs :: _ => xs.any (· == "nan") | _ => false)
    | none => false
  if nanCoord && ps.all (fun (_, v) => !v.isNaN) then "FAIL:narrow_interval_nan" else
  if !(ps.all (fun (shp, _) => quantOk shp)) || !agree then "-" else
  match impl with
  | none => "-"
  | some ("exc:constraint" :: _) => "FAIL:wrap_preserves_values"
  | some t =>
    match splitSemi t with
    | [_, os, fs] =>
      match fls? os, fls? fs with
      | some os, some fs =>
        if os.length != ps.length || fs.length != all.length then "FAIL:parse"
        else if !((all.zip fs).all (fun ((_, v), f) => sh v == sh f)) then "FAIL:wrap_preserves_values"
        else if !((ps.zip os).all (fun ((shp, v), o) =>
            fabs (o - Reparam.corrected tiny shp v) ≤ two44 * shapeMag shp v)) then "FAIL:wrap_preserves_values"
        else if !((ps.zip os).all (fun ((shp, v), o) =>
            fabs (o - v) ≤ two44 * shapeMag shp v + (if nudged shp v then 2.0 * tiny else 0.0))) then "FAIL:wrap_nudge"
        else if !((ps.zip os).all (fun ((shp, _), o) => shp.isCorrect o)) then "FAIL:back_in_domain"
        else "ok"
      | _, _ => "FAIL:parse"
    | _ => "FAIL:parse"

/-- verdict of `w.set` (through any wrapper register: an original, a copy, the target of an
assignment; `before` / `after` are the slot views `Wr.view?` of the model wrapper over the shared
function before and after the update): the value is the function at its own point (`wrap_f_eq`), that point
satisfies the constraints (`back_in_domain`), named coordinates are the back-transformed ones
(`set_sync`; when no named coordinate changed nothing is recomputed and a value moved by `init_` may
still be up to `2 tiny` off), every coordinate is within `2 tiny` of the back-transformed one
(`all_histories_accepted`), the coordinates that are not named are untouched -/
def nearB (s : Slot F) : Bool :=
  fabs (s.fn - s.tp.getOriginal pi) ≤ two44 * shapeMag s.shape s.fn + 2.0 * tiny

def setVerdict (impl : Option (List String)) (c : Ctx) (before after : W F) (upd : List (Option F)) (wf : Bool) : String :=
  match impl with
  | none => "-"
  | some ("exc:constraint" :: _) => if wf then "FAIL:set_never_raises" else "-"
  | some t =>
    match splitSemi t with
    | [[f], full, _] =>
      match fl? f, fls? full with
      | some f, some full =>
        let ch := (List.zipWith changed before upd).any id
        let slack : F := if ch then 0.0 else 2.0 * tiny
        -- the implementation's values of the coordinates the wrapper reparametrises
        let ps := c.restrict full
        if full.length != c.base.length || ps.length != after.length then "FAIL:parse"
        else if sh f != sh (Poly.f c.cs full) then "FAIL:wrap_f_eq"
        else if !((after.zip ps).all (fun (s, p) => s.shape.isCorrect p)) then "FAIL:back_in_domain"
        else if wf && !(((after.zip ps).zip upd).all (fun ((s, p), u) => u.isNone ||
            fabs (p - s.tp.getOriginal pi) ≤ two44 * shapeMag s.shape p + slack)) then "FAIL:wrap_sync"
        -- a coordinate that is not named stays as near the function's value as it was (another
        -- wrapper of the same function may have moved the function: `interleaved_eval`)
        else if wf && !((((after.zip ps).zip upd).zip before).all (fun (((s, p), u), s0) =>
            !(u.isSome || nearB s0) ||
            fabs (p - s.tp.getOriginal pi) ≤ two44 * shapeMag s.shape p + 2.0 * tiny)) then "FAIL:wrap_near"
        else if !(((before.zip ps).zip upd).all (fun ((s, p), u) => u.isSome || sh p == sh s.fn)) then "FAIL:wrap_untouched"
        -- the function's parameters the wrapper was not given never move
        else if !(((List.range full.length).zip (full.zip c.base)).all (fun (j, (p, b)) =>
            (c.slotOf j).isSome || sh p == sh b)) then "FAIL:wrap_untouched"
        else "ok"
      | _, _ => "FAIL:parse"
    | _ => "FAIL:parse"


def excStr : Exc → String
  | .constraint => "exc:constraint"
  | .notfound => "exc:notfound"
  | .ub => "exc:ub"

/-- three successive single-coordinate updates (`x-h`, `x+h`, `x`), as the harness does -/
def probe3 (f : Fn F) (w : Wr F) (n : Nat) (x h : F) :
    Except Exc ((Fn F × Wr F) × (Fn F × Wr F) × (Fn F × Wr F)) := do
  let m ← w.setParameters pi f [(n, x - h)]
  let p ← m.2.setParameters pi m.1 [(n, x + h)]
  let z ← p.2.setParameters pi p.1 [(n, x)]
  pure (m, p, z)

def wD1 (c : Ctx) (w : W F) (i : Nat) : F := (Reparam.d1 pi c.df w i).getD nan
def wD2 (c : Ctx) (w : W F) (i : Nat) : F := (Reparam.d2 pi c.df c.d2f w i).getD nan
def wD2x (c : Ctx) (w : W F) (i j : Nat) : F := (Reparam.d2x pi c.df c.d2f w i j).getD nan

/-- finite-difference shadow of `chain_rule_1` / `chain_rule_2_partial` + `chain_rule_2_right` for coordinate `i` -/
def wfdOk (c : Ctx) (w0 : W F) (i : Nat) (h : F) (vals : List F) (second2 : Bool := true) : String :=
  match vals, w0[i]? with
  | [fm, f0, fp, am, a0, ap, b0], some s =>
    if !(vals.all finite) || !inScope s.tp || !(h > 0.0) then "-" else
    let p := fnVals w0
    let dfi := fabs (c.df p i)
    let d2fi := fabs (c.d2f p i i)
    let t1 := fabs (s.tp.d1 pi)
    let sc := fabs (tpScale s.tp)
    let magI := 2.0 * magnitude s.tp (s.tp.getOriginal pi)
    let q1 := (fp - fm) / (2.0 * h)
    let tol1 := 1e-3 * (fabs am + fabs a0 + fabs ap) + 4.0 * h * h / (sc * sc) * d2fi * t1 * t1 * sc
      + 32.0 * eps * (c.mag p + fmax (fabs fm) (fmax (fabs f0) (fabs fp)) + magI * dfi) / h + absFloor
    if !(fabs (q1 - a0) ≤ tol1) then "FAIL:chain_rule_1" else
    -- at the junction of a half-line transform: the one-sided quotient (`fdSide`, `chain_rule_2_right`)
    let q2 := quot2 (fdSide s.tp s.tp.x h) am a0 ap h
    let tol2 := 1e-3 * (fabs b0 + d2fi * t1 * t1 + 2.0 * dfi * t1 / sc)
      + 64.0 * eps * (fmax (fabs am) (fmax (fabs a0) (fabs ap)) + magI * d2fi * t1 + magI * dfi / sc) / h + absFloor
    if second2 && !(fabs (q2 - b0) ≤ tol2) then "FAIL:chain_rule_2" else "ok"
  | _, _ => "FAIL:parse"

def wfdxOk (c : Ctx) (w0 : W F) (i j : Nat) (h : F) (vals : List F) : String :=
  match vals, w0[i]?, w0[j]? with
  | [am, ap, c0], some si, some sj =>
    if !(vals.all finite) || !inScope si.tp || !inScope sj.tp || !(h > 0.0) then "-" else
    let p := fnVals w0
    let fij := fabs (c.d2f p i j)
    let ti := fabs (si.tp.d1 pi)
    let magJ := 2.0 * magnitude sj.tp (sj.tp.getOriginal pi)
    let q := (ap - am) / (2.0 * h)
    let tol := 1e-3 * fabs c0 + 32.0 * eps * (fmax (fabs am) (fabs ap) + magJ * fij * ti) / h + absFloor
    if !(fabs (q - c0) ≤ tol) then "FAIL:chain_rule_2_cross" else "ok"
  | _, _, _ => "FAIL:parse"


/-! ### objects: functions, wrappers, registers -/

/-- encoding of `i!` in the parsed selection: index + `noConsOffset` -/
def noConsOffset : Nat := 1000

/-- `sel` of `w.newsub` / `w.mk`: comma separated items, each a function index `i` (a copy of the
function's own parameter), `i@<hex>` (the same with another value) or `f` (a foreign parameter, which
the constructor ignores, h:48-50); `none` when an index is out of range or repeated -/
def parseSel (n : Nat) (s : String) : Option (List (Option (Nat × Option F))) :=
  let items := (s.splitOn ",").map (fun tok =>
    if tok == "f" then some none
    else if tok.endsWith "!" then
      -- `i!`: the given parameter has the function's value but *no constraint* (`Parameter(name, value)`)
      (nat? (tok.dropEnd 1).toString).map (fun i => some (i + noConsOffset, none))
    else match tok.splitOn "@" with
      | [i] => (nat? i).map (fun i => some (i, none))
      | [i, v] => match nat? i, fl? v with
        | some i, some v => some (some (i, some v))
        | _, _ => none
      | _ => none)
  match items.mapM id with
  | none => none
  | some l =>
    let idx := l.filterMap (fun o => o.map (fun q => q.1 % noConsOffset))
    if idx.all (· < n) && idx.eraseDups.length == idx.length then some l else none

/-- the name of the foreign parameter `zz` -/
def foreignName : Nat := 1000000

def dropAll (s : St) : St := { t := s.t }

def showNats (l : List Nat) : String := " ".intercalate (l.map toString)

/-- register `k`: index in the world, class, wrapper, its function, the function's coefficients -/
def getW (s : St) (k : Nat) : Option (Nat × Nat × Wr F × Fn F × List (Coef F)) :=
  match s.wreg[k]? with
  | some (some (wi, cls)) =>
    match s.world.ws[wi]? with
    | some w =>
      match s.world.fns[w.fn]?, s.cs[w.fn]? with
      | some f, some cs => some (wi, cls, w, f, cs)
      | _, _ => none
    | none => none
  | _ => none

/-- the slot-model context of a wrapper over its function *now*: the wrapper's coordinates stand for
the function's parameters `w.names` (names are the function's indices), the other parameters of the
function stand where they are -/
def ctxOf (f : Fn F) (w : Wr F) (cs : List (Coef F)) : Ctx := { cs := cs, sel := w.names, base := f.vals }

def wfOf (w : Wr F) : Bool := w.fps.all (fun p => quantOk p.shape)

def isNoneShape : Shape F → Bool
  | .none => true
  | _ => false

/-- the clause reported when an update through a wrapper raises a ConstraintException: over the reals
it never does for a wrapper whose `functionParameters_` carry the function's constraints
(`set_never_raises`).  A wrapper built by the second constructor from a list *without constraints*
(hypothesis `Agrees` of `newSub_refines_init` fails) took the placebo transform and forwards
unconstrained values to the constrained function: judged, clause `constraintless_list_raises`. -/
def raiseClause (f : Fn F) (w : Wr F) : String :=
  if w.fps.any (fun fp => match findP fp.name f.ps with
      | some q => isNoneShape fp.shape && !(isNoneShape q.shape)
      | none => false) then "FAIL:constraintless_list_raises" else "FAIL:set_never_raises"

def setWorld (s : St) (wi : Nat) (f' : Fn F) (w' : Wr F) : St :=
  { s with world := { fns := s.world.fns.set w'.fn f', ws := s.world.ws.set wi w' } }

/-- dump of a wrapper's private state: `cls same ; names of parameters_ ; names of
functionParameters_ ; transformed values ; values of functionParameters_` -/
def dumpW (cls : Nat) (w : Wr F) : String :=
  toString cls ++ " 1 ; " ++ showNats w.names ++ " ; " ++ showNats w.fpNames ++ " ; " ++
    shs (w.params.map (·.2.x)) ++ " ; " ++ shs (w.fps.map (·.value))

def closeRel (a b : F) : Bool :=
  sh a == sh b || fabs (a - b) ≤ (Float.ofScientific 1 true 0 / 1099511627776.0) * fmax (fabs a) (fabs b)

/-- verdict of a copy / clone / assignment (`copy_carries`, `assign_carries`): the implementation's
copy shares the function, is aligned (`alignedNames`, the predicate of `every_wrapper_aligned`) and
carries the source's names, transformed values and private copy -/
def copyVerdict (impl : Option (List String)) (src : Wr F) : String :=
  match impl with
  | none => "-"
  | some t =>
    match splitSemi t with
    | [[_, same], pn, fpn, xs, fpv] =>
      match pn.mapM nat?, fpn.mapM nat? with
      | some pn, some fpn =>
        if same != "1" then "FAIL:copy_carries"
        else if !(alignedNames pn fpn) then "FAIL:copy_carries"
        else if pn != src.names then "FAIL:copy_carries"
        else
          -- same transformed values and same private copy (up to 2^-40 relative: a copy made by
          -- another route than member-wise copy may differ by rounding; the bitwise comparison is the
          -- correspondence check's)
          match fls? xs, fls? fpv with
          | some xs, some fpv =>
            if xs.length != src.params.length || fpv.length != src.fps.length then "FAIL:copy_carries"
            else if !((xs.zip (src.params.map (·.2.x))).all (fun (a, b) => closeRel a b)) then "FAIL:copy_carries"
            else if !((fpv.zip (src.fps.map (·.value))).all (fun (a, b) => closeRel a b)) then "FAIL:copy_carries"
            else "ok"
          | _, _ => "FAIL:parse"
      | _, _ => "FAIL:parse"
    | _ => "FAIL:copy_carries"

/-- both constructors: the wrapper is built over function register `g` into wrapper register `k` -/
def doMk (s : St) (impl : Option (List String)) (k g cls : Nat) (sel : Option (List (Option (Nat × Option F)))) :
    St × String × String :=
  match s.freg[g]? with
  | some (some fi) =>
    match s.world.fns[fi]? with
    | none => (s, "bad-op", "-")
    | some f =>
      let all := f.ps.map (fun p => (p.shape, p.value))
      -- the list given to the second constructor
      let given : Option (List (FParam F)) := sel.map (fun l => l.filterMap (fun o =>
        match o with
        | none => some { name := foreignName, shape := Shape.none, value := 1.0 }
        | some (i, ov) =>
          if i ≥ noConsOffset then (f.ps[i - noConsOffset]?).map (fun p => { p with shape := Shape.none })
          else (f.ps[i]?).map (fun p => { p with value := ov.getD p.value })))
      -- `Parameter(name, value, constraint)` of an overridden value raises on an incorrect value
      if (given.getD []).any (fun p => !(p.shape.isCorrect p.value)) then (dropAll s, "exc:constraint", "-") else
      let agree := (sel.getD []).all (fun o => match o with
        | some (_, some _) => false
        | some (i, none) => i < noConsOffset
        | _ => true)
      let r := match given with
        | none => Wr.newFull pi tiny fi f
        | some gl => Wr.newSub pi tiny fi f gl
      match r with
      | .ok w =>
        let ps := w.fps.map (fun p => (p.shape, p.value))
        let out := shs (w.params.map (·.2.x)) ++ " ; " ++ shs (w.params.map (fun p => p.2.getOriginal pi)) ++ " ; " ++ shs f.vals
        let wi := s.world.ws.length
        ({ s with world := { s.world with ws := s.world.ws ++ [w] }, wreg := s.wreg.set! k (some (wi, cls)) },
          out, newWVerdict impl ps all agree)
      | .error e =>
        -- `wrap_preserves_values`: over the reals wrapping never raises on accepted values
        let ok := match given with
          | none => f.ps.all (fun p => quantOk p.shape)
          | some gl => (common f gl).all (fun p => quantOk p.shape) && agree
        (dropAll s, excStr e, match impl with
          | some t => if ok then "FAIL:wrap_preserves_values"
                      else if t.head? == some (excStr e) then "ok"   -- too narrow an interval: both raise
                      else if t.head? == some "nan" then "FAIL:narrow_interval_nan" else "-"
          | none => "-")
  | _ => (s, "bad-op", "-")

/-- a new function object in register `g`; `exc:constraint` when the function's own
`Parameter(name, value, constraint)` rejects an initial value -/
def doNewFn (s : St) (g : Nat) (l : List ((Shape F × F) × Coef F)) : St × String × String :=
  let all := l.map (·.1)
  if !(all.all (fun (shp, v) => shp.isCorrect v)) then (dropAll s, "exc:constraint", "-") else
  let ps : List (FParam F) := (List.range all.length).zipWith (fun i (p : Shape F × F) => { name := i, shape := p.1, value := p.2 }) all
  let fi := s.world.fns.length
  ({ s with world := { s.world with fns := s.world.fns ++ [{ ps := ps }] }, cs := s.cs.push (l.map (·.2)),
            freg := s.freg.set! g (some fi) }, "ok", "-")

/-- `f(parameters)` through wrapper register `k` with the named values `pl` -/
def doSet (s : St) (impl : Option (List String)) (k : Nat) (pl : List (Nat × F)) : St × String × String :=
  match getW s k with
  | none => (s, "bad-op", "-")
  | some (wi, _, w, f, cs) =>
    let wf := wfOf w
    let named := pl.all (fun (n, _) => w.names.contains n)
    match w.setParameters pi f pl with
    | .ok (f', w') =>
      let out := sh (Poly.f cs f'.vals) ++ " ; " ++ shs f'.vals ++ " ; " ++ shs (w'.fps.map (·.value))
      let verdict := match w.view? f, w'.view? f' with
        | some before, some after => setVerdict impl (ctxOf f w cs) before after (updOf w.params pl) wf
        | _, _ => "-"
      (setWorld s wi f' w', out, verdict)
    | .error e =>
      -- `set_never_raises`: over the reals a well-formed wrapper never raises on its own names
      (dropAll s, excStr e, match impl with | some _ => if named && wf then raiseClause f w else "-" | none => "-")

/-- verdict of an inherited setter (`inherited_setters_stay_private`): the function does not move, the
wrapper's private copy of every refreshed coordinate is the back-transformed value -/
def privVerdict (impl : Option (List String)) (f : Fn F) (w' : Wr F) (fired : Bool) (wf : Bool) : String :=
  match impl with
  | none => "-"
  | some ("exc:constraint" :: _) => if wf then "FAIL:set_never_raises" else "-"
  | some t =>
    match splitSemi t with
    | [[_], full, fps] =>
      match fls? full, fls? fps with
      | some full, some fps =>
        if shs full != shs f.vals then "FAIL:inherited_private"
        else if fps.length != w'.params.length then "FAIL:parse"
        else if wf && fired && !(((w'.params.zip w'.fps).zip fps).all (fun ((p, fp), x) =>
            fabs (x - p.2.getOriginal pi) ≤ two44 * shapeMag fp.shape x)) then "FAIL:inherited_private"
        else "ok"
      | _, _ => "FAIL:parse"
    | _ => "FAIL:parse"

def doPriv (s : St) (impl : Option (List String)) (k : Nat) (r : Wr F → Except Exc (Wr F)) (fired : Wr F → Bool) :
    St × String × String :=
  match getW s k with
  | none => (s, "bad-op", "-")
  | some (wi, _, w, f, cs) =>
    match r w with
    | .ok w' =>
      let out := sh (Poly.f cs f.vals) ++ " ; " ++ shs f.vals ++ " ; " ++ shs (w'.fps.map (·.value))
      ({ s with world := { s.world with ws := s.world.ws.set wi w' } }, out, privVerdict impl f w' (fired w) (wfOf w))
    | .error e => (dropAll s, excStr e, "-")

/-- `{i x}*` as named values (any order, no repetition) -/
def parsePl : List String → Option (List (Nat × F))
  | [] => some []
  | i :: x :: rest =>
    match nat? i, fl? x, parsePl rest with
    | some i, some x, some l => if l.any (·.1 == i) then none else some ((i, x) :: l)
    | _, _, _ => none
  | _ => none

def polyDfE (cs : List (Coef F)) : List F → Nat → F := fun p i => polyDf cs p i
def polyD2fE (cs : List (Coef F)) : List F → Nat → Nat → F := fun p i j => polyD2f cs p i j

def oD1 (cs : List (Coef F)) (f : Fn F) (w : Wr F) (n : Nat) : F :=
  match w.d1 pi (polyDfE cs) f n with | .ok x => x | .error _ => nan
def oD2 (cs : List (Coef F)) (f : Fn F) (w : Wr F) (n : Nat) : F :=
  match w.d2 pi (polyDfE cs) (polyD2fE cs) f n with | .ok x => x | .error _ => nan
def oD2x (cs : List (Coef F)) (f : Fn F) (w : Wr F) (n m : Nat) : F :=
  match w.d2x pi (polyDfE cs) (polyD2fE cs) f n m with | .ok x => x | .error _ => nan

/-- a derivative with respect to a parameter the wrapper has is defined (`obj_chain_rule_*`: the
model returns a value): an exception of the implementation there is a failing input -/
def derivDefined (impl : Option (List String)) : String :=
  match impl with
  | some (t :: _) => if t.startsWith "exc:" then "FAIL:derivative_defined" else "-"
  | _ => "-"

def step (s : St) (op : List String) (impl : Option (List String)) : St × String × String :=
  match op with
  | ["r.new", k, v, b, pos, sc] =>
    match nat? k, fl? v, fl? b, fl? sc with
    | some k, some v, some b, some sc =>
      if k ≥ 4 then (s, "bad-op", "-") else
      match RT.new v b (pos == "1") sc with
      | some t => ({ s with t := s.t.set! k (some (.r t)) }, sh t.x, "-")
      | none => ({ s with t := s.t.set! k none }, "exc:constraint", "-")
    | _, _, _, _ => (s, "bad-op", "-")
  | ["i.new", k, v, lo, hi, sc, hy] =>
    match nat? k, fl? v, fl? lo, fl? hi, fl? sc with
    | some k, some v, some lo, some hi, some sc =>
      if k ≥ 4 then (s, "bad-op", "-") else
      let t := IT.new pi v lo hi sc (hy == "1")
      ({ s with t := s.t.set! k (some (.i t)) }, sh t.x, "-")
    | _, _, _, _, _ => (s, "bad-op", "-")
  | ["t.ctor", k, v, lo, hi, sc, hy] =>
    -- `IntervalTransformedParameter(name, value, lo, hi, scale, hyper)` with read-back: the value handed
    -- to the *constructor* must round-trip like one handed to `setOriginalValue` (`interval_roundtrip_*`;
    -- the constructor has its own copy of the forward formula, TransformedParameter.h:187-189)
    match nat? k, fl? v, fl? lo, fl? hi, fl? sc with
    | some k, some v, some lo, some hi, some sc =>
      if k ≥ 4 then (s, "bad-op", "-") else
      let t := IT.new pi v lo hi sc (hy == "1")
      let p : TP F := .i t
      let out := shs [t.x, p.getOriginal pi]
      let verdict := match impl with
        | some [_, o] =>
          match fl? o with
          | some o =>
            if !inScope p || !(lo < v && v < hi) then "-"
            else if !(roundTripOk p v o) then "FAIL:roundtrip"
            else if !(inDomain p o) then "FAIL:back_in_domain"
            else if !(inOpenDomain p o) || !(finite t.x) then "FAIL:back_in_open_domain_float"
            else "ok"
          | none => "FAIL:parse"
        | some _ => "FAIL:parse"
        | none => "-"
      ({ s with t := s.t.set! k (some p) }, out, verdict)
    | _, _, _, _, _ => (s, "bad-op", "-")
  | ["p.new", k, v] =>
    match nat? k, fl? v with
    | some k, some v =>
      if k ≥ 4 then (s, "bad-op", "-") else
      let t : TP F := TP.placebo v
      ({ s with t := s.t.set! k (some t) }, sh t.x, "-")
    | _, _ => (s, "bad-op", "-")
  | ["t.setorig", k, v] =>
    match nat? k, fl? v with
    | some k, some v =>
      match s.t[k]? with
      | some (some p) =>
        match p.setOriginal pi v with
        | none =>
          -- the theorems' domain: raised iff the value is not strictly inside
          let inside := match domain p with
            | (a, b) => (match a with | some a => a < v | none => true) && (match b with | some b => v < b | none => true)
          let verdict := match impl with
            | some ["exc:constraint"] => if inside then "FAIL:constraint_check" else "ok"
            | some _ => if inside then "-" else "FAIL:constraint_check"
            | none => "-"
          (s, "exc:constraint", verdict)
        | some p' =>
          let out := shs [p'.x, p'.getOriginal pi]
          let verdict := match impl with
            | some [_, o] =>
              match fl? o with
              | some o =>
                if !inScope p then "-"
                else if !(roundTripOk p v o) then "FAIL:roundtrip"
                else if !(inDomain p o) then "FAIL:back_in_domain"
                -- the transformed coordinate is judged too: it is finite and maps back strictly inside
                else if !(inOpenDomain p o) || !(finite p'.x) then "FAIL:back_in_open_domain_float"
                else "ok"
              | none => "FAIL:parse"
            | some ["exc:constraint"] => "FAIL:constraint_check"
            | some _ => "FAIL:parse"
            | none => "-"
          ({ s with t := s.t.set! k (some p') }, out, verdict)
      | _ => (s, "bad-op", "-")
    | _, _ => (s, "bad-op", "-")
  | ["t.setx", k, x] =>
    match nat? k, fl? x with
    | some k, some x =>
      match s.t[k]? with
      | some (some p) =>
        let p' := p.setX x
        let out := shs [p'.getOriginal pi, p'.d1 pi, p'.d2 pi]
        let verdict := match impl with
          | some [o, a, _] =>
            match fl? o, fl? a with
            | some o, some a =>
              if !inScope p || !(finite x) then "-"
              else if !(inDomain p o) then "FAIL:back_in_domain"
              else if !(orientation p * a > 0.0) then "FAIL:strict_mono"
              else if !(inOpenDomain p o) then "FAIL:back_in_open_domain_float"
              else "ok"
            | _, _ => "FAIL:parse"
          | some _ => "FAIL:parse"
          | none => "-"
        ({ s with t := s.t.set! k (some p') }, out, verdict)
      | _ => (s, "bad-op", "-")
    | _, _ => (s, "bad-op", "-")
  | ["t.mono", k, x1, x2] =>
    match nat? k, fl? x1, fl? x2 with
    | some k, some x1, some x2 =>
      match s.t[k]? with
      | some (some p) =>
        let p1 := p.setX x1
        let p2 := p1.setX x2
        let out := shs [p1.getOriginal pi, p2.getOriginal pi]
        let verdict := match impl with
          | some [o1, o2] =>
            match fl? o1, fl? o2 with
            | some o1, some o2 =>
              if !inScope p || !(finite x1 && finite x2) then "-"
              else if !(inDomain p o1 && inDomain p o2) then "FAIL:back_in_domain"
              else if x1 == x2 then "-"
              else
                let d := if fabs (p1.d1 pi) < fabs (p2.d1 pi) then fabs (p1.d1 pi) else fabs (p2.d1 pi)
                let mag := fmax (magnitude p o1) (magnitude p o2)
                let mv := if x1 < x2 then monoVerdict (orientation p * o1) (orientation p * o2) d (x2 - x1) mag
                          else monoVerdict (orientation p * o2) (orientation p * o1) d (x1 - x2) mag
                if mv != "ok" then mv
                else if !(inOpenDomain p o1 && inOpenDomain p o2) then "FAIL:back_in_open_domain_float"
                else "ok"
            | _, _ => "FAIL:parse"
          | some _ => "FAIL:parse"
          | none => "-"
        ({ s with t := s.t.set! k (some p2) }, out, verdict)
      | _ => (s, "bad-op", "-")
    | _, _, _ => (s, "bad-op", "-")
  | ["t.fd", k, x, h] =>
    match nat? k, fl? x, fl? h with
    | some k, some x, some h =>
      match s.t[k]? with
      | some (some p) =>
        let pm := p.setX (x - h)
        let pp := pm.setX (x + h)
        let p0 := pp.setX x
        let out := shs [pm.getOriginal pi, p0.getOriginal pi, pp.getOriginal pi,
          pm.d1 pi, p0.d1 pi, pp.d1 pi, pm.d2 pi, p0.d2 pi, pp.d2 pi]
        let verdict := match impl with
          | some t =>
            match fls? t with
            | some [gm, g0, gp, am, a0, ap, bm, b0, bp] =>
              if !inScope p || !(h > 0.0) then "-" else
              -- the half-line transform is C^1 but not C^2 at x = 0: one-sided quotient there (`fdSide`)
              fdOk gm g0 gp am a0 ap bm b0 bp h (tpScale p) (2.0 * magnitude p g0) (fdSide p x h)
            | _ => "FAIL:parse"
          | none => "-"
        ({ s with t := s.t.set! k (some p0) }, out, verdict)
      | _ => (s, "bad-op", "-")
    | _, _, _ => (s, "bad-op", "-")
  | ["t.clone", k, j] =>
    -- `clone()` of a transformed parameter: an independent copy with all its fields
    match nat? k, nat? j with
    | some k, some j =>
      if k ≥ 4 then (s, "bad-op", "-") else
      match s.t[j]? with
      | some (some p) =>
        let vals := [p.x, p.getOriginal pi, p.d1 pi, p.d2 pi]
        -- the clone carries the transformed value and every field of the transform: the same
        -- coordinate, original value and derivatives as the source
        let verdict := match impl with
          | some t => match fls? t with
            | some iv =>
              if iv.length != 4 then "FAIL:parse"
              else if (iv.zip vals).all (fun (a, b) => closeRel a b)
              then "ok" else "FAIL:clone_carries"
            | none => "FAIL:parse"
          | none => "-"
        ({ s with t := s.t.set! k (some p) }, shs vals, verdict)
      | _ => (s, "bad-op", "-")
    | _, _ => (s, "bad-op", "-")
  | "w.new" :: n :: rest =>
    match nat? n, parseParams rest with
    | some n, some l =>
      if l.length != n then (s, "bad-op", "-") else
      match doNewFn (dropAll s) 0 l with
      | (s1, "ok", _) => doMk { s1 with cur := 0 } impl 0 0 2 none
      | r => r
    | _, _ => (s, "bad-op", "-")
  | "w.newsub" :: n :: sel :: rest =>
    match nat? n, parseParams rest with
    | some n, some l =>
      if l.length != n then (s, "bad-op", "-") else
      match parseSel n sel with
      | some sel =>
        match doNewFn (dropAll s) 0 l with
        | (s1, "ok", _) => doMk { s1 with cur := 0 } impl 0 0 2 (some sel)
        | r => r
      | none => (s, "bad-op", "-")
    | _, _ => (s, "bad-op", "-")
  | "f.new" :: g :: n :: rest =>
    match nat? g, nat? n, parseParams rest with
    | some g, some n, some l => if l.length != n || g ≥ 2 then (s, "bad-op", "-") else doNewFn s g l
    | _, _, _ => (s, "bad-op", "-")
  | ["w.mk", k, g, cls, sel] =>
    match nat? k, nat? g, nat? cls with
    | some k, some g, some cls =>
      if k ≥ 4 || g ≥ 2 || cls ≥ 3 then (s, "bad-op", "-") else
      match s.freg[g]? with
      | some (some fi) =>
        let n := match s.world.fns[fi]? with | some f => f.ps.length | none => 0
        if sel == "all" then doMk s impl k g cls none
        else match parseSel n sel with
          | some l => doMk s impl k g cls (some l)
          | none => (s, "bad-op", "-")
      | _ => (s, "bad-op", "-")
    | _, _, _ => (s, "bad-op", "-")
  | ["w.use", k] =>
    match nat? k with
    | some k => if (getW s k).isSome then ({ s with cur := k }, "ok", "-") else (s, "bad-op", "-")
    | none => (s, "bad-op", "-")
  | "w.set" :: m :: rest =>
    match nat? m, parsePl rest with
    | some m, some pl => if pl.length != m then (s, "bad-op", "-") else doSet s impl s.cur pl
    | _, _ => (s, "bad-op", "-")
  | "w.touch" :: m :: rest =>
    -- `f()` with the current values of the named coordinates: nothing changes in the wrapper
    match getW s s.cur, nat? m, rest.mapM nat? with
    | some (_, _, w, _, _), some m, some idx =>
      if idx.length != m || idx.eraseDups.length != idx.length then (s, "bad-op", "-") else
      -- the harness reads the current values through the wrapper: a name it does not have raises there
      match idx.mapM (fun n => (findTP n w.params).map (fun tp => (n, tp.x))) with
      | some pl => doSet s impl s.cur pl
      | none => (dropAll s, "exc:notfound", "-")
    | _, _, _ => (s, "bad-op", "-")
  | ["w.fire"] =>
    -- `fireParameterChanged` called directly (it is public): every private copy is refreshed; this is
    -- `setParametersValues` of the empty list
    doPriv s impl s.cur (fun w => w.setValues pi []) (fun _ => true)
  | ["w.names"] =>
    -- names of `parameters_` and of `functionParameters_`: `every_wrapper_aligned`
    match getW s s.cur with
    | some (_, _, w, _, _) =>
      let verdict := match impl with
        | some t => match splitSemi t with
          | [pn, fpn] => match pn.mapM nat?, fpn.mapM nat? with
            | some pn, some fpn => if alignedNames pn fpn && pn == w.names then "ok" else "FAIL:every_wrapper_aligned"
            | _, _ => "FAIL:parse"
          | _ => "FAIL:parse"
        | none => "-"
      (s, showNats w.names ++ " ; " ++ showNats w.fpNames, verdict)
    | none => (s, "bad-op", "-")
  | ["w.get"] =>
    match getW s s.cur with
    | some (_, _, _, f, cs) =>
      let v := sh (Poly.f cs f.vals)
      -- `getValue()` is the function where it stands (`wrap_f_eq`), reading it moves nothing, and
      -- `getFunction()` is the shared function object
      let verdict := match impl with
        | some t => match splitSemi t with
          | [[a], [b], [same], full] =>
            match fls? full with
            | some full =>
              if same != "1" then "FAIL:copy_carries"
              else if shs full != shs f.vals then "FAIL:get_is_pure"
              else if a != sh (Poly.f cs full) || b != a then "FAIL:wrap_f_eq"
              else "ok"
            | none => "FAIL:parse"
          | _ => "FAIL:parse"
        | none => "-"
      (s, v ++ " ; " ++ v ++ " ; 1 ; " ++ shs f.vals, verdict)
    | none => (s, "bad-op", "-")
  | ["w.d21", i] =>
    -- the one-argument overload `getSecondOrderDerivative(variable)`
    match getW s s.cur, nat? i with
    | some (_, cls, w, f, cs), some i =>
      if cls < 2 || i ≥ f.ps.length then (s, "bad-op", "-") else
      match w.d2 pi (polyDfE cs) (polyD2fE cs) f i with
      | .ok x => (s, sh x, derivDefined impl)
      | .error e => (dropAll s, excStr e, "-")
    | _, _ => (s, "bad-op", "-")
  | ["w.d1", i] =>
    match getW s s.cur, nat? i with
    | some (_, cls, w, f, cs), some i =>
      if cls < 1 || i ≥ f.ps.length then (s, "bad-op", "-") else
      match w.d1 pi (polyDfE cs) f i with
      | .ok x => (s, sh x, derivDefined impl)
      | .error e => (dropAll s, excStr e, "-")
    | _, _ => (s, "bad-op", "-")
  | ["w.fdx", i, j, h] =>
    match getW s s.cur, nat? i, nat? j, fl? h with
    | some (wi, cls, w, f, cs), some i, some j, some h =>
      if cls < 2 || i ≥ f.ps.length || j ≥ f.ps.length || i == j then (s, "bad-op", "-") else
      match findTP i w.params, findTP j w.params with
      | some _, some tj =>
        match probe3 f w j tj.x h with
        | .error e => (dropAll s, excStr e, match impl with | some _ => if wfOf w then raiseClause f w else "-" | none => "-")
        | .ok ((fm, wm), (fp, wp), (f0, w0)) =>
          let vals := [oD1 cs fm wm i, oD1 cs fp wp i, oD2x cs f0 w0 i j]
          let verdict := match impl with
            | some ("exc:constraint" :: _) => if wfOf w then "FAIL:set_never_raises" else "-"
            | some t => match fls? t, w0.view? f0, w0.names.findIdx? (· == i), w0.names.findIdx? (· == j) with
              | some iv, some v0, some si, some sj => wfdxOk (ctxOf f0 w0 cs) v0 si sj h iv
              | _, _, _, _ => if derivDefined impl == "-" then "FAIL:parse" else derivDefined impl
            | none => "-"
          (setWorld s wi f0 w0, shs vals, verdict)
      | _, _ => (dropAll s, "exc:notfound", "-")
    | _, _, _, _ => (s, "bad-op", "-")
  | "w.all" :: rest =>
    -- `setAllParametersValues` with every parameter of the wrapper, values in the wrapper's order
    match getW s s.cur, fls? rest with
    | some (_, _, w, _, _), some xs =>
      if xs.length != w.params.length then (s, "bad-op", "-") else
      doPriv s impl s.cur (fun w => w.setAllValues pi (w.names.zip xs)) (fun _ => true)
    | _, _ => (s, "bad-op", "-")
  | "w.match" :: m :: rest =>
    match nat? m, parsePl rest with
    | some m, some pl =>
      if pl.length != m then (s, "bad-op", "-") else
      doPriv s impl s.cur (fun w => w.matchValues pi pl) (fun w => w.params.any (changedTP pl))
    | _, _ => (s, "bad-op", "-")
  | "w.pvs" :: m :: rest =>
    match nat? m, parsePl rest with
    | some m, some pl =>
      if pl.length != m then (s, "bad-op", "-") else
      doPriv s impl s.cur (fun w => w.setValues pi pl) (fun _ => true)
    | _, _ => (s, "bad-op", "-")
  | "f.set" :: g :: m :: rest =>
    -- the owner of the function moves it directly (original coordinates, the function's constraints)
    match nat? g, nat? m, parsePl rest with
    | some g, some m, some pl =>
      if pl.length != m then (s, "bad-op", "-") else
      match s.freg[g]? with
      | some (some fi) =>
        match s.world.fns[fi]?, s.cs[fi]? with
        | some f, some cs =>
          if !(pl.all (fun (n, _) => n < f.ps.length)) then (s, "bad-op", "-") else
          match f.matchValues (pl.map (fun (n, x) => { name := n, shape := Shape.none, value := x })) with
          | .ok f' =>
            ({ s with world := { s.world with fns := s.world.fns.set fi f' } },
              sh (Poly.f cs f'.vals) ++ " ; " ++ shs f'.vals, "-")
          | .error e => (dropAll s, excStr e, "-")
        | _, _ => (s, "bad-op", "-")
      | _ => (s, "bad-op", "-")
    | _, _, _ => (s, "bad-op", "-")
  | [o, k, j] =>
    if o == "w.clone" || o == "w.copy" || o == "w.assign" then
      match nat? k, nat? j with
      | some k, some j =>
        if k ≥ 4 then (s, "bad-op", "-") else
        match getW s j with
        | none => (s, "bad-op", "-")
        | some (wj, clsj, src, _, _) =>
          if o == "w.assign" then
            match getW s k with
            | none => (s, "bad-op", "-")
            | some (wk, clsk, _, _, _) =>
              match s.world.step pi tiny (.assign wk wj) with
              | .ok σ' =>
                match σ'.ws[wk]? with
                | some a => ({ s with world := σ' }, dumpW clsk a, copyVerdict impl src)
                | none => (s, "bad-op", "-")
              | .error e => (dropAll s, excStr e, "-")
          else
            match s.world.step pi tiny (.copy wj) with
            | .ok σ' =>
              let ci := s.world.ws.length
              match σ'.ws[ci]? with
              | some c => ({ s with world := σ', wreg := s.wreg.set! k (some (ci, clsj)) }, dumpW clsj c, copyVerdict impl src)
              | none => (s, "bad-op", "-")
            | .error e => (dropAll s, excStr e, "-")
      | _, _ => (s, "bad-op", "-")
    else if o == "w.d2" then
      match getW s s.cur, nat? k, nat? j with
      | some (_, cls, w, f, cs), some i, some j =>
        if cls < 2 || i ≥ f.ps.length || j ≥ f.ps.length then (s, "bad-op", "-") else
        -- always the two-argument overload, also for the same variable twice: there it must be the
        -- second derivative the one-argument overload returns (`chain_rule_2_diag`)
        match w.d2x pi (polyDfE cs) (polyD2fE cs) f i j with
        | .ok x =>
          let verdict :=
            if i == j then
              match impl, w.d2 pi (polyDfE cs) (polyD2fE cs) f i with
              | some [t], .ok one =>
                (match fl? t with
                | some v => if closeRel v one then "ok" else "FAIL:chain_rule_2_diag"
                | none => derivDefined impl)
              | _, _ => derivDefined impl
            else derivDefined impl
          (s, sh x, verdict)
        | .error e => (dropAll s, excStr e, "-")
      | _, _, _ => (s, "bad-op", "-")
    else if o == "w.fd" || o == "w.fd1" then
      let second := o == "w.fd"
      match getW s s.cur, nat? k, fl? j with
      | some (wi, cls, w, f, cs), some n, some h =>
        if cls < (if second then 2 else 1) || n ≥ f.ps.length then (s, "bad-op", "-") else
        match findTP n w.params with
        | none => (dropAll s, "exc:notfound", "-")
        | some tp0 =>
          match probe3 f w n tp0.x h with
          | .error e => (dropAll s, excStr e, match impl with | some _ => if wfOf w then raiseClause f w else "-" | none => "-")
          | .ok ((fm, wm), (fp, wp), (f0, w0)) =>
            let b0 := if second then oD2 cs f0 w0 n else 0.0
            let vals := [Poly.f cs fm.vals, Poly.f cs f0.vals, Poly.f cs fp.vals,
              oD1 cs fm wm n, oD1 cs f0 w0 n, oD1 cs fp wp n, b0]
            let verdict := match impl with
              | some ("exc:constraint" :: _) => if wfOf w then "FAIL:set_never_raises" else "-"
              | some t => match fls? t, w0.view? f0, w0.names.findIdx? (· == n) with
                | some iv, some v0, some slot => wfdOk (ctxOf f0 w0 cs) v0 slot h iv second
                | _, _, _ => if derivDefined impl == "-" then "FAIL:parse" else derivDefined impl
              | none => "-"
            (setWorld s wi f0 w0, shs vals, verdict)
      | _, _, _ => (s, "bad-op", "-")
    else if o == "w.pv" then
      match nat? k, fl? j with
      | some n, some x => doPriv s impl s.cur (fun w => w.setValue pi n x) (fun _ => true)
      | _, _ => (s, "bad-op", "-")
    else if o == "w.en" then
      let which := k
      let yn := j
      -- `enableFirstOrderDerivatives(yn)` / `enableSecondOrderDerivatives(yn)` through the wrapper (h:149, h:203)
      match getW s s.cur with
      | some (_, cls, w, f, _) =>
        let b := yn == "1"
        if which == "1" && cls ≥ 1 then
          let f' := f.enableFirst b
          let out := showBool f'.d1on ++ " " ++ showBool f'.d1on ++ " " ++ showBool f'.d2on
          ({ s with world := { s.world with fns := s.world.fns.set w.fn f' } }, out,
            match impl with | some t => if " ".intercalate t == out then "ok" else "FAIL:enable_delegates" | none => "-")
        else if which == "2" && cls ≥ 2 then
          let f' := f.enableSecond b
          let out := showBool f'.d2on ++ " " ++ showBool f'.d1on ++ " " ++ showBool f'.d2on
          ({ s with world := { s.world with fns := s.world.fns.set w.fn f' } }, out,
            match impl with | some t => if " ".intercalate t == out then "ok" else "FAIL:enable_delegates" | none => "-")
        else (s, "bad-op", "-")
      | none => (s, "bad-op", "-")
    else (s, "bad-op", "-")
  | _ => (s, "bad-op", "-")

def machine : Machine St := { init := fun _ => {}, step := step }

end Bpp.Drive.C11
