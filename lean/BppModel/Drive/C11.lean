import BppModel.Proto
import BppModel.Transform
import BppModel.Reparam
/-
Driver for C11 (TransformedParameter.h, ReparametrizationFunctionWrapper).
Registers t0..t3 hold transformed parameters.  The model runs at `Float`
(bit-exact tie); the verdicts are the Float shadows of the theorems of
lean/BppProofs/Props/C11.lean evaluated on the *implementation's* answers:
round trip (`*_roundtrip`), `back_in_domain`, monotonicity (`strict_mono`) and
finite differences against `d1`, `d2` (`d1_is_derivative`, `d2_is_derivative`); and of
lean/BppProofs/Props/C11Wrapper.lean for the wrapper ops (`w.new`, `w.newsub` = second constructor,
`w.set`, `w.touch` = `f()` on current values, `w.d1`, `w.d2`, `w.fd`, `w.fdx`):
`wrap_preserves_values`, `wrap_nudge`, `set_never_raises`, `set_sync`, `all_histories_accepted`
(`wrap_near`), `wrapper_back_in_domain`, `chain_rule_1/2/2_cross`.
-/
namespace Bpp.Drive.C11
open Bpp Bpp.Proto Bpp.Transform Bpp.Reparam

abbrev F := Float

def pi : F := libPI
def tiny : F := libTINY

def fl? (s : String) : Option F := if s == "nan" then some (0.0 / 0.0) else Hex.float? s
def sh (x : F) : String := Hex.ofFloatCanon x
def shs (l : List F) : String := " ".intercalate (l.map sh)
def fls? (l : List String) : Option (List F) := l.mapM fl?

def fmax (a b : F) : F := if a < b then b else a
def fabs (a : F) : F := Float.abs a
def finite (x : F) : Bool := !(x.isNaN || x.isInf)
def eps : F := Float.ofScientific 1 true 0 / 4503599627370496.0   -- 2^-52
/-- absolute floor of the finite-difference allowances: quantities in the subnormal range carry no
relative precision (found by the directed search: coefficient 5e-324) -/
def absFloor : F := 1e-280

/-- the wrapped function as the wrapper sees it: the coefficients of the polynomial, which of the
function's parameters each wrapper coordinate stands for (`sel`, all of them in order for the first
constructor, the given sub-list in the given order for the second one, h:53-59), and the function's
initial values (`base`): the parameters outside `sel` keep them for ever. -/
structure Ctx where
  cs : List (Coef Float)
  sel : List Nat
  base : List Float

structure St where
  t : Array (Option (TP F)) := Array.replicate 4 none
  /-- the wrapper and the wrapped polynomial -/
  w : Option (W F × Ctx) := none
  /-- are the hypotheses of `wrap_preserves_values` / `all_histories_accepted` other than "the value
  is accepted by its constraint" satisfied (`quantOk`: bounds within the property's quantifier,
  finite intervals roomy)? -/
  wf : Bool := true

/-! ### executable predicates (Float shadows of the theorems) -/

/-- bounds of the original interval of a transformed parameter: (lo?, hi?) -/
def domain : TP F → Option F × Option F
  | .r t => if t.positive then (some t.bound, none) else (none, some t.bound)
  | .i t => (some t.lo, some t.hi)
  | .p _ => (none, none)

/-- +1 increasing, -1 decreasing -/
def orientation : TP F → F
  | .r t => if t.positive then 1.0 else -1.0
  | _ => 1.0

def tpScale : TP F → F
  | .r t => t.scale
  | .i t => t.scale
  | .p _ => 1.0

/-- is the register inside the property's quantifier (unit scale for half-lines, positive scale,
lo < hi)? -/
def inScope : TP F → Bool
  | .r t => t.scale == 1.0
  | .i t => t.scale > 0.0 && t.lo < t.hi
  | .p _ => true

def magnitude (p : TP F) (v : F) : F :=
  let m := fmax 1.0 (fabs v)
  match domain p with
  | (a, b) =>
    let m := match a with | some a => fmax m (fabs a) | none => m
    match b with | some b => fmax m (fabs b) | none => m

/-- round trip `getOriginal (setOriginal v) = v` up to 2^-44 of the magnitude of the data -/
def roundTripOk (p : TP F) (v orig : F) : Bool :=
  fabs (orig - v) ≤ (Float.ofScientific 1 true 0 / 17592186044416.0) * magnitude p v

/-- closed-interval containment (the open interval of `back_in_domain`, closed by rounding) -/
def inDomain (p : TP F) (orig : F) : Bool :=
  match domain p with
  | (a, b) =>
    (match a with | some a => a ≤ orig | none => true) &&
    (match b with | some b => orig ≤ b | none => true)

/-- `mag`: magnitude of the data entering `g` (bounds, values): the rounding error of `g` is a few
ulps of it (cancellation in `tanh + 1` is amplified by the width of the interval) -/
def fdOk (gm g0 gp am a0 ap bm b0 bp h s mag : F) (second : Bool) : String :=
  if !([gm, g0, gp, am, a0, ap, bm, b0, bp].all finite) then "-" else
  let q1 := (gp - gm) / (2.0 * h)
  let tol1 := 1e-3 * (fabs am + fabs a0 + fabs ap) + 16.0 * eps * fmax mag (fmax (fabs gm) (fabs gp)) / h + absFloor
  if !(fabs (q1 - a0) ≤ tol1) then "FAIL:d1_is_derivative" else
  let q2 := (ap - am) / (2.0 * h)
  let tol2 := 1e-3 * ((fabs bm + fabs b0 + fabs bp) + (fabs am + fabs a0 + fabs ap) / fabs s)
    + 16.0 * eps * fmax (fabs am) (fabs ap) / h + absFloor
  if second && !(fabs (q2 - b0) ≤ tol2) then "FAIL:d2_is_derivative" else "ok"

/-! ### the machine -/

def newVerdict (impl : Option (List String)) (model : String) : String :=
  match impl with
  | none => "-"
  | some t => if " ".intercalate t == model then "ok" else "-"


/-! ### the wrapper -/

def nan : F := 0.0 / 0.0

def parseShape (k : String) (lo hi : F) : Option (Shape F) :=
  match k with
  | "none" => some .none
  | "cc" => some (.cc lo hi)
  | "oo" => some (.oo lo hi)
  | "co" => some (.co lo hi)
  | "oc" => some (.oc lo hi)
  | "gt" => some (.gt lo)
  | "ge" => some (.ge lo)
  | "lt" => some (.lt hi)
  | "le" => some (.le hi)
  | _ => none

/-- `{shape lo hi value c q e}*` -/
def parseParams : List String → Option (List ((Shape F × F) × Coef F))
  | [] => some []
  | k :: lo :: hi :: v :: c :: q :: e :: rest =>
    match fl? lo, fl? hi, fl? v, fl? c, fl? q, fl? e with
    | some lo, some hi, some v, some c, some q, some e =>
      match parseShape k lo hi, parseParams rest with
      | some sh, some l => some (((sh, v), { c := c, q := q, e := e }) :: l)
      | _, _ => none
    | _, _, _, _, _, _ => none
  | _ => none

/-- `{i x}*` with strictly increasing indices below `n`, as a list aligned with the parameters -/
def parseUpd (n : Nat) (l : List String) : Option (List (Option F)) :=
  let rec pairs : List String → Option (List (Nat × F))
    | [] => some []
    | i :: x :: rest =>
      match nat? i, fl? x, pairs rest with
      | some i, some x, some l => some ((i, x) :: l)
      | _, _, _ => none
    | _ => none
  match pairs l with
  | none => none
  | some ps =>
    let idx := ps.map (·.1)
    let incr := (idx.zip (idx.drop 1)).all (fun (a, b) => a < b)
    if !incr || !(idx.all (· < n)) then none
    else some ((List.range n).map (fun i => (ps.find? (·.1 == i)).map (·.2)))

def single (n i : Nat) (x : F) : List (Option F) :=
  (List.range n).map (fun j => if j == i then some x else none)

def polyDf (cs : List (Coef F)) (p : List F) (i : Nat) : F := (Poly.df cs p i).getD nan
def polyD2f (cs : List (Coef F)) (_p : List F) (i j : Nat) : F := (Poly.d2f cs i j).getD nan

/-- magnitude of the terms of the polynomial at `p` (for rounding allowances) -/
def polyMag (cs : List (Coef F)) (p : List F) : F :=
  let zs := cs.zip p
  let m := zs.foldl (fun acc (k, x) => acc + fabs (k.c * x) + fabs (k.q * (x * x))) 1.0
  (zs.zip (p.drop 1)).foldl (fun acc ((k, x), x') => acc + fabs (k.e * (x * x'))) m

namespace Ctx

/-- the wrapper coordinate standing for the function's parameter `i` -/
def slotOf (c : Ctx) (i : Nat) : Option Nat := c.sel.findIdx? (· == i)

/-- the function's full point, given the values of the wrapper's coordinates -/
def expand (c : Ctx) (p : List F) : List F :=
  (List.range c.base.length).map (fun j =>
    match c.slotOf j with
    | some k => p[k]?.getD nan
    | none => c.base[j]?.getD nan)

/-- the values of the wrapper's coordinates inside a full point of the function -/
def restrict (c : Ctx) (full : List F) : List F := c.sel.map (fun i => full[i]?.getD nan)

/-- the wrapped function and its derivatives in the wrapper's coordinates -/
def f (c : Ctx) (p : List F) : F := Poly.f c.cs (c.expand p)
def df (c : Ctx) (p : List F) (k : Nat) : F :=
  match c.sel[k]? with | some i => polyDf c.cs (c.expand p) i | none => nan
def d2f (c : Ctx) (p : List F) (k k' : Nat) : F :=
  match c.sel[k]?, c.sel[k']? with | some i, some j => polyD2f c.cs (c.expand p) i j | _, _ => nan
def mag (c : Ctx) (p : List F) : F := polyMag c.cs (c.expand p)

/-- an update aligned with the function's parameters, re-aligned with the wrapper's coordinates;
`none` when it names a parameter the wrapper does not have (ParameterNotFoundException) -/
def toW (c : Ctx) (updF : List (Option F)) : Option (List (Option F)) :=
  if (List.range updF.length).any (fun j => (updF[j]?.join).isSome && (c.slotOf j).isNone) then none
  else some (c.sel.map (fun i => updF[i]?.join))

end Ctx

/-- `init_` moves the value (closer than `tiny` to a closed bound or to the corrected open bound):
the model's own test `Reparam.isNudged`, whose negation over the reals is the hypothesis `NotNudged`
of `wrap_nudge` / `all_histories_accepted` (`isNudged_false_iff`) -/
def nudged (sh : Shape F) (v : F) : Bool := Reparam.isNudged tiny sh v

/-- the property's quantifier on constraints: bounds within [-1e3,1e3] (beyond ~1e4 an ulp of the
bound exceeds `TINY()` and the corrected bounds collapse -- rounding, not modelled) and finite
intervals wider than `4 TINY()` (hypothesis `Roomy` of `Admits`).  Every *value* accepted by such a
constraint is inside the theorems' hypotheses: nothing is excluded next to a bound. -/
def quantOk (sh : Shape F) : Bool :=
  let okb := fun (x : F) => fabs x ≤ 1000.0
  match sh with
  | .cc a b | .oo a b | .co a b | .oc a b => okb a && okb b && b - a > 4.0 * tiny
  | .gt a | .ge a => okb a
  | .lt b | .le b => okb b
  | .none => true

def shapeMag (sh : Shape F) (v : F) : F :=
  let m := fmax 1.0 (fabs v)
  match sh with
  | .cc a b | .oo a b | .co a b | .oc a b => fmax m (fmax (fabs a) (fabs b))
  | .gt a | .ge a => fmax m (fabs a)
  | .lt b | .le b => fmax m (fabs b)
  | .none => m

def two44 : F := Float.ofScientific 1 true 0 / 17592186044416.0

def showW (w : W F) : String :=
  shs (w.map (·.tp.x)) ++ " ; " ++ shs (w.map (fun s => s.tp.getOriginal pi)) ++ " ; " ++ shs (w.map (·.fn))

def splitSemi (t : List String) : List (List String) := splitTok ";" t

/-- verdict of `w.new` (`wrap_preserves_values`, `wrap_nudge`): for *every* value accepted by its
constraint wrapping succeeds, the function's parameters are untouched and each transformed parameter
back-transforms to `corrected tiny shape value` (to rounding), which is the initial value up to
`2 tiny` when `init_` moves it, exactly the initial value otherwise, and which the constraint accepts -/
def newWVerdict (impl : Option (List String)) (c : Ctx) (all : List (Shape F × F)) : String :=
  -- `ps`: the parameters the wrapper reparametrises, in its order
  let ps := c.sel.filterMap (fun i => all[i]?)
  if !(ps.all (fun (shp, _) => quantOk shp)) then "-" else
  match impl with
  | none => "-"
  | some ("exc:constraint" :: _) => "FAIL:wrap_preserves_values"
  | some t =>
    match splitSemi t with
    | [_, os, fs] =>
      match fls? os, fls? fs with
      | some os, some fs =>
        if os.length != ps.length || fs.length != all.length then "FAIL:parse"
        else if !((all.zip fs).all (fun ((_, v), f) => sh v == sh f)) then "FAIL:wrap_preserves_values"
        else if !((ps.zip os).all (fun ((shp, v), o) =>
            fabs (o - Reparam.corrected tiny shp v) ≤ two44 * shapeMag shp v)) then "FAIL:wrap_preserves_values"
        else if !((ps.zip os).all (fun ((shp, v), o) =>
            fabs (o - v) ≤ two44 * shapeMag shp v + (if nudged shp v then 2.0 * tiny else 0.0))) then "FAIL:wrap_nudge"
        else if !((ps.zip os).all (fun ((shp, _), o) => shp.isCorrect o)) then "FAIL:back_in_domain"
        else "ok"
      | _, _ => "FAIL:parse"
    | _ => "FAIL:parse"

/-- verdict of `w.set`: the value is the function at its own point (`wrap_f_eq`), that point
satisfies the constraints (`back_in_domain`), named coordinates are the back-transformed ones
(`set_sync`; when no named coordinate changed nothing is recomputed and a value moved by `init_` may
still be up to `2 tiny` off), every coordinate is within `2 tiny` of the back-transformed one
(`all_histories_accepted`), the coordinates that are not named are untouched -/
def setVerdict (impl : Option (List String)) (c : Ctx) (before after : W F) (upd : List (Option F)) (wf : Bool) : String :=
  match impl with
  | none => "-"
  | some ("exc:constraint" :: _) => if wf then "FAIL:set_never_raises" else "-"
  | some t =>
    match splitSemi t with
    | [[f], full, _] =>
      match fl? f, fls? full with
      | some f, some full =>
        let ch := (List.zipWith changed before upd).any id
        let slack : F := if ch then 0.0 else 2.0 * tiny
        -- the implementation's values of the coordinates the wrapper reparametrises
        let ps := c.restrict full
        if full.length != c.base.length || ps.length != after.length then "FAIL:parse"
        else if sh f != sh (Poly.f c.cs full) then "FAIL:wrap_f_eq"
        else if !((after.zip ps).all (fun (s, p) => s.shape.isCorrect p)) then "FAIL:back_in_domain"
        else if wf && !(((after.zip ps).zip upd).all (fun ((s, p), u) => u.isNone ||
            fabs (p - s.tp.getOriginal pi) ≤ two44 * shapeMag s.shape p + slack)) then "FAIL:wrap_sync"
        else if wf && !((after.zip ps).all (fun (s, p) =>
            fabs (p - s.tp.getOriginal pi) ≤ two44 * shapeMag s.shape p + 2.0 * tiny)) then "FAIL:wrap_near"
        else if !(((before.zip ps).zip upd).all (fun ((s, p), u) => u.isSome || sh p == sh s.fn)) then "FAIL:wrap_untouched"
        -- the function's parameters the wrapper was not given never move
        else if !(((List.range full.length).zip (full.zip c.base)).all (fun (j, (p, b)) =>
            (c.slotOf j).isSome || sh p == sh b)) then "FAIL:wrap_untouched"
        else "ok"
      | _, _ => "FAIL:parse"
    | _ => "FAIL:parse"

def excStr : Exc → String
  | .constraint => "exc:constraint"
  | .notfound => "exc:notfound"
  | .ub => "exc:ub"

/-- three successive single-coordinate updates (`x-h`, `x+h`, `x`), as the harness does -/
def probe3 (w : W F) (i : Nat) (x h : F) : Except Exc (W F × W F × W F) := do
  let n := w.length
  let wm ← Reparam.set pi w (single n i (x - h))
  let wp ← Reparam.set pi wm (single n i (x + h))
  let w0 ← Reparam.set pi wp (single n i x)
  pure (wm, wp, w0)

def wD1 (c : Ctx) (w : W F) (i : Nat) : F := (Reparam.d1 pi c.df w i).getD nan
def wD2 (c : Ctx) (w : W F) (i : Nat) : F := (Reparam.d2 pi c.df c.d2f w i).getD nan
def wD2x (c : Ctx) (w : W F) (i j : Nat) : F := (Reparam.d2x pi c.d2f w i j).getD nan

/-- finite-difference shadow of `chain_rule_1` / `chain_rule_2` for coordinate `i` -/
def wfdOk (c : Ctx) (w0 : W F) (i : Nat) (h : F) (vals : List F) : String :=
  match vals, w0[i]? with
  | [fm, f0, fp, am, a0, ap, b0], some s =>
    if !(vals.all finite) || !inScope s.tp || !(h > 0.0) then "-" else
    let p := fnVals w0
    let dfi := fabs (c.df p i)
    let d2fi := fabs (c.d2f p i i)
    let t1 := fabs (s.tp.d1 pi)
    let sc := fabs (tpScale s.tp)
    let magI := 2.0 * magnitude s.tp (s.tp.getOriginal pi)
    let q1 := (fp - fm) / (2.0 * h)
    let tol1 := 1e-3 * (fabs am + fabs a0 + fabs ap) + 4.0 * h * h / (sc * sc) * d2fi * t1 * t1 * sc
      + 32.0 * eps * (c.mag p + fmax (fabs fm) (fmax (fabs f0) (fabs fp)) + magI * dfi) / h + absFloor
    if !(fabs (q1 - a0) ≤ tol1) then "FAIL:chain_rule_1" else
    let second := match s.tp with
      | .r t => !(t.x - h ≤ 0.0 && 0.0 ≤ t.x + h)
      | _ => true
    let q2 := (ap - am) / (2.0 * h)
    let tol2 := 1e-3 * (fabs b0 + d2fi * t1 * t1 + 2.0 * dfi * t1 / sc)
      + 32.0 * eps * (fmax (fabs am) (fabs ap) + magI * d2fi * t1 + magI * dfi / sc) / h + absFloor
    if second && !(fabs (q2 - b0) ≤ tol2) then "FAIL:chain_rule_2" else "ok"
  | _, _ => "FAIL:parse"

def wfdxOk (c : Ctx) (w0 : W F) (i j : Nat) (h : F) (vals : List F) : String :=
  match vals, w0[i]?, w0[j]? with
  | [am, ap, c0], some si, some sj =>
    if !(vals.all finite) || !inScope si.tp || !inScope sj.tp || !(h > 0.0) then "-" else
    let p := fnVals w0
    let fij := fabs (c.d2f p i j)
    let ti := fabs (si.tp.d1 pi)
    let magJ := 2.0 * magnitude sj.tp (sj.tp.getOriginal pi)
    let q := (ap - am) / (2.0 * h)
    let tol := 1e-3 * fabs c0 + 32.0 * eps * (fmax (fabs am) (fabs ap) + magJ * fij * ti) / h + absFloor
    if !(fabs (q - c0) ≤ tol) then "FAIL:chain_rule_2_cross" else "ok"
  | _, _, _ => "FAIL:parse"

/-- `sel` of `w.newsub`: comma separated function indices (`f` = a foreign parameter, which the
constructor ignores, h:48-50); `none` when an index is out of range or repeated -/
def parseSel (n : Nat) (s : String) : Option (List Nat) :=
  let toks := (s.splitOn ",").filter (· != "f")
  match toks.mapM nat? with
  | some l => if l.all (· < n) && l.eraseDups.length == l.length then some l else none
  | none => none

/-- both constructors: the function is built, then the wrapper over the parameters `sel` -/
def doNew (s : St) (impl : Option (List String)) (l : List ((Shape F × F) × Coef F)) (sel : List Nat) :
    St × String × String :=
  let all := l.map (·.1)
  let c : Ctx := { cs := l.map (·.2), sel := sel, base := all.map (·.2) }
  -- the function's own `Parameter(name, value, constraint)` raises on an incorrect value
  if !(all.all (fun (shp, v) => shp.isCorrect v)) then ({ s with w := none }, "exc:constraint", "-") else
  let ps := sel.filterMap (fun i => all[i]?)
  let ok := ps.all (fun (shp, _) => quantOk shp)
  match Reparam.init pi tiny ps with
  | .ok w =>
    let out := shs (w.map (·.tp.x)) ++ " ; " ++ shs (w.map (fun s => s.tp.getOriginal pi)) ++ " ; " ++ shs c.base
    ({ s with w := some (w, c), wf := ok }, out, newWVerdict impl c all)
  | .error e =>
    -- `wrap_preserves_values`: over the reals wrapping never raises on accepted values
    ({ s with w := none }, excStr e,
      match impl with | some _ => if ok then "FAIL:wrap_preserves_values" else "-" | none => "-")

/-- `f(parameters)` with the update `updF` aligned with the function's parameters -/
def doSet (s : St) (impl : Option (List String)) (w : W F) (c : Ctx) (updF : List (Option F)) :
    St × String × String :=
  match c.toW updF with
  | none => ({ s with w := none }, "exc:notfound", "-")
  | some upd =>
    match Reparam.set pi w upd with
    | .ok w' =>
      let out := sh (Reparam.value c.f w') ++ " ; " ++ shs (c.expand (fnVals w')) ++ " ; " ++ shs (w'.map (·.fp))
      ({ s with w := some (w', c) }, out, setVerdict impl c w w' upd s.wf)
    | .error e =>
      -- `set_never_raises`: over the reals a well-formed wrapper never raises
      ({ s with w := none }, excStr e, match impl with | some _ => "FAIL:set_never_raises" | none => "-")

def step (s : St) (op : List String) (impl : Option (List String)) : St × String × String :=
  match op with
  | ["r.new", k, v, b, pos, sc] =>
    match nat? k, fl? v, fl? b, fl? sc with
    | some k, some v, some b, some sc =>
      if k ≥ 4 then (s, "bad-op", "-") else
      match RT.new v b (pos == "1") sc with
      | some t => ({ s with t := s.t.set! k (some (.r t)) }, sh t.x, "-")
      | none => ({ s with t := s.t.set! k none }, "exc:constraint", "-")
    | _, _, _, _ => (s, "bad-op", "-")
  | ["i.new", k, v, lo, hi, sc, hy] =>
    match nat? k, fl? v, fl? lo, fl? hi, fl? sc with
    | some k, some v, some lo, some hi, some sc =>
      if k ≥ 4 then (s, "bad-op", "-") else
      let t := IT.new pi v lo hi sc (hy == "1")
      ({ s with t := s.t.set! k (some (.i t)) }, sh t.x, "-")
    | _, _, _, _, _ => (s, "bad-op", "-")
  | ["p.new", k, v] =>
    match nat? k, fl? v with
    | some k, some v =>
      if k ≥ 4 then (s, "bad-op", "-") else
      let t : TP F := TP.placebo v
      ({ s with t := s.t.set! k (some t) }, sh t.x, "-")
    | _, _ => (s, "bad-op", "-")
  | ["t.setorig", k, v] =>
    match nat? k, fl? v with
    | some k, some v =>
      match s.t[k]? with
      | some (some p) =>
        match p.setOriginal pi v with
        | none =>
          -- the theorems' domain: raised iff the value is not strictly inside
          let inside := match domain p with
            | (a, b) => (match a with | some a => a < v | none => true) && (match b with | some b => v < b | none => true)
          let verdict := match impl with
            | some ["exc:constraint"] => if inside then "FAIL:constraint_check" else "ok"
            | some _ => if inside then "-" else "FAIL:constraint_check"
            | none => "-"
          (s, "exc:constraint", verdict)
        | some p' =>
          let out := shs [p'.x, p'.getOriginal pi]
          let verdict := match impl with
            | some [_, o] =>
              match fl? o with
              | some o =>
                if !inScope p then "-"
                else if !(roundTripOk p v o) then "FAIL:roundtrip"
                else if !(inDomain p o) then "FAIL:back_in_domain"
                else "ok"
              | none => "FAIL:parse"
            | some ["exc:constraint"] => "FAIL:constraint_check"
            | some _ => "FAIL:parse"
            | none => "-"
          ({ s with t := s.t.set! k (some p') }, out, verdict)
      | _ => (s, "bad-op", "-")
    | _, _ => (s, "bad-op", "-")
  | ["t.setx", k, x] =>
    match nat? k, fl? x with
    | some k, some x =>
      match s.t[k]? with
      | some (some p) =>
        let p' := p.setX x
        let out := shs [p'.getOriginal pi, p'.d1 pi, p'.d2 pi]
        let verdict := match impl with
          | some [o, a, _] =>
            match fl? o, fl? a with
            | some o, some a =>
              if !inScope p || !(finite x) then "-"
              else if !(inDomain p o) then "FAIL:back_in_domain"
              else if !(orientation p * a ≥ 0.0) then "FAIL:strict_mono"
              else "ok"
            | _, _ => "FAIL:parse"
          | some _ => "FAIL:parse"
          | none => "-"
        ({ s with t := s.t.set! k (some p') }, out, verdict)
      | _ => (s, "bad-op", "-")
    | _, _ => (s, "bad-op", "-")
  | ["t.mono", k, x1, x2] =>
    match nat? k, fl? x1, fl? x2 with
    | some k, some x1, some x2 =>
      match s.t[k]? with
      | some (some p) =>
        let p1 := p.setX x1
        let p2 := p1.setX x2
        let out := shs [p1.getOriginal pi, p2.getOriginal pi]
        let verdict := match impl with
          | some [o1, o2] =>
            match fl? o1, fl? o2 with
            | some o1, some o2 =>
              if !inScope p || !(finite x1 && finite x2) then "-"
              else if x1 < x2 && !(orientation p * (o2 - o1) ≥ 0.0) then "FAIL:strict_mono"
              else if x2 < x1 && !(orientation p * (o1 - o2) ≥ 0.0) then "FAIL:strict_mono"
              else if !(inDomain p o1 && inDomain p o2) then "FAIL:back_in_domain"
              else "ok"
            | _, _ => "FAIL:parse"
          | some _ => "FAIL:parse"
          | none => "-"
        ({ s with t := s.t.set! k (some p2) }, out, verdict)
      | _ => (s, "bad-op", "-")
    | _, _, _ => (s, "bad-op", "-")
  | ["t.fd", k, x, h] =>
    match nat? k, fl? x, fl? h with
    | some k, some x, some h =>
      match s.t[k]? with
      | some (some p) =>
        let pm := p.setX (x - h)
        let pp := pm.setX (x + h)
        let p0 := pp.setX x
        let out := shs [pm.getOriginal pi, p0.getOriginal pi, pp.getOriginal pi,
          pm.d1 pi, p0.d1 pi, pp.d1 pi, pm.d2 pi, p0.d2 pi, pp.d2 pi]
        let verdict := match impl with
          | some t =>
            match fls? t with
            | some [gm, g0, gp, am, a0, ap, bm, b0, bp] =>
              if !inScope p || !(h > 0.0) then "-" else
              -- the half-line transform is C^1 but not C^2 at x = 0 (`r_d2_is_derivative` needs x ≠ 0)
              let second := match p with
                | .r _ => !(x - h ≤ 0.0 && 0.0 ≤ x + h)
                | _ => true
              fdOk gm g0 gp am a0 ap bm b0 bp h (tpScale p) (2.0 * magnitude p g0) second
            | _ => "FAIL:parse"
          | none => "-"
        ({ s with t := s.t.set! k (some p0) }, out, verdict)
      | _ => (s, "bad-op", "-")
    | _, _, _ => (s, "bad-op", "-")
  | "w.new" :: n :: rest =>
    match nat? n, parseParams rest with
    | some n, some l =>
      if l.length != n then (s, "bad-op", "-") else doNew s impl l (List.range n)
    | _, _ => (s, "bad-op", "-")
  | "w.newsub" :: n :: sel :: rest =>
    match nat? n, parseParams rest with
    | some n, some l =>
      if l.length != n then (s, "bad-op", "-") else
      match parseSel n sel with
      | some sel => doNew s impl l sel
      | none => (s, "bad-op", "-")
    | _, _ => (s, "bad-op", "-")
  | "w.set" :: m :: rest =>
    match s.w, nat? m with
    | some (w, c), some m =>
      if rest.length != 2 * m then (s, "bad-op", "-") else
      match parseUpd c.base.length rest with
      | none => (s, "bad-op", "-")
      | some updF => doSet s impl w c updF
    | _, _ => (s, "bad-op", "-")
  | "w.touch" :: m :: rest =>
    -- `f()` with the current values of the named coordinates: nothing changes in the wrapper
    match s.w, nat? m, rest.mapM nat? with
    | some (w, c), some m, some idx =>
      let incr := (idx.zip (idx.drop 1)).all (fun (a, b) => a < b)
      if idx.length != m || !incr || !(idx.all (· < c.base.length)) then (s, "bad-op", "-") else
      let updF := (List.range c.base.length).map (fun j =>
        if idx.contains j then
          (match c.slotOf j with | some k => (w[k]?).map (·.tp.x) | none => some 0.0)
        else none)
      doSet s impl w c updF
    | _, _, _ => (s, "bad-op", "-")
  | ["w.d1", i] =>
    match s.w, nat? i with
    | some (w, c), some i =>
      if i ≥ c.base.length then (s, "bad-op", "-") else
      match c.slotOf i with
      | some k => (s, sh (wD1 c w k), "-")
      | none => ({ s with w := none }, "exc:notfound", "-")
    | _, _ => (s, "bad-op", "-")
  | ["w.d2", i, j] =>
    match s.w, nat? i, nat? j with
    | some (w, c), some i, some j =>
      if i ≥ c.base.length || j ≥ c.base.length then (s, "bad-op", "-") else
      match c.slotOf i, c.slotOf j with
      | some k, some k' => (s, sh (if k == k' then wD2 c w k else wD2x c w k k'), "-")
      | _, _ => ({ s with w := none }, "exc:notfound", "-")
    | _, _, _ => (s, "bad-op", "-")
  | ["w.fd", i, h] =>
    match s.w, nat? i, fl? h with
    | some (w, c), some i, some h =>
      if i ≥ c.base.length then (s, "bad-op", "-") else
      match c.slotOf i with
      | none => ({ s with w := none }, "exc:notfound", "-")
      | some i =>
      match w[i]? with
      | none => (s, "bad-op", "-")
      | some si =>
        match probe3 w i si.tp.x h with
        | .error e => ({ s with w := none }, excStr e, match impl with | some _ => "FAIL:set_never_raises" | none => "-")
        | .ok (wm, wp, w0) =>
          let vals := [Reparam.value c.f wm, Reparam.value c.f w0, Reparam.value c.f wp,
            wD1 c wm i, wD1 c w0 i, wD1 c wp i, wD2 c w0 i]
          let verdict := match impl with
            | some ("exc:constraint" :: _) => "FAIL:set_never_raises"
            | some t => match fls? t with
              | some iv => wfdOk c w0 i h iv
              | none => "FAIL:parse"
            | none => "-"
          ({ s with w := some (w0, c) }, shs vals, verdict)
    | _, _, _ => (s, "bad-op", "-")
  | ["w.fdx", i, j, h] =>
    match s.w, nat? i, nat? j, fl? h with
    | some (w, c), some i, some j, some h =>
      if i ≥ c.base.length || j ≥ c.base.length || i == j then (s, "bad-op", "-") else
      match c.slotOf i, c.slotOf j with
      | some i, some j =>
      (match w[i]?, w[j]? with
      | some _, some sj =>
        match probe3 w j sj.tp.x h with
        | .error e => ({ s with w := none }, excStr e, match impl with | some _ => "FAIL:set_never_raises" | none => "-")
        | .ok (wm, wp, w0) =>
          let vals := [wD1 c wm i, wD1 c wp i, wD2x c w0 i j]
          let verdict := match impl with
            | some ("exc:constraint" :: _) => "FAIL:set_never_raises"
            | some t => match fls? t with
              | some iv => wfdxOk c w0 i j h iv
              | none => "FAIL:parse"
            | none => "-"
          ({ s with w := some (w0, c) }, shs vals, verdict)
      | _, _ => (s, "bad-op", "-"))
      | _, _ => ({ s with w := none }, "exc:notfound", "-")
    | _, _, _, _ => (s, "bad-op", "-")
  | _ => (s, "bad-op", "-")

def machine : Machine St := { init := fun _ => {}, step := step }

end Bpp.Drive.C11
