import BppModel.Proto
import BppModel.Transform
/-
Driver for C11 (TransformedParameter.h, ReparametrizationFunctionWrapper).
Registers t0..t3 hold transformed parameters.  The model runs at `Float`
(bit-exact tie); the verdicts are the Float shadows of the theorems of
lean/BppProofs/Props/C11.lean evaluated on the *implementation's* answers:
round trip (`*_roundtrip`), `back_in_domain`, monotonicity (`strict_mono`) and
finite differences against `d1`, `d2` (`d1_is_derivative`, `d2_is_derivative`).
-/
namespace Bpp.Drive.C11
open Bpp Bpp.Proto Bpp.Transform

abbrev F := Float

def pi : F := libPI
def tiny : F := libTINY

def fl? (s : String) : Option F := if s == "nan" then some (0.0 / 0.0) else Hex.float? s
def sh (x : F) : String := Hex.ofFloatCanon x
def shs (l : List F) : String := " ".intercalate (l.map sh)
def fls? (l : List String) : Option (List F) := l.mapM fl?

def fmax (a b : F) : F := if a < b then b else a
def fabs (a : F) : F := Float.abs a
def finite (x : F) : Bool := !(x.isNaN || x.isInf)
def eps : F := Float.ofScientific 1 true 0 / 4503599627370496.0   -- 2^-52

structure St where
  t : Array (Option (TP F)) := Array.replicate 4 none

/-! ### executable predicates (Float shadows of the theorems) -/

/-- bounds of the original interval of a transformed parameter: (lo?, hi?) -/
def domain : TP F → Option F × Option F
  | .r t => if t.positive then (some t.bound, none) else (none, some t.bound)
  | .i t => (some t.lo, some t.hi)
  | .p _ => (none, none)

/-- +1 increasing, -1 decreasing -/
def orientation : TP F → F
  | .r t => if t.positive then 1.0 else -1.0
  | _ => 1.0

def tpScale : TP F → F
  | .r t => t.scale
  | .i t => t.scale
  | .p _ => 1.0

/-- is the register inside the property's quantifier (unit scale for half-lines, positive scale,
lo < hi)? -/
def inScope : TP F → Bool
  | .r t => t.scale == 1.0
  | .i t => t.scale > 0.0 && t.lo < t.hi
  | .p _ => true

def magnitude (p : TP F) (v : F) : F :=
  let m := fmax 1.0 (fabs v)
  match domain p with
  | (a, b) =>
    let m := match a with | some a => fmax m (fabs a) | none => m
    match b with | some b => fmax m (fabs b) | none => m

/-- round trip `getOriginal (setOriginal v) = v` up to 2^-44 of the magnitude of the data -/
def roundTripOk (p : TP F) (v orig : F) : Bool :=
  fabs (orig - v) ≤ (Float.ofScientific 1 true 0 / 17592186044416.0) * magnitude p v

/-- closed-interval containment (the open interval of `back_in_domain`, closed by rounding) -/
def inDomain (p : TP F) (orig : F) : Bool :=
  match domain p with
  | (a, b) =>
    (match a with | some a => a ≤ orig | none => true) &&
    (match b with | some b => orig ≤ b | none => true)

/-- `mag`: magnitude of the data entering `g` (bounds, values): the rounding error of `g` is a few
ulps of it (cancellation in `tanh + 1` is amplified by the width of the interval) -/
def fdOk (gm g0 gp am a0 ap bm b0 bp h s mag : F) (second : Bool) : String :=
  if !([gm, g0, gp, am, a0, ap, bm, b0, bp].all finite) then "-" else
  let q1 := (gp - gm) / (2.0 * h)
  let tol1 := 1e-3 * (fabs am + fabs a0 + fabs ap) + 16.0 * eps * fmax mag (fmax (fabs gm) (fabs gp)) / h
  if !(fabs (q1 - a0) ≤ tol1) then "FAIL:d1_is_derivative" else
  let q2 := (ap - am) / (2.0 * h)
  let tol2 := 1e-3 * ((fabs bm + fabs b0 + fabs bp) + (fabs am + fabs a0 + fabs ap) / fabs s)
    + 16.0 * eps * fmax (fabs am) (fabs ap) / h
  if second && !(fabs (q2 - b0) ≤ tol2) then "FAIL:d2_is_derivative" else "ok"

/-! ### the machine -/

def newVerdict (impl : Option (List String)) (model : String) : String :=
  match impl with
  | none => "-"
  | some t => if " ".intercalate t == model then "ok" else "-"

def step (s : St) (op : List String) (impl : Option (List String)) : St × String × String :=
  match op with
  | ["r.new", k, v, b, pos, sc] =>
    match nat? k, fl? v, fl? b, fl? sc with
    | some k, some v, some b, some sc =>
      if k ≥ 4 then (s, "bad-op", "-") else
      match RT.new v b (pos == "1") sc with
      | some t => ({ s with t := s.t.set! k (some (.r t)) }, sh t.x, "-")
      | none => ({ s with t := s.t.set! k none }, "exc:constraint", "-")
    | _, _, _, _ => (s, "bad-op", "-")
  | ["i.new", k, v, lo, hi, sc, hy] =>
    match nat? k, fl? v, fl? lo, fl? hi, fl? sc with
    | some k, some v, some lo, some hi, some sc =>
      if k ≥ 4 then (s, "bad-op", "-") else
      let t := IT.new pi v lo hi sc (hy == "1")
      ({ s with t := s.t.set! k (some (.i t)) }, sh t.x, "-")
    | _, _, _, _, _ => (s, "bad-op", "-")
  | ["p.new", k, v] =>
    match nat? k, fl? v with
    | some k, some v =>
      if k ≥ 4 then (s, "bad-op", "-") else
      let t : TP F := TP.placebo v
      ({ s with t := s.t.set! k (some t) }, sh t.x, "-")
    | _, _ => (s, "bad-op", "-")
  | ["t.setorig", k, v] =>
    match nat? k, fl? v with
    | some k, some v =>
      match s.t[k]? with
      | some (some p) =>
        match p.setOriginal pi v with
        | none =>
          -- the theorems' domain: raised iff the value is not strictly inside
          let inside := match domain p with
            | (a, b) => (match a with | some a => a < v | none => true) && (match b with | some b => v < b | none => true)
          let verdict := match impl with
            | some ["exc:constraint"] => if inside then "FAIL:constraint_check" else "ok"
            | some _ => if inside then "-" else "FAIL:constraint_check"
            | none => "-"
          (s, "exc:constraint", verdict)
        | some p' =>
          let out := shs [p'.x, p'.getOriginal pi]
          let verdict := match impl with
            | some [_, o] =>
              match fl? o with
              | some o =>
                if !inScope p then "-"
                else if !(roundTripOk p v o) then "FAIL:roundtrip"
                else if !(inDomain p o) then "FAIL:back_in_domain"
                else "ok"
              | none => "FAIL:parse"
            | some ["exc:constraint"] => "FAIL:constraint_check"
            | some _ => "FAIL:parse"
            | none => "-"
          ({ s with t := s.t.set! k (some p') }, out, verdict)
      | _ => (s, "bad-op", "-")
    | _, _ => (s, "bad-op", "-")
  | ["t.setx", k, x] =>
    match nat? k, fl? x with
    | some k, some x =>
      match s.t[k]? with
      | some (some p) =>
        let p' := p.setX x
        let out := shs [p'.getOriginal pi, p'.d1 pi, p'.d2 pi]
        let verdict := match impl with
          | some [o, a, _] =>
            match fl? o, fl? a with
            | some o, some a =>
              if !inScope p || !(finite x) then "-"
              else if !(inDomain p o) then "FAIL:back_in_domain"
              else if !(orientation p * a ≥ 0.0) then "FAIL:strict_mono"
              else "ok"
            | _, _ => "FAIL:parse"
          | some _ => "FAIL:parse"
          | none => "-"
        ({ s with t := s.t.set! k (some p') }, out, verdict)
      | _ => (s, "bad-op", "-")
    | _, _ => (s, "bad-op", "-")
  | ["t.mono", k, x1, x2] =>
    match nat? k, fl? x1, fl? x2 with
    | some k, some x1, some x2 =>
      match s.t[k]? with
      | some (some p) =>
        let p1 := p.setX x1
        let p2 := p1.setX x2
        let out := shs [p1.getOriginal pi, p2.getOriginal pi]
        let verdict := match impl with
          | some [o1, o2] =>
            match fl? o1, fl? o2 with
            | some o1, some o2 =>
              if !inScope p || !(finite x1 && finite x2) then "-"
              else if x1 < x2 && !(orientation p * (o2 - o1) ≥ 0.0) then "FAIL:strict_mono"
              else if x2 < x1 && !(orientation p * (o1 - o2) ≥ 0.0) then "FAIL:strict_mono"
              else if !(inDomain p o1 && inDomain p o2) then "FAIL:back_in_domain"
              else "ok"
            | _, _ => "FAIL:parse"
          | some _ => "FAIL:parse"
          | none => "-"
        ({ s with t := s.t.set! k (some p2) }, out, verdict)
      | _ => (s, "bad-op", "-")
    | _, _, _ => (s, "bad-op", "-")
  | ["t.fd", k, x, h] =>
    match nat? k, fl? x, fl? h with
    | some k, some x, some h =>
      match s.t[k]? with
      | some (some p) =>
        let pm := p.setX (x - h)
        let pp := pm.setX (x + h)
        let p0 := pp.setX x
        let out := shs [pm.getOriginal pi, p0.getOriginal pi, pp.getOriginal pi,
          pm.d1 pi, p0.d1 pi, pp.d1 pi, pm.d2 pi, p0.d2 pi, pp.d2 pi]
        let verdict := match impl with
          | some t =>
            match fls? t with
            | some [gm, g0, gp, am, a0, ap, bm, b0, bp] =>
              if !inScope p || !(h > 0.0) then "-" else
              -- the half-line transform is C^1 but not C^2 at x = 0 (`r_d2_is_derivative` needs x ≠ 0)
              let second := match p with
                | .r _ => !(x - h ≤ 0.0 && 0.0 ≤ x + h)
                | _ => true
              fdOk gm g0 gp am a0 ap bm b0 bp h (tpScale p) (2.0 * magnitude p g0) second
            | _ => "FAIL:parse"
          | none => "-"
        ({ s with t := s.t.set! k (some p0) }, out, verdict)
      | _ => (s, "bad-op", "-")
    | _, _, _ => (s, "bad-op", "-")
  | _ => (s, "bad-op", "-")

def machine : Machine St := { init := fun _ => {}, step := step }

end Bpp.Drive.C11
