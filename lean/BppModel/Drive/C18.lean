import BppModel.Proto
import BppModel.Rand
import BppModel.RandGen
/-
Driver for C18 (random draws).  Stateless: every operation carries its inputs; the
implementation's answer carries, after its last `;`, the primitive draws the library made
(recorded by the guarded hook) — they are the *input* of the model (DESIGN §2.4).

  model answer  = what the model computes from the operation's arguments and the recorded draws
                  (printed in the same format as the implementation's answer, draws echoed)
  verdict       = the property's predicates evaluated on the implementation's answer alone.
-/
namespace Bpp.Drive.C18
open Bpp Bpp.Proto Bpp.Rand

abbrev St := Unit

inductive Draw
  | i (entry r : Nat)
  | u (entry r : Float)
  | c (p : Float) (r : Bool)

def parseDraw (s : String) : Option Draw :=
  match s.splitOn ":" with
  | ["i", e, r] => do let e ← nat? e; let r ← nat? r; pure (.i e r)
  | ["u", e, r] => do let e ← Hex.float? e; let r ← Hex.float? r; pure (.u e r)
  | ["c", p, r] => do let p ← Hex.float? p; pure (.c p (r == "1"))
  | _ => none

def floats? (l : List String) : Option (List Float) := l.mapM Hex.float?
def showFloats (l : List Float) : String := " ".intercalate (l.map Hex.ofFloat)
def showNats (l : List Nat) : String := " ".intercalate (l.map toString)
def join (segs : List String) : String := " ; ".intercalate segs
def errStr : Err → String
  | .empty => "exc:empty" | .index => "exc:index" | .bpp => "exc:bpp" | .ub => "ub"
  | .starved => "model-starved" | .unreachable => "model-unreachable"

/-- the integer draws, provided every one is of kind `i` with the expected entry -/
def intDraws (ds : List Draw) (entry : Nat) : Option (List Nat) :=
  ds.mapM (fun d => match d with | .i e r => if e == entry && r < e then some r else none | _ => none)
/-- the uniform draws with entry 1.0; the primitive's contract `0 ≤ r < 1` is checked here -/
def unitDraws (ds : List Draw) : Option (List Float) :=
  ds.mapM (fun d => match d with | .u e r => if e == 1.0 && 0.0 ≤ r && r < 1.0 then some r else none | _ => none)

structure Impl where
  raised : Option String     -- `exc:<kind>`
  segs : List (List String)  -- answer split at ';' (without the draws)
  draws : List Draw
  drawToks : List String
  okDraws : Bool

def parseImpl (t : List String) : Impl :=
  match t with
  | [x] =>
    if x.startsWith "exc:" then ⟨some x, [], [], [], true⟩
    else
      let segs := splitTok ";" t
      ⟨none, segs.dropLast, [], [], true⟩
  | _ =>
    let segs := splitTok ";" t
    let dt := segs.getLastD []
    let ds := dt.filterMap parseDraw
    ⟨none, segs.dropLast, ds, dt, ds.length == dt.length⟩

/-- reconstruct a permutation `hat` of `0..n-1` with `out[i] = vin[hat[i]]` (first unused
position with the right value), completed by the unused positions -/
def matchPositions (vin out : List Int) : Option (List Nat) :=
  let rec go (out : List Int) (used : List Nat) : Option (List Nat) :=
    match out with
    | [] => some used.reverse
    | x :: xs =>
      match (List.range vin.length).find? (fun p => vin[p]? == some x && !used.contains p) with
      | none => none
      | some p => go xs (p :: used)
  match go out [] with
  | none => none
  | some ps => some (ps ++ (List.range vin.length).filter (fun p => !ps.contains p))

/-! ### statistical exploration (labelled as tests, not proofs): rigorous tail bounds with a
fixed false-alarm level per test of 1e-9 (at most a few hundred tests per run: < 1e-6 overall) -/
def lnInvAlpha : Float := 20.723265836946411   -- ln(1e9)

/-- Dvoretzky–Kiefer–Wolfowitz–Massart: P(D > ε) ≤ 2 exp(-2 n ε²) -/
def ksBound (n : Nat) : Float := Float.sqrt ((lnInvAlpha + Float.log 2.0) / (2.0 * n.toFloat))

/-- Pearson χ² against expected probabilities; cells with expected count < 5 are pooled; cells
with probability 0 must be empty.  Bound (Laurent–Massart): P(χ²_d ≥ d + 2√(d x) + 2x) ≤ e^{-x}. -/
def chi2Ok (counts : List Nat) (probs : List Float) : Bool :=
  let n : Float := (counts.sum).toFloat
  let s : Float := probs.foldl (· + ·) 0.0
  let cells := counts.zip (probs.map (· / s))
  let extra := (counts.drop probs.length).sum       -- anything outside the support cells
  let zerosOk := cells.all (fun (c, p) => p > 0.0 || c == 0)
  let big := cells.filter (fun (_, p) => p > 0.0 && n * p ≥ 5.0)
  let small := cells.filter (fun (_, p) => p > 0.0 && n * p < 5.0)
  let pooledC : Nat := (small.map (·.1)).sum
  let pooledP : Float := (small.map (·.2)).foldl (· + ·) 0.0
  let all := if pooledP > 0.0 then (pooledC, pooledP) :: big else big
  let stat := all.foldl (fun acc (c, p) => let e := n * p; acc + (c.toFloat - e) * (c.toFloat - e) / e) 0.0
  let d : Float := (all.length - 1).toFloat
  extra == 0 && zerosOk && stat ≤ d + 2.0 * Float.sqrt (d * lnInvAlpha) + 2.0 * lnInvAlpha

def binom (n k : Nat) : Nat := if k > n then 0 else (List.range k).foldl (fun acc i => acc * (n - i) / (i + 1)) 1

/-- hypergeometric probabilities of cell (0,0) of a 2x2 table with margins r0,r1 / c0,c1, values 0..k -/
def hyperProbs (r0 r1 c0 k : Nat) : List Float :=
  (List.range (k + 1)).map (fun x => (binom r0 x * binom r1 (c0 - x)).toFloat / (binom (r0 + r1) c0).toFloat)

/-- is "follows the weights" judgeable for these weights: one weight per element, non-negative,
positive total (the assumptions of `weighted_pick_law`) -/
def lawJudgeable (n : Nat) (w : List Float) : Bool := w.length == n && weightsOk w

def verdictOf (checks : List (Bool × String)) : String :=
  match checks.find? (fun p => !p.1) with
  | some (_, name) => "FAIL:" ++ name
  | none => "ok"

def step (_ : St) (op : List String) (impl : Option (List String)) : St × String × String :=
  let bad : St × String × String := ((), "bad-op", "-")
  match impl with
  | none => ((), "need-draws", "-")
  | some it =>
  if it == ["hang"] then ((), "terminates", "FAIL:terminates") else
  let im := parseImpl it
  match op with
  | ["seed", _] => ((), "ok", "-")
  | "pick1" :: r :: vs =>
    match ints? vs with
    | none => bad
    | some v =>
      let repl := r == "1"
      -- predicates on the implementation's answer
      let verdict :=
        match im.raised, im.segs with
        | some e, _ => verdictOf [(v.isEmpty && e == "exc:empty", "empty_raises")]
        | none, [[e], v'] =>
          match int? e, ints? v' with
          | some e, some v' => verdictOf [(!v.isEmpty, "empty_raises"), (v.contains e, "pick_member"),
              (if repl then v' == v else isPermOf (e :: v') v, "pick_removes_one"),
              -- the law: the element at the position the recorded integer draw designates
              (match intDraws im.draws v.length with | some [pos] => lawPickAt v pos e | _ => true, "pick_law")]
          | _, _ => "FAIL:parse"
        | none, _ => "FAIL:parse"
      let out :=
        if v.isEmpty then errStr .empty
        else match intDraws im.draws v.length with
          | some [pos] =>
            match pickOne v repl pos with
            | .ok (e, v') => join [toString e, showInts v', " ".intercalate im.drawToks]
            | .error e => errStr e
          | _ => "draw-mismatch"
      ((), out, verdict)
  | "pick1c" :: vs =>
    match ints? vs with
    | none => bad
    | some v =>
      let verdict :=
        match im.raised, im.segs with
        | some e, _ => verdictOf [(v.isEmpty && e == "exc:empty", "empty_raises")]
        | none, [[e]] =>
          match int? e with
          | some e => verdictOf [(!v.isEmpty, "empty_raises"), (v.contains e, "pick_member"),
              (match intDraws im.draws v.length with | some [pos] => lawPickAt v pos e | _ => true, "pick_law")]
          | _ => "FAIL:parse"
        | none, _ => "FAIL:parse"
      let out :=
        if v.isEmpty then errStr .empty
        else match intDraws im.draws v.length with
          | some [pos] =>
            match pickOneConst v pos with
            | .ok e => join [toString e, " ".intercalate im.drawToks]
            | .error e => errStr e
          | _ => "draw-mismatch"
      ((), out, verdict)
  | "pickw" :: r :: rest =>
    match splitTok ";" rest with
    | [vs, ws] =>
      match ints? vs, floats? ws with
      | some v, some w =>
        let repl := r == "1"
        let verdict :=
          match im.raised, im.segs with
          | some e, _ => verdictOf [(v.isEmpty && e == "exc:empty", "empty_raises")]
          | none, [[e], v', w'] =>
            match int? e, ints? v', floats? w' with
            | some e, some v', some w' =>
              -- support: some position holding `e` has positive weight, or `e` is the last element
              let supp := (v.zip w).any (fun (x, wx) => x == e && wx > 0.0) || v.getLast? == some e
              verdictOf [(!v.isEmpty, "empty_raises"), (v.contains e, "pick_member"), (supp, "weighted_pick_support"),
                (if repl then v' == v && w'.length == w.length else isPermOf (e :: v') v && w'.length + 1 == w.length, "pick_removes_one"),
                -- the law: `e` is the element whose weight interval (normalised by Σw) contains the recorded draw
                (!(lawJudgeable v.length w) || (match unitDraws im.draws with | some [u] => lawElem v w u e | _ => true), "weighted_pick_law"),
                -- the remaining (element, weight) pairs are the original ones minus the picked pair
                (repl || (let pairs := v.zip (w.map Float.toBits); let rest := v'.zip (w'.map Float.toBits)
                          pairs.any (fun q => q.1 == e && isPermOf (q :: rest) pairs)), "weighted_pick_keeps_weights_attached")]
            | _, _, _ => "FAIL:parse"
          | none, _ => "FAIL:parse"
        let out :=
          if v.isEmpty then errStr .empty
          else match unitDraws im.draws with
            | some [prob] =>
              match pickOneW v w repl prob with
              | .ok (e, v', w') => join [toString e, showInts v', showFloats w', " ".intercalate im.drawToks]
              | .error e => errStr e
            | _ => "draw-mismatch"
        ((), out, verdict)
      | _, _ => bad
    | _ => bad
  | "pickwc" :: rest =>
    match splitTok ";" rest with
    | [vs, ws] =>
      match ints? vs, floats? ws with
      | some v, some w =>
        let verdict :=
          match im.raised, im.segs with
          | some e, _ => verdictOf [(v.isEmpty && e == "exc:empty", "empty_raises")]
          | none, [[e]] =>
            match int? e with
            | some e =>
              let supp := (v.zip w).any (fun (x, wx) => x == e && wx > 0.0) || v.getLast? == some e
              verdictOf [(!v.isEmpty, "empty_raises"), (v.contains e, "pick_member"), (supp, "weighted_pick_support"),
                (!(lawJudgeable v.length w) || (match unitDraws im.draws with | some [u] => lawElem v w u e | _ => true), "weighted_pick_law")]
            | _ => "FAIL:parse"
          | none, _ => "FAIL:parse"
        let out :=
          if v.isEmpty then errStr .empty
          else match unitDraws im.draws with
            | some [prob] =>
              match pickOneWConst v w prob with
              | .ok e => join [toString e, " ".intercalate im.drawToks]
              | .error e => errStr e
            | _ => "draw-mismatch"
        ((), out, verdict)
      | _, _ => bad
    | _ => bad
  | "sample" :: r :: k :: vs =>
    match nat? k, ints? vs with
    | some k, some v =>
      let repl := r == "1"
      let tooLong := v.length < k && !repl
      let verdict :=
        match im.raised, im.segs with
        | some e, _ =>
          if tooLong then verdictOf [(e == "exc:index", "sample_too_long_raises")]
          else verdictOf [(repl && v.isEmpty && k > 0 && e == "exc:empty", "empty_raises")]
        | none, [out] =>
          match ints? out with
          | some out =>
            if repl then verdictOf [(!(v.isEmpty && k > 0), "empty_raises"), (out.length == k, "sample_size"), (allFrom out v, "sample_repl_subset"),
              (match intDraws im.draws v.length with | some ds => ds.length != out.length || lawSampleUnif v ds out | none => true, "sample_repl_law")]
            else verdictOf [(!tooLong, "sample_too_long_raises"), (out.length == k, "sample_size"),
              (subMultiset out v, "sample_norepl_distinct"), (k != v.length || isPermOf out v, "sample_norepl_distinct")]
          | none => "FAIL:parse"
        | none, _ => "FAIL:parse"
      let out :=
        if tooLong then errStr .index
        else if repl then
          match intDraws im.draws v.length with
          | some ds => if ds.length != (if v.isEmpty then 0 else k) then "draw-mismatch" else
            match getSample v k true ds [] with
            | .ok o => join [showInts o, " ".intercalate im.drawToks]
            | .error e => errStr e
          | none => "draw-mismatch"
        else
          -- std::shuffle consumed the generator directly: relational tie through a reconstructed permutation
          match im.segs with
          | [o] =>
            match (ints? o).bind (matchPositions v) with
            | some hat =>
              if !(isPermOf hat (List.range v.length)) then "bad-witness" else
              match getSample v k false [] hat with
              | .ok o => join [showInts o, ""]
              | .error e => errStr e
            | none => "no-permutation-explains-the-output"
          | _ => "no-permutation-explains-the-output"
      ((), out, verdict)
    | _, _ => bad
  | "samplew" :: r :: k :: rest =>
    match nat? k, splitTok ";" rest with
    | some k, [vs, ws] =>
      match ints? vs, floats? ws with
      | some v, some w =>
        let repl := r == "1"
        let tooLong := v.length < k && !repl
        let verdict :=
          match im.raised, im.segs with
          | some e, _ =>
            if tooLong then verdictOf [(e == "exc:index", "sample_too_long_raises")]
            else verdictOf [(v.isEmpty && k > 0 && e == "exc:empty", "empty_raises")]
          | none, [out] =>
            match ints? out with
            | some out =>
              -- the law, judged on the implementation's own recorded draws (one uniform draw per element)
              let us := unitDraws im.draws
              if repl then verdictOf [(!(v.isEmpty && k > 0), "empty_raises"), (out.length == k, "sample_size"), (allFrom out v, "sample_repl_subset"),
                (!(lawJudgeable v.length w) || (match us with | some us => us.length != out.length || lawSampleRepl v w us out | none => true), "weighted_sample_law")]
              else verdictOf [(!tooLong, "sample_too_long_raises"), (out.length == k, "sample_size"),
                (subMultiset out v, "sample_norepl_distinct"), (k != v.length || isPermOf out v, "sample_norepl_distinct"),
                (!(lawJudgeable v.length w && k ≤ nPositive w) || (match us with | some us => us.length != out.length || lawSampleNoRepl us out v w | none => true), "weighted_sample_norepl_law")]
            | none => "FAIL:parse"
          | none, _ => "FAIL:parse"
        let out :=
          if tooLong then errStr .index
          else match unitDraws im.draws with
            | some ds => if ds.length != (if v.isEmpty then 0 else k) then "draw-mismatch" else
              match getSampleW v w k repl ds with
              | .ok o => join [showInts o, " ".intercalate im.drawToks]
              | .error e => errStr e
            | none => "draw-mismatch"
        ((), out, verdict)
      | _, _ => bad
    | _, _ => bad
  | "cumsum" :: ws =>
    match floats? ws with
    | none => bad
    | some w =>
      let verdict :=
        match im.raised, im.segs with
        | some e, _ => verdictOf [(w.isEmpty && e == "exc:empty", "empty_raises")]
        | none, [[p]] =>
          match nat? p, unitDraws im.draws with
          | some p, some [u] =>
            -- support: the step of the cumulative function at p is positive (or u = 0, or p is the last index)
            let prev := if p == 0 then 0.0 else (w[p - 1]?).getD 0.0
            verdictOf [(!w.isEmpty, "empty_raises"), (p < w.length, "cumsum_pick_range"),
              ((w[p]?).getD 0.0 > prev || u == 0.0 || p + 1 == w.length, "cumsum_pick_support"),
              (cumSumPickOk w u p, "cumsum_pick_law")]
          | _, _ => "FAIL:parse"
        | none, _ => "FAIL:parse"
      let out :=
        if w.isEmpty then errStr .empty
        else match unitDraws im.draws with
          | some [prob] =>
            match pickFromCumSum w prob with
            | .ok p => join [toString p, " ".intercalate im.drawToks]
            | .error e => errStr e
          | _ => "draw-mismatch"
      ((), out, verdict)
  | "multinom" :: n :: ps =>
    match nat? n, floats? ps with
    | some n, some probs =>
      let verdict :=
        match im.raised, im.segs with
        -- a non-empty request is refused exactly when the probabilities have no positive sum
        | some e, _ => verdictOf [(multinomialRaises probs n && e == "exc:bpp", "multinomial_raises_only_without_positive_sum")]
        | none, [st] =>
          match st.mapM nat? with
          | some st => verdictOf [(!(multinomialRaises probs n), "multinomial_refuses_nonpositive_sum"),
              (st.length == n, "multinomial_counts_sum"), (countsOk probs.length n st, "multinomial_counts_sum"),
              (st.all (fun s => s < probs.length), "multinomial_state_range"),
              -- the law: each state lies on the step of the running sums on which its own recorded draw falls
              (match unitDraws im.draws with
               | some ds => ds.length != st.length || (ds.zip st).all (fun (r, s) => multinomialLawOk probs r s)
               | none => true, "multinomial_state_law")]
          | none => "FAIL:parse"
        | none, _ => "FAIL:parse"
      let out :=
        if multinomialRaises probs n then errStr .bpp else
        match unitDraws im.draws with
        | some ds => if ds.length != n then "draw-mismatch" else
          match randMultinomial probs n ds with
          | .ok st => join [showNats st, " ".intercalate im.drawToks]
          | .error e => errStr e
        | none => "draw-mismatch"
      ((), out, verdict)
    | _, _ => bad
  | "drand" :: rest =>
    match splitTok ";" rest with
    | [vs, ps] =>
      match floats? vs, floats? ps with
      | some vals, some probs =>
        let verdict :=
          match im.raised, im.segs with
          | some _, _ => "-"
          | none, [[x]] =>
            match Hex.float? x with
            | some x => verdictOf [((vals.zip probs).any (fun (c, _) => c == x), "drand_member"),
                (match unitDraws im.draws with | some [r] => dRandLawOk (vals.zip probs) r x | _ => true, "drand_law")]
            | none => "FAIL:parse"
          | none, _ => "FAIL:parse"
        let out :=
          match im.raised with
          | some e => e     -- constructor checks of SimpleDiscreteDistribution are not part of the model
          | none =>
            match unitDraws im.draws with
            | some [r] => join [Hex.ofFloat (dRand (vals.zip probs) r), " ".intercalate im.drawToks]
            | _ => "draw-mismatch"
        ((), out, verdict)
      | _, _ => bad
    | _ => bad
  | "hmm" :: n :: size :: _ =>
    -- the simplex coding of the rows refuses some matrices (zeros): not part of the model
    if im.raised.isSome then ((), " ".intercalate it, "-") else
    match nat? n, nat? size, splitTok ";" it with
    | some n, some size, [st, pij, eqU, eqT, dt] =>
      match st.mapM nat?, floats? pij, floats? eqU, floats? eqT, unitDraws (dt.filterMap parseDraw) with
      | some st, some pij, some eqU, some eqT, some ds =>
        let rows := (List.range n).map (fun i => (pij.drop (i * n)).take n)
        let rowOk := rows.all (fun r => r.all (fun x => 0.0 ≤ x) && Float.abs (r.foldl (· + ·) 0.0 - 1.0) < 1e-9)
        let verdict := verdictOf [(st.length == size, "hmm_sample_defined"), (st.all (· < n), "hmm_sample_defined"),
          (size == 0 || (eqU.map Float.toBits == eqT.map Float.toBits), "hmm_first_state_from_equilibrium"),
          (Float.abs (eqT.foldl (· + ·) 0.0 - 1.0) < 1e-9 && rowOk, "hmm_rows_are_probabilities"),
          -- the law: each state on the step of its own recorded draw
          (ds.length != st.length || hmmSampleLawOk eqU rows ds st, "hmm_sample_law")]
        let out := if ds.length != size || dt.length != size then "draw-mismatch" else
          match hmmSample eqU rows size ds with
          | .ok l => join [showNats l, showFloats pij, showFloats eqU, showFloats eqT, " ".intercalate dt]
          | .error e => errStr e
        ((), out, verdict)
      | _, _, _, _, _ => ((), "parse", "FAIL:parse")
    | _, _, _ => ((), "parse", "FAIL:parse")
  | "rcont2" :: rest =>
    match splitTok ";" rest with
    | [rs, cs] =>
      match rs.mapM nat?, cs.mapM nat? with
      | some rows, some cols =>
        let nr := rows.length
        let nc := cols.length
        let invalid := nr < 2 || nc < 2 || rows.sum != cols.sum
        -- the implementation's table
        let tab : Option (List (List Int)) :=
          match im.raised, it.mapM int? with
          | none, some cells => if cells.length == nr * nc && nc > 0 then some ((List.range nr).map (fun i => (cells.drop (i * nc)).take nc)) else none
          | _, _ => none
        let verdict :=
          match im.raised with
          | some e => verdictOf [(invalid && e == "exc:bpp", "rcont2_rejects_only_bad_margins")]
          | none =>
            match tab with
            | some t => verdictOf [(!invalid, "rcont2_rejects_only_bad_margins"), (marginsOk rows cols t, "rcont2_margins")]
            | none => "FAIL:parse"
        let out :=
          if invalid then errStr .bpp
          else match tab with
            | some t =>
              let picks := (t.take (nr - 1)).map (fun row => row.take (nc - 1))
              match rcont2 rows cols picks with
              | .ok m => showInts m.flatten
              | .error e => errStr e
            | none => "no-table"
        ((), out, verdict)
      | _, _ => bad
    | _ => bad
  | "ctest" :: nb :: nr :: nc :: cells =>
    match nat? nb, nat? nr, nat? nc, cells.mapM nat? with
    | some nb, some nr, some nc, some cells =>
      let tab := (List.range nr).map (fun i => (cells.drop (i * nc)).take nc)
      let m1 := tab.map List.sum
      let m2 := (List.range nc).map (fun j => (tab.map (fun row => (row[j]?).getD 0)).sum)
      let invalid := nr < 2 || nc < 2 || m1.any (· == 0) || m2.any (· == 0)
      match im.raised, it with
      | some e, _ => ((), (if invalid then "exc:bpp" else "no-exception-expected"), verdictOf [(invalid && e == "exc:bpp", "ctest_rejects_only_bad_tables")])
      | none, _ =>
        match splitTok ";" it with
        | [[s, p, d], im1, im2, simToks, [same]] =>
          match Hex.float? s, Hex.float? p, Hex.float? d, im1.mapM nat?, im2.mapM nat?, floats? simToks with
          | some sv, some pv, some _, some im1, some im2, some sims =>
            let tot := m1.sum
            let stat : Float := (List.range nr).foldl (fun acc i => (List.range nc).foldl (fun acc j =>
              let c := ((tab[i]?.bind (·[j]?)).getD 0).toFloat
              let e := ((m1[i]?).getD 0 * (m2[j]?).getD 0).toFloat / tot.toFloat
              acc + (c - e) * (c - e) / e) acc) 0.0
            let df : Float := ((nc - 1) * (nr - 1)).toFloat
            -- the transcribed Monte-Carlo loop on the statistics of the tables `rcont2` draws from the
            -- generator state the constructor started in, against the implementation's own statistic
            let pModel : Option Float := if nb == 0 then none else
              match mcPValue sv nb sims with | .ok x => some x | .error _ => none
            -- relational form: some count in 0..nb gives exactly this value
            let cnt := (pv * (nb + 1).toFloat).round.toUInt64.toNat - 1
            let formOk := nb == 0 || (cnt ≤ nb && (pvalueOfCount cnt nb : Float) == pv)
            -- all tables with margins (1,1)/(1,1) have the same statistic: every replicate counts (`pvalue_all_ge`)
            let tiesOk := !(nb > 0 && m1 == [1, 1] && m2 == [1, 1]) || pv == 1.0
            let verdict := verdictOf [(!invalid, "ctest_rejects_only_bad_tables"), (im1 == m1 && im2 == m2, "ctest_margins"),
              (0.0 ≤ pv && pv ≤ 1.0, "pvalue_range"), (nb == 0 || pv > 0.0, "pvalue_range"),
              -- the constructor consumed the generator exactly as `nbPermutations` tables do
              (same == "1" && sims.length == nb, "pvalue_replicates"),
              (formOk, "pvalue_count_le_nb"),
              (match pModel with | some x => x.toBits == pv.toBits | none => nb == 0, "pvalue_formula"),
              (tiesOk, "pvalue_all_ge")]
            let pOut := match pModel with | some x => Hex.ofFloat x | none => p
            ((), join [Hex.ofFloat stat ++ " " ++ pOut ++ " " ++ Hex.ofFloat df, showNats m1, showNats m2, " ".intercalate simToks, "1"], verdict)
          | _, _, _, _, _, _ => ((), "parse", "FAIL:parse")
        | _ => ((), "parse", "FAIL:parse")
    | _, _, _, _ => bad
  | "ks" :: fam :: n :: _ =>
    -- answer: D n' mean [massdev]; n' = n, or (beta law) the number of sample points below the censoring
    -- point, D then being the distance to the cdf conditioned on that region and massdev |n'/n - F(cens)|
    match nat? n, it with
    | some n, [d, n', _] =>
      match Hex.float? d, nat? n' with
      | some d, some n' => ((), "stat", if n' == n && d ≤ ksBound n then "ok" else "FAIL:ks_" ++ fam)
      | _, _ => ((), "stat", "FAIL:ks_" ++ fam)    -- NaN in the sample or in the cdf
    | some n, [d, n', _, md] =>
      match Hex.float? d, nat? n', Hex.float? md with
      | some d, some n', some md =>
        -- the slack 0.05 covers the mass (at most 3.5 % for beta >= 0.1) that the beta law puts within one ulp of 1
        ((), "stat", if 100 ≤ n' && n' ≤ n && d ≤ ksBound n' && md ≤ ksBound n + 0.05 then "ok" else "FAIL:ks_" ++ fam)
      | _, _, _ => ((), "stat", "FAIL:ks_" ++ fam)
    | some _, _ => ((), "stat", "FAIL:ks_" ++ fam)
    | _, _ => bad
  | "chi2" :: kind :: _ :: ws =>
    match floats? ws, it.mapM nat? with
    | some w, some counts =>
      let probs :=
        if kind == "pick1c" || kind == "shuffle" || kind == "uint" then w.map (fun _ => 1.0)
        -- the pair (first, second element) of a sample with replacement of size 2: independent picks
        else if kind == "pairs" then (w.flatMap (fun _ => w)).map (fun _ => 1.0)
        else if kind == "pairsw" then w.flatMap (fun a => w.map (fun b => a * b))
        else w
      ((), "stat", if chi2Ok counts probs then "ok" else "FAIL:chi2_" ++ kind)
    | _, _ => ((), "stat", "FAIL:chi2_" ++ kind)
  | "chi2d" :: fam :: _ =>
    match splitTok ";" it with
    | [cs, ps] =>
      match cs.mapM nat?, floats? ps with
      | some counts, some probs => ((), "stat", if chi2Ok counts probs then "ok" else "FAIL:chi2_" ++ fam)
      | _, _ => ((), "stat", "FAIL:chi2_" ++ fam)
    | _ => ((), "stat", "FAIL:chi2_" ++ fam)
  | ["chi2rc", _, r0, r1, c0, _] =>
    match nat? r0, nat? r1, nat? c0, it.mapM nat? with
    | some r0, some r1, some c0, some counts =>
      ((), "stat", if chi2Ok counts (hyperProbs r0 r1 c0 (min r0 c0)) then "ok" else "FAIL:chi2_rcont2")
    | _, _, _, _ => ((), "stat", "FAIL:chi2_rcont2")
  | ["chi2rc3", _, _, a0, _, b0, b1, b2] =>
    -- joint law of two cells of a 2x3 / 3x2 table: multivariate hypergeometric
    match nat? a0, nat? b0, nat? b1, nat? b2, it.mapM nat? with
    | some a0, some b0, some b1, some b2, some counts =>
      let tot := (binom (b0 + b1 + b2) a0).toFloat
      let probs := (List.range (b0 + 1)).flatMap (fun x0 => (List.range (b1 + 1)).map (fun x1 =>
        if x0 + x1 > a0 then 0.0 else (binom b0 x0 * binom b1 x1 * binom b2 (a0 - x0 - x1)).toFloat / tot))
      ((), "stat", if chi2Ok counts probs then "ok" else "FAIL:chi2_rcont2_joint")
    | _, _, _, _, _ => ((), "stat", "FAIL:chi2_rcont2_joint")
  | ["repro", _] =>
    -- answer: <two runs after setSeed(seed) agree> <the first uniform is the one of std::mt19937(seed): informative only,
    -- the property does not name the generator> <setSeed(seed + 1) gives another stream>
    match it with
    | [same, first, differs] => ((), "1 " ++ first ++ " 1", if same == "1" && differs == "1" then "ok" else "FAIL:reproducible")
    | _ => ((), "parse", "FAIL:reproducible")
  | ["repro1", routine, _, _, _] =>
    -- two histories that differ before `setSeed(seed)`: the observations after it and the final generator
    -- state must agree (`reproducible`); the clause names the routine that keeps state of its own
    match splitTok ";" it with
    | [a, b, [same]] =>
      ((), join [" ".intercalate a, " ".intercalate a, "1"],
        if RandGen.reproObserved a b (same == "1") then "ok" else "FAIL:reproducible_" ++ routine)
    | _ => ((), "parse", "FAIL:reproducible_" ++ routine)
  | _ => bad

def machine : Machine St := { init := fun _ => (), step := step }

end Bpp.Drive.C18
