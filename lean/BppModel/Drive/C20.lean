import BppModel.Proto
import BppModel.Range
/-
Driver for C20 (Range.h), generic in the coordinate type and run at `Int` (`case … int`),
`UInt32` (`case … uint`, arithmetic modulo 2^32) and `Rat` (`case … double [scale]`).

Coordinates travel as integers: a script integer `n` stands for the value `n / scale` (scale 1
for int / uint; 1, 2 or 4 for double, so that non-integral dyadic doubles are exercised), and a
value is printed as `value * scale`.

Registers: multi-ranges m0..m3, range sets s0..s3, and for each multi-range register the
specification point set (cells `[p/scale,(p+1)/scale[` of the universe) computed independently
from the history, plus the implementation's previous answer (the state `filter_spec` speaks about).
-/
namespace Bpp.Drive.C20
open Bpp Bpp.Proto

def U : Nat := 176
/-- cell `p` of the specification vectors stands for the script integer `p - OFF` -/
def OFF : Int := 64

/-- how script integers are read into / printed from a coordinate type
(`static_cast<T>(long long) / scale` and `(long long)(v * scale)` in the harness) -/
class Wire (α : Type) where
  ofScript : Int → Nat → α
  toScript : α → Nat → Int

instance : Wire Int := ⟨fun n _ => n, fun v _ => v⟩
instance : Wire UInt32 := ⟨fun n _ => UInt32.ofNat (n % 4294967296).toNat, fun v _ => v.toNat⟩
instance : Wire Rat := ⟨fun n s => (n : Rat) / (s : Rat), fun v s => (v * (s : Rat)).floor⟩

section
variable {α : Type} [LE α] [LT α] [DecidableLE α] [DecidableLT α] [DecidableEq α] [OfNat α 0]
  [Min α] [Max α] [Add α] [Sub α] [CoordIO α] [Wire α]

structure St (α : Type) where
  scale : Nat := 1
  mr : Array (List (Range α)) := Array.replicate 4 []
  rs : Array (List (Range α)) := Array.replicate 4 []
  /-- specification: the set of cells, as a characteristic vector -/
  spec : Array (Array Bool) := Array.replicate 4 (Array.replicate U false)
  /-- specification of a range set: the list of ranges it must hold -/
  rsSpec : Array (List (Range α)) := Array.replicate 4 []
  /-- the implementation's previous answer for each multi-range register -/
  implMr : Array (List (Range α)) := Array.replicate 4 []

def cellIn (sc : Nat) (r : Range α) (p : Nat) : Bool :=
  decide (r.b ≤ Wire.ofScript ((p : Int) - OFF) sc) && decide ((Wire.ofScript ((p : Int) - OFF) sc : α) < r.e)

def showC (sc : Nat) (l : List α) : String := showInts (l.map (fun v => Wire.toScript v sc))

def showRanges (sc : Nat) (l : List (Range α)) : String := showC sc (MultiRange.getBounds l)

def parseRanges (sc : Nat) : List Int → Option (List (Range α))
  | [] => some []
  | a :: b :: rest => (parseRanges sc rest).map (fun l => ⟨Wire.ofScript a sc, Wire.ofScript b sc⟩ :: l)
  | _ => none

/-- The executable form of the invariant the theorems are about (`MultiRange.Inv`). -/
def invOk : List (Range α) → Bool
  | [] => true
  | [x] => decide (x.b < x.e)
  | x :: y :: rest => decide (x.b < x.e) && decide (x.e ≤ y.b) && invOk (y :: rest)

def denotes (sc : Nat) (l : List (Range α)) (spec : Array Bool) : Bool :=
  (List.range U).all (fun p => (l.any (fun r => cellIn sc r p)) == spec[p]!)

def specLen (spec : Array Bool) : Nat := (spec.toList.filter id).length

/-- `getBounds` is ascending (theorem `bounds_sorted`) -/
def ascending : List α → Bool
  | [] => true
  | [_] => true
  | a :: b :: rest => decide (a ≤ b) && ascending (b :: rest)

/-- the full observation of a collection:
`<getRange(i).begin end>* ; totalLength ; size isEmpty ; <getBounds / getSet>* ; <cells owned
twice, over all registers: 0 by theorem `copy_independent` (predicate `Sep`)> ; toString` -/
def showColl (sc : Nat) (l : List (Range α)) : String :=
  showRanges sc l ++ " ; " ++ toString (RangeCollection.totalLength l) ++ " ; " ++
    toString (RangeCollection.size l) ++ " " ++ showBool (RangeCollection.isEmpty l) ++ " ; " ++
    showRanges sc l ++ " ; 0 ; " ++ RangeCollection.toString l

structure Obs (α : Type) where
  l : List (Range α)
  len : Int
  size : Int
  empty : String
  bounds : List α
  shared : Int
  str : List String

def parseObs (sc : Nat) (t : List String) : Option (Obs α) :=
  match splitTok ";" t with
  | bs :: [len] :: [size, empty] :: gb :: [sh] :: rest =>
    match ints? bs, int? len, int? size, ints? gb, int? sh with
    | some bs, some len, some size, some gb, some sh =>
      match parseRanges (α := α) sc bs with
      | some l => some { l := l, len := len, size := size, empty := empty,
                         bounds := gb.map (fun v => Wire.ofScript v sc), shared := sh,
                         str := (rest.intersperse [";"]).flatten }
      | none => none
    | _, _, _, _, _ => none
  | _ => none

/-- observers that must agree with each other on the implementation's own answer:
`size`, `isEmpty`, `getBounds` / `getSet`, `toString` against `getRange` (theorems
`collection_observers`, `bounds_sorted`; `toString` by the model's function) -/
def obsVerdict (o : Obs α) (isMr : Bool) : Option String :=
  if o.shared != 0 then some "FAIL:copy_independent"
  else if o.size != (o.l.length : Nat) then some "FAIL:size"
  else if o.empty != showBool (o.l.length == 0) then some "FAIL:isEmpty"
  else if o.bounds != MultiRange.getBounds o.l then some "FAIL:getBounds"
  else if isMr && !ascending o.bounds then some "FAIL:bounds_sorted"
  else if " ".intercalate o.str != RangeCollection.toString o.l then some "FAIL:toString"
  else none

/-- executable form of the component semantics `addK` (theorem `mr_refines`): the stored ranges
that do not overlap `r` stay; the others are replaced by the hull of their union with `r`
(computed with min / max, independently of the order in which the code expands and erases) -/
def specAdd (prev : List (Range α)) (r : Range α) : List (Range α) :=
  let ov := fun (x : Range α) => decide (r.b < x.e) && decide (x.b < r.e)
  let h := (prev.filter ov).foldl (fun (h : Range α) x => ⟨min h.b x.b, max h.e x.e⟩) r
  let rest := prev.filter (fun x => !ov x)
  if h.b < h.e then rest.filter (fun x => decide (x.b < h.b)) ++ [h] ++ rest.filter (fun x => !decide (x.b < h.b))
  else rest

/-- executable form of `restrictK`: the non-empty intersections -/
def specRestrict (prev : List (Range α)) (r : Range α) : List (Range α) :=
  prev.filterMap (fun x =>
    let lo := max x.b r.b; let hi := min x.e r.e
    if lo < hi then some ⟨lo, hi⟩ else none)

/-- verdict of the multi-range predicates on the implementation's answer; `expect` is the
component semantics applied to the implementation's own previous answer -/
def mrVerdict (sc : Nat) (impl : Option (List String)) (spec : Array Bool)
    (filt : Option (List (Range α) × Range α)) (expect : Option (List (Range α)) := none) : String :=
  match impl with
  | none => "-"
  | some t =>
    match parseObs (α := α) sc t with
    | some o =>
      if !invOk o.l then "FAIL:mr_inv"
      else match filt with
        | some (prev, r) =>
          if o.l != prev.filter (fun x => decide (r.b ≤ x.b) && decide (x.e ≤ r.e)) then "FAIL:filter_spec"
          else if !denotes sc o.l spec then "FAIL:mr_denotes"
          else if sc == 1 && o.len != (specLen spec : Nat) then "FAIL:mr_total_length"
          else match obsVerdict o true with
            | some f => f
            | none => "ok"
        | none =>
          if !denotes sc o.l spec then "FAIL:mr_denotes"
          else if sc == 1 && o.len != (specLen spec : Nat) then "FAIL:mr_total_length"
          else if (match expect with | some e => o.l != e | none => false) then "FAIL:mr_refines"
          else match obsVerdict o true with
            | some f => f
            | none => "ok"
    | none => "FAIL:parse"

def rsVerdict (sc : Nat) (impl : Option (List String)) (want : List (Range α)) : String :=
  match impl with
  | none => "-"
  | some t =>
    match parseObs (α := α) sc t with
    | some o =>
      if o.l != want then "FAIL:rangeset_keeps"
      else if o.len != (RangeSet.totalLength want : Nat) then "FAIL:rs_total_length"
      else match obsVerdict o false with
        | some f => f
        | none => "ok"
    | none => "FAIL:parse"

def implVerdict (impl : Option (List String)) (want : String) (clause : String := "range_spec") : String :=
  match impl with
  | none => "-"
  | some t => if " ".intercalate t == want then "ok" else "FAIL:" ++ clause

/-- the implementation's list of ranges in an answer (or the model's when there is none) -/
def implList (sc : Nat) (impl : Option (List String)) (dflt : List (Range α)) : List (Range α) :=
  match impl with
  | none => dflt
  | some t => match parseObs (α := α) sc t with
    | some o => o.l
    | none => dflt

def cells (sc : Nat) (r : Range α) : List Nat := (List.range U).filter (cellIn sc r)

/-- the model's answer to `r.pred` / `r.shpred` -/
def predOut (sc : Nat) (x r : Range α) : String :=
  showC sc [x.b, x.e] ++ " " ++ showBool (x.overlap r) ++ " " ++ showBool (x.isContiguous r)
    ++ " " ++ showBool (x.contains r) ++ " " ++ showBool x.isEmpty ++ " " ++ showC sc [x.length]
    ++ " " ++ showBool (x.eq r) ++ " " ++ showBool (x.ne r) ++ " " ++ showBool (x.lt r) ++ " " ++ x.toString

/-- The predicates of `Range` judged against **point-set arithmetic on half-open intervals, empty
operands included** (not against the model's formulas): two ranges overlap iff they share a cell,
`x` contains `r` iff every cell of `r` is a cell of `x` (so an empty range overlaps nothing and is
contained in everything), `x` is empty iff it has no cell, its length is its number of cells.
Contiguity is positional (one bound shared), as documented in the header; a point set alone does
not say where an empty range lies.  Where the implementation deviates in the two known ways the
clause names them (`overlap_empty_operand`, `contains_empty_range`: `findings/C20.json`); an
ill-formed first operand (wrapped `unsigned` shift result) that deviates gives `illformed_arg_uint`. -/
def predJudge (sc : Nat) (impl : Option (List String)) (x r : Range α) : String :=
  match impl with
  | none => "-"
  | some [xb, xe, ovl, contig, cont, empty, len, eq, ne, lt, str] =>
    let cx := cells sc x; let cr := cells sc r
    let ovlS := showBool (cx.any (fun p => cr.contains p))
    let contS := showBool (cr.all (fun p => cx.contains p))
    let emptyS := showBool cx.isEmpty
    let lenS := toString cx.length
    if !decide (x.b ≤ x.e) then
      (if ovl == ovlS && cont == contS && empty == emptyS && len == lenS then "ok" else "FAIL:illformed_arg_uint")
    else
      let same := decide (x.b = r.b) && decide (x.e = r.e)
      let less := decide (x.b < r.b) || decide (x.e < r.e)
      let contigS := showBool (decide (x.e = r.b) || decide (r.e = x.b))
      if xb ++ " " ++ xe != showC sc [x.b, x.e] || contig != contigS || empty != emptyS || len != lenS
          || eq != showBool same || ne != showBool (!same) || lt != showBool less
          || str != "[" ++ CoordIO.render x.b ++ "," ++ CoordIO.render x.e ++ "[" then "FAIL:range_spec"
      else if ovl != ovlS then
        -- known deviation: an empty operand lying strictly inside the other one "overlaps" it
        (if ovl == "1" && ((decide (r.b = r.e) && decide (x.b < r.b) && decide (r.b < x.e))
              || (decide (x.b = x.e) && decide (r.b < x.b) && decide (x.b < r.e)))
         then "FAIL:overlap_empty_operand" else "FAIL:range_spec")
      else if cont != contS then
        -- known deviation: an empty range lying outside `[begin,end]` is "not contained"
        (if cont == "0" && decide (r.b = r.e) && (decide (r.b < x.b) || decide (x.e < r.b))
         then "FAIL:contains_empty_range" else "FAIL:range_spec")
      else "ok"
  | some _ => "FAIL:parse"

def step (s : St α) (op : List String) (impl : Option (List String)) : St α × String × String :=
  let sc := s.scale
  let rd : Int → α := fun n => Wire.ofScript n sc
  match op with
  | ["mr.add", k, a, b] =>
    match nat? k, int? a, int? b with
    | some k, some a, some b =>
      let r := Range.make (rd a) (rd b)
      let m := MultiRange.addRange s.mr[k]! r
      let sp := (s.spec[k]!).mapIdx (fun p v => v || cellIn sc r p)
      ({ s with mr := s.mr.set! k m, spec := s.spec.set! k sp, implMr := s.implMr.set! k (implList sc impl m) },
        showColl sc m, mrVerdict (α := α) sc impl sp none (some (specAdd s.implMr[k]! r)))
    | _, _, _ => (s, "bad-op", "-")
  | ["mr.restrict", k, a, b] =>
    match nat? k, int? a, int? b with
    | some k, some a, some b =>
      let r := Range.make (rd a) (rd b)
      let m := MultiRange.restrictTo s.mr[k]! r
      let sp := (s.spec[k]!).mapIdx (fun p v => v && cellIn sc r p)
      ({ s with mr := s.mr.set! k m, spec := s.spec.set! k sp, implMr := s.implMr.set! k (implList sc impl m) },
        showColl sc m, mrVerdict (α := α) sc impl sp none (some (specRestrict s.implMr[k]! r)))
    | _, _, _ => (s, "bad-op", "-")
  | ["mr.filter", k, a, b] =>
    match nat? k, int? a, int? b with
    | some k, some a, some b =>
      let r := Range.make (rd a) (rd b)
      let m := MultiRange.filterWithin s.mr[k]! r
      -- `filter_spec`: the implementation must keep exactly those ranges of its own previous
      -- answer that lie within r; the point set is that of the surviving components
      let prev := s.implMr[k]!
      let keep := prev.filter (fun x => decide (r.b ≤ x.b) && decide (x.e ≤ r.e))
      let sp := (s.spec[k]!).mapIdx (fun p v => v && (keep.any (fun x => cellIn sc x p)))
      ({ s with mr := s.mr.set! k m, spec := s.spec.set! k sp, implMr := s.implMr.set! k (implList sc impl m) },
        showColl sc m, mrVerdict sc impl sp (some (prev, r)))
    | _, _, _ => (s, "bad-op", "-")
  | ["mr.clear", k] =>
    match nat? k with
    | some k =>
      let sp := Array.replicate U false
      ({ s with mr := s.mr.set! k [], spec := s.spec.set! k sp, implMr := s.implMr.set! k [] },
        showColl (α := α) sc [], mrVerdict (α := α) sc impl sp none)
    | _ => (s, "bad-op", "-")
  | ["mr.copy", k, j] | ["mr.assign", k, j] =>
    match nat? k, nat? j with
    | some k, some j =>
      let isCopy := match op with | "mr.copy" :: _ => true | _ => false
      let m := if isCopy then RangeCollection.copy s.mr[k]!
               else RangeCollection.assign (k == j) s.mr[j]! s.mr[k]!
      let sp := s.spec[k]!
      ({ s with mr := s.mr.set! j m, spec := s.spec.set! j sp, implMr := s.implMr.set! j (implList sc impl m) },
        showColl sc m, mrVerdict (α := α) sc impl sp none)
    | _, _ => (s, "bad-op", "-")
  | ["mr.get", k] =>
    match nat? k with
    | some k => (s, showColl sc s.mr[k]!, mrVerdict (α := α) sc impl s.spec[k]! none)
    | _ => (s, "bad-op", "-")
  | ["mr.at", k, i] | ["rs.at", k, i] =>
    match nat? k, nat? i with
    | some k, some i =>
      let isMr := match op with | "mr.at" :: _ => true | _ => false
      let l := if isMr then s.mr[k]! else s.rs[k]!
      -- out of range is undefined behaviour: the harness does not call it and says `oob`
      let out := match RangeCollection.getRange? l i with
        | some x => showC sc [x.b, x.e]
        | none => "oob"
      -- nothing is called for an index out of range: nothing to judge
      (s, out, if out == "oob" then "-" else implVerdict impl out "getRange")
    | _, _ => (s, "bad-op", "-")
  | ["rs.add", k, a, b] =>
    match nat? k, int? a, int? b with
    | some k, some a, some b =>
      let r := Range.make (rd a) (rd b)
      let m := RangeSet.addRange s.rs[k]! r
      let want := if a == b then s.rsSpec[k]! else s.rsSpec[k]! ++ [⟨min (rd a) (rd b), max (rd a) (rd b)⟩]
      ({ s with rs := s.rs.set! k m, rsSpec := s.rsSpec.set! k want }, showColl sc m, rsVerdict sc impl want)
    | _, _, _ => (s, "bad-op", "-")
  | ["rs.restrict", k, a, b] =>
    match nat? k, int? a, int? b with
    | some k, some a, some b =>
      let r := Range.make (rd a) (rd b)
      let m := RangeSet.restrictTo s.rs[k]! r
      -- interval arithmetic: intersect each, keep the non-empty ones (`rsSpecStep`)
      let want := (s.rsSpec[k]!).filterMap (fun x =>
        let lo := max x.b r.b; let hi := min x.e r.e
        if lo < hi then some ⟨lo, hi⟩ else none)
      ({ s with rs := s.rs.set! k m, rsSpec := s.rsSpec.set! k want }, showColl sc m, rsVerdict sc impl want)
    | _, _, _ => (s, "bad-op", "-")
  | ["rs.filter", k, a, b] =>
    match nat? k, int? a, int? b with
    | some k, some a, some b =>
      let r := Range.make (rd a) (rd b)
      let m := RangeSet.filterWithin s.rs[k]! r
      let want := (s.rsSpec[k]!).filter (fun x => decide (r.b ≤ x.b) && decide (x.e ≤ r.e))
      ({ s with rs := s.rs.set! k m, rsSpec := s.rsSpec.set! k want }, showColl sc m, rsVerdict sc impl want)
    | _, _, _ => (s, "bad-op", "-")
  | ["rs.clear", k] =>
    match nat? k with
    | some k => ({ s with rs := s.rs.set! k [], rsSpec := s.rsSpec.set! k [] },
        showColl (α := α) sc [], rsVerdict (α := α) sc impl [])
    | _ => (s, "bad-op", "-")
  | ["rs.copy", k, j] | ["rs.assign", k, j] =>
    match nat? k, nat? j with
    | some k, some j =>
      let isCopy := match op with | "rs.copy" :: _ => true | _ => false
      let m := if isCopy then RangeCollection.copy s.rs[k]!
               else RangeCollection.assign (k == j) s.rs[j]! s.rs[k]!
      let w := s.rsSpec[k]!
      ({ s with rs := s.rs.set! j m, rsSpec := s.rsSpec.set! j w }, showColl sc m, rsVerdict sc impl w)
    | _, _ => (s, "bad-op", "-")
  | ["rs.get", k] =>
    match nat? k with
    | some k => (s, showColl sc s.rs[k]!, rsVerdict sc impl s.rsSpec[k]!)
    | _ => (s, "bad-op", "-")
  | ["r.pred", a, b, c, d] =>
    match int? a, int? b, int? c, int? d with
    | some a, some b, some c, some d =>
      let a := rd a; let b := rd b; let c := rd c; let d := rd d
      let x := Range.make a b; let r := Range.make c d
      let _ := a; let _ := b; let _ := c; let _ := d
      (s, predOut sc x r, predJudge sc impl x r)
    | _, _, _, _ => (s, "bad-op", "-")
  | ["r.shpred", a, b, v, c, d] =>
    -- the first operand is a shift result `Range(a,b) - v` (for `unsigned` possibly wrapped and ill formed)
    match int? a, int? b, int? v, int? c, int? d with
    | some a, some b, some v, some c, some d =>
      let x := (Range.make (rd a) (rd b)).unshift (rd v); let r := Range.make (rd c) (rd d)
      (s, predOut sc x r, predJudge sc impl x r)
    | _, _, _, _, _ => (s, "bad-op", "-")
  | ["mr.addsh", k, a, b, v] =>
    -- a shift result as argument of a collection operation
    match nat? k, int? a, int? b, int? v with
    | some k, some a, some b, some v =>
      let r := (Range.make (rd a) (rd b)).unshift (rd v)
      let m := MultiRange.addRange s.mr[k]! r
      let sp := (s.spec[k]!).mapIdx (fun p v => v || cellIn sc r p)
      let verdict :=
        if decide (r.b ≤ r.e) then mrVerdict (α := α) sc impl sp none (some (specAdd s.implMr[k]! r))
        else match impl with
          | none => "-"
          | some t => match parseObs (α := α) sc t with
            -- ill-formed argument (theorem `illformed_arg_uint`): the invariant must hold nevertheless
            | some o => if invOk o.l && denotes sc o.l sp then "ok" else "FAIL:illformed_arg_uint"
            | none => "FAIL:parse"
      ({ s with mr := s.mr.set! k m, spec := s.spec.set! k sp, implMr := s.implMr.set! k (implList sc impl m) },
        showColl sc m, verdict)
    | _, _, _, _ => (s, "bad-op", "-")
  | ["r.expand", a, b, c, d] =>
    match int? a, int? b, int? c, int? d with
    | some a, some b, some c, some d =>
      let x := Range.make (rd a) (rd b); let r := Range.make (rd c) (rd d)
      let y := x.expandWith r
      -- union of cells when the union is an interval, unchanged otherwise (`expand_spec`)
      let lo := min x.b r.b; let hi := max x.e r.e
      let touching := decide (r.b ≤ x.e) && decide (x.b ≤ r.e)
      let want := if touching then showC sc [lo, hi] else showC sc [x.b, x.e]
      (s, showC sc [y.b, y.e], implVerdict impl want "expand_spec")
    | _, _, _, _ => (s, "bad-op", "-")
  | ["r.slice", a, b, c, d] =>
    match int? a, int? b, int? c, int? d with
    | some a, some b, some c, some d =>
      let x := Range.make (rd a) (rd b); let r := Range.make (rd c) (rd d)
      let y := x.sliceWith r
      let lo := max x.b r.b; let hi := min x.e r.e
      -- the empty result is only required to be empty (the code normalises it to [0,0[ or a point)
      let verdict := match impl with
        | none => "-"
        | some t => match ints? t with
          | some [ib, ie] =>
            let ib : α := rd ib; let ie : α := rd ie
            if lo < hi then (if ib == lo && ie == hi then "ok" else "FAIL:slice_spec")
            else (if ib == ie then "ok" else "FAIL:slice_spec")
          | _ => "FAIL:parse"
      (s, showC sc [y.b, y.e], verdict)
    | _, _, _, _ => (s, "bad-op", "-")
  | ["r.shift", a, b, v] =>
    match int? a, int? b, int? v with
    | some a, some b, some v =>
      let x := Range.make (rd a) (rd b); let v := rd v
      let y := x.shift v
      let z := y.unshift v
      let w := (x.unshift v).shift v
      let out := showC sc [y.b, y.e, y.length, z.b, z.e, (x.unshift v).length, w.b, w.e,
        z.b, z.e, (x.unshift v).length, w.b, w.e]
      -- `shift_length`: the length is preserved and the shifts are inverse to each other, also
      -- when an unsigned shift wraps around
      let verdict := match impl with
        | none => "-"
        | some t => match ints? t with
          | some [_, _, yl, zb, ze, ul, wb, we, pb, pe, ql, qb, qe] =>
            if (rd yl : α) == x.length && (rd ul : α) == x.length && (rd zb : α) == x.b && (rd ze : α) == x.e
                && (rd wb : α) == x.b && (rd we : α) == x.e && (rd pb : α) == x.b && (rd pe : α) == x.e
                && (rd ql : α) == x.length && (rd qb : α) == x.b && (rd qe : α) == x.e then "ok"
            else "FAIL:shift_length"
          | _ => "FAIL:parse"
      (s, out, verdict)
    | _, _, _ => (s, "bad-op", "-")
  | ["r.ctor", a] =>
    match int? a with
    | some a =>
      let d : Range α := Range.default; let o := Range.make1 (rd a)
      let out := showC sc [d.b, d.e, o.b, o.e] ++ " " ++ showBool d.isEmpty
      let want := showC sc [0, 0, min (rd a) 0, max (rd a) 0] ++ " 1"
      (s, out, implVerdict impl want "make_default")
    | _ => (s, "bad-op", "-")
  | ["r.copy", a, b, v] =>
    match int? a, int? b, int? v with
    | some a, some b, some v =>
      -- clone(), copy constructor and operator= give equal, independent ranges: the clone is shifted
      let x := Range.make (rd a) (rd b)
      let c := (x.clone).shift (rd v)
      let out := showC sc [x.b, x.e, c.b, c.e, x.clone.b, x.clone.e, x.clone.b, x.clone.e]
      (s, out, implVerdict impl out "copy_deep")
    | _, _, _ => (s, "bad-op", "-")
  | _ => (s, "bad-op", "-")

end

/-- the state of whichever instantiation the `case` line selects -/
inductive AnySt where
  | i (s : St Int)
  | u (s : St UInt32)
  | q (s : St Rat)

def init (t : List String) : AnySt :=
  match t with
  | _ :: "uint" :: _ => .u {}
  | _ :: "double" :: sc :: _ =>
    match nat? sc with
    | some n => .q { scale := n }
    | none => .q {}
  | _ :: "double" :: _ => .q {}
  | _ => .i {}

def stepAny (s : AnySt) (op : List String) (impl : Option (List String)) : AnySt × String × String :=
  match s with
  | .i s => let (s', o, v) := step s op impl; (.i s', o, v)
  | .u s => let (s', o, v) := step s op impl; (.u s', o, v)
  | .q s => let (s', o, v) := step s op impl; (.q s', o, v)

def machine : Machine AnySt := { init := init, step := stepAny }

end Bpp.Drive.C20
