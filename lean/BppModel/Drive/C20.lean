import BppModel.Proto
import BppModel.Range
/-
Driver for C20 (Range.h).  Registers: multi-ranges m0..m3, range sets s0..s3,
and for each multi-range register the specification point set (unit cells of
the universe 0..U-1) computed independently from the history.
-/
namespace Bpp.Drive.C20
open Bpp Bpp.Proto

def U : Nat := 64

structure St where
  mr : Array (List Range) := Array.replicate 4 []
  rs : Array (List Range) := Array.replicate 4 []
  /-- specification: the set of unit cells `[p,p+1[`, as a characteristic vector -/
  spec : Array (Array Bool) := Array.replicate 4 (Array.replicate U false)
  /-- specification of a range set: the multiset of ranges it must hold -/
  rsSpec : Array (List Range) := Array.replicate 4 []

def cellIn (r : Range) (p : Nat) : Bool := decide (r.b ≤ (p : Int)) && decide ((p : Int) < r.e)

def showRanges (l : List Range) : String :=
  showInts (MultiRange.getBounds l)

def parseRanges : List Int → Option (List Range)
  | [] => some []
  | a :: b :: rest => (parseRanges rest).map (fun l => ⟨a, b⟩ :: l)
  | _ => none

/-- The executable form of the invariant the theorems are about (`MultiRange.Inv`). -/
def invOk : List Range → Bool
  | [] => true
  | [x] => decide (x.b < x.e)
  | x :: y :: rest => decide (x.b < x.e) && decide (x.e ≤ y.b) && invOk (y :: rest)

def denotes (l : List Range) (spec : Array Bool) : Bool :=
  (List.range U).all (fun p => (l.any (fun r => cellIn r p)) == spec[p]!)

def specLen (spec : Array Bool) : Int := ((spec.toList.filter id).length : Nat)

/-- verdict of the multi-range predicate on the implementation's answer -/
def mrVerdict (impl : Option (List String)) (spec : Array Bool) : String :=
  match impl with
  | none => "-"
  | some t =>
    match splitTok ";" t with
    | [bs, [len]] =>
      match ints? bs, int? len with
      | some bs, some len =>
        match parseRanges bs with
        | some l =>
          if !invOk l then "FAIL:mr_inv"
          else if !denotes l spec then "FAIL:mr_denotes"
          else if len != specLen spec then "FAIL:mr_total_length"
          else "ok"
        | none => "FAIL:parse"
      | _, _ => "FAIL:parse"
    | _ => "FAIL:parse"

def rsVerdict (impl : Option (List String)) (want : List Range) : String :=
  match impl with
  | none => "-"
  | some t =>
    match splitTok ";" t with
    | [bs, [len]] =>
      match ints? bs, int? len with
      | some bs, some len =>
        match parseRanges bs with
        | some l =>
          if l != want then "FAIL:rangeset_keeps"
          else if len != RangeSet.totalLength want then "FAIL:rs_total_length"
          else "ok"
        | none => "FAIL:parse"
      | _, _ => "FAIL:parse"
    | _ => "FAIL:parse"

def showMr (l : List Range) : String :=
  showRanges l ++ " ; " ++ toString (MultiRange.totalLength l)
def showRs (l : List Range) : String :=
  showRanges l ++ " ; " ++ toString (RangeSet.totalLength l)

def implVerdict (impl : Option (List String)) (want : String) : String :=
  match impl with
  | none => "-"
  | some t => if " ".intercalate t == want then "ok" else "FAIL:range_spec"

/-- independent interval-arithmetic specification of the range predicates on
unit cells, evaluated on the implementation's answer -/
def cells (r : Range) : List Nat := (List.range U).filter (cellIn r)

def step (s : St) (op : List String) (impl : Option (List String)) : St × String × String :=
  match op with
  | ["mr.add", k, a, b] =>
    match nat? k, int? a, int? b with
    | some k, some a, some b =>
      let r := Range.make a b
      let m := MultiRange.addRange s.mr[k]! r
      let sp := (s.spec[k]!).mapIdx (fun p v => v || cellIn r p)
      ({ s with mr := s.mr.set! k m, spec := s.spec.set! k sp }, showMr m, mrVerdict impl sp)
    | _, _, _ => (s, "bad-op", "-")
  | ["mr.restrict", k, a, b] =>
    match nat? k, int? a, int? b with
    | some k, some a, some b =>
      let r := Range.make a b
      let m := MultiRange.restrictTo s.mr[k]! r
      let sp := (s.spec[k]!).mapIdx (fun p v => v && cellIn r p)
      ({ s with mr := s.mr.set! k m, spec := s.spec.set! k sp }, showMr m, mrVerdict impl sp)
    | _, _, _ => (s, "bad-op", "-")
  | ["mr.filter", k, a, b] =>
    match nat? k, int? a, int? b with
    | some k, some a, some b =>
      let r := Range.make a b
      let m := MultiRange.filterWithin s.mr[k]! r
      -- specification: a maximal run of cells survives iff it lies within r.
      -- computed from the *model's previous state*, which the invariant theorem
      -- shows is the list of maximal runs up to touching ranges
      let sp := (s.spec[k]!).mapIdx (fun p v => v && (m.any (fun x => cellIn x p)))
      ({ s with mr := s.mr.set! k m, spec := s.spec.set! k sp }, showMr m, mrVerdict impl sp)
    | _, _, _ => (s, "bad-op", "-")
  | ["mr.clear", k] =>
    match nat? k with
    | some k =>
      let sp := Array.replicate U false
      ({ s with mr := s.mr.set! k [], spec := s.spec.set! k sp }, showMr [], mrVerdict impl sp)
    | _ => (s, "bad-op", "-")
  | ["mr.copy", k, j] | ["mr.assign", k, j] =>
    match nat? k, nat? j with
    | some k, some j =>
      let m := s.mr[k]!
      let sp := s.spec[k]!
      ({ s with mr := s.mr.set! j m, spec := s.spec.set! j sp }, showMr m, mrVerdict impl sp)
    | _, _ => (s, "bad-op", "-")
  | ["mr.get", k] =>
    match nat? k with
    | some k => (s, showMr s.mr[k]!, mrVerdict impl s.spec[k]!)
    | _ => (s, "bad-op", "-")
  | ["rs.add", k, a, b] =>
    match nat? k, int? a, int? b with
    | some k, some a, some b =>
      let r := Range.make a b
      let m := RangeSet.addRange s.rs[k]! r
      let want := if a == b then s.rsSpec[k]! else s.rsSpec[k]! ++ [⟨min a b, max a b⟩]
      ({ s with rs := s.rs.set! k m, rsSpec := s.rsSpec.set! k want }, showRs m, rsVerdict impl want)
    | _, _, _ => (s, "bad-op", "-")
  | ["rs.restrict", k, a, b] =>
    match nat? k, int? a, int? b with
    | some k, some a, some b =>
      let r := Range.make a b
      let m := RangeSet.restrictTo s.rs[k]! r
      -- interval arithmetic: intersect each, keep the non-empty ones
      let want := (s.rsSpec[k]!).filterMap (fun x =>
        let lo := max x.b r.b; let hi := min x.e r.e
        if lo < hi then some ⟨lo, hi⟩ else none)
      ({ s with rs := s.rs.set! k m, rsSpec := s.rsSpec.set! k want }, showRs m, rsVerdict impl want)
    | _, _, _ => (s, "bad-op", "-")
  | ["rs.filter", k, a, b] =>
    match nat? k, int? a, int? b with
    | some k, some a, some b =>
      let r := Range.make a b
      let m := RangeSet.filterWithin s.rs[k]! r
      let want := (s.rsSpec[k]!).filter (fun x => decide (r.b ≤ x.b) && decide (x.e ≤ r.e))
      ({ s with rs := s.rs.set! k m, rsSpec := s.rsSpec.set! k want }, showRs m, rsVerdict impl want)
    | _, _, _ => (s, "bad-op", "-")
  | ["rs.clear", k] =>
    match nat? k with
    | some k => ({ s with rs := s.rs.set! k [], rsSpec := s.rsSpec.set! k [] }, showRs [], rsVerdict impl [])
    | _ => (s, "bad-op", "-")
  | ["rs.copy", k, j] | ["rs.assign", k, j] =>
    match nat? k, nat? j with
    | some k, some j =>
      let m := s.rs[k]!
      let w := s.rsSpec[k]!
      ({ s with rs := s.rs.set! j m, rsSpec := s.rsSpec.set! j w }, showRs m, rsVerdict impl w)
    | _, _ => (s, "bad-op", "-")
  | ["rs.get", k] =>
    match nat? k with
    | some k => (s, showRs s.rs[k]!, rsVerdict impl s.rsSpec[k]!)
    | _ => (s, "bad-op", "-")
  | ["r.pred", a, b, c, d] =>
    match int? a, int? b, int? c, int? d with
    | some a, some b, some c, some d =>
      let x := Range.make a b; let r := Range.make c d
      let out := showInts [x.b, x.e] ++ " " ++ showBool (x.overlap r) ++ " " ++ showBool (x.isContiguous r)
        ++ " " ++ showBool (x.contains r) ++ " " ++ showBool x.isEmpty ++ " " ++ toString x.length
      -- interval arithmetic on cells (for non-empty operands), end points otherwise
      let cx := cells x; let cr := cells r
      let ovl := if x.isEmpty || r.isEmpty then x.overlap r else cx.any (fun p => cr.contains p)
      let cont := if r.isEmpty then x.contains r else cr.all (fun p => cx.contains p)
      let contig := decide (max a b = min c d) || decide (max c d = min a b)
      let want := showInts [min a b, max a b] ++ " " ++ showBool ovl ++ " " ++ showBool contig
        ++ " " ++ showBool cont ++ " " ++ showBool (decide (a = b)) ++ " " ++ toString ((cx.length : Nat) : Int)
      (s, out, implVerdict impl want)
    | _, _, _, _ => (s, "bad-op", "-")
  | ["r.expand", a, b, c, d] =>
    match int? a, int? b, int? c, int? d with
    | some a, some b, some c, some d =>
      let x := Range.make a b; let r := Range.make c d
      let y := x.expandWith r
      -- union of cells when the union is an interval, unchanged otherwise
      let lo := min x.b r.b; let hi := max x.e r.e
      let touching := decide (r.b ≤ x.e) && decide (x.b ≤ r.e)
      let want := if touching then showInts [lo, hi] else showInts [x.b, x.e]
      (s, showInts [y.b, y.e], implVerdict impl want)
    | _, _, _, _ => (s, "bad-op", "-")
  | ["r.slice", a, b, c, d] =>
    match int? a, int? b, int? c, int? d with
    | some a, some b, some c, some d =>
      let x := Range.make a b; let r := Range.make c d
      let y := x.sliceWith r
      let lo := max x.b r.b; let hi := min x.e r.e
      -- the empty result is only required to be empty (the code normalises it to [0,0[ or a point)
      let verdict := match impl with
        | none => "-"
        | some t => match ints? t with
          | some [ib, ie] =>
            if lo < hi then (if ib == lo && ie == hi then "ok" else "FAIL:slice_spec")
            else (if ib == ie then "ok" else "FAIL:slice_spec")
          | _ => "FAIL:parse"
      (s, showInts [y.b, y.e], verdict)
    | _, _, _, _ => (s, "bad-op", "-")
  | ["r.shift", a, b, v] =>
    match int? a, int? b, int? v with
    | some a, some b, some v =>
      let x := Range.make a b
      let y := x.shift v
      let z := y.unshift v
      let out := showInts [y.b, y.e, y.length, z.b, z.e]
      let want := showInts [min a b + v, max a b + v, max a b - min a b, min a b, max a b]
      (s, out, implVerdict impl want)
    | _, _, _ => (s, "bad-op", "-")
  | _ => (s, "bad-op", "-")

def machine : Machine St := { init := fun _ => {}, step := step }

end Bpp.Drive.C20
