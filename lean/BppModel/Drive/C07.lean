import BppModel.Proto
import BppModel.VecTools
import BppModel.LogSpace
/-
Driver for C07.  Every operation is self-contained:  `<op> <hex double>* [; <hex double>*]*`.
Answers: a double = 16 hex digits (`nan` for every NaN), a vector = its doubles (`-` when empty),
positions in decimal, booleans 0/1, `exc:<kind>` for the documented exceptions, `ub` for an
out-of-range read.

The model is run at `Float` (bit-exact tie).  The verdict evaluates, on the *implementation's*
answer, the specification the theorems of Props/C07*.lean equate the model with: exact `Rat`
references where double arithmetic is exact or a rigorous rounding bound is available, the
order/position predicates, and the log-space laws.
-/
namespace Bpp.Drive.C07
open Bpp Bpp.Proto Bpp.VecTools Bpp.LogSpace

structure St where
  dummy : Unit := ()

/-! ### parsing / printing -/
def floats? (l : List String) : Option (List Float) := l.mapM Hex.float?
def showF (x : Float) : String := Hex.ofFloatCanon x
def showV (v : List Float) : String := if v.isEmpty then "-" else " ".intercalate (v.map showF)
def showNats (v : List Nat) : String := if v.isEmpty then "-" else " ".intercalate (v.map toString)
def errName : Err → String
  | .dimension => "exc:dimension" | .empty => "exc:empty" | .badnumber => "exc:badnumber"
  | .notfound => "exc:notfound" | .ub => "ub"
def showRes {β : Type} (f : β → String) : Res β → String
  | .ok x => f x
  | .error e => errName e

/-- the implementation's answer as a vector of doubles (`nan` accepted) -/
def implFloat? (s : String) : Option Float := if s == "nan" then some (0.0 / 0.0) else Hex.float? s
def implVec? (t : List String) : Option (List Float) :=
  if t == ["-"] then some [] else t.mapM implFloat?
def isExc (t : List String) : Bool := match t with | [s] => s.startsWith "exc:" || s == "ub" | _ => false

/-! ### exact references -/
def rats? (v : List Float) : Option (List Rat) := v.mapM floatToRat?
def ratAbs (x : Rat) : Rat := if x < 0 then -x else x
def ratSum (l : List Rat) : Rat := l.foldl (· + ·) 0
/-- 2^-44: far above the rigorous bound `(n-1)·2^-53·Σ|x|` of recursive summation for n ≤ 64·64 -/
def tolSum : Rat := 1 / (2 ^ 44 : Nat)

/-- |got - want| ≤ tol·scale, `got` a finite double -/
def closeTo (got : Float) (want scale : Rat) (tol : Rat := tolSum) : Bool :=
  match floatToRat? got with
  | some g => ratAbs (g - want) ≤ tol * scale
  | none => false

def allFinite (v : List Float) : Bool := v.all (fun x => !(x.isNaN || x.isInf))

/-- verdict helper: the implementation must have answered one double satisfying `p` -/
def judge1 (impl : Option (List String)) (clause : String) (p : Float → Bool) : String :=
  match impl with
  | none => "-"
  | some t => match implVec? t with
    | some [x] => if p x then "ok" else "FAIL:" ++ clause
    | _ => if isExc t then "FAIL:" ++ clause else "FAIL:parse"

def judgeV (impl : Option (List String)) (clause : String) (p : List Float → Bool) : String :=
  match impl with
  | none => "-"
  | some t => match implVec? t with
    | some v => if p v then "ok" else "FAIL:" ++ clause
    | none => if isExc t then "FAIL:" ++ clause else "FAIL:parse"

/-- the implementation must have raised exactly this outcome -/
def judgeExc (impl : Option (List String)) (clause : String) (e : Err) : String :=
  match impl with
  | none => "-"
  | some t => if t == [errName e] then "ok" else "FAIL:" ++ clause

/-! ### specification predicates (the statements of the theorems, executable) -/

/-- `sum_spec`: the answer is Σ v within the rounding bound of a length-n recursive sum -/
def sumOk (v : List Float) (got : Float) : Bool :=
  match rats? v with
  | some r => closeTo got (ratSum r) (ratSum (r.map ratAbs))
  | none => true      -- ±inf/NaN inputs: only the bit-exact tie applies

/-- `cumSum_spec`: same length and entry i is the sum of the first i+1 inputs -/
def cumSumOk (v : List Float) (got : List Float) : Bool :=
  got.length == v.length &&
  match rats? v with
  | some r => (List.range v.length).all (fun i =>
      closeTo (got.getD i 0) (ratSum (r.take (i + 1))) (ratSum ((r.take (i + 1)).map ratAbs)))
  | none => true

/-- `max_spec`: an element of the vector that no element exceeds -/
def maxOk (v : List Float) (got : Float) : Bool :=
  v.any (fun x => x == got) && v.all (fun x => x ≤ got)

def log2 : Float := Float.log 2.0

/-- `lse_bounds` (+ finiteness): max v ≤ answer ≤ max v + log n, up to rounding -/
def lseBoundsOk (v : List Float) (got : Float) : Bool :=
  if !(allFinite v) || v.isEmpty then true else
    let M := v.foldl (fun m x => if x > m then x else m) (v.headD 0)
    let slack := 1e-12 * (1.0 + M.abs)
    !(got.isNaN || got.isInf) && M - slack ≤ got && got ≤ M + Float.log (Float.ofNat v.length) + slack

def step (s : St) (op : List String) (impl : Option (List String)) : St × String × String :=
  match op with
  | "sum" :: a =>
    match floats? a with
    | some v => (s, showF (VecTools.sum v), judge1 impl "sum_spec" (sumOk v))
    | none => (s, "bad-op", "-")
  | "cumsum" :: a =>
    match floats? a with
    | some v => (s, showV (VecTools.cumSum v), judgeV impl "cumSum_spec" (cumSumOk v))
    | none => (s, "bad-op", "-")
  | "max" :: a =>
    match floats? a with
    | some v =>
      (s, showRes showF (VecTools.max v),
        if v.isEmpty then judgeExc impl "empty_raises" .empty else judge1 impl "max_spec" (maxOk v))
    | none => (s, "bad-op", "-")
  | "lse" :: a =>
    match floats? a with
    | some v =>
      (s, showRes showF (LogSpace.logSumExp v),
        if v.isEmpty then judgeExc impl "empty_raises" .empty else judge1 impl "lse_bounds" (lseBoundsOk v))
    | none => (s, "bad-op", "-")
  | ["logsum", a, b] =>
    match Hex.float? a, Hex.float? b with
    | some x, some y => (s, showF (LogSpace.logsum x y), judge1 impl "logsum_spec" (fun _ => true))
    | _, _ => (s, "bad-op", "-")
  | _ => (s, "bad-op", "-")

def machine : Machine St := { init := fun _ => {}, step := step }

end Bpp.Drive.C07
