import BppModel.Proto
import BppModel.VecTools
import BppModel.VecTools2
import BppModel.LogSpace
/-
Driver for C07.  Every operation is self-contained:
  `<op> [flags] <hex double>* [; <hex double>*]*`
Answers: a double = 16 hex digits (`nan` for every NaN), a vector = its doubles (`-` when empty),
positions in decimal, booleans 0/1, `exc:<kind>` for the documented exceptions, `ub` for an
out-of-range read.

The model is run at `Float` (bit-exact tie).  The verdict evaluates, on the *implementation's*
answer, the specifications the theorems of Props/C07*.lean equate the model with:
 * `VecTools.Spec.*` at `Rat` (exact) with a rounding allowance far above the a-priori bound of
   the floating-point evaluation and far below any semantic change;
 * the order / position / set predicates of `VecTools` (`IsFirstExtremum`, `IsSortingPerm`,
   `IsMedian`, `IsUnion`, …) through their `Decidable` instances, at `Rat` for finite inputs;
 * the log-space laws (bounds, finiteness, shift, agreement with the naive formula where that
   one does not overflow, log-zero).
-/
namespace Bpp.Drive.C07
open Bpp Bpp.Proto Bpp.VecTools Bpp.LogSpace

structure St where
  dummy : Unit := ()

/-! ### parsing / printing -/
def floats? (l : List String) : Option (List Float) := l.mapM Hex.float?
def vecs? (a : List String) : Option (List (List Float)) := (splitTok ";" a).mapM floats?
def showF (x : Float) : String := Hex.ofFloatCanon x
def showV (v : List Float) : String := if v.isEmpty then "-" else " ".intercalate (v.map showF)
def showNats (v : List Nat) : String := if v.isEmpty then "-" else " ".intercalate (v.map toString)
def errName : Err → String
  | .dimension => "exc:dimension" | .empty => "exc:empty" | .badnumber => "exc:badnumber"
  | .notfound => "exc:notfound" | .ub => "ub"
def showRes {β : Type} (f : β → String) : Res β → String
  | .ok x => f x
  | .error e => errName e

def implFloat? (s : String) : Option Float := if s == "nan" then some (0.0 / 0.0) else Hex.float? s
def implVec? (t : List String) : Option (List Float) :=
  if t == ["-"] then some [] else t.mapM implFloat?
def implNats? (t : List String) : Option (List Nat) :=
  if t == ["-"] then some [] else t.mapM nat?

/-! ### verdict combinators -/
/-- verdict of a list of evaluated clauses; **nothing evaluated = `-`**, never `ok` -/
def checks (l : List (String × Bool)) : String :=
  match l.find? (fun c => !c.2) with
  | some c => "FAIL:" ++ c.1
  | none => if l.isEmpty then "-" else "ok"

/-- the implementation must have raised exactly this outcome -/
def expectErr (impl : Option (List String)) (clause : String) (e : Err) : String :=
  match impl with
  | none => "-"
  | some t => if t == [errName e] then "ok" else "FAIL:" ++ clause

/-- the implementation must have answered one double; `clause0` is blamed otherwise -/
def onScalar (impl : Option (List String)) (clause0 : String) (f : Float → List (String × Bool)) : String :=
  match impl with
  | none => "-"
  | some t => match implVec? t with
    | some [x] => checks (f x)
    | _ => "FAIL:" ++ clause0

def onVec (impl : Option (List String)) (clause0 : String) (f : List Float → List (String × Bool)) : String :=
  match impl with
  | none => "-"
  | some t => match implVec? t with
    | some v => checks (f v)
    | none => "FAIL:" ++ clause0

def onNat (impl : Option (List String)) (clause0 : String) (f : Nat → List (String × Bool)) : String :=
  match impl with
  | none => "-"
  | some [t] => match nat? t with
    | some n => checks (f n)
    | none => "FAIL:" ++ clause0
  | some _ => "FAIL:" ++ clause0

def onNats (impl : Option (List String)) (clause0 : String) (f : List Nat → List (String × Bool)) : String :=
  match impl with
  | none => "-"
  | some t => match implNats? t with
    | some v => checks (f v)
    | none => "FAIL:" ++ clause0

def onBool (impl : Option (List String)) (clause : String) (want : Bool) : String :=
  match impl with
  | none => "-"
  | some t => if t == [showBool want] then "ok" else "FAIL:" ++ clause

/-! ### exact references -/
def rats? (v : List Float) : Option (List Rat) := v.mapM floatToRat?
def rabs (x : Rat) : Rat := if x < 0 then -x else x
def finite (x : Float) : Bool := !(x.isNaN || x.isInf)
def allFinite (v : List Float) : Bool := v.all finite
def noNaN (v : List Float) : Bool := v.all (fun x => !x.isNaN)

def pow2neg (k : Nat) : Rat := 1 / ((2 ^ k : Nat) : Rat)
/-- allowance for accumulated rounding in sums of ≤ 64·64 terms (a-priori bound ≈ 2^-41·scale) -/
def tolAcc : Rat := pow2neg 36
/-- allowance for one or two roundings -/
def tolOne : Rat := pow2neg 50
/-- absolute allowance for results in the subnormal range -/
def tiny : Rat := pow2neg 1060

/-- `got` is finite and |got - want| ≤ tol·scale (+ subnormal slack); a non-finite `got` is only
accepted when the reference is beyond the double range -/
def closeTo (got : Float) (want scale : Rat) (tol : Rat := tolAcc) : Bool :=
  match floatToRat? got with
  | some g => rabs (g - want) ≤ tol * scale + tiny
  | none => !got.isNaN && rabs want ≥ ((2 ^ 1023 : Nat) : Rat)

def closeV (got : List Float) (want scale : List Rat) (tol : Rat := tolAcc) : Bool :=
  got.length == want.length &&
  (List.zip got (List.zip want scale)).all (fun p => closeTo p.1 p.2.1 p.2.2 tol)

def S {α : Type} [Scalar α] := @Spec.sum α _

/-- Float closeness for transcendental references -/
def fclose (a b : Float) (rel : Float := 1e-9) : Bool :=
  if a.isNaN || b.isNaN then false
  else if a.isInf || b.isInf then a == b
  else (a - b).abs ≤ rel * (1.0 + a.abs + b.abs)

def fmax (v : List Float) : Float := v.foldl (fun m x => if x > m then x else m) (v.headD 0)
def fsum (v : List Float) : Float := v.foldl (· + ·) 0

/-- inputs on which double arithmetic of sums/products is exact: integers of magnitude ≤ 2^20 -/
def exactInts (v : List Float) : Option (List Rat) :=
  match rats? v with
  | some r => if r.all (fun x => x.den == 1 && rabs x ≤ 1048576) then some r else none
  | none => none

/-- exact tie: the implementation's double is exactly this rational -/
def isRat (got : Float) (want : Rat) : Bool := floatToRat? got == some want
def areRats (got : List Float) (want : List Rat) : Bool :=
  got.length == want.length && (List.zip got want).all (fun p => isRat p.1 p.2)

/-- the `Ext Float` reading (IEEE special values by the rules of `LogSpace.Ext`, finite values by
the machine) must give the native answer; a non-finite value inside `fin` means a finite
operation overflowed, which is outside that reading -/
def extAgrees (native : Float) (e : Ext Float) : Bool :=
  match e with
  | .fin x => if x.isNaN || x.isInf then true else x.toBits == native.toBits
  | .pinf => native.isInf && native > 0
  | .ninf => native.isInf && native < 0
  | .nan => native.isNaN
def extResAgrees (impl : String) (native? : Option Float) (e : Res (Ext Float)) : Bool :=
  match e, native? with
  | .ok x, some g => extAgrees g x
  | .error err, _ => impl == errName err
  | .ok _, none => false

/-! ### order predicates at `Rat` -/
def rlt (a b : Rat) : Bool := decide (a < b)
def req (a b : Rat) : Bool := decide (a = b)
def flt (a b : Float) : Bool := a < b
def feq (a b : Float) : Bool := a == b

/-! ### the step function -/

def elementwise (name : String) : Option ((Float → Float → Float) × (Rat → Rat → Option Rat)) :=
  match name with
  | "add" => some ((· + ·), fun a b => some (a + b))
  | "sub" => some ((· - ·), fun a b => some (a - b))
  | "mul" => some ((· * ·), fun a b => some (a * b))
  | "div" => some ((· / ·), fun a b => if b = 0 then none else some (a / b))
  | _ => none

/-- element-wise answers against the exact values (one rounding each) -/
def elemOk (ref : Rat → Rat → Option Rat) (a b : List Float) (got : List Float) : Bool :=
  got.length == a.length &&
  (List.zip got (List.zip a b)).all (fun p =>
    match floatToRat? p.2.1, floatToRat? p.2.2 with
    | some x, some y => match ref x y with
      | some w => closeTo p.1 w (rabs w) tolOne
      | none => true
    | _, _ => true)

def specCovScale (x y : List Rat) (denom : Rat) : Rat :=
  let mx := rabs (Spec.mean x); let my := rabs (Spec.mean y)
  S (List.zipWith (fun a b => (rabs a + mx) * (rabs b + my)) x y) / (if denom = 0 then 1 else rabs denom)


/-! ### round 2: the remaining routines of VectorTools.h / VectorTools.cpp / NumTools.h -/

/-- bitwise equality of vectors (all NaNs alike) -/
def sameV (a b : List Float) : Bool := showV a == showV b

def showVV (vs : List (List Float)) : String :=
  if vs.isEmpty then "none" else " ; ".intercalate (vs.map showV)

def implVV? (t : List String) : Option (List (List Float)) :=
  if t == ["none"] then some [] else (splitTok ";" t).mapM implVec?

/-- several answers separated by `;` -/
def onParts (impl : Option (List String)) (clause0 : String) (f : List (List String) → List (String × Bool)) : String :=
  match impl with
  | none => "-"
  | some t => if (t.head?.getD "").startsWith "exc:" || t == ["ub"] then "FAIL:" ++ clause0 else checks (f (splitTok ";" t))

/-- whole number carried as a double -/
def natOf? (x : Float) : Option Nat :=
  if x.isNaN || x < 0.0 || x > 4294967296.0 || x.floor != x then none else some x.toUInt64.toNat

def truncInt (x : Float) : Int := x.toInt64.toInt

/-- exact reference for the weighted covariance (`Spec.covW` at `Rat`) with the scale of its
rounding error; `none` when the formula divides by (nearly) zero -/
def refCovW (x y wr : List Rat) (u nw : Bool) : Option (Rat × Rat) :=
  let sw := S wr
  if nw && sw == 0 then none else
  let wn := if nw then wr.map (· / sw) else wr
  let mx := Spec.dot x wn; let my := Spec.dot y wn
  let sc := Spec.dotW (x.map (fun a => rabs a + rabs mx)) (y.map (fun a => rabs a + rabs my)) (wn.map rabs)
  let d := 1 - Spec.dot wn wn
  if u && rabs d * 1024 < 1 then none
  else some (Spec.covW x y wr u nw, if u then sc / rabs d else sc)

/-- the answer `g` of a weighted `sd` against the exact variance `c` (scale `sc`) -/
def sdOk (g : Float) (c sc : Rat) : Bool :=
  if c < -(pow2neg 30 * sc) - tiny then g.isNaN            -- square root of a negative variance
  else if c ≤ pow2neg 30 * sc + tiny then true             -- variance is rounding noise: either
  else match floatToRat? g with
    | some gr => gr ≥ 0 && rabs (gr * gr - c) ≤ tolAcc * sc + tiny
    | none => false

/-- a rational to the nearest-ish double (used for references that involve a square root) -/
def ratToFloat (q : Rat) : Float :=
  let s : Int := (q.num * (2 ^ 80 : Nat)) / (q.den : Int)
  Float.ofInt s / Float.ofNat (2 ^ 80)

def factR : Nat → Rat
  | 0 => 1
  | n + 1 => ((n + 1 : Nat) : Rat) * factR n

/-- nested sizes of a 3- or 4-dimensional array: the common size of the sub-arrays at each level
(`-` when there is none, `x` when they differ) -/
def commonSize (l : List Nat) : String :=
  match l with
  | [] => "-"
  | a :: rest => if rest.all (· == a) then toString a else "x"

def dims3 (a : List (List (List Float))) : String :=
  toString a.length ++ " " ++ commonSize (a.map (·.length)) ++ " " ++
    commonSize (a.flatten.map (·.length)) ++ " " ++ showF (fsum a.flatten.flatten)

def dims4 (a : List (List (List (List Float)))) : String :=
  toString a.length ++ " " ++ commonSize (a.map (·.length)) ++ " " ++
    commonSize (a.flatten.map (·.length)) ++ " " ++ commonSize (a.flatten.flatten.map (·.length)) ++ " " ++
    showF (fsum a.flatten.flatten.flatten)

def step2 (s : St) (name : String) (flags : List String) (vs : List (List Float)) (impl : Option (List String)) :
    St × String × String :=
  let bad : St × String × String := (s, "bad-op", "-")
  let fl (i : Nat) : Bool := flags.getD i "0" == "1"
  let v0 := vs.getD 0 []; let v1 := vs.getD 1 []; let v2 := vs.getD 2 []
  let dimOr (a b : List Float) (k : Unit → String) : String :=
    if a.length != b.length then expectErr impl "mismatch_raises" .dimension else k ()
  match name with
  -- ------------------------------------------------------------ weighted moments, every option pair
  | "sdw" =>
    let unbiased := fl 0; let normalize := fl 1
    (s, showRes showF (VecTools.sdW v0 v1 unbiased normalize), dimOr v0 v1 fun _ => onScalar impl "sdW_spec" fun g =>
      match rats? v0, rats? v1 with
      | some x, some wr => match refCovW x x wr unbiased normalize with
        | some (c, sc) => [("sdW_spec", sdOk g c sc)]
        | none => []
      | _, _ => [])
  | "covw4" | "varw4" =>
    let unbiased := fl 0; let normalize := fl 1
    let isCov := name == "covw4"
    let b := if isCov then v1 else v0
    let w := if isCov then v2 else v1
    (s, showRes showF (if isCov then VecTools.covW v0 v1 w unbiased normalize else VecTools.varW v0 w unbiased normalize),
      if v0.length != w.length || b.length != w.length then expectErr impl "mismatch_raises" .dimension
      else onScalar impl "covW_flags_spec" fun g =>
        match rats? v0, rats? b, rats? w with
        | some x, some y, some wr => match refCovW x y wr unbiased normalize with
          | some (c, sc) => [(if isCov then "covW_flags_spec" else "varW_spec", closeTo g c sc)]
          | none => []
        | _, _, _ => [])
  | "cosw" =>
    (s, showRes showF (VecTools.cosW v0 v1 v2),
      if v0.length != v2.length || v1.length != v2.length then expectErr impl "mismatch_raises" .dimension
      else onScalar impl "cosW_spec" fun g =>
        match rats? v0, rats? v1, rats? v2 with
        | some a, some b, some w =>
          let sab := Spec.dotW a b w; let A := Spec.dotW a a w; let B := Spec.dotW b b w
          if w.all (· ≥ 0) && A > pow2neg 200 && B > pow2neg 200 then
            match floatToRat? g with
            | some gr =>
              [("cosW_range", gr * gr ≤ 1 + pow2neg 30),
               ("cosW_spec", rabs (gr * gr * A * B - sab * sab) ≤ pow2neg 30 * (A * B)),
               ("cosW_spec", (gr ≥ 0) == (sab ≥ 0) || rabs gr ≤ pow2neg 20)]
            | none => [("cosW_spec", false)]
          else
            -- a clearly negative weighted sum of squares (negative weights): sqrt gives NaN
            let sa := Spec.dotW a a (w.map rabs); let sb := Spec.dotW b b (w.map rabs)
            if A < -(tolAcc * sa) || B < -(tolAcc * sb) then [("cosW_negative_nan", g.isNaN)] else []
        | _, _, _ => [])
  | "kron" =>
    (s, showV (VecTools.kroneckerMult v0 v1), onVec impl "kroneckerMult_spec" fun g =>
      let n2 := v1.length
      [("kroneckerMult_spec", g.length == v0.length * n2 &&
          (List.zip g (List.range g.length)).all (fun p =>
            match v0[p.2 / n2]?, v1[p.2 % n2]? with
            | some a, some b => showF p.1 == showF (a * b)
            | _, _ => false))])
  -- ------------------------------------------------------------ compound operators with a constant
  | "fillc" | "fill" =>
    match v1 with
    | [c] => (s, showV (VecTools.fillC v0 c), onVec impl "compoundC_spec" fun g =>
        [("compoundC_spec", sameV g (List.replicate v0.length c))])
    | _ => bad
  | "addceq" | "subceq" | "mulceq" | "divceq" =>
    match elementwise (name.take 3).toString, v1 with
    | some (f, ref), [c] =>
      (s, showV (v0.map (fun x => f x c)),
        onVec impl "compoundC_spec" fun g => [("compoundC_spec", elemOk ref v0 (v0.map fun _ => c) g)])
    | _, _ => bad
  -- ------------------------------------------------------------ element-wise functions
  | "vlog" => (s, showV (VecTools.vlog v0), onVec impl "elementwise_fun_spec" fun g => [("elementwise_fun_spec", sameV g (v0.map Float.log))])
  | "vexp" => (s, showV (VecTools.vexp v0), onVec impl "elementwise_fun_spec" fun g => [("elementwise_fun_spec", sameV g (v0.map Float.exp))])
  | "vcos" => (s, showV (VecTools.vmap Float.cos v0), onVec impl "elementwise_fun_spec" fun g => [("elementwise_fun_spec", sameV g (v0.map Float.cos))])
  | "vsin" => (s, showV (VecTools.vmap Float.sin v0), onVec impl "elementwise_fun_spec" fun g => [("elementwise_fun_spec", sameV g (v0.map Float.sin))])
  | "vlog10" => (s, showV (VecTools.vmap Float.log10 v0), onVec impl "elementwise_fun_spec" fun g => [("elementwise_fun_spec", sameV g (v0.map Float.log10))])
  | "vsqr" => (s, showV (VecTools.vsqr v0), onVec impl "elementwise_fun_spec" fun g => [("elementwise_fun_spec", sameV g (v0.map (fun x => x * x)))])
  | "vabs" => (s, showV (VecTools.vabs v0), onVec impl "elementwise_fun_spec" fun g =>
      [("elementwise_fun_spec", g.length == v0.length && (List.zip g v0).all (fun p => p.2.isNaN || (p.1 ≥ 0.0 && (p.1 == p.2 || p.1 == -p.2))))])
  | "vlogb" =>
    match v0 with
    | [b] => (s, showV (VecTools.vlogBase v1 b), onVec impl "elementwise_fun_spec" fun g =>
        [("elementwise_fun_spec", sameV g (v1.map (fun x => Float.log x / Float.log b)))])
    | _ => bad
  | "vpow" =>
    match v0 with
    | [b] => (s, showV (VecTools.vpow v1 b), onVec impl "elementwise_fun_spec" fun g =>
        [("elementwise_fun_spec", sameV g (v1.map (fun x => Float.pow x b)))])
    | _ => bad
  | "vfact" =>
    (s, showRes showV (VecTools.vfact natOf? v0), onVec impl "fact_spec" fun g =>
      match v0.mapM natOf? with
      | some ns => [("fact_spec", g.length == ns.length && (List.zip g ns).all (fun p =>
          if p.2 ≤ 18 then isRat p.1 (factR p.2) else closeTo p.1 (factR p.2) (factR p.2)))]
      | none => [])
  -- ------------------------------------------------------------ NumTools scalar helpers
  | "ntabs" | "ntsign" | "ntsqr" | "ntfact" | "ntlogfact" =>
    match v0 with
    | [a] =>
      let m : String := match name with
        | "ntabs" => showF (VecTools.ntAbs a)
        | "ntsign" => showF (VecTools.ntSign a)
        | "ntsqr" => showF (VecTools.ntSqr a)
        | "ntfact" => showRes showF (VecTools.ntFact natOf? a)
        | _ => showRes showF (VecTools.ntLogFact natOf? a)
      (s, m, onScalar impl "ntScalar_spec" fun g =>
        match floatToRat? a with
        | none => []
        | some r =>
          match name with
          | "ntabs" => [("ntAbs_spec", isRat g (rabs r))]
          | "ntsign" => [("ntSign_spec", isRat g (if r < 0 then -1 else if r = 0 then 0 else 1))]
          | "ntsqr" => [("ntSqr_spec", closeTo g (r * r) (r * r) tolOne)]
          | "ntfact" => match natOf? a with
            | some n => [("fact_spec", if n ≤ 18 then isRat g (factR n) else closeTo g (factR n) (factR n))]
            | none => []
          | _ => match natOf? a with
            | some n => [("fact_spec", n > 170 || fclose g (Float.log (fsum [(List.range n).foldl (fun p i => p * Float.ofNat (i + 1)) 1.0])) 1e-12)]
            | none => [])
    | _ => bad
  | "ntmax" | "ntmin" | "ntsign2" =>
    match v0 with
    | [a, b] =>
      let m := if name == "ntmax" then VecTools.ntMax a b else if name == "ntmin" then VecTools.ntMin a b else VecTools.ntSign2 a b
      (s, showF m, onScalar impl "ntScalar_spec" fun g =>
        match floatToRat? a, floatToRat? b with
        | some x, some y =>
          if name == "ntmax" then [("ntMax_spec", isRat g (if x < y then y else x))]
          else if name == "ntmin" then [("ntMin_spec", isRat g (if y < x then y else x))]
          else [("ntSign2_spec", isRat g (rabs x * (if y < 0 then -1 else if y = 0 then 0 else 1)))]
        | _, _ => [])
    | _ => bad
  | "ntswap" =>
    match v0 with
    | [a, b] => let r := VecTools.ntSwap a b
      (s, showV [r.1, r.2], onVec impl "ntSwap_shift_spec" fun g => [("ntSwap_shift_spec", sameV g [b, a])])
    | [a, b, c] => let r := VecTools.ntShift3 a b c
      (s, showV [r.1, r.2], onVec impl "ntSwap_shift_spec" fun g => [("ntSwap_shift_spec", sameV g [b, c])])
    | [a, b, c, d] => let r := VecTools.ntShift4 a b c d
      (s, showV [r.1, r.2.1, r.2.2], onVec impl "ntSwap_shift_spec" fun g => [("ntSwap_shift_spec", sameV g [b, c, d])])
    | _ => bad
  -- ------------------------------------------------------------ histogram helpers
  | "breaks" =>
    match v0 with
    | [nf] => match natOf? nf with
      | some n =>
        (s, showRes showV (VecTools.breaks v1 n),
          if v1.isEmpty then expectErr impl "empty_raises" .empty
          else onVec impl "breaks_spec" fun g =>
            match rats? v1 with
            | some r =>
              let lo := r.foldl (fun m x => if x < m then x else m) (r.headD 0)
              let hi := r.foldl (fun m x => if x > m then x else m) (r.headD 0)
              let sc := rabs lo + rabs hi
              [("breaks_spec", g.length == n + 1 &&
                  (List.zip (g.take n) (List.range n)).all (fun p =>
                    closeTo p.1 (lo + (hi - lo) / (n : Rat) * (p.2 : Rat)) sc (pow2neg 48)) &&
                  (match g.getLast? with | some l => isRat l hi | none => false))]
            | none => [])
      | none => bad
    | _ => bad
  | "nclass" =>
    (s, showRes toString (VecTools.nclassScott (fun x => if x.isNaN || x < 0.0 || x > 1e18 then none else some x.ceil.toUInt64.toNat) v0),
      if v0.isEmpty then expectErr impl "empty_raises" .empty
      else onNat impl "nclassScott_spec" fun k =>
        match rats? v0 with
        | some r =>
          let n := r.length
          if n < 2 then [] else
          let lo := r.foldl (fun m x => if x < m then x else m) (r.headD 0)
          let hi := r.foldl (fun m x => if x > m then x else m) (r.headD 0)
          let var := Spec.cov r r true
          if var ≤ 0 then [] else
          let t := ratToFloat (hi - lo) / (3.5 * Float.sqrt (ratToFloat var) * Float.pow (Float.ofNat n) (-1.0 / 3.0))
          [("nclassScott_spec", (t * (1.0 - 1e-9)).ceil ≤ Float.ofNat k && Float.ofNat k ≤ (t * (1.0 + 1e-9)).ceil)]
        | none => [])
  -- ------------------------------------------------------------ extract, countValues
  | "extract" =>
    match v0.mapM natOf? with
    | some pos =>
      (s, showRes showV (VecTools.extract v1 pos), onVec impl "extract_spec" fun g =>
        if pos.all (· < v1.length) then [("extract_spec", sameV g (pos.filterMap (fun p => v1[p]?)))] else [])
    | none => bad
  | "countvalues" =>
    let m := VecTools.countValues flt v0
    (s, (if m.isEmpty then "-" else " ".intercalate (m.map (fun kc => showF kc.1 ++ " " ++ toString kc.2))),
      match impl with
      | none => "-"
      | some t =>
        let rec pairs : List String → Option (List (Float × Nat))
          | [] => some []
          | [_] => none
          | k :: c :: rest => match implFloat? k, nat? c, pairs rest with
            | some kf, some cn, some r => some ((kf, cn) :: r)
            | _, _, _ => none
        match (if t == ["-"] then some [] else pairs t) with
        | some kc =>
          if !(noNaN v0) then "-" else
          checks [("countValues_spec", decide (StrictSorted flt (kc.map (·.1))) &&
                    kc.all (fun p => p.2 == (v0.filter (· == p.1)).length && p.2 > 0) &&
                    v0.all (fun x => kc.any (fun p => p.1 == x)))]
        | none => "FAIL:countValues_spec")
  -- ------------------------------------------------------------ lists of vectors (`; v1 ; v2 …`)
  | "unionlist" =>
    let l := vs.drop 1
    (s, showV (VecTools.vectorUnionList feq l), onVec impl "unionList_shape" fun g =>
      if l.all noNaN then [("unionList_shape", decide (IsUnionList feq l g))] else [])
  | "interlist" =>
    let l := vs.drop 1
    (s, showV (VecTools.vectorIntersectionList feq l), onVec impl "interList_shape" fun g =>
      if l.all noNaN then [("interList_shape", decide (IsInterList feq l g))] else [])
  | "appendlist" =>
    let l := vs.drop 1
    (s, showV (VecTools.appendAll l), onVec impl "appendAll_spec" fun g => [("appendAll_spec", sameV g l.flatten)])
  | "extend" =>
    (s, showV (VecTools.extend feq v0 v1), onVec impl "extend_spec" fun g =>
      if noNaN v0 && noNaN v1 then [("extend_spec", decide (IsUnion feq v0 v1 g))] else [])
  | "append2" => (s, showV (VecTools.append2 v0 v1), onVec impl "append_prepend_spec" fun g => [("append_prepend_spec", sameV g (v0 ++ v1))])
  | "prepend" => (s, showV (VecTools.prepend v0 v1), onVec impl "append_prepend_spec" fun g => [("append_prepend_spec", sameV g (v1 ++ v0))])
  | "rep" =>
    match v0 with
    | [nf] => match natOf? nf with
      | some n => (s, showRes showV (VecTools.rep v1 n), onVec impl "rep_spec" fun g =>
          [("rep_spec", sameV g (Spec.repeatList v1 n))])
      | none => bad
    | _ => bad
  -- ------------------------------------------------------------ overloads that sort in place
  | "havesame2" | "containsall2" =>
    let r := if name == "havesame2" then VecTools.haveSameElementsInPlace feq flt v0 v1 else VecTools.containsAllInPlace feq flt v0 v1
    (s, showBool r.1 ++ " ; " ++ showV r.2.1 ++ " ; " ++ showV r.2.2,
      onParts impl "inPlace_spec" fun parts =>
        match parts, rats? v0, rats? v1 with
        | [[b], a', b'], some a, some bb =>
          match implVec? a', implVec? b' with
          | some ga, some gb => match rats? ga, rats? gb with
            | some ra, some rb =>
              let sortedOrSame (orig got : List Rat) : Bool :=
                if name == "havesame2" && a.length != bb.length then got == orig else decide (IsSortOf rlt orig got)
              [((if name == "havesame2" then "haveSameInPlace_spec" else "containsAllInPlace_spec"),
                  b == showBool (if name == "havesame2" then decide (a.Perm bb) else bb.all (fun x => a.any (· == x)))),
               ("mergeSort_sorted_perm", sortedOrSame a ra && sortedOrSame bb rb)]
            | _, _ => [("inPlace_spec", false)]
          | _, _ => [("inPlace_spec", false)]
        | [_, _, _], _, _ => []
        | _, _, _ => [("inPlace_spec", false)])
  | "diff3" =>
    let r := VecTools.diff3 feq flt v0 v1 v2
    (s, showV r.1 ++ " ; " ++ showV r.2.1 ++ " ; " ++ showV r.2.2,
      onParts impl "diff3_spec" fun parts =>
        match parts.mapM implVec?, rats? v0, rats? v1, rats? v2 with
        | some [ga, gb, gc], some a, some b, some c =>
          match rats? ga, rats? gb, rats? gc with
          | some ra, some rb, some rc =>
            [("diff3_spec", rc.take c.length == c && decide (IsDiff req rlt a b (rc.drop c.length))),
             ("mergeSort_sorted_perm", decide (IsSortOf rlt a ra) && decide (IsSortOf rlt b rb))]
          | _, _, _ => [("diff3_spec", false)]
        | some [_, _, _], _, _, _ => []
        | _, _, _, _ => [("diff3_spec", false)])
  -- ------------------------------------------------------------ mixed-type overloads (U = int)
  | "containsu" =>
    match v0 with
    | [el] => let k := truncInt el
      (s, showBool (VecTools.containsU feq (fun (i : Int) => Float.ofInt i) v1 k),
        onBool impl "containsU_spec" (v1.any (fun y => y == Float.ofInt k)))
    | _ => bad
  | "intertu" =>
    let v2i := v1.map truncInt
    (s, showV (VecTools.vectorIntersectionTU truncInt (fun (a b : Int) => a == b) v0 v2i), onVec impl "interTU_spec" fun g =>
      [("interTU_spec", sameV g (v0.filter (fun x => v2i.any (fun y => y == truncInt x))))])
  -- ------------------------------------------------------------ resize
  | "resize2" =>
    match v0.mapM natOf? with
    | some [n1, n2] =>
      let vv := vs.drop 1
      (s, showVV (VecTools.resize2 0.0 vv n1 n2),
        match impl with
        | none => "-"
        | some t => match implVV? t with
          | some g => checks [("resize2_spec", g.length == n1 && g.all (·.length == n2) &&
              (List.range n1).all (fun i => (List.range n2).all (fun j =>
                match g[i]? with
                | some row => match row[j]? with
                  | some x => showF x == showF (match vv[i]? with
                      | some r => (match r[j]? with | some y => y | none => 0.0)
                      | none => 0.0)
                  | none => false
                | none => false)))]
          | none => "FAIL:resize2_spec")
    | _ => bad
  | "resize3" =>
    match v0.mapM natOf? with
    | some [a1, a2, a3, n1, n2, n3] =>
      let start := List.replicate a1 (List.replicate a2 (List.replicate a3 (1.0 : Float)))
      (s, dims3 (VecTools.resize3 0.0 start n1 n2 n3),
        match impl with
        | none => "-"
        | some t =>
          let want := [toString n1, (if n1 == 0 then "-" else toString n2), (if n1 == 0 || n2 == 0 then "-" else toString n3),
                       showF (Float.ofNat (Nat.min a1 n1 * Nat.min a2 n2 * Nat.min a3 n3))]
          if t == want then "ok" else "FAIL:resize_spec")
    | _ => bad
  | "resize4" =>
    match v0.mapM natOf? with
    | some [a1, a2, a3, a4, n1, n2, n3, n4] =>
      let start := List.replicate a1 (List.replicate a2 (List.replicate a3 (List.replicate a4 (1.0 : Float))))
      (s, dims4 (VecTools.resize4 0.0 start n1 n2 n3 n4),
        match impl with
        | none => "-"
        | some t =>
          let want := [toString n1, (if n1 == 0 then "-" else toString n2), (if n1 == 0 || n2 == 0 then "-" else toString n3),
                       (if n1 == 0 || n2 == 0 || n3 == 0 then "-" else toString n4),
                       showF (Float.ofNat (Nat.min a1 n1 * Nat.min a2 n2 * Nat.min a3 n3 * Nat.min a4 n4))]
          if t == want then "ok" else "FAIL:resize_spec")
    | _ => bad
  -- ------------------------------------------------------------ continuous entropy, given the kernel densities
  | "shannoncont" =>
    match v0, impl with
    | [base], some t =>
      if (t.head?.getD "").startsWith "exc:" then (s, "no-exception-expected", "FAIL:shannonContinuous_spec") else
      match splitTok ";" t with
      | [[r], ds] => match implFloat? r, implVec? ds with
        | some g, some dens =>
          let m := VecTools.shannonContinuousOf dens v1.length base
          (s, showF m ++ " ; " ++ showV dens,
            checks [("shannonContinuous_spec", dens.length == v1.length &&
              (!(dens.all (fun d => finite d && d > 0.0)) ||
                fclose g (-(fsum (dens.map (fun d => Float.log d / Float.log base))) / Float.ofNat v1.length) 1e-9))])
        | _, _ => (s, "unparsable", "FAIL:shannonContinuous_spec")
      | _ => (s, "unparsable", "FAIL:shannonContinuous_spec")
    | [_], none => (s, "-", "-")
    | _, _ => bad
  | "micont" =>
    match v0, impl with
    | [base], some t =>
      if v1.length != v2.length then
        (s, showRes showF (VecTools.miContinuousOf v1.length v2.length [] [] [] base), expectErr impl "mismatch_raises" .dimension)
      else if (t.head?.getD "").startsWith "exc:" then (s, "no-exception-expected", "FAIL:miContinuous_spec") else
      match (splitTok ";" t).mapM implVec? with
      | some [[g], d12, d1, d2] =>
        let m := VecTools.miContinuousOf v1.length v2.length d12 d1 d2 base
        (s, showRes showF m ++ " ; " ++ showV d12 ++ " ; " ++ showV d1 ++ " ; " ++ showV d2,
          checks [("miContinuous_spec", d12.length == v1.length && d1.length == v1.length && d2.length == v1.length &&
            (!((d12 ++ d1 ++ d2).all (fun d => finite d && d > 0.0)) ||
              fclose g (fsum ((List.zip d12 (List.zip d1 d2)).map (fun p => Float.log (p.1 / (p.2.1 * p.2.2)) / Float.log base))
                        / Float.ofNat v1.length) 1e-9))])
      | _ => (s, "unparsable", "FAIL:miContinuous_spec")
    | [_], none => (s, "-", "-")
    | _, _ => bad
  | _ => bad

def step (s : St) (op : List String) (impl : Option (List String)) : St × String × String :=
  let bad : St × String × String := (s, "bad-op", "-")
  match op with
  | [] => bad
  | name :: args =>
  -- flags: leading tokens "0"/"1"
  let flags := args.takeWhile (fun t => t == "0" || t == "1")
  let fl (i : Nat) : Bool := flags.getD i "0" == "1"
  match vecs? (args.drop flags.length) with
  | none => bad
  | some vs =>
  let v0 := vs.getD 0 []; let v1 := vs.getD 1 []; let v2 := vs.getD 2 []
  let dimOr (a b : List Float) (k : Unit → String) : String :=
    if a.length != b.length then expectErr impl "mismatch_raises" .dimension else k ()
  let emptyOr (a : List Float) (k : Unit → String) : String :=
    if a.isEmpty then expectErr impl "empty_raises" .empty else k ()
  match name with
  -- ------------------------------------------------------------ element-wise
  | "add" | "sub" | "mul" | "div" =>
    match elementwise name with
    | some (f, ref) =>
      (s, showRes showV (VecTools.zipOp f v0 v1),
        dimOr v0 v1 fun _ => onVec impl "elementwise_spec" fun g => [("elementwise_spec", elemOk ref v0 v1 g)])
    | none => bad
  | "addeq" | "subeq" | "muleq" | "diveq" =>
    match elementwise (name.take 3).toString with
    | some (f, ref) =>
      (s, showRes showV (VecTools.zipAssign f v0 v1),
        dimOr v0 v1 fun _ => onVec impl "elementwise_spec" fun g => [("elementwise_spec", elemOk ref v0 v1 g)])
    | none => bad
  | "addc" | "subc" | "mulc" | "divc" =>
    match elementwise (name.take 3).toString, v1 with
    | some (f, ref), [c] =>
      (s, showV (v0.map (fun x => f x c)),
        onVec impl "elementwise_spec" fun g => [("elementwise_spec", elemOk ref v0 (v0.map fun _ => c) g)])
    | _, _ => bad
  | "cadd" | "csub" | "cmul" | "cdiv" =>
    match elementwise (name.drop 1).toString, v0 with
    | some (f, ref), [c] =>
      (s, showV (v1.map (fun x => f c x)),
        onVec impl "elementwise_spec" fun g => [("elementwise_spec", elemOk ref (v1.map fun _ => c) v1 g)])
    | _, _ => bad
  -- ------------------------------------------------------------ reductions
  | "sum" =>
    (s, showF (VecTools.sum v0), onScalar impl "sum_spec" fun g =>
      match rats? v0 with
      | some r => [("sum_spec", closeTo g (S r) (S (r.map rabs))),
                   ("sum_exact_rat", match exactInts v0 with | some q => isRat g (VecTools.sum q) | none => true)]
      | none => [])
  | "prod" =>
    (s, showF (VecTools.prod v0), onScalar impl "prod_spec" fun g =>
      match rats? v0 with
      | some r => let p := Spec.prod r
        [("prod_spec", rabs p < pow2neg 900 && p != 0 || closeTo g p (rabs p)),
         ("prod_exact_rat", match exactInts v0 with
            | some q => rabs p ≥ 9007199254740992 || isRat g (VecTools.prod q)
            | none => true)]
      | none => [])
  | "cumsum" =>
    (s, showV (VecTools.cumSum v0), onVec impl "cumSum_spec" fun g =>
      match rats? v0 with
      | some r => let pre := (List.range r.length).map (fun i => r.take (i + 1))
        [("cumSum_spec", closeV g (pre.map S) (pre.map (fun l => S (l.map rabs)))),
         ("cumSum_exact_rat", match exactInts v0 with | some q => areRats g (VecTools.cumSum q) | none => true)]
      | none => [("cumSum_spec", g.length == v0.length)])
  | "cumprod" =>
    (s, showV (VecTools.cumProd v0), onVec impl "cumProd_spec" fun g =>
      match rats? v0 with
      | some r => let pre := (List.range r.length).map (fun i => Spec.prod (r.take (i + 1)))
        [("cumProd_spec", g.length == v0.length &&
            (List.zip g pre).all (fun q => rabs q.2 < pow2neg 900 && q.2 != 0 || closeTo q.1 q.2 (rabs q.2)))]
      | none => [("cumProd_spec", g.length == v0.length)])
  | "sumprod" =>
    (s, showRes showF (VecTools.sumProd v0 v1), dimOr v0 v1 fun _ => onScalar impl "sumProd_spec" fun g =>
      match rats? v0, rats? v1 with
      | some a, some b => [("sumProd_spec", closeTo g (Spec.dot a b) (Spec.dot (a.map rabs) (b.map rabs))),
          ("sumProd_exact_rat", match exactInts v0, exactInts v1 with
            | some p, some q => (match VecTools.sumProd p q with | .ok x => isRat g x | .error _ => false)
            | _, _ => true)]
      | _, _ => [])
  | "scalar" =>
    (s, showRes showF (VecTools.scalar v0 v1), dimOr v0 v1 fun _ => onScalar impl "scalar_spec" fun g =>
      match rats? v0, rats? v1 with
      | some a, some b => [("scalar_spec", closeTo g (Spec.dot a b) (Spec.dot (a.map rabs) (b.map rabs))),
          ("scalar_exact_rat", match exactInts v0, exactInts v1 with
            | some p, some q => (match VecTools.scalar p q with | .ok x => isRat g x | .error _ => false)
            | _, _ => true)]
      | _, _ => [])
  | "scalarw" =>
    (s, showRes showF (VecTools.scalarW v0 v1 v2),
      if v0.length != v2.length || v1.length != v2.length then expectErr impl "mismatch_raises" .dimension
      else onScalar impl "scalar_spec" fun g =>
        match rats? v0, rats? v1, rats? v2 with
        | some a, some b, some w =>
          [("scalar_spec", closeTo g (Spec.dotW a b w) (Spec.dotW (a.map rabs) (b.map rabs) (w.map rabs)))]
        | _, _, _ => [])
  | "norm" =>
    (s, showF (VecTools.norm v0), onScalar impl "norm_spec" fun g =>
      match rats? v0, floatToRat? g with
      | some a, some gr => let q := Spec.dot a a
        [("norm_spec", gr ≥ 0 && (q > pow2neg 600 || q == 0) && rabs (gr * gr - q) ≤ tolAcc * q + tiny
                        || (q ≤ pow2neg 600 && q != 0))]
      | some a, none => [("norm_spec", !g.isNaN && Spec.dot a a ≥ ((2 ^ 2000 : Nat) : Rat))]
      | none, _ => [])
  | "normw" =>
    (s, showRes showF (VecTools.normW v0 v1), dimOr v0 v1 fun _ => onScalar impl "norm_spec" fun g =>
      match rats? v0, rats? v1, floatToRat? g with
      | some a, some w, none =>
        -- a clearly negative weighted sum of squares: sqrt of a negative number is NaN
        let q := Spec.dotW a a w
        let sc := Spec.dotW a a (w.map rabs)
        if q < -(tolAcc * sc) then [("normW_negative_nan", g.isNaN)] else []
      | some a, some w, some gr =>
        if w.all (· ≥ 0) then
          let q := Spec.dotW a a w
          [("norm_spec", gr ≥ 0 && rabs (gr * gr - q) ≤ tolAcc * q + pow2neg 500)]
        else
          let q := Spec.dotW a a w
          let sc := Spec.dotW a a (w.map rabs)
          if q > tolAcc * sc then [("normW_spec", gr ≥ 0 && rabs (gr * gr - q) ≤ tolAcc * sc + pow2neg 500)] else []
      | _, _, _ => [])
  | "cos" =>
    (s, showRes showF (VecTools.cos v0 v1), dimOr v0 v1 fun _ => onScalar impl "cos_range" fun g =>
      -- Cauchy–Schwarz on the answer
      if allFinite v0 && allFinite v1 && finite g then [("cos_range", g.abs ≤ 1.0 + 1e-9)] else [])
  -- ------------------------------------------------------------ extrema
  | "min" | "max" =>
    let isMax := name == "max"
    let better : Float → Float → Bool := if isMax then (fun y m => y > m) else (fun y m => y < m)
    (s, showRes showF (if isMax then VecTools.max v0 else VecTools.min v0),
      emptyOr v0 fun _ => onScalar impl "extremum_spec" fun g =>
        if noNaN v0 then [("extremum_spec", decide (IsExtremum feq better v0 g))] else [])
  | "whichmin" | "whichmax" =>
    let isMax := name == "whichmax"
    let better : Float → Float → Bool := if isMax then (fun y m => y > m) else (fun y m => y < m)
    (s, showRes toString (if isMax then VecTools.whichMax v0 else VecTools.whichMin v0),
      emptyOr v0 fun _ => onNat impl "whichMax_first" fun g =>
        if noNaN v0 then [("whichMax_first", decide (IsFirstExtremum better v0 g))] else [])
  | "whichminall" | "whichmaxall" =>
    let isMax := name == "whichmaxall"
    let better : Float → Float → Bool := if isMax then (fun y m => y > m) else (fun y m => y < m)
    (s, showRes showNats (if isMax then VecTools.whichMaxAll v0 else VecTools.whichMinAll v0),
      emptyOr v0 fun _ => onNats impl "whichAll_spec" fun g =>
        if noNaN v0 then
          [("whichAll_spec", match g.head? with
            | some p0 => match v0[p0]? with
              | some m => decide (IsExtremum feq better v0 m) && decide (IsPositionsOf feq v0 m g)
              | none => false
            | none => false)]
        else [])
  | "range" =>
    (s, showRes (fun (r : Float × Float) => showV [r.1, r.2]) (VecTools.range v0),
      emptyOr v0 fun _ => onVec impl "extremum_spec" fun g =>
        if noNaN v0 then
          [("extremum_spec", match g with
            | [lo, hi] => decide (IsExtremum feq (fun y m => y < m) v0 lo) && decide (IsExtremum feq (fun y m => y > m) v0 hi)
            | _ => false)]
        else [])
  -- ------------------------------------------------------------ order / median / moments
  | "order" =>
    (s, showRes showNats (VecTools.order v0), emptyOr v0 fun _ => onNats impl "order_sorted_perm" fun g =>
      match rats? v0 with
      | some r => [("order_sorted_perm", decide (IsSortingPerm rlt r g))]
      | none => [])
  | "median" =>
    (s, showRes (fun (r : Float × List Float) => showF r.1 ++ " ; " ++ showV r.2) (VecTools.median v0),
      match impl with
      | none => "-"
      | some t => match splitTok ";" t with
        | [[m], sv] => match implFloat? m, implVec? sv, rats? v0 with
          | some m, some sv, some r =>
            match floatToRat? m, rats? sv with
            | some mr, some sr =>
              checks [("median_spec", r.isEmpty || decide (IsMedian rlt r mr)),
                      ("median_exact_rat", match exactInts v0 with
                        | some q => (match VecTools.median q with | .ok x => x.1 == mr && x.2 == sr | .error _ => false)
                        | none => true),
                      ("median_sorts", if r.length ≤ 1 then sr == r else decide (IsSortOf rlt r sr))]
            | _, _ => "FAIL:median_spec"
          | some _, some _, none => "-"
          | _, _, _ => "FAIL:median_spec"
        | _ => "FAIL:median_spec")
  | "mean" =>
    (s, showF (VecTools.mean v0), onScalar impl "mean_spec" fun g =>
      match rats? v0 with
      | some r => if r.isEmpty then [] else [("mean_spec", closeTo g (Spec.mean r) (Spec.mean (r.map rabs)))]
      | none => [])
  | "meanw" =>
    let normalize := fl 0
    (s, showRes showF (VecTools.meanW v0 v1 normalize), dimOr v0 v1 fun _ => onScalar impl "mean_weighted_spec" fun g =>
      match rats? v0, rats? v1 with
      | some a, some w =>
        if !normalize then [("mean_weighted_spec", closeTo g (Spec.dot a w) (Spec.dot (a.map rabs) (w.map rabs)))]
        else if w.all (· > 0) then
          [("mean_weighted_spec", closeTo g (Spec.meanW a w) (Spec.meanW (a.map rabs) w))]
        else []
      | _, _ => [])
  | "center" =>
    (s, showV (VecTools.center v0), onVec impl "center_spec" fun g =>
      match rats? v0 with
      | some r => if r.isEmpty then [("center_spec", g.isEmpty)] else
        let m := Spec.mean r; let sc := Spec.mean (r.map rabs)
        [("center_spec", closeV g (r.map (· - m)) (r.map (fun x => rabs x + sc)))]
      | none => [])
  | "centerw" =>
    let normalize := fl 0
    (s, showRes showV (VecTools.centerW v0 v1 normalize), dimOr v0 v1 fun _ => onVec impl "center_spec" fun g =>
      match rats? v0, rats? v1 with
      | some a, some w =>
        if normalize && w.all (· > 0) then
          let m := Spec.meanW a w; let sc := Spec.meanW (a.map rabs) w
          [("center_spec", closeV g (a.map (· - m)) (a.map (fun x => rabs x + sc)))]
        else if !normalize then
          -- the weights are used as they are: the raw weighted sum is subtracted
          let m := Spec.dot a w; let sc := Spec.dot (a.map rabs) (w.map rabs)
          [("centerW_spec", closeV g (a.map (· - m)) (a.map (fun x => rabs x + sc)))]
        else []
      | _, _ => [])
  | "cov" | "var" | "sd" =>
    let unbiased := fl 0
    let b := if name == "cov" then v1 else v0
    let model : Res Float := if name == "cov" then VecTools.cov v0 v1 unbiased
      else if name == "var" then VecTools.var v0 unbiased else VecTools.sd v0 unbiased
    (s, showRes showF model, dimOr v0 b fun _ => onScalar impl "var_spec" fun g =>
      match rats? v0, rats? b with
      | some x, some y =>
        let n := x.length
        if n = 0 || (unbiased && n = 1) then [] else
        let c := Spec.cov x y unbiased
        let sc := specCovScale x y (if unbiased then (n : Rat) - 1 else n)
        if name == "sd" then
          match floatToRat? g with
          | some gr => [("var_spec", gr ≥ 0 && rabs (gr * gr - c) ≤ tolAcc * sc + tiny)]
          | none => [("var_spec", false)]
        else [(if name == "cov" then "cov_spec" else "var_spec", closeTo g c sc),
              ("var_nonneg", name == "cov" || g ≥ 0.0)]
      | _, _ => [])
  | "cor" =>
    (s, showRes showF (VecTools.cor v0 v1), dimOr v0 v1 fun _ => onScalar impl "cor_sq_le_one" fun g =>
      match rats? v0, rats? v1 with
      | some x, some y =>
        let n := x.length
        if n < 2 then [] else
        let vx := Spec.cov x x true; let vy := Spec.cov y y true; let c := Spec.cov x y true
        let sx := specCovScale x x ((n : Rat) - 1); let sy := specCovScale y y ((n : Rat) - 1)
        -- well-conditioned only when the variances are not cancellation noise
        if vx * 1048576 < sx || vy * 1048576 < sy then [] else
        match floatToRat? g with
        | some gr =>
          [("cor_sq_le_one", gr * gr ≤ 1 + pow2neg 30),
           ("cor_spec", rabs (gr * gr * vx * vy - c * c) ≤ pow2neg 14 * (vx * vy)),
           ("cor_spec", (gr ≥ 0) == (c ≥ 0) || rabs (gr) ≤ pow2neg 7)]
        | none => [("cor_sq_le_one", false)]
      | _, _ => [])
  | "covw" | "varw" =>
    let unbiased := fl 0; let normalize := fl 1
    let isCov := name == "covw"
    let b := if isCov then v1 else v0
    let w := if isCov then v2 else v1
    (s, showRes showF (if isCov then VecTools.covW v0 v1 w unbiased normalize else VecTools.varW v0 w unbiased normalize),
      if v0.length != w.length || b.length != w.length then expectErr impl "mismatch_raises" .dimension
      else onScalar impl "covW_spec" fun g =>
        match rats? v0, rats? b, rats? w with
        | some x, some y, some wr =>
          if !(wr.all (· > 0)) || !normalize then [] else
          let sw := S wr; let wn := wr.map (· / sw)
          let mx := Spec.dot x wn; let my := Spec.dot y wn
          let c := Spec.dotW (x.map (· - mx)) (y.map (· - my)) wn
          let sc := Spec.dotW (x.map (fun a => rabs a + rabs mx)) (y.map (fun a => rabs a + rabs my)) wn
          let d := 1 - Spec.dot wn wn
          if unbiased then (if d * 1024 < 1 then [] else [("covW_spec", closeTo g (c / d) (sc / d))])
          else [("covW_spec", closeTo g c sc)]
        | _, _, _ => [])
  | "corw" =>
    let normalize := fl 0
    (s, showRes showF (VecTools.corW v0 v1 v2 normalize),
      if v0.length != v2.length || v1.length != v2.length then expectErr impl "mismatch_raises" .dimension
      else onScalar impl "cor_sq_le_one" fun g =>
        if allFinite v0 && allFinite v1 && v2.all (fun x => finite x && x > 0) && finite g then
          let range : List (String × Bool) := [("cor_sq_le_one", g.abs ≤ 1.0 + 1e-6)]
          -- corW_spec: cov/(sd·sd) of the biased estimates on the weights actually used
          let spec : List (String × Bool) := (match rats? v0, rats? v1, rats? v2, floatToRat? g with
           | some x, some y, some wr, some gr =>
             let sw := S wr
             let wn := if normalize then wr.map (· / sw) else wr
             match refCovW x x wn false false, refCovW y y wn false false, refCovW x y wn false false with
             | some (A, sa), some (B, sb), some (C, _) =>
               -- well-conditioned only when the variances are not cancellation noise
               if A * 1048576 < sa || B * 1048576 < sb then [] else
               [("corW_spec", rabs (gr * gr * A * B - C * C) ≤ pow2neg 14 * (A * B)),
                ("corW_spec", (gr ≥ 0) == (C ≥ 0) || rabs gr ≤ pow2neg 7)]
             | _, _, _ => []
           | _, _, _, _ => [])
          range ++ spec
        else [])
  | "shannon" =>
    match v0 with
    | [base] =>
      (s, showF (VecTools.shannon v1 base), onScalar impl "shannon_spec" fun g =>
        if allFinite v1 && finite base && base > 1.0 then
          let terms := v1.filter (· > 0.0) |>.map (fun x => x * Float.log x / Float.log base)
          [("shannon_spec", fclose g (- fsum terms.reverse) 1e-9 || (g + fsum terms).abs ≤ 1e-9 * fsum (terms.map Float.abs)),
           ("shannon_nonneg", !(v1.all (· ≤ 1.0)) || g ≥ 0.0)]
        else [])
    | _ => bad
  | "shannondisc" =>
    match v0 with
    | [base] =>
      (s, showF (VecTools.shannonDiscrete v1 base), onScalar impl "shannonDiscrete_spec" fun g =>
        if allFinite v1 && finite base && base > 1.0 && !v1.isEmpty then
          let n := Float.ofNat v1.length
          let distinct := v1.foldl (fun acc x => if acc.any (· == x) then acc else acc ++ [x]) []
          let h := - fsum (distinct.map (fun x =>
            let c := Float.ofNat (v1.filter (· == x)).length
            (c / n) * Float.log (c / n) / Float.log base))
          [("shannonDiscrete_spec", fclose g h 1e-9),
           ("explored_entropy_range", g ≥ -1e-12 && g ≤ Float.log n / Float.log base + 1e-9)]
        else [])
    | _ => bad
  | "midisc" =>
    match v0 with
    | [base] =>
      (s, showRes showF (VecTools.miDiscrete v1 v2 base), dimOr v1 v2 fun _ => onScalar impl "miDiscrete_spec" fun g =>
        if allFinite v1 && allFinite v2 && finite base && base > 1.0 && !v1.isEmpty then
          let n := Float.ofNat v1.length
          let pairs := List.zip v1 v2
          let distinct := pairs.foldl (fun acc p => if acc.any (fun q => q.1 == p.1 && q.2 == p.2) then acc else acc ++ [p]) []
          let cnt (l : List Float) (x : Float) : Float := Float.ofNat (l.filter (· == x)).length
          let mi := fsum (distinct.map (fun p =>
            let c := Float.ofNat (pairs.filter (fun q => q.1 == p.1 && q.2 == p.2)).length
            (c / n) * Float.log (c * n / (cnt v1 p.1 * cnt v2 p.2)) / Float.log base))
          [("miDiscrete_spec", fclose g mi 1e-9),
           ("explored_mi_nonneg", g ≥ -1e-9)]
        else [])
    | _ => bad
  | "seq" =>
    match v0 with
    | [frm, to, by_] =>
      (s, showRes showV (VecTools.seq (fun x => x.toUInt64.toNat) frm to by_), onVec impl "seq_spec" fun g =>
        match floatToRat? frm, floatToRat? to, floatToRat? by_ with
        | some f, some t, some b =>
          if b ≤ 0 then [] else
          let q := (rabs (f - t) + b / 100) / b
          let n := q.floor.toNat + 1
          let step : Rat := if f < t then b else -b
          -- the size computation is a rounded quotient: allow it to land on either side of an integer
          let frac := q - q.floor
          let nOk := g.length == n || (frac < pow2neg 30 && g.length + 1 == n) || (1 - frac < pow2neg 30 && g.length == n + 1)
          [("seq_spec", nOk && (List.zip g (List.range g.length)).all (fun p =>
              closeTo p.1 (f + (p.2 : Rat) * step) (rabs f + (p.2 : Rat) * b)))]
        | _, _, _ => [])
    | _ => bad
  -- ------------------------------------------------------------ set-like
  | "unique" =>
    (s, showV (VecTools.unique feq flt v0), onVec impl "unique_nodup_same_set" fun g =>
      match rats? v0, rats? g with
      | some r, some gr => [("unique_nodup_same_set", decide (StrictSorted rlt gr) && decide (SameSet req gr r))]
      | none, _ => []
      | _, none => [("unique_nodup_same_set", false)])
  | "isunique" =>
    (s, showBool (VecTools.isUnique feq flt v0),
      match rats? v0 with
      | some r => onBool impl "isUnique_iff" (decide (NoDup req r))
      | none => "-")
  | "contains" =>
    match v0 with
    | [x] => (s, showBool (VecTools.contains feq v1 x), onBool impl "contains_iff" (v1.any (fun y => y == x)))
    | _ => bad
  | "which" =>
    match v0 with
    | [x] =>
      (s, showRes toString (VecTools.which feq v1 x),
        if !(v1.any (fun y => y == x)) then expectErr impl "notfound_raises" .notfound
        else onNat impl "which_first" fun g =>
          [("which_first", (match v1[g]? with | some y => y == x | none => false) && (v1.take g).all (fun y => !(y == x)))])
    | _ => bad
  | "whichall" =>
    match v0 with
    | [x] =>
      (s, showRes showNats (VecTools.whichAll v1 x),
        if !(v1.any (fun y => y == x)) then expectErr impl "notfound_raises" .notfound
        else onNats impl "whichAll_spec" fun g => [("whichAll_spec", decide (IsPositionsOf feq v1 x g))])
    | _ => bad
  | "appendall" =>
    (s, showV (VecTools.appendAll vs), onVec impl "appendAll_spec" fun g =>
      [("appendAll_spec", showV g == showV vs.flatten)])
  | "union" =>
    (s, showV (VecTools.vectorUnion feq v0 v1), onVec impl "union_shape" fun g =>
      if noNaN v0 && noNaN v1 then [("union_shape", decide (IsUnionList feq [v0, v1] g))] else [])
  | "inter" =>
    (s, showV (VecTools.vectorIntersection feq v0 v1), onVec impl "inter_iff" fun g =>
      if noNaN v0 && noNaN v1 then
        [("inter_iff", decide (IsInter feq v0 v1 g)),
         -- order and multiplicities of the first vector are kept
         ("inter_iff", g.length == (v0.filter (fun x => v1.any (fun y => y == x))).length)]
      else [])
  | "diff" =>
    (s, showV (VecTools.diff feq flt v0 v1), onVec impl "diff_iff" fun g =>
      match rats? v0, rats? v1, rats? g with
      | some a, some b, some gr => [("diff_iff", decide (IsDiff req rlt a b gr))]
      | some _, some _, none => [("diff_iff", false)]
      | _, _, _ => [])
  | "containsall" =>
    (s, showBool (VecTools.containsAll feq flt v0 v1),
      if noNaN v0 && noNaN v1 then onBool impl "containsAll_iff" (v1.all (fun x => v0.any (fun y => y == x))) else "-")
  | "havesame" =>
    (s, showBool (VecTools.haveSameElements feq flt v0 v1),
      match rats? v0, rats? v1 with
      | some a, some b => onBool impl "haveSame_iff" (decide (a.Perm b))
      | _, _ => "-")
  -- ------------------------------------------------------------ log space
  | "lse" =>
    (s, showRes showF (LogSpace.logSumExp v0), emptyOr v0 fun _ => onScalar impl "lse_bounds" fun g =>
      if !(noNaN v0) then [] else
      let M := fmax v0
      if M.isInf then [("log_inf_max", g == M), ("lse_ext_agrees", extResAgrees "" (some g) (LogSpace.logSumExp (v0.map Ext.ofFloat)))] else
      let n := Float.ofNat v0.length
      let slack := 1e-12 * (1.0 + M.abs)
      [("explored_lse_finite", finite g),
       ("lse_bounds", M - slack ≤ g && g ≤ M + Float.log n + slack),
       ("lse_spec", !(v0.all (fun x => x.abs ≤ 700.0)) || fclose g (Float.log (fsum (v0.map Float.exp)))),
       ("lse_ext_agrees", extResAgrees "" (some g) (LogSpace.logSumExp (v0.map Ext.ofFloat)))])
  | "lme" =>
    (s, showRes showF (LogSpace.logMeanExp v0), emptyOr v0 fun _ => onScalar impl "logMeanExp_spec" fun g =>
      if !(noNaN v0) then [] else
      let M := fmax v0
      if M.isInf then [("log_inf_max", g == M)] else
      let n := Float.ofNat v0.length
      let slack := 1e-12 * (1.0 + M.abs)
      [("explored_lse_finite", finite g),
       ("lme_shift_bounds", M - Float.log n - slack ≤ g && g ≤ M + slack),
       ("logMeanExp_spec", !(v0.all (fun x => x.abs ≤ 700.0)) || fclose g (Float.log (fsum (v0.map Float.exp) / n)))])
  | "sumexp" =>
    (s, showRes showF (LogSpace.sumExp v0), emptyOr v0 fun _ => onScalar impl "sumExp_spec" fun g =>
      if !(noNaN v0) then [] else
      let M := fmax v0
      if M.isInf then [("sumExp_spec", g == (if M < 0 then 0 else M))] else
      let n := Float.ofNat v0.length
      [("sumExp_spec", !(M ≤ 700.0) || fclose g (fsum (v0.map Float.exp)) 1e-9),
       ("sumExp_shift_bounds", !(M ≤ 700.0) || (Float.exp M * (1.0 - 1e-12) ≤ g && g ≤ n * Float.exp M * (1.0 + 1e-12)))])
  | "lsew" | "sumexpw" =>
    let isLog := name == "lsew"
    (s, showRes showF (if isLog then LogSpace.logSumExpW v0 v1 else LogSpace.sumExpW v0 v1),
      dimOr v0 v1 fun _ => emptyOr v0 fun _ =>
        if !(noNaN v0) || !(noNaN v1) then "-" else
        let M := fmax v0
        if M.isInf && !(!isLog && v0.length == 1) then expectErr impl "log_inf_max" .badnumber
        else onScalar impl "lsew_spec" fun g =>
          if !(v1.all finite) || !(v0.all (fun x => !(x.isInf && x > 0.0))) then [] else
          -- log-domain reference over the WHOLE range: a_i = v_i + ln|w_i|, positive and negative part
          let terms := (List.zip v0 v1).filter (fun p => p.2 != 0.0 && !p.1.isInf)
          let a : List (Float × Bool) := terms.map (fun p => (p.1 + Float.log p.2.abs, decide (p.2 > 0.0)))
          let part (sel : Bool) : Float :=
            let l := (a.filter (fun q => q.2 == sel)).map (·.1)
            if l.isEmpty then -(1.0 / 0.0) else
              let L := fmax l
              L + Float.log (fsum (l.map (fun x => Float.exp (x - L))))
          let P := part true; let N := part false
          -- the defect signature (known finding C07-lsew-shift-underflow): the code shifts by max(v)
          -- whatever the weights; an entry whose contribution matters (a_i within 40 of the leading
          -- one) but whose exp(v_i - M), or whose product w_i·exp(v_i - M), underflows or is denormal
          -- (v_i - M < -700 or a_i - M < -700) is lost
          let lead := if P > N then P else N
          let lost := (List.zip terms a).any (fun q => (q.1.1 - M < -700.0 || q.2.1 - M < -700.0) && q.2.1 ≥ lead - 40.0)
          let blame (c : String) : String := if lost then "lsew_shift_underflow" else c
          -- the exact sum of the code's own terms overflows (weights near 1e308): outside this reference
          let big := fsum (terms.map (fun p => p.2.abs)) > 1e300
          if big then [] else
          if isLog then
            (if P > N + 1e-6 then
               let ref := if N.isInf then P else P + Float.log (1.0 - Float.exp (N - P))
               [(blame "lsew_spec", fclose g ref 1e-9),
                -- lsew_bounds (non-negative weights): every positively weighted entry is a lower bound
                (blame "lsew_bounds", !N.isInf || a.all (fun q => q.1 - 1e-9 * (1.0 + q.1.abs) ≤ g)),
                (blame "explored_lsew_finite", finite g)]
             else if N > P + 1e-6 then [(blame "lsew_sign_outcome", g.isNaN)]
             else if P.isInf && N.isInf then [("lsew_sign_outcome", g.isInf && g < 0.0)]   -- all weights 0: ln 0
             else [])
          else
            -- sumExp(v, w) = exp(reference) when that is a normal double and the final factor exp(M) neither
            -- overflows nor underflows (|M| ≤ 700: outside, the linear-domain result x·exp(M) is not judged)
            (if P > N + 1e-6 && M.abs ≤ 700.0 then
               let ref := if N.isInf then P else P + Float.log (1.0 - Float.exp (N - P))
               if ref.abs ≤ 700.0 then
                 let want := Float.exp ref
                 [(blame "sumExpW_spec", (g - want).abs ≤ 1e-9 * want)]
               else []
             else []))
  | "lognorm" =>
    (s, showRes showV (LogSpace.logNorm v0), emptyOr v0 fun _ => onVec impl "logNorm_spec" fun g =>
      if allFinite v0 then
        [("logNorm_spec", g.length == v0.length && fclose (fsum (g.map Float.exp)) 1.0 1e-9)]
      else [])
  | "lseshift" =>
    match v0 with
    | [c] =>
      (s, (match LogSpace.logSumExp (v1.map (· + c)), LogSpace.logSumExp v1 with
            | .ok a, .ok b => showF a ++ " " ++ showF b
            | .error e, _ => errName e
            | _, .error e => errName e),
        if v1.isEmpty then (match impl with | none => "-" | some t => if t == ["exc:empty"] then "ok" else "FAIL:empty_raises")
        else onVec impl "lse_shift" fun g =>
          match g with
          | [a, b] => if allFinite v1 && finite c then [("lse_shift", fclose a (b + c))] else []
          | _ => [("lse_shift", false)])
    | _ => bad
  | "logsum" =>
    match v0 with
    | [a, b] =>
      (s, showF (LogSpace.logsum a b) ++ " " ++ showF (LogSpace.logsum b a), onVec impl "logsum_spec" fun g =>
        match g with
        | [x, y] =>
          if a.isNaN || b.isNaN then [] else
          let M := if a > b then a else b
          [("logsum_comm", x == y || (x.isNaN && y.isNaN)),
           ("logsum_zero_zero", !(a == b && a.isInf) || x == a),
           ("logsum_zero_identity", !(a.isInf && a < 0 && finite b) || x == b),
           ("logsum_bounds", !(finite a && finite b) || (finite x && M ≤ x && x ≤ M + log2 * (1.0 + 1e-12) + 1e-300)),
           ("logsum_spec", !(a.abs ≤ 700.0 && b.abs ≤ 700.0) || fclose x (Float.log (Float.exp a + Float.exp b))),
           ("logsum_ext_agrees", extAgrees x (LogSpace.logsum (Ext.ofFloat a) (Ext.ofFloat b)))]
        | _ => [("logsum_spec", false)])
    | _ => bad
  -- ------------------------------------------------------------ StatTools
  | "fdr" =>
    (s, showRes showV (VecTools.computeFdr v0), onVec impl "fdr_spec" fun g =>
      if noNaN v0 && g.length == v0.length then
        -- the ranking the implementation used: by decreasing p-value, ties by increasing answer
        let σ := ((List.zip v0 g).zipIdx.mergeSort (fun a b =>
          a.1.1 > b.1.1 || (a.1.1 == b.1.1 && a.1.2 ≤ b.1.2))).map (·.2)
        [("fdr_spec", decide (IsFdrVia v0 g σ))]
      else [("fdr_spec", !(noNaN v0))])
  | _ => step2 s name flags vs impl
where
  log2 : Float := Float.log 2.0

/-- calls that leave trailing arguments to their defaults (`dcov`, `dsdw`, `dshannon`, …; `…1` =
only the first option given) are the explicit calls with the defaults of the declarations -/
def withDefaults (name : String) (args : List String) : Option (List String) :=
  let u := showBool VecTools.dfltUnbiased
  let n := showBool VecTools.dfltNormalizeWeights
  let b := Hex.ofFloat (VecTools.dfltBase : Float)
  match name with
  | "dcov" => some ("cov" :: u :: args)
  | "dvar" => some ("var" :: u :: args)
  | "dsd" => some ("sd" :: u :: args)
  | "dmeanw" => some ("meanw" :: n :: args)
  | "dcenterw" => some ("centerw" :: n :: args)
  | "dcorw" => some ("corw" :: n :: args)
  | "dcovw" => some ("covw4" :: u :: n :: args)
  | "dvarw" => some ("varw4" :: u :: n :: args)
  | "dsdw" => some ("sdw" :: u :: n :: args)
  | "dcovw1" => match args with | f :: rest => some ("covw4" :: f :: n :: rest) | [] => none
  | "dvarw1" => match args with | f :: rest => some ("varw4" :: f :: n :: rest) | [] => none
  | "dsdw1" => match args with | f :: rest => some ("sdw" :: f :: n :: rest) | [] => none
  | "dshannon" => some ("shannon" :: b :: ";" :: args)
  | "dshannondisc" => some ("shannondisc" :: b :: ";" :: args)
  | "dmidisc" => some ("midisc" :: b :: ";" :: args)
  | "dshannoncont" => some ("shannoncont" :: b :: ";" :: args)
  | "dmicont" => some ("micont" :: b :: ";" :: args)
  | _ => none

def stepTop (s : St) (op : List String) (impl : Option (List String)) : St × String × String :=
  match op with
  | name :: args => match withDefaults name args with
    | some op' => step s op' impl
    | none => step s op impl
  | [] => step s op impl

def machine : Machine St := { init := fun _ => {}, step := stepTop }

end Bpp.Drive.C07
