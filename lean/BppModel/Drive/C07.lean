import BppModel.Proto
import BppModel.VecTools
import BppModel.LogSpace
/-
Driver for C07.  Every operation is self-contained:
  `<op> [flags] <hex double>* [; <hex double>*]*`
Answers: a double = 16 hex digits (`nan` for every NaN), a vector = its doubles (`-` when empty),
positions in decimal, booleans 0/1, `exc:<kind>` for the documented exceptions, `ub` for an
out-of-range read.

The model is run at `Float` (bit-exact tie).  The verdict evaluates, on the *implementation's*
answer, the specifications the theorems of Props/C07*.lean equate the model with:
 * `VecTools.Spec.*` at `Rat` (exact) with a rounding allowance far above the a-priori bound of
   the floating-point evaluation and far below any semantic change;
 * the order / position / set predicates of `VecTools` (`IsFirstExtremum`, `IsSortingPerm`,
   `IsMedian`, `IsUnion`, …) through their `Decidable` instances, at `Rat` for finite inputs;
 * the log-space laws (bounds, finiteness, shift, agreement with the naive formula where that
   one does not overflow, log-zero).
-/
namespace Bpp.Drive.C07
open Bpp Bpp.Proto Bpp.VecTools Bpp.LogSpace

structure St where
  dummy : Unit := ()

/-! ### parsing / printing -/
def floats? (l : List String) : Option (List Float) := l.mapM Hex.float?
def vecs? (a : List String) : Option (List (List Float)) := (splitTok ";" a).mapM floats?
def showF (x : Float) : String := Hex.ofFloatCanon x
def showV (v : List Float) : String := if v.isEmpty then "-" else " ".intercalate (v.map showF)
def showNats (v : List Nat) : String := if v.isEmpty then "-" else " ".intercalate (v.map toString)
def errName : Err → String
  | .dimension => "exc:dimension" | .empty => "exc:empty" | .badnumber => "exc:badnumber"
  | .notfound => "exc:notfound" | .ub => "ub"
def showRes {β : Type} (f : β → String) : Res β → String
  | .ok x => f x
  | .error e => errName e

def implFloat? (s : String) : Option Float := if s == "nan" then some (0.0 / 0.0) else Hex.float? s
def implVec? (t : List String) : Option (List Float) :=
  if t == ["-"] then some [] else t.mapM implFloat?
def implNats? (t : List String) : Option (List Nat) :=
  if t == ["-"] then some [] else t.mapM nat?

/-! ### verdict combinators -/
def checks (l : List (String × Bool)) : String :=
  match l.find? (fun c => !c.2) with
  | some c => "FAIL:" ++ c.1
  | none => "ok"

/-- the implementation must have raised exactly this outcome -/
def expectErr (impl : Option (List String)) (clause : String) (e : Err) : String :=
  match impl with
  | none => "-"
  | some t => if t == [errName e] then "ok" else "FAIL:" ++ clause

/-- the implementation must have answered one double; `clause0` is blamed otherwise -/
def onScalar (impl : Option (List String)) (clause0 : String) (f : Float → List (String × Bool)) : String :=
  match impl with
  | none => "-"
  | some t => match implVec? t with
    | some [x] => checks (f x)
    | _ => "FAIL:" ++ clause0

def onVec (impl : Option (List String)) (clause0 : String) (f : List Float → List (String × Bool)) : String :=
  match impl with
  | none => "-"
  | some t => match implVec? t with
    | some v => checks (f v)
    | none => "FAIL:" ++ clause0

def onNat (impl : Option (List String)) (clause0 : String) (f : Nat → List (String × Bool)) : String :=
  match impl with
  | none => "-"
  | some [t] => match nat? t with
    | some n => checks (f n)
    | none => "FAIL:" ++ clause0
  | some _ => "FAIL:" ++ clause0

def onNats (impl : Option (List String)) (clause0 : String) (f : List Nat → List (String × Bool)) : String :=
  match impl with
  | none => "-"
  | some t => match implNats? t with
    | some v => checks (f v)
    | none => "FAIL:" ++ clause0

def onBool (impl : Option (List String)) (clause : String) (want : Bool) : String :=
  match impl with
  | none => "-"
  | some t => if t == [showBool want] then "ok" else "FAIL:" ++ clause

/-! ### exact references -/
def rats? (v : List Float) : Option (List Rat) := v.mapM floatToRat?
def rabs (x : Rat) : Rat := if x < 0 then -x else x
def finite (x : Float) : Bool := !(x.isNaN || x.isInf)
def allFinite (v : List Float) : Bool := v.all finite
def noNaN (v : List Float) : Bool := v.all (fun x => !x.isNaN)

def pow2neg (k : Nat) : Rat := 1 / ((2 ^ k : Nat) : Rat)
/-- allowance for accumulated rounding in sums of ≤ 64·64 terms (a-priori bound ≈ 2^-41·scale) -/
def tolAcc : Rat := pow2neg 36
/-- allowance for one or two roundings -/
def tolOne : Rat := pow2neg 50
/-- absolute allowance for results in the subnormal range -/
def tiny : Rat := pow2neg 1060

/-- `got` is finite and |got - want| ≤ tol·scale (+ subnormal slack); a non-finite `got` is only
accepted when the reference is beyond the double range -/
def closeTo (got : Float) (want scale : Rat) (tol : Rat := tolAcc) : Bool :=
  match floatToRat? got with
  | some g => rabs (g - want) ≤ tol * scale + tiny
  | none => !got.isNaN && rabs want ≥ ((2 ^ 1023 : Nat) : Rat)

def closeV (got : List Float) (want scale : List Rat) (tol : Rat := tolAcc) : Bool :=
  got.length == want.length &&
  (List.zip got (List.zip want scale)).all (fun p => closeTo p.1 p.2.1 p.2.2 tol)

def S {α : Type} [Scalar α] := @Spec.sum α _

/-- Float closeness for transcendental references -/
def fclose (a b : Float) (rel : Float := 1e-9) : Bool :=
  if a.isNaN || b.isNaN then false
  else if a.isInf || b.isInf then a == b
  else (a - b).abs ≤ rel * (1.0 + a.abs + b.abs)

def fmax (v : List Float) : Float := v.foldl (fun m x => if x > m then x else m) (v.headD 0)
def fsum (v : List Float) : Float := v.foldl (· + ·) 0

/-- inputs on which double arithmetic of sums/products is exact: integers of magnitude ≤ 2^20 -/
def exactInts (v : List Float) : Option (List Rat) :=
  match rats? v with
  | some r => if r.all (fun x => x.den == 1 && rabs x ≤ 1048576) then some r else none
  | none => none

/-- exact tie: the implementation's double is exactly this rational -/
def isRat (got : Float) (want : Rat) : Bool := floatToRat? got == some want
def areRats (got : List Float) (want : List Rat) : Bool :=
  got.length == want.length && (List.zip got want).all (fun p => isRat p.1 p.2)

/-- the `Ext Float` reading (IEEE special values by the rules of `LogSpace.Ext`, finite values by
the machine) must give the native answer; a non-finite value inside `fin` means a finite
operation overflowed, which is outside that reading -/
def extAgrees (native : Float) (e : Ext Float) : Bool :=
  match e with
  | .fin x => if x.isNaN || x.isInf then true else x.toBits == native.toBits
  | .pinf => native.isInf && native > 0
  | .ninf => native.isInf && native < 0
  | .nan => native.isNaN
def extResAgrees (impl : String) (native? : Option Float) (e : Res (Ext Float)) : Bool :=
  match e, native? with
  | .ok x, some g => extAgrees g x
  | .error err, _ => impl == errName err
  | .ok _, none => false

/-! ### order predicates at `Rat` -/
def rlt (a b : Rat) : Bool := decide (a < b)
def req (a b : Rat) : Bool := decide (a = b)
def flt (a b : Float) : Bool := a < b
def feq (a b : Float) : Bool := a == b

/-! ### the step function -/

def elementwise (name : String) : Option ((Float → Float → Float) × (Rat → Rat → Option Rat)) :=
  match name with
  | "add" => some ((· + ·), fun a b => some (a + b))
  | "sub" => some ((· - ·), fun a b => some (a - b))
  | "mul" => some ((· * ·), fun a b => some (a * b))
  | "div" => some ((· / ·), fun a b => if b = 0 then none else some (a / b))
  | _ => none

/-- element-wise answers against the exact values (one rounding each) -/
def elemOk (ref : Rat → Rat → Option Rat) (a b : List Float) (got : List Float) : Bool :=
  got.length == a.length &&
  (List.zip got (List.zip a b)).all (fun p =>
    match floatToRat? p.2.1, floatToRat? p.2.2 with
    | some x, some y => match ref x y with
      | some w => closeTo p.1 w (rabs w) tolOne
      | none => true
    | _, _ => true)

def specCovScale (x y : List Rat) (denom : Rat) : Rat :=
  let mx := rabs (Spec.mean x); let my := rabs (Spec.mean y)
  S (List.zipWith (fun a b => (rabs a + mx) * (rabs b + my)) x y) / (if denom = 0 then 1 else rabs denom)

def step (s : St) (op : List String) (impl : Option (List String)) : St × String × String :=
  let bad : St × String × String := (s, "bad-op", "-")
  match op with
  | [] => bad
  | name :: args =>
  -- flags: leading tokens "0"/"1"
  let flags := args.takeWhile (fun t => t == "0" || t == "1")
  let fl (i : Nat) : Bool := flags.getD i "0" == "1"
  match vecs? (args.drop flags.length) with
  | none => bad
  | some vs =>
  let v0 := vs.getD 0 []; let v1 := vs.getD 1 []; let v2 := vs.getD 2 []
  let dimOr (a b : List Float) (k : Unit → String) : String :=
    if a.length != b.length then expectErr impl "mismatch_raises" .dimension else k ()
  let emptyOr (a : List Float) (k : Unit → String) : String :=
    if a.isEmpty then expectErr impl "empty_raises" .empty else k ()
  match name with
  -- ------------------------------------------------------------ element-wise
  | "add" | "sub" | "mul" | "div" =>
    match elementwise name with
    | some (f, ref) =>
      (s, showRes showV (VecTools.zipOp f v0 v1),
        dimOr v0 v1 fun _ => onVec impl "elementwise_spec" fun g => [("elementwise_spec", elemOk ref v0 v1 g)])
    | none => bad
  | "addeq" | "subeq" | "muleq" | "diveq" =>
    match elementwise (name.take 3).toString with
    | some (f, ref) =>
      (s, showRes showV (VecTools.zipAssign f v0 v1),
        dimOr v0 v1 fun _ => onVec impl "elementwise_spec" fun g => [("elementwise_spec", elemOk ref v0 v1 g)])
    | none => bad
  | "addc" | "subc" | "mulc" | "divc" =>
    match elementwise (name.take 3).toString, v1 with
    | some (f, ref), [c] =>
      (s, showV (v0.map (fun x => f x c)),
        onVec impl "elementwise_spec" fun g => [("elementwise_spec", elemOk ref v0 (v0.map fun _ => c) g)])
    | _, _ => bad
  | "cadd" | "csub" | "cmul" | "cdiv" =>
    match elementwise (name.drop 1).toString, v0 with
    | some (f, ref), [c] =>
      (s, showV (v1.map (fun x => f c x)),
        onVec impl "elementwise_spec" fun g => [("elementwise_spec", elemOk ref (v1.map fun _ => c) v1 g)])
    | _, _ => bad
  -- ------------------------------------------------------------ reductions
  | "sum" =>
    (s, showF (VecTools.sum v0), onScalar impl "sum_spec" fun g =>
      match rats? v0 with
      | some r => [("sum_spec", closeTo g (S r) (S (r.map rabs))),
                   ("sum_exact_rat", match exactInts v0 with | some q => isRat g (VecTools.sum q) | none => true)]
      | none => [])
  | "prod" =>
    (s, showF (VecTools.prod v0), onScalar impl "prod_spec" fun g =>
      match rats? v0 with
      | some r => let p := Spec.prod r
        [("prod_spec", rabs p < pow2neg 900 && p != 0 || closeTo g p (rabs p)),
         ("prod_exact_rat", match exactInts v0 with
            | some q => rabs p ≥ 9007199254740992 || isRat g (VecTools.prod q)
            | none => true)]
      | none => [])
  | "cumsum" =>
    (s, showV (VecTools.cumSum v0), onVec impl "cumSum_spec" fun g =>
      match rats? v0 with
      | some r => let pre := (List.range r.length).map (fun i => r.take (i + 1))
        [("cumSum_spec", closeV g (pre.map S) (pre.map (fun l => S (l.map rabs)))),
         ("cumSum_exact_rat", match exactInts v0 with | some q => areRats g (VecTools.cumSum q) | none => true)]
      | none => [("cumSum_spec", g.length == v0.length)])
  | "cumprod" =>
    (s, showV (VecTools.cumProd v0), onVec impl "cumProd_spec" fun g =>
      match rats? v0 with
      | some r => let pre := (List.range r.length).map (fun i => Spec.prod (r.take (i + 1)))
        [("cumProd_spec", g.length == v0.length &&
            (List.zip g pre).all (fun q => rabs q.2 < pow2neg 900 && q.2 != 0 || closeTo q.1 q.2 (rabs q.2)))]
      | none => [("cumProd_spec", g.length == v0.length)])
  | "sumprod" =>
    (s, showRes showF (VecTools.sumProd v0 v1), dimOr v0 v1 fun _ => onScalar impl "sumProd_spec" fun g =>
      match rats? v0, rats? v1 with
      | some a, some b => [("sumProd_spec", closeTo g (Spec.dot a b) (Spec.dot (a.map rabs) (b.map rabs))),
          ("sumProd_exact_rat", match exactInts v0, exactInts v1 with
            | some p, some q => (match VecTools.sumProd p q with | .ok x => isRat g x | .error _ => false)
            | _, _ => true)]
      | _, _ => [])
  | "scalar" =>
    (s, showRes showF (VecTools.scalar v0 v1), dimOr v0 v1 fun _ => onScalar impl "scalar_spec" fun g =>
      match rats? v0, rats? v1 with
      | some a, some b => [("scalar_spec", closeTo g (Spec.dot a b) (Spec.dot (a.map rabs) (b.map rabs))),
          ("scalar_exact_rat", match exactInts v0, exactInts v1 with
            | some p, some q => (match VecTools.scalar p q with | .ok x => isRat g x | .error _ => false)
            | _, _ => true)]
      | _, _ => [])
  | "scalarw" =>
    (s, showRes showF (VecTools.scalarW v0 v1 v2),
      if v0.length != v2.length || v1.length != v2.length then expectErr impl "mismatch_raises" .dimension
      else onScalar impl "scalar_spec" fun g =>
        match rats? v0, rats? v1, rats? v2 with
        | some a, some b, some w =>
          [("scalar_spec", closeTo g (Spec.dotW a b w) (Spec.dotW (a.map rabs) (b.map rabs) (w.map rabs)))]
        | _, _, _ => [])
  | "norm" =>
    (s, showF (VecTools.norm v0), onScalar impl "norm_spec" fun g =>
      match rats? v0, floatToRat? g with
      | some a, some gr => let q := Spec.dot a a
        [("norm_spec", gr ≥ 0 && (q > pow2neg 600 || q == 0) && rabs (gr * gr - q) ≤ tolAcc * q + tiny
                        || (q ≤ pow2neg 600 && q != 0))]
      | some a, none => [("norm_spec", !g.isNaN && Spec.dot a a ≥ ((2 ^ 2000 : Nat) : Rat))]
      | none, _ => [])
  | "normw" =>
    (s, showRes showF (VecTools.normW v0 v1), dimOr v0 v1 fun _ => onScalar impl "norm_spec" fun g =>
      match rats? v0, rats? v1, floatToRat? g with
      | some a, some w, some gr =>
        if w.all (· ≥ 0) then
          let q := Spec.dotW a a w
          [("norm_spec", gr ≥ 0 && rabs (gr * gr - q) ≤ tolAcc * q + pow2neg 500)]
        else []
      | _, _, _ => [])
  | "cos" =>
    (s, showRes showF (VecTools.cos v0 v1), dimOr v0 v1 fun _ => onScalar impl "cos_range" fun g =>
      -- Cauchy–Schwarz on the answer
      if allFinite v0 && allFinite v1 && finite g then [("cos_range", g.abs ≤ 1.0 + 1e-9)] else [])
  -- ------------------------------------------------------------ extrema
  | "min" | "max" =>
    let isMax := name == "max"
    let better : Float → Float → Bool := if isMax then (fun y m => y > m) else (fun y m => y < m)
    (s, showRes showF (if isMax then VecTools.max v0 else VecTools.min v0),
      emptyOr v0 fun _ => onScalar impl "extremum_spec" fun g =>
        if noNaN v0 then [("extremum_spec", decide (IsExtremum feq better v0 g))] else [])
  | "whichmin" | "whichmax" =>
    let isMax := name == "whichmax"
    let better : Float → Float → Bool := if isMax then (fun y m => y > m) else (fun y m => y < m)
    (s, showRes toString (if isMax then VecTools.whichMax v0 else VecTools.whichMin v0),
      emptyOr v0 fun _ => onNat impl "whichMax_first" fun g =>
        if noNaN v0 then [("whichMax_first", decide (IsFirstExtremum better v0 g))] else [])
  | "whichminall" | "whichmaxall" =>
    let isMax := name == "whichmaxall"
    let better : Float → Float → Bool := if isMax then (fun y m => y > m) else (fun y m => y < m)
    (s, showRes showNats (if isMax then VecTools.whichMaxAll v0 else VecTools.whichMinAll v0),
      emptyOr v0 fun _ => onNats impl "whichAll_spec" fun g =>
        if noNaN v0 then
          [("whichAll_spec", match g.head? with
            | some p0 => match v0[p0]? with
              | some m => decide (IsExtremum feq better v0 m) && decide (IsPositionsOf feq v0 m g)
              | none => false
            | none => false)]
        else [])
  | "range" =>
    (s, showRes (fun (r : Float × Float) => showV [r.1, r.2]) (VecTools.range v0),
      emptyOr v0 fun _ => onVec impl "extremum_spec" fun g =>
        if noNaN v0 then
          [("extremum_spec", match g with
            | [lo, hi] => decide (IsExtremum feq (fun y m => y < m) v0 lo) && decide (IsExtremum feq (fun y m => y > m) v0 hi)
            | _ => false)]
        else [])
  -- ------------------------------------------------------------ order / median / moments
  | "order" =>
    (s, showRes showNats (VecTools.order v0), emptyOr v0 fun _ => onNats impl "order_sorted_perm" fun g =>
      match rats? v0 with
      | some r => [("order_sorted_perm", decide (IsSortingPerm rlt r g))]
      | none => [])
  | "median" =>
    (s, showRes (fun (r : Float × List Float) => showF r.1 ++ " ; " ++ showV r.2) (VecTools.median v0),
      match impl with
      | none => "-"
      | some t => match splitTok ";" t with
        | [[m], sv] => match implFloat? m, implVec? sv, rats? v0 with
          | some m, some sv, some r =>
            match floatToRat? m, rats? sv with
            | some mr, some sr =>
              checks [("median_spec", r.isEmpty || decide (IsMedian rlt r mr)),
                      ("median_exact_rat", match exactInts v0 with
                        | some q => (match VecTools.median q with | .ok x => x.1 == mr && x.2 == sr | .error _ => false)
                        | none => true),
                      ("median_sorts", if r.length ≤ 1 then sr == r else decide (IsSortOf rlt r sr))]
            | _, _ => "FAIL:median_spec"
          | some _, some _, none => "ok"
          | _, _, _ => "FAIL:median_spec"
        | _ => "FAIL:median_spec")
  | "mean" =>
    (s, showF (VecTools.mean v0), onScalar impl "mean_spec" fun g =>
      match rats? v0 with
      | some r => if r.isEmpty then [] else [("mean_spec", closeTo g (Spec.mean r) (Spec.mean (r.map rabs)))]
      | none => [])
  | "meanw" =>
    let normalize := fl 0
    (s, showRes showF (VecTools.meanW v0 v1 normalize), dimOr v0 v1 fun _ => onScalar impl "mean_weighted_spec" fun g =>
      match rats? v0, rats? v1 with
      | some a, some w =>
        if !normalize then [("mean_weighted_spec", closeTo g (Spec.dot a w) (Spec.dot (a.map rabs) (w.map rabs)))]
        else if w.all (· > 0) then
          [("mean_weighted_spec", closeTo g (Spec.meanW a w) (Spec.meanW (a.map rabs) w))]
        else []
      | _, _ => [])
  | "center" =>
    (s, showV (VecTools.center v0), onVec impl "center_spec" fun g =>
      match rats? v0 with
      | some r => if r.isEmpty then [("center_spec", g.isEmpty)] else
        let m := Spec.mean r; let sc := Spec.mean (r.map rabs)
        [("center_spec", closeV g (r.map (· - m)) (r.map (fun x => rabs x + sc)))]
      | none => [])
  | "centerw" =>
    let normalize := fl 0
    (s, showRes showV (VecTools.centerW v0 v1 normalize), dimOr v0 v1 fun _ => onVec impl "center_spec" fun g =>
      match rats? v0, rats? v1 with
      | some a, some w =>
        if normalize && w.all (· > 0) then
          let m := Spec.meanW a w; let sc := Spec.meanW (a.map rabs) w
          [("center_spec", closeV g (a.map (· - m)) (a.map (fun x => rabs x + sc)))]
        else []
      | _, _ => [])
  | "cov" | "var" | "sd" =>
    let unbiased := fl 0
    let b := if name == "cov" then v1 else v0
    let model : Res Float := if name == "cov" then VecTools.cov v0 v1 unbiased
      else if name == "var" then VecTools.var v0 unbiased else VecTools.sd v0 unbiased
    (s, showRes showF model, dimOr v0 b fun _ => onScalar impl "var_spec" fun g =>
      match rats? v0, rats? b with
      | some x, some y =>
        let n := x.length
        if n = 0 || (unbiased && n = 1) then [] else
        let c := Spec.cov x y unbiased
        let sc := specCovScale x y (if unbiased then (n : Rat) - 1 else n)
        if name == "sd" then
          match floatToRat? g with
          | some gr => [("var_spec", gr ≥ 0 && rabs (gr * gr - c) ≤ tolAcc * sc + tiny)]
          | none => [("var_spec", false)]
        else [(if name == "cov" then "cov_spec" else "var_spec", closeTo g c sc),
              ("var_nonneg", name == "cov" || g ≥ 0.0)]
      | _, _ => [])
  | "cor" =>
    (s, showRes showF (VecTools.cor v0 v1), dimOr v0 v1 fun _ => onScalar impl "cor_sq_le_one" fun g =>
      match rats? v0, rats? v1 with
      | some x, some y =>
        let n := x.length
        if n < 2 then [] else
        let vx := Spec.cov x x true; let vy := Spec.cov y y true; let c := Spec.cov x y true
        let sx := specCovScale x x ((n : Rat) - 1); let sy := specCovScale y y ((n : Rat) - 1)
        -- well-conditioned only when the variances are not cancellation noise
        if vx * 1048576 < sx || vy * 1048576 < sy then [] else
        match floatToRat? g with
        | some gr =>
          [("cor_sq_le_one", gr * gr ≤ 1 + pow2neg 30),
           ("cor_spec", rabs (gr * gr * vx * vy - c * c) ≤ pow2neg 14 * (vx * vy)),
           ("cor_spec", (gr ≥ 0) == (c ≥ 0) || rabs (gr) ≤ pow2neg 7)]
        | none => [("cor_sq_le_one", false)]
      | _, _ => [])
  | "covw" | "varw" =>
    let unbiased := fl 0; let normalize := fl 1
    let isCov := name == "covw"
    let b := if isCov then v1 else v0
    let w := if isCov then v2 else v1
    (s, showRes showF (if isCov then VecTools.covW v0 v1 w unbiased normalize else VecTools.varW v0 w unbiased normalize),
      if v0.length != w.length || b.length != w.length then expectErr impl "mismatch_raises" .dimension
      else onScalar impl "covw_spec" fun g =>
        match rats? v0, rats? b, rats? w with
        | some x, some y, some wr =>
          if !(wr.all (· > 0)) || !normalize then [] else
          let sw := S wr; let wn := wr.map (· / sw)
          let mx := Spec.dot x wn; let my := Spec.dot y wn
          let c := Spec.dotW (x.map (· - mx)) (y.map (· - my)) wn
          let sc := Spec.dotW (x.map (fun a => rabs a + rabs mx)) (y.map (fun a => rabs a + rabs my)) wn
          let d := 1 - Spec.dot wn wn
          if unbiased then (if d * 1024 < 1 then [] else [("covw_spec", closeTo g (c / d) (sc / d))])
          else [("covw_spec", closeTo g c sc)]
        | _, _, _ => [])
  | "corw" =>
    let normalize := fl 0
    (s, showRes showF (VecTools.corW v0 v1 v2 normalize),
      if v0.length != v2.length || v1.length != v2.length then expectErr impl "mismatch_raises" .dimension
      else onScalar impl "cor_sq_le_one" fun g =>
        if allFinite v0 && allFinite v1 && v2.all (fun x => finite x && x > 0) && finite g then
          [("cor_sq_le_one", g.abs ≤ 1.0 + 1e-6)] else [])
  | "shannon" =>
    match v0 with
    | [base] =>
      (s, showF (VecTools.shannon v1 base), onScalar impl "shannon_spec" fun g =>
        if allFinite v1 && finite base && base > 1.0 then
          let terms := v1.filter (· > 0.0) |>.map (fun x => x * Float.log x / Float.log base)
          [("shannon_spec", fclose g (- fsum terms.reverse) 1e-9 || (g + fsum terms).abs ≤ 1e-9 * fsum (terms.map Float.abs)),
           ("shannon_nonneg", !(v1.all (· ≤ 1.0)) || g ≥ 0.0)]
        else [])
    | _ => bad
  | "shannondisc" =>
    match v0 with
    | [base] =>
      (s, showF (VecTools.shannonDiscrete v1 base), onScalar impl "shannonDiscrete_spec" fun g =>
        if allFinite v1 && finite base && base > 1.0 && !v1.isEmpty then
          let n := Float.ofNat v1.length
          let distinct := v1.foldl (fun acc x => if acc.any (· == x) then acc else acc ++ [x]) []
          let h := - fsum (distinct.map (fun x =>
            let c := Float.ofNat (v1.filter (· == x)).length
            (c / n) * Float.log (c / n) / Float.log base))
          [("shannonDiscrete_spec", fclose g h 1e-9),
           ("entropy_range", g ≥ -1e-12 && g ≤ Float.log n / Float.log base + 1e-9)]
        else [])
    | _ => bad
  | "midisc" =>
    match v0 with
    | [base] =>
      (s, showRes showF (VecTools.miDiscrete v1 v2 base), dimOr v1 v2 fun _ => onScalar impl "miDiscrete_spec" fun g =>
        if allFinite v1 && allFinite v2 && finite base && base > 1.0 && !v1.isEmpty then
          let n := Float.ofNat v1.length
          let pairs := List.zip v1 v2
          let distinct := pairs.foldl (fun acc p => if acc.any (fun q => q.1 == p.1 && q.2 == p.2) then acc else acc ++ [p]) []
          let cnt (l : List Float) (x : Float) : Float := Float.ofNat (l.filter (· == x)).length
          let mi := fsum (distinct.map (fun p =>
            let c := Float.ofNat (pairs.filter (fun q => q.1 == p.1 && q.2 == p.2)).length
            (c / n) * Float.log (c * n / (cnt v1 p.1 * cnt v2 p.2)) / Float.log base))
          [("miDiscrete_spec", fclose g mi 1e-9),
           ("mi_nonneg", g ≥ -1e-9)]
        else [])
    | _ => bad
  | "seq" =>
    match v0 with
    | [frm, to, by_] =>
      (s, showRes showV (VecTools.seq (fun x => x.toUInt64.toNat) frm to by_), onVec impl "seq_spec" fun g =>
        match floatToRat? frm, floatToRat? to, floatToRat? by_ with
        | some f, some t, some b =>
          if b ≤ 0 then [] else
          let q := (rabs (f - t) + b / 100) / b
          let n := q.floor.toNat + 1
          let step : Rat := if f < t then b else -b
          -- the size computation is a rounded quotient: allow it to land on either side of an integer
          let frac := q - q.floor
          let nOk := g.length == n || (frac < pow2neg 30 && g.length + 1 == n) || (1 - frac < pow2neg 30 && g.length == n + 1)
          [("seq_spec", nOk && (List.zip g (List.range g.length)).all (fun p =>
              closeTo p.1 (f + (p.2 : Rat) * step) (rabs f + (p.2 : Rat) * b)))]
        | _, _, _ => [])
    | _ => bad
  -- ------------------------------------------------------------ set-like
  | "unique" =>
    (s, showV (VecTools.unique feq flt v0), onVec impl "unique_nodup_same_set" fun g =>
      match rats? v0, rats? g with
      | some r, some gr => [("unique_nodup_same_set", decide (StrictSorted rlt gr) && decide (SameSet req gr r))]
      | none, _ => []
      | _, none => [("unique_nodup_same_set", false)])
  | "isunique" =>
    (s, showBool (VecTools.isUnique feq flt v0),
      match rats? v0 with
      | some r => onBool impl "isUnique_iff" (decide (NoDup req r))
      | none => "ok")
  | "contains" =>
    match v0 with
    | [x] => (s, showBool (VecTools.contains feq v1 x), onBool impl "contains_iff" (v1.any (fun y => y == x)))
    | _ => bad
  | "which" =>
    match v0 with
    | [x] =>
      (s, showRes toString (VecTools.which feq v1 x),
        if !(v1.any (fun y => y == x)) then expectErr impl "notfound_raises" .notfound
        else onNat impl "which_first" fun g =>
          [("which_first", (match v1[g]? with | some y => y == x | none => false) && (v1.take g).all (fun y => !(y == x)))])
    | _ => bad
  | "whichall" =>
    match v0 with
    | [x] =>
      (s, showRes showNats (VecTools.whichAll v1 x),
        if !(v1.any (fun y => y == x)) then expectErr impl "notfound_raises" .notfound
        else onNats impl "whichAll_spec" fun g => [("whichAll_spec", decide (IsPositionsOf feq v1 x g))])
    | _ => bad
  | "appendall" =>
    (s, showV (VecTools.appendAll vs), onVec impl "appendAll_spec" fun g =>
      [("appendAll_spec", showV g == showV vs.flatten)])
  | "union" =>
    (s, showV (VecTools.vectorUnion feq v0 v1), onVec impl "union_iff" fun g =>
      if noNaN v0 && noNaN v1 then [("union_iff", decide (IsUnion feq v0 v1 g))] else [])
  | "inter" =>
    (s, showV (VecTools.vectorIntersection feq v0 v1), onVec impl "inter_iff" fun g =>
      if noNaN v0 && noNaN v1 then
        [("inter_iff", decide (IsInter feq v0 v1 g)),
         -- order and multiplicities of the first vector are kept
         ("inter_iff", g.length == (v0.filter (fun x => v1.any (fun y => y == x))).length)]
      else [])
  | "diff" =>
    (s, showV (VecTools.diff feq flt v0 v1), onVec impl "diff_iff" fun g =>
      match rats? v0, rats? v1, rats? g with
      | some a, some b, some gr => [("diff_iff", decide (IsDiff req rlt a b gr))]
      | some _, some _, none => [("diff_iff", false)]
      | _, _, _ => [])
  | "containsall" =>
    (s, showBool (VecTools.containsAll feq flt v0 v1),
      if noNaN v0 && noNaN v1 then onBool impl "containsAll_iff" (v1.all (fun x => v0.any (fun y => y == x))) else "ok")
  | "havesame" =>
    (s, showBool (VecTools.haveSameElements feq flt v0 v1),
      match rats? v0, rats? v1 with
      | some a, some b => onBool impl "haveSame_iff" (decide (a.Perm b))
      | _, _ => "ok")
  -- ------------------------------------------------------------ log space
  | "lse" =>
    (s, showRes showF (LogSpace.logSumExp v0), emptyOr v0 fun _ => onScalar impl "lse_bounds" fun g =>
      if !(noNaN v0) then [] else
      let M := fmax v0
      if M.isInf then [("lse_inf", g == M), ("lse_ext_agrees", extResAgrees "" (some g) (LogSpace.logSumExp (v0.map Ext.ofFloat)))] else
      let n := Float.ofNat v0.length
      let slack := 1e-12 * (1.0 + M.abs)
      [("lse_finite", finite g),
       ("lse_bounds", M - slack ≤ g && g ≤ M + Float.log n + slack),
       ("lse_spec", !(v0.all (fun x => x.abs ≤ 700.0)) || fclose g (Float.log (fsum (v0.map Float.exp)))),
       ("lse_ext_agrees", extResAgrees "" (some g) (LogSpace.logSumExp (v0.map Ext.ofFloat)))])
  | "lme" =>
    (s, showRes showF (LogSpace.logMeanExp v0), emptyOr v0 fun _ => onScalar impl "logMeanExp_spec" fun g =>
      if !(noNaN v0) then [] else
      let M := fmax v0
      if M.isInf then [("lse_inf", g == M)] else
      let n := Float.ofNat v0.length
      let slack := 1e-12 * (1.0 + M.abs)
      [("lse_finite", finite g),
       ("lse_bounds", M - Float.log n - slack ≤ g && g ≤ M + slack),
       ("logMeanExp_spec", !(v0.all (fun x => x.abs ≤ 700.0)) || fclose g (Float.log (fsum (v0.map Float.exp) / n)))])
  | "sumexp" =>
    (s, showRes showF (LogSpace.sumExp v0), emptyOr v0 fun _ => onScalar impl "sumExp_spec" fun g =>
      if !(noNaN v0) then [] else
      let M := fmax v0
      if M.isInf then [("sumExp_spec", g == (if M < 0 then 0 else M))] else
      let n := Float.ofNat v0.length
      [("sumExp_spec", !(M ≤ 700.0) || fclose g (fsum (v0.map Float.exp)) 1e-9 &&
          Float.exp M * (1.0 - 1e-12) ≤ g && g ≤ n * Float.exp M * (1.0 + 1e-12))])
  | "lsew" | "sumexpw" =>
    let isLog := name == "lsew"
    (s, showRes showF (if isLog then LogSpace.logSumExpW v0 v1 else LogSpace.sumExpW v0 v1),
      dimOr v0 v1 fun _ => emptyOr v0 fun _ =>
        if !(noNaN v0) || !(noNaN v1) then "ok" else
        let M := fmax v0
        if M.isInf && !(!isLog && v0.length == 1) then expectErr impl "badnumber_raises" .badnumber
        else onScalar impl "lsew_spec" fun g =>
          if v0.all (fun x => x.abs ≤ 700.0) && v1.all (fun w => finite w && w ≥ 0.0) then
            let naive := fsum ((List.zip v0 v1).map (fun p => p.2 * Float.exp p.1))
            -- floating-point only (recorded finding): when every maximal entry has weight 0 the shift
            -- by the maximum can underflow all the terms that carry weight
            let zeroAtMax := (List.zip v0 v1).all (fun p => !(p.1 == M) || p.2 == 0.0)
            if isLog then [(if zeroAtMax then "lsew_zero_weight_at_max" else "lsew_spec",
                            naive == 0.0 || fclose g (Float.log naive))]
            else [("sumExpW_spec", fclose g naive)]
          else [])
  | "lognorm" =>
    (s, showRes showV (LogSpace.logNorm v0), emptyOr v0 fun _ => onVec impl "logNorm_spec" fun g =>
      if allFinite v0 then
        [("logNorm_spec", g.length == v0.length && fclose (fsum (g.map Float.exp)) 1.0 1e-9)]
      else [])
  | "lseshift" =>
    match v0 with
    | [c] =>
      (s, (match LogSpace.logSumExp (v1.map (· + c)), LogSpace.logSumExp v1 with
            | .ok a, .ok b => showF a ++ " " ++ showF b
            | .error e, _ => errName e
            | _, .error e => errName e),
        if v1.isEmpty then (match impl with | none => "-" | some t => if t == ["exc:empty"] then "ok" else "FAIL:empty_raises")
        else onVec impl "lse_shift" fun g =>
          match g with
          | [a, b] => if allFinite v1 && finite c then [("lse_shift", fclose a (b + c))] else []
          | _ => [("lse_shift", false)])
    | _ => bad
  | "logsum" =>
    match v0 with
    | [a, b] =>
      (s, showF (LogSpace.logsum a b) ++ " " ++ showF (LogSpace.logsum b a), onVec impl "logsum_spec" fun g =>
        match g with
        | [x, y] =>
          if a.isNaN || b.isNaN then [] else
          let M := if a > b then a else b
          [("logsum_comm", x == y || (x.isNaN && y.isNaN)),
           ("logsum_zero_zero", !(a == b && a.isInf) || x == a),
           ("logsum_zero_identity", !(a.isInf && a < 0 && finite b) || x == b),
           ("logsum_bounds", !(finite a && finite b) || (finite x && M ≤ x && x ≤ M + log2 * (1.0 + 1e-12) + 1e-300)),
           ("logsum_spec", !(a.abs ≤ 700.0 && b.abs ≤ 700.0) || fclose x (Float.log (Float.exp a + Float.exp b))),
           ("logsum_ext_agrees", extAgrees x (LogSpace.logsum (Ext.ofFloat a) (Ext.ofFloat b)))]
        | _ => [("logsum_spec", false)])
    | _ => bad
  -- ------------------------------------------------------------ StatTools
  | "fdr" =>
    (s, showRes showV (VecTools.computeFdr v0), onVec impl "fdr_spec" fun g =>
      if noNaN v0 && g.length == v0.length then
        -- the ranking the implementation used: by decreasing p-value, ties by increasing answer
        let σ := ((List.zip v0 g).zipIdx.mergeSort (fun a b =>
          a.1.1 > b.1.1 || (a.1.1 == b.1.1 && a.1.2 ≤ b.1.2))).map (·.2)
        [("fdr_spec", decide (IsFdrVia v0 g σ))]
      else [("fdr_spec", !(noNaN v0))])
  | _ => bad
where
  log2 : Float := Float.log 2.0

def machine : Machine St := { init := fun _ => {}, step := step }

end Bpp.Drive.C07
