import BppModel.Proto
import BppModel.PNorm
/-
Driver for C08 (RandomTools cumulative / quantile functions).
-/
namespace Bpp.Drive.C08
open Bpp Bpp.Proto

structure St where
  dummy : Unit := ()

def fPNorm (x : Float) : Float := PNorm.pNorm Float.exp PNorm.truncFloat x

def hx (x : Float) : String := Hex.ofFloatCanon x

/-- `pnorm_range` / `pnorm_ends` on the implementation's answer -/
def pnormVerdict (x : Float) (impl : Option (List String)) : String :=
  match impl with
  | none => "-"
  | some [t] =>
    match Hex.float? t with
    | some v =>
      if !(0 ≤ v && v ≤ 1) then "FAIL:pnorm_range"
      else if x ≤ -37.5193 && v != 0 then "FAIL:pnorm_ends"
      else if x ≥ 8.2924 && v != 1 then "FAIL:pnorm_ends"
      else "ok"
    | none => "FAIL:parse"
  | _ => "FAIL:parse"

def step (s : St) (op : List String) (impl : Option (List String)) : St × String × String :=
  match op with
  | ["pnorm", a] =>
    match Hex.float? a with
    | some x => (s, hx (fPNorm x), pnormVerdict x impl)
    | none => (s, "bad-op", "-")
  | ["qnorm", a] =>
    match Hex.float? a with
    | some p => (s, hx (PNorm.qNorm p), "-")
    | none => (s, "bad-op", "-")
  | _ => (s, "bad-op", "-")

def machine : Machine St := { init := fun _ => {}, step := step }

end Bpp.Drive.C08
