import BppModel.Proto
import BppModel.PNorm
import BppModel.DistGuards
import BppModel.DistKernels
/-
Driver for C08 (RandomTools cumulative / quantile functions).

Guard / wrapper ops: the harness answers `<outcome> { ; <tag> <arg>… <outcome> }` where the
groups after the first are values of public RandomTools functions at the points the wrapper is
supposed to query them.  The driver builds the model's `Kernels` from these values (keyed by
the bit patterns of the arguments: a query of the model at any other point is an `oracle-miss`),
runs the wrapper model at `Float`, and evaluates the decision tables (`guards_total_*`) and the
wrapper identities (`wrapper_*`) of `BppProofs/Props/C08.lean` on the implementation's answer.
`pnorm`, `qnorm`, `pnorm3`, `qnorm3` are compared bit for bit with the transcribed model.
-/
namespace Bpp.Drive.C08
open Bpp Bpp.Proto Bpp.DistGuards

structure St where
  dummy : Unit := ()

abbrev O := Out Float

def fPNorm (x : Float) : Float := PNorm.pNorm Float.exp PNorm.truncFloat x
def fPNorm3 (x mu s : Float) : Float := PNorm.pNorm3 Float.exp PNorm.truncFloat x mu s

def hx (x : Float) : String := Hex.ofFloatCanon x
def showO : O → String
  | .val v => hx v
  | .exc => "exc:bpp"

def float? (s : String) : Option Float := if s == "nan" then some (0.0 / 0.0) else Hex.float? s
def out? (s : String) : Option O :=
  if s == "exc:bpp" then some .exc else (float? s).map .val

/-- bit equality (all NaNs alike) -/
def same (a b : Float) : Bool := (a.isNaN && b.isNaN) || a.toBits == b.toBits
def sameO : O → O → Bool
  | .val a, .val b => same a b
  | .exc, .exc => true
  | _, _ => false

structure Entry where
  tag : String
  args : List Float
  res : O

def parseEntry : List String → Option Entry
  | tag :: rest =>
    match rest.reverse with
    | r :: ra =>
      match out? r, ra.reverse.mapM float? with
      | some r, some args => some ⟨tag, args, r⟩
      | _, _ => none
    | [] => none
  | [] => none

/-- the implementation's answer: outcome and kernel-value entries -/
def parseAnswer (t : List String) : Option (O × List Entry) :=
  match splitTok ";" t with
  | [o] :: gs =>
    match out? o, gs.mapM parseEntry with
    | some o, some es => some (o, es)
    | _, _ => none
  | _ => none

/-- a value no kernel ever returns: marks a query of the model the harness did not supply -/
def missV : Float := Float.ofBits 0x7fe1234512345123

def sameArgs : List Float → List Float → Bool
  | [], [] => true
  | a :: as, b :: bs => same a b && sameArgs as bs
  | _, _ => false

def lookup (es : List Entry) (tag : String) (args : List Float) : Option O :=
  (es.find? (fun e => e.tag == tag && sameArgs e.args args)).map (·.res)

def lookupV (es : List Entry) (tag : String) (args : List Float) : Float :=
  match lookup es tag args with
  | some (.val v) => v
  | _ => missV

/-- kernels whose values are those the implementation reported.  Ops on a function that *is*
the guarded kernel (`ig`, `qchisq`, `ibeta`, `qbeta`) carry no entries: the kernel's value is
the implementation's own outcome `self` (the model only asks for it inside the domain). -/
def kernelsOf (es : List Entry) (self : O) : Kernels Float :=
  let selfV : Float := match self with | .val v => v | .exc => missV
  if es.isEmpty then
    { lnGamma := fun _ => missV, igCore := fun _ _ _ => selfV, qChisqCore := fun _ _ => selfV,
      ibCore := fun _ _ _ => selfV, qBetaCore := fun _ _ _ => self }
  else
    { lnGamma := fun a => lookupV es "lg" [a],
      igCore := fun x a g => lookupV es "ig" [x, a, g],
      qChisqCore := fun p v => lookupV es "qc" [p, v],
      ibCore := fun x a b => lookupV es "ib" [x, a, b],
      qBetaCore := fun _ _ _ => .val missV }

def showModel (o : O) (rest : List String) : String :=
  let s := match o with
    | .val v => if same v missV then "oracle-miss" else hx v
    | .exc => "exc:bpp"
  if rest.isEmpty then s else s ++ " " ++ " ".intercalate rest

/-- tokens of the answer after the outcome (echoed by the model) -/
def restOf : Option (List String) → List String
  | some (_ :: r) => r
  | _ => []

def isExc : O → Bool | .exc => true | _ => false
def valIs (o : O) (v : Float) : Bool := match o with | .val w => same w v || (w == v) | .exc => false

/-- first failing clause, or ok -/
def firstFail (l : List (String × Bool)) : String :=
  match l.find? (fun p => !p.2) with
  | some (c, _) => "FAIL:" ++ c
  | none => "ok"

def pnormVerdict (x : Float) (v : Float) : List (String × Bool) :=
  [("pnorm_range", 0 ≤ v && v ≤ 1),
   ("pnorm_ends", !(x ≤ -(PNorm.lowCut : Float)) || v == 0),
   ("pnorm_ends", !(x ≥ (PNorm.upCut : Float)) || v == 1)]

def f3? (a b c : String) : Option (Float × Float × Float) :=
  match float? a, float? b, float? c with
  | some a, some b, some c => some (a, b, c)
  | _, _, _ => none

/-! ### exploration ops (`x.*`): judged against tolerances / reference values carried by the op
line; the model has no answer of its own (it echoes the implementation's) -/

def echo : Option (List String) → String
  | some t => " ".intercalate t
  | none => "-"

def isCdf (fn : String) : Bool := fn.startsWith "p"

/-- the function name without its scenario label `@tag` -/
def baseName (fn : String) : String := (fn.splitOn "@").headD fn

def absF (x : Float) : Float := Float.abs x

/-- two outcomes that must both be finite values -/
def twoVals : Option (List String) → Option (Float × Float)
  | some [a, b] =>
    match out? a, out? b with
    | some (.val x), some (.val y) => if x.isNaN || y.isNaN then none else some (x, y)
    | _, _ => none
  | _ => none

def exploreStep (op : List String) (impl : Option (List String)) : Option (String × String) :=
  let res (v : String) : Option (String × String) := some (echo impl, if impl.isNone then "-" else v)
  match op with
  | ["x.acc", clause, fn, tol, ref, _, _, _] =>
    match float? tol, float? ref with
    | some tol, some ref =>
      (match impl with
       | some [t] =>
         match out? t with
         | some (.val v) =>
           if v.isNaN then res ("FAIL:search_" ++ clause ++ "_" ++ fn)
           else if isCdf fn && !(0 ≤ v && v ≤ 1) then res ("FAIL:search_range_" ++ fn)
           else if !(absF (v - ref) ≤ tol) then res ("FAIL:search_" ++ clause ++ "_" ++ fn)
           else res "ok"
         | some .exc => res ("FAIL:search_" ++ clause ++ "_" ++ fn)
         | none => res "FAIL:parse"
       | _ => res "FAIL:parse")
    | _, _ => some ("bad-op", "-")
  | ["x.lin2", clause, tol, c0, c1, _, _, _, _, c2, _, _, _, _] =>
    match float? tol, float? c0, float? c1, float? c2 with
    | some tol, some c0, some c1, some c2 =>
      (match twoVals impl with
       | some (v1, v2) =>
         if absF (c1 * v1 + c2 * v2 - c0) ≤ tol then res "ok" else res ("FAIL:search_" ++ clause)
       | none => res ("FAIL:search_" ++ clause))
    | _, _, _, _ => some ("bad-op", "-")
  | ["x.mono", fn, slack, _, _, _, _, _, _] =>
    -- non-decreasing up to `slack` (relative to the value for the unbounded quantiles)
    match float? slack with
    | some slack =>
      (match twoVals impl with
       | some (v1, v2) =>
         let sc : Float := if isCdf fn then 1 else (if absF v2 > 1 then absF v2 else 1)
         if v1 ≤ v2 + slack * sc then res "ok" else res ("FAIL:search_monotone_" ++ fn)
       | none => res ("FAIL:search_monotone_" ++ fn))
    | none => some ("bad-op", "-")
  | ["x.inv", fam, tol, p, _, _] =>
    -- `pX (qX p) = p` to `tol`, or `qX p` is the best double: its neighbours' cdf values bracket `p`
    match float? tol, float? p with
    | some tol, some p =>
      (match impl with
       | some [q, b0, b1, b2] =>
         match out? q, out? b0, out? b1, out? b2 with
         | some (.val q), some (.val back), some (.val lo), some (.val hi) =>
           if q.isNaN || back.isNaN then res ("FAIL:search_inverse_" ++ fam)
           else if absF (back - p) ≤ tol then res "ok"
           else if lo - tol ≤ p && p ≤ hi + tol then res "ok"
           else res ("FAIL:search_inverse_" ++ fam)
         | _, _, _, _ => res ("FAIL:search_inverse_" ++ fam)
       | _ => res "FAIL:parse")
    | _, _ => some ("bad-op", "-")
  | _ => none


/-! ### transcribed kernels (`k.*`): compared bit for bit; `refl.*`: exact reflections -/
abbrev KR := DistKernels.R Float

/-- fuel for the loops the C++ does not bound itself (far more than any call in the property's
ranges needs: running out shows as the model answer `hang`, a correspondence mismatch) -/
def kFuel : Nat := 20000000

def kOut? (s : String) : Option KR :=
  if s == "exc:bpp" then some .exc else if s == "hang" then some .hang else (float? s).map .val

/-- the implementation's answer to a `k.*` op: outcome (value / exception) and `lg` groups -/
def parseAnswerK (t : List String) : Option (KR × List Entry) :=
  match splitTok ";" t with
  | [o] :: gs =>
    match kOut? o, gs.mapM parseEntry with
    | some o, some es => some (o, es)
    | _, _ => none
  | _ => none

def kShow : KR → String
  | .val v => if same v missV then "oracle-miss" else hx v
  | .exc => "exc:bpp"
  | .hang => "hang"

def kSame : KR → KR → Bool
  | .val a, .val b => same a b
  | .exc, .exc => true
  | .hang, .hang => true
  | _, _ => false

def kIsExc : KR → Bool | .exc => true | _ => false
def kValIs (o : KR) (v : Float) : Bool := match o with | .val w => same w v || (w == v) | _ => false

def kIg (x a g : Float) : KR := DistKernels.incompleteGamma kFuel x a g
def kLg (es : List Entry) : Float → Float := fun a => lookupV es "lg" [a]
def kIb (es : List Entry) (x a b : Float) : KR :=
  DistKernels.incompleteBeta (DistKernels.betaSub kFuel (kLg es)) x a b

/-- the model's answer followed by the echoed kernel-value groups -/
def kModel (o : KR) (rest : List String) : String :=
  if rest.isEmpty then kShow o else kShow o ++ " " ++ " ".intercalate rest

def kernelStep (op : List String) (impl : Option (List String)) : Option (String × String) :=
  let ans := impl.bind parseAnswerK
  let es : List Entry := match ans with | some (_, es) => es | none => []
  let io : Option KR := ans.map (·.1)
  let rest := restOf impl
  let judge (f : KR → List (String × Bool)) : String :=
    match impl, io with
    | none, _ => "-"
    | some _, none => "FAIL:parse"
    | some _, some o => firstFail (f o)
  match op with
  | ["k.ig", a, b, c] =>
    match f3? a b c with
    | some (x, al, g) =>
      some (kModel (kIg x al g) rest, judge fun o =>
        [("ig_guards", !kIsExc o),
         ("ig_guards", !(igSentinel x al) || kValIs o (-1)),
         ("ig_guards", igSentinel x al || !(x == 0) || kValIs o 0),
         ("ig_inf_one", igSentinel x al || x == 0 || !x.isInf || kValIs o 1),
         ("ig_far_tail_one", igSentinel x al || x == 0 || x.isInf ||
            !(DistKernels.igUseCF x al && DistKernels.igFactor x al g == 0) || kValIs o 1)])
    | none => some ("bad-op", "-")
  | ["k.qchisq", a, b] =>
    match float? a, float? b with
    | some p, some v =>
      some (kModel (DistKernels.qChisq kFuel (kLg es) kIg p v) rest, judge fun o =>
        [("qChisq_guard", !kIsExc o),
         ("qChisq_guard", !(DistKernels.qcGuard p v) || kValIs o (-1))])
    | _, _ => some ("bad-op", "-")
  | ["k.ibeta", a, b, c] =>
    match f3? a b c with
    | some (x, al, be) =>
      some (kModel (kIb es x al be) rest, judge fun o =>
        [("ib_exc_iff", kIsExc o == ibRaises x al be),
         ("ib_ends", ibRaises x al be || !(x == 0) || kValIs o 0),
         ("ib_ends", ibRaises x al be || !(x == 1) || kValIs o 1),
         ("ib_swapped_le", !(DistKernels.ibSwapped x al be) ||
            (match o with | .val v => v ≤ 1 - (DistKernels.tiny : Float) | .hang => true | .exc => false))])
    | none => some ("bad-op", "-")
  | ["k.qbeta", a, b, c] =>
    match f3? a b c with
    | some (p, al, be) =>
      some (kModel (DistKernels.qBeta (kLg es) (kIb es) p al be) rest, judge fun o =>
        [("qBeta_guard_raises", !(qBetaRaises p al be) || kIsExc o),
         ("qBeta_zero_shape_raises",
            qBetaRaises p al be || !(0 < p && p < 1 && (al == 0 || be == 0)) || kIsExc o),
         ("qBeta_ends", qBetaRaises p al be || !(p == 0 || p == 1) || kValIs o p),
         -- not a theorem (see `qBeta_raises_iff_partial`): no Newton iterate leaves [0,1], i.e. inside the
         -- documented domain (positive shapes) `qBeta` does not raise
         ("qBeta_no_exception_inside_domain", qBetaRaises p al be || !(al > 0 && be > 0) || !kIsExc o)])
    | none => some ("bad-op", "-")
  | ["refl.ibeta", a, b, c] =>
    match f3? a b c with
    | some (x, al, be) =>
      let v : String := match impl with
        | none => "-"
        | some [r1, r2] =>
          (match kOut? r1, kOut? r2 with
           | some o1, some o2 =>
             (match DistKernels.ibReflExpected x al be o2 with
              | some e => if kSame o1 e then "ok" else "FAIL:ib_reflect_swapped"
              | none => "ok")
           | _, _ => "FAIL:parse")
        | some _ => "FAIL:parse"
      some (echo impl, v)
    | none => some ("bad-op", "-")
  | ["refl.qbeta", a, b, c] =>
    match f3? a b c with
    | some (p, _, _) =>
      let v : String := match impl with
        | none => "-"
        | some [r1, r2] =>
          (match kOut? r1, kOut? r2 with
           | some o1, some o2 =>
             (match DistKernels.qbReflExpected p o2 with
              | some e => if kSame o1 e then "ok" else "FAIL:qBeta_reflect"
              | none => "ok")
           | _, _ => "FAIL:parse")
        | some _ => "FAIL:parse"
      some (echo impl, v)
    | none => some ("bad-op", "-")
  | _ => none

def step (s : St) (op : List String) (impl : Option (List String)) : St × String × String :=
  let ans := impl.bind parseAnswer
  let es : List Entry := match ans with | some (_, es) => es | none => []
  let io : Option O := ans.map (·.1)
  let self : O := match io with | some o => o | none => .val missV
  let K := kernelsOf es self
  let rest := restOf impl
  -- verdict helper: `-` without an implementation answer, parse failure otherwise
  let judge (f : O → List (String × Bool)) : String :=
    match impl, io with
    | none, _ => "-"
    | some _, none => "FAIL:parse"
    | some _, some o => firstFail (f o)
  let bad : St × String × String := (s, "bad-op", "-")
  -- a call that did not return is a failure of its own (every function here must terminate)
  if (match impl with | some t => t.contains "hang" | none => false) then (s, echo impl, "FAIL:terminates") else
  match exploreStep op impl with
  | some (m, v) => (s, m, v)
  | none =>
  match kernelStep op impl with
  | some (m, v) => (s, m, v)
  | none =>
  match op with
  | ["pnorm", a] =>
    match float? a with
    | some x => (s, hx (fPNorm x), judge fun o => match o with
        | .val v => pnormVerdict x v
        | .exc => [("guards_total_pnorm", false)])
    | none => bad
  | ["qnorm", a] =>
    match float? a with
    | some p =>
      let sen := PNorm.qNormSentinel p
      (s, hx (PNorm.qNorm p), judge fun o =>
        [("guards_total_qnorm", !isExc o && (valIs o (-9999) == sen))])
    | none => bad
  | ["pnorm3", a, b, c] =>
    match f3? a b c with
    | some (x, mu, sg) =>
      (s, showModel (.val (fPNorm3 x mu sg)) rest, judge fun o =>
        [("wrapper_pnorm3", match lookup es "pn" [(x - mu) / sg] with | some r => sameO o r | none => false)])
    | none => bad
  | ["qnorm3", a, b, c] =>
    match f3? a b c with
    | some (p, mu, sg) =>
      let sen := PNorm.qNormSentinel p
      (s, showModel (.val (qNorm3 p mu sg)) rest, judge fun o =>
        [("guards_total_qnorm3", !isExc o && (!sen || valIs o (-9999))),
         ("wrapper_qnorm3", match lookup es "qn" [p] with
            | some (.val z) => sen || valIs o (z * sg + mu)
            | _ => false)])
    | none => bad
  | ["ig", a, b, c] =>
    match f3? a b c with
    | some (x, al, g) =>
      (s, showModel (.val (incompleteGamma K x al g)) rest, judge fun o =>
        [("guards_total_incompleteGamma", !isExc o),
         ("guards_total_incompleteGamma", !(igSentinel x al) || valIs o (-1)),
         ("guards_total_incompleteGamma", igSentinel x al || !(x == 0) || valIs o 0),
         ("guards_total_incompleteGamma", igSentinel x al || !valIs o (-1))])
    | none => bad
  | ["pgamma", a, b, c] =>
    match f3? a b c with
    | some (x, al, be) =>
      (s, showModel (pGamma K x al be) rest, judge fun o =>
        [("guards_total_pGamma", isExc o == pGammaRaises al be),
         ("guards_total_pGamma", pGammaRaises al be || !(al == 0) || valIs o 1),
         ("wrapper_pGamma", pGammaRaises al be || al == 0 ||
            (match lookup es "ig" [be * x, al, lookupV es "lg" [al]] with | some r => sameO o r | none => false))])
    | none => bad
  | ["pchisq", a, b] =>
    match float? a, float? b with
    | some x, some v =>
      (s, showModel (pChisq K x v) rest, judge fun o =>
        [("guards_total_pChisq", isExc o == pChisqRaises x v),
         ("guards_total_pChisq", !(x < 0) || valIs o 0),
         ("wrapper_pChisq", x < 0 ||
            (match lookup es "pg" [x, v / 2, 0.5] with | some r => sameO o r | none => false))])
    | _, _ => bad
  | ["qchisq", a, b] =>
    match float? a, float? b with
    | some p, some v =>
      (s, showModel (.val (qChisq K p v)) rest, judge fun o =>
        [("guards_total_qChisq", !isExc o),
         ("guards_total_qChisq", valIs o (-1) == qChisqSentinel p v)])
    | _, _ => bad
  | ["qgamma", a, b, c] =>
    match f3? a b c with
    | some (p, al, be) =>
      let sen := qChisqSentinel p (2 * al)
      (s, showModel (.val (qGamma K p al be)) rest, judge fun o =>
        [("guards_total_qGamma", !isExc o),
         ("guards_total_qGamma", !sen || valIs o (-1)),
         ("guards_total_qGamma", sen || !(be > 0) || !valIs o (-1)),
         ("wrapper_qGamma", match lookup es "qc" [p, 2 * al] with
            | some (.val ch) => if ch < 0 then valIs o ch else valIs o (ch / (2 * be))
            | _ => false)])
    | none => bad
  | ["ibeta", a, b, c] =>
    match f3? a b c with
    | some (x, al, be) =>
      (s, showModel (incompleteBeta K x al be) rest, judge fun o =>
        [("guards_total_incompleteBeta", isExc o == ibRaises x al be),
         ("guards_total_incompleteBeta", ibRaises x al be || !(x == 0) || valIs o 0),
         ("guards_total_incompleteBeta", ibRaises x al be || !(x == 1) || valIs o 1)])
    | none => bad
  | ["pbeta", a, b, c] =>
    match f3? a b c with
    | some (x, al, be) =>
      (s, showModel (pBeta K x al be) rest, judge fun o =>
        [("guards_total_pBeta", isExc o == ibRaises x al be),
         ("wrapper_pBeta", match lookup es "ib" [x, al, be] with | some r => sameO o r | none => false)])
    | none => bad
  | ["qbeta", a, b, c] =>
    match f3? a b c with
    | some (p, al, be) =>
      (s, showModel (qBeta K p al be) rest, judge fun o =>
        [("guards_total_qBeta", !(qBetaRaises p al be) || isExc o),
         ("guards_total_qBeta", qBetaRaises p al be || !(p == 0 || p == 1) || valIs o p),
         -- kernel contract: inside the documented domain (shapes > 0) no exception
         ("guards_total_qBeta", qBetaRaises p al be || !(al > 0 && be > 0) || !isExc o)])
    | none => bad
  | ["lnbeta", a, b] =>
    match float? a, float? b with
    | some al, some be =>
      (s, showModel (.val (lnBeta K al be)) rest, judge fun o =>
        [("wrapper_lnBeta", valIs o (lookupV es "lg" [al] + lookupV es "lg" [be] - lookupV es "lg" [al + be]))])
    | _, _ => bad
  | _ => bad

def machine : Machine St := { init := fun _ => {}, step := step }

end Bpp.Drive.C08
