import BppModel.Proto
import BppModel.Graph
/-
Driver for C14 (GlobalGraph + association observer).

State kept per case:
  * `g`    : the implementation model (Graph.lean) run on the script  -> the model's answer line
  * `spec` : the reference multigraph (Graph.Spec), maintained by its own operations,
             never read from the implementation
  * `prev` : the implementation's previously reported raw state (to judge `raises_unchanged`)
Verdicts on the implementation's answer `<result> ; <state>` after every operation:
  consistent:<clause>   `G.check` (the executable form of `Consistent`) fails on the reported state
  refines_spec          `abs (reported state)` differs from the reference multigraph
  result_spec           the reported result differs from the reference's result
  raises_unchanged      the operation raised and the reported state differs from the previous one
  query_spec            a query answer differs from the answer computed on the reference multigraph
-/
namespace Bpp.Drive.C14
open Bpp Bpp.Proto Bpp.Graph

structure St where
  g : G := Graph.empty true
  spec : Spec := { directed := true }
  prev : Option G := none

/-! ### printing -/

def showNats (l : List Nat) : String := " ".intercalate (l.map toString)
def showPairs (l : List (Nat × Nat)) : String := " ".intercalate (l.map (fun p => s!"{p.1}:{p.2}"))

def showGraph (g : G) : String :=
  let rows := g.nodes.map (fun p => s!"N {p.1} O {showPairs p.2.out} I {showPairs p.2.inn}")
  let es := g.edges.map (fun p => s!"{p.1}:{p.2.1}:{p.2.2}")
  s!"G {if g.directed then "D" else "U"} {g.nextNode} {g.nextEdge} {g.root} " ++ " ".intercalate rows ++ " E " ++ " ".intercalate es

def showObsEmpty : String := "X 0 gN gE Ng Eg iN iE Ni Ei"

def showOpt (o : Option String) : String := match o with | some s => s | none => "exc:bpp"
def showQ (o : QRes (List Nat)) : String :=
  match o with | .ok l => showNats l | .exc => "exc:bpp" | .ub => "ub"

/-! ### parsing the implementation's raw state -/

def parsePair (s : String) : Option (Nat × Nat) :=
  match s.splitOn ":" with
  | [a, b] => do let a ← a.toNat?; let b ← b.toNat?; pure (a, b)
  | _ => none

def parseTriple (s : String) : Option (Nat × Nat × Nat) :=
  match s.splitOn ":" with
  | [a, b, c] => do let a ← a.toNat?; let b ← b.toNat?; let c ← c.toNat?; pure (a, b, c)
  | _ => none

/-- tokens up to (not including) the first token in `stops` -/
def takeUntil (stops : List String) : List String → List String × List String
  | [] => ([], [])
  | t :: r => if stops.contains t then ([], t :: r) else let (a, b) := takeUntil stops r; (t :: a, b)

partial def parseRows (t : List String) (acc : List (Nat × Row)) : Option (List (Nat × Row) × List String) :=
  match t with
  | "N" :: id :: "O" :: r =>
    let (o, r1) := takeUntil ["I"] r
    match r1 with
    | "I" :: r2 =>
      let (i, r3) := takeUntil ["N", "E"] r2
      match id.toNat?, o.mapM parsePair, i.mapM parsePair with
      | some id, some o, some i => parseRows r3 (acc ++ [(id, { out := o, inn := i })])
      | _, _, _ => none
    | _ => none
  | _ => some (acc, t)

def parseGraph (t : List String) : Option (G × List String) :=
  match t with
  | "G" :: d :: hn :: he :: root :: r =>
    match hn.toNat?, he.toNat?, root.toNat?, parseRows r [] with
    | some hn, some he, some root, some (rows, "E" :: r1) =>
      let (es, r2) := takeUntil ["X"] r1
      match es.mapM parseTriple with
      | some es => some ({ directed := d == "D", nodes := rows, edges := es.map (fun t => (t.1, (t.2.1, t.2.2))),
                           nextNode := hn, nextEdge := he, root := root }, r2)
      | none => none
    | _, _, _, _ => none
  | _ => none

/-! ### query answer lines, from a row provider (model: the node table; reference: rows
recomputed from the edge triples) -/

structure View where
  directed : Bool
  rowOf : Nat → Option Row
  nodes : List Nat
  edges : List Nat
  edgeNodes : Nat → Option (Nat × Nat)
  getEdge : Nat → Nat → Option Nat
  leaves : List Nat
  inner : List Nat
  recip : Option Bool
  root : Nat

def viewG (g : G) : View :=
  { directed := g.directed, rowOf := g.rowOf, nodes := g.allNodes, edges := g.allEdges, edgeNodes := g.getNodes,
    getEdge := g.getEdge, leaves := g.allLeaves, inner := g.allInnerNodes, recip := g.containsReciprocal, root := g.root }

def viewS (s : Spec) : View :=
  { directed := s.directed, rowOf := s.rowOf, nodes := s.nodes, edges := s.edges.map (·.1), edgeNodes := s.edgeNodes,
    getEdge := fun a b => if s.hasNode a then s.edgeBetween a b else none,
    leaves := s.allLeaves, inner := s.allInnerNodes,
    recip := if s.directed then some s.reciprocal else none, root := s.root }

def qn (v : View) (n : Nat) : String :=
  let r := v.rowOf n
  let d := v.directed
  let l (o : Option (List Nat)) := showOpt (o.map showNats)
  let it (f : Row → List Nat) := showQ (RowQ.iter f r)
  let its := match r with
    | none => "ub"
    | some _ =>
      let four := s!"{it (fun r => AL.keys r.out)} / {it (fun r => AL.keys r.inn)} / {it (fun r => AL.vals r.out)} / {it (fun r => AL.vals r.inn)}"
      four ++ " / " ++ four
  let cn := match RowQ.degree d r, RowQ.nbOut r, RowQ.nbIn r with
    | some a, some b, some c => s!"{a} {b} {c}"
    | _, _, _ => "exc:bpp"
  s!"on {l (RowQ.outNeighbors r)} oe {l (RowQ.outEdges r)} in {l (RowQ.inNeighbors r)} ie {l (RowQ.inEdges r)} " ++
  s!"nb {l (RowQ.neighbors d r)} ed {l (RowQ.edgesOf d r)} dg {showOpt ((RowQ.degree d r).map toString)} " ++
  s!"lf {showOpt ((RowQ.isLeaf d r).map showBool)} cn {cn} it {its}"

def qe (v : View) (e : Nat) : String :=
  match v.edgeNodes e with
  | some (a, b) => s!"nodes {a} {b} top {a} bot {b}"
  | none => "nodes exc:bpp top exc:bpp bot exc:bpp"

def qp (v : View) (a b : Nat) : String :=
  let any := match v.getEdge a b with | some e => some e | none => v.getEdge b a
  s!"edge {showOpt ((v.getEdge a b).map toString)} any {showOpt (any.map toString)}"

def qg (v : View) : String :=
  s!"nodes {showNats v.nodes} edges {showNats v.edges} leaves {showNats v.leaves} lset {showNats v.leaves} inner {showNats v.inner} " ++
  s!"cnt {v.nodes.length} {v.edges.length} itn {showNats v.nodes} / {showNats v.nodes} ite {showNats v.edges} / {showNats v.edges} " ++
  s!"dir {showBool v.directed} rec {showOpt (v.recip.map showBool)} root {v.root}"

def leavesFrom (v : View) (n d : Nat) : String :=
  let nbr := fun x => RowQ.neighbors v.directed (v.rowOf x)
  match RowQ.fillLeaves nbr d n n [] with
  | some l => "l " ++ showNats l
  | none => "exc:bpp"

/-! ### one step -/

def norm (s : String) : String := " ".intercalate (toks s)

/-- result of a mutator on the model: answer text and new state -/
def outStr {α : Type} (f : α → String) : GOut α → String × G
  | .ok a g => (f a, { g with pending := [] })
  | .exc g => ("exc:bpp", { g with pending := [] })

/-- result of a mutator on the reference: answer text and new reference -/
def specStr {α : Type} (s : Spec) (f : α → String) (get : α → Spec) : Option α → String × Spec
  | some a => (f a, get a)
  | none => ("exc:bpp", s)

/-- judge the implementation's answer to a mutator -/
def judgeMut (st : St) (impl : Option (List String)) (wantRes : String) (spec' : Spec) : String × Option G :=
  match impl with
  | none => ("-", none)
  | some t =>
    match splitTok ";" t with
    | [res, stt] =>
      match parseGraph stt with
      | some (gi, _) =>
        let res := " ".intercalate res
        let v :=
          match gi.check with
          | some c => "FAIL:consistent:" ++ c
          | none =>
            if gi.abs != spec' then "FAIL:refines_spec"
            else if res != norm wantRes then "FAIL:result_spec"
            else if res == "exc:bpp" && (match st.prev with | some p => p != gi | none => false) then "FAIL:raises_unchanged"
            else "ok"
        (v, some gi)
      | none => ("FAIL:parse", none)
    | _ => ("FAIL:parse", none)

def judgeQuery (st : St) (impl : Option (List String)) (want : String) : String × Option G :=
  match impl with
  | none => ("-", none)
  | some t =>
    match splitTok ";" t with
    | [res, stt] =>
      match parseGraph stt with
      | some (gi, _) =>
        let v :=
          match gi.check with
          | some c => "FAIL:consistent:" ++ c
          | none =>
            if gi.abs != st.spec then "FAIL:refines_spec"
            else if (match st.prev with | some p => p != gi | none => false) then "FAIL:query_changes_state"
            else if " ".intercalate res != norm want then "FAIL:query_spec"
            else "ok"
        (v, some gi)
      | none => ("FAIL:parse", none)
    | _ => ("FAIL:parse", none)

def finish (st : St) (res : String) (g' : G) (spec' : Spec) (jv : String × Option G) : St × String × String :=
  let prev := match jv.2 with | some gi => some gi | none => st.prev
  ({ g := g', spec := spec', prev := prev }, res ++ " ; " ++ showGraph g' ++ " " ++ showObsEmpty, jv.1)

def mutOp {α β : Type} (st : St) (impl : Option (List String)) (r : GOut α) (f : α → String)
    (sr : Option β) (sf : β → String) (sget : β → Spec) : St × String × String :=
  let (res, g') := outStr f r
  let (sres, spec') := specStr st.spec sf sget sr
  finish st res g' spec' (judgeMut st impl sres spec')

def query (st : St) (impl : Option (List String)) (ans : View → String) : St × String × String :=
  finish st (ans (viewG st.g)) st.g st.spec (judgeQuery st impl (ans (viewS st.spec)))

def step (st : St) (op : List String) (impl : Option (List String)) : St × String × String :=
  let nat (s : String) : Nat := s.toNat?.getD 0
  let okS (_ : Unit) := "ok"
  match op with
  | ["createNode"] =>
    mutOp st impl st.g.createNode toString (some st.spec.createNode) (fun r => toString r.1) (·.2)
  | ["createNodeFromNode", o] =>
    mutOp st impl (st.g.createNodeFromNode (nat o)) toString (st.spec.createNodeFromNode (nat o)) (fun r => toString r.1) (·.2)
  | ["createNodeOnEdge", e] =>
    mutOp st impl (st.g.createNodeOnEdge (nat e)) toString (st.spec.createNodeOnEdge (nat e)) (fun r => toString r.1) (·.2)
  | ["createNodeFromEdge", e] =>
    mutOp st impl (st.g.createNodeFromEdge (nat e)) toString (st.spec.createNodeFromEdge (nat e)) (fun r => toString r.1) (·.2)
  | ["link", a, b] =>
    mutOp st impl (st.g.link (nat a) (nat b)) toString (st.spec.link (nat a) (nat b)) (fun r => toString r.1) (·.2)
  | ["linkE", a, b, e] =>
    mutOp st impl (st.g.linkE (nat a) (nat b) (nat e)) okS (st.spec.linkE (nat a) (nat b) (nat e)) (fun _ => "ok") id
  | ["unlink", a, b] =>
    mutOp st impl (st.g.unlink (nat a) (nat b)) showNats (st.spec.unlink (nat a) (nat b)) (fun r => toString r.1) (·.2)
  | ["switchNodes", a, b] =>
    mutOp st impl (st.g.switchNodes (nat a) (nat b)) okS (st.spec.switchNodes (nat a) (nat b)) (fun _ => "ok") id
  | ["deleteNode", n] =>
    mutOp st impl (st.g.deleteNode (nat n)) okS (st.spec.deleteNode (nat n)) (fun _ => "ok") id
  | ["makeDirected"] =>
    mutOp st impl (GOut.ok () st.g.makeDirected) okS (some st.spec.makeDirected) (fun _ => "ok") id
  | ["makeUndirected"] =>
    mutOp st impl st.g.makeUndirected okS st.spec.makeUndirected (fun _ => "ok") id
  | ["setRoot", n] =>
    mutOp st impl (st.g.setRoot (nat n)) okS (st.spec.setRoot (nat n)) (fun _ => "ok") id
  | ["qn", n] => query st impl (fun v => qn v (nat n))
  | ["qe", e] => query st impl (fun v => qe v (nat e))
  | ["qp", a, b] => query st impl (fun v => qp v (nat a) (nat b))
  | ["qg"] => query st impl qg
  | ["leavesFrom", n, d] => query st impl (fun v => leavesFrom v (nat n) (nat d))
  | _ => (st, "bad-op", "-")

def init (t : List String) : St :=
  let d := !(t.length > 1 && t[1]! == "undir")
  { g := Graph.empty d, spec := { directed := d }, prev := none }

def machine : Machine St := { init := init, step := step }

end Bpp.Drive.C14
