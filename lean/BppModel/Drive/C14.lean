import BppModel.Proto
import BppModel.Graph
import BppModel.Observer
import BppModel.ObserverExt
import BppModel.GraphIter
/-
Driver for C14 (GlobalGraph + association observer).

State kept per case:
  * `g`    : the implementation model (Graph.lean) run on the script  -> the model's answer line
  * `spec` : the reference multigraph (Graph.Spec), maintained by its own operations,
             never read from the implementation
  * `prev` : the implementation's previously reported raw state (to judge `raises_unchanged`)
Verdicts on the implementation's answer `<result> ; <state>` after every operation:
  consistent:<clause>   `G.check` (the executable form of `Consistent`) fails on the reported state
  refines_spec          `abs (reported state)` differs from the reference multigraph
  result_spec           the reported result differs from the reference's result
  raises_unchanged      the operation raised and the reported state differs from the previous one
  query_spec            a query answer differs from the answer computed on the reference multigraph
  assoc:<clause>        `Obs.check` (the executable form of `OInv`) fails on an observer's reported tables
  deleted_forgotten     `Obs.forgotOk`: an object of a node / edge that left the graph is still in a map
  copy_independent:<map> `IObs.foreign`: a map of observer k holds an object that is not one of k's own
                        (the harness reports every stored object by identity: `l`, `l@j`, `l@?`)
  copy_same_relations   `Obs.sameRelations` fails between source and copy
-/
namespace Bpp.Drive.C14
open Bpp Bpp.Proto Bpp.Graph

structure St where
  w : World := { g := Graph.empty true }
  spec : Spec := { directed := true }
  prev : Option World := none

def St.g (st : St) : G := st.w.g

/-! ### printing -/

def showNats (l : List Nat) : String := " ".intercalate (l.map toString)
def showPairs (l : List (Nat × Nat)) : String := " ".intercalate (l.map (fun p => s!"{p.1}:{p.2}"))

def showGraph (g : G) : String :=
  let rows := g.nodes.map (fun p => s!"N {p.1} O {showPairs p.2.out} I {showPairs p.2.inn}")
  let es := g.edges.map (fun p => s!"{p.1}:{p.2.1}:{p.2.2}")
  s!"G {if g.directed then "D" else "U"} {g.nextNode} {g.nextEdge} {g.root} " ++ " ".intercalate rows ++ " E " ++ " ".intercalate es

def showVec (v : Vec) : String := " ".intercalate (v.map (fun o => match o with | some a => toString a | none => "-"))
def showObs (k : Nat) (o : Obs) : String :=
  s!"X {k} gN {showVec o.gN} gE {showVec o.gE} Ng {showPairs o.Ng} Eg {showPairs o.Eg} " ++
  s!"iN {showVec o.iN} iE {showVec o.iE} Ni {showPairs o.Ni} Ei {showPairs o.Ei}"
def showWorld (w : World) : String :=
  let os := (List.range w.obs.length).filterMap (fun k => (w.getObs k).map (showObs k))
  showGraph w.g ++ " " ++ " ".intercalate os

def showOpt (o : Option String) : String := match o with | some s => s | none => "exc:bpp"
def showQ (o : QRes (List Nat)) : String :=
  match o with | .ok l => showNats l | .exc => "exc:bpp" | .ub => "ub"

/-! ### parsing the implementation's raw state -/

def parsePair (s : String) : Option (Nat × Nat) :=
  match s.splitOn ":" with
  | [a, b] => do let a ← a.toNat?; let b ← b.toNat?; pure (a, b)
  | _ => none

def parseTriple (s : String) : Option (Nat × Nat × Nat) :=
  match s.splitOn ":" with
  | [a, b, c] => do let a ← a.toNat?; let b ← b.toNat?; let c ← c.toNat?; pure (a, b, c)
  | _ => none

/-- tokens up to (not including) the first token in `stops` -/
def takeUntil (stops : List String) : List String → List String × List String
  | [] => ([], [])
  | t :: r => if stops.contains t then ([], t :: r) else let (a, b) := takeUntil stops r; (t :: a, b)

partial def parseRows (t : List String) (acc : List (Nat × Row)) : Option (List (Nat × Row) × List String) :=
  match t with
  | "N" :: id :: "O" :: r =>
    let (o, r1) := takeUntil ["I"] r
    match r1 with
    | "I" :: r2 =>
      let (i, r3) := takeUntil ["N", "E"] r2
      match id.toNat?, o.mapM parsePair, i.mapM parsePair with
      | some id, some o, some i => parseRows r3 (acc ++ [(id, { out := o, inn := i })])
      | _, _, _ => none
    | _ => none
  | _ => some (acc, t)

def parseGraph (t : List String) : Option (G × List String) :=
  match t with
  | "G" :: d :: hn :: he :: root :: r =>
    match hn.toNat?, he.toNat?, root.toNat?, parseRows r [] with
    | some hn, some he, some root, some (rows, "E" :: r1) =>
      let (es, r2) := takeUntil ["X"] r1
      match es.mapM parseTriple with
      | some es => some ({ directed := d == "D", nodes := rows, edges := es.map (fun t => (t.1, (t.2.1, t.2.2))),
                           nextNode := hn, nextEdge := he, root := root }, r2)
      | none => none
    | _, _, _, _ => none
  | _ => none

/-- an object as the harness reports it from observer `k`: `l` (k's own), `l@j`, `l@?`, `-` (null) -/
def parseIdent (k : Nat) (s : String) : Option Ident :=
  match s.splitOn "@" with
  | [l] => l.toNat?.map (fun l => ⟨k, l⟩)
  | [l, j] => l.toNat?.map (fun l => ⟨(j.toNat?).getD 1000000, l⟩)
  | _ => none

def parseIdOpt (k : Nat) (s : String) : Option (Option Ident) := if s == "-" then some none else (parseIdent k s).map some

def parseIdPair (k : Nat) (s : String) : Option (Ident × Nat) :=
  match s.splitOn ":" with
  | [a, b] => do let a ← parseIdent k a; let b ← b.toNat?; pure (a, b)
  | _ => none

/-- one observer block `X k gN .. gE .. Ng .. Eg .. iN .. iE .. Ni .. Ei ..`, with identities -/
def parseObs (t : List String) : Option (Nat × IObs × List String) :=
  match t with
  | "X" :: k :: "gN" :: r =>
    match k.toNat? with
    | none => none
    | some k =>
      let (gN, r) := takeUntil ["gE"] r
      let (gE, r) := takeUntil ["Ng"] (r.drop 1)
      let (ng, r) := takeUntil ["Eg"] (r.drop 1)
      let (eg, r) := takeUntil ["iN"] (r.drop 1)
      let (iN, r) := takeUntil ["iE"] (r.drop 1)
      let (iE, r) := takeUntil ["Ni"] (r.drop 1)
      let (ni, r) := takeUntil ["Ei"] (r.drop 1)
      let (ei, r) := takeUntil ["X"] (r.drop 1)
      match gN.mapM (parseIdOpt k), gE.mapM (parseIdOpt k), ng.mapM (parseIdPair k), eg.mapM (parseIdPair k),
            iN.mapM (parseIdOpt k), iE.mapM (parseIdOpt k), ni.mapM (parseIdPair k), ei.mapM (parseIdPair k) with
      | some gN, some gE, some ng, some eg, some iN, some iE, some ni, some ei =>
        some (k, { gN := gN, gE := gE, Ng := ng, Eg := eg, iN := iN, iE := iE, Ni := ni, Ei := ei }, r)
      | _, _, _, _, _, _, _, _ => none
  | _ => none

partial def parseObsList (t : List String) (acc : List (Option IObs)) : Option (List (Option IObs)) :=
  match t with
  | [] => some acc
  | _ =>
    match parseObs t with
    | some (k, o, r) => parseObsList r ((acc ++ List.replicate (k + 1 - acc.length) none).set k (some o))
    | none => none

/-- the reported state: the graph, and every observer's tables with the identity of each stored object -/
def parseWorldI (t : List String) : Option (G × List (Option IObs)) :=
  match parseGraph t with
  | some (g, r) =>
    match parseObsList r [] with
    | some os => some (g, os ++ List.replicate (3 - os.length) none)
    | none => none
  | none => none

/-! ### query answer lines, from a row provider (model: the node table; reference: rows
recomputed from the edge triples) -/

structure View where
  directed : Bool
  rowOf : Nat → Option Row
  nodes : List Nat
  edges : List Nat
  edgeNodes : Nat → Option (Nat × Nat)
  getEdge : Nat → Nat → Option Nat
  leaves : List Nat
  inner : List Nat
  recip : Option Bool
  root : Nat

def viewG (g : G) : View :=
  { directed := g.directed, rowOf := g.rowOf, nodes := g.allNodes, edges := g.allEdges, edgeNodes := g.getNodes,
    getEdge := g.getEdge, leaves := g.allLeaves, inner := g.allInnerNodes, recip := g.containsReciprocal, root := g.root }

def viewS (s : Spec) : View :=
  { directed := s.directed, rowOf := s.rowOf, nodes := s.nodes, edges := s.edges.map (·.1), edgeNodes := s.edgeNodes,
    getEdge := fun a b => if s.hasNode a then s.edgeBetween a b else none,
    leaves := s.allLeaves, inner := s.allInnerNodes,
    recip := if s.directed then some s.reciprocal else none, root := s.root }

def qn (v : View) (n : Nat) : String :=
  let r := v.rowOf n
  let d := v.directed
  let l (o : Option (List Nat)) := showOpt (o.map showNats)
  -- the iterators: the client loop over the modelled iterator object (`Cursor.drain`); `ub` = `RowQ.iter`'s
  let it (f : Row → List Nat) := showQ (match RowQ.iter f r with | .ok l => .ok (Cursor.mk0 l).drain | x => x)
  -- on an absent node each of the eight factories raises (GlobalGraph.h `rowOf_`, as repaired)
  let its := match r with
    | none => " / ".intercalate (List.replicate 8 "exc:bpp")
    | some _ =>
      let four := s!"{it (fun r => AL.keys r.out)} / {it (fun r => AL.keys r.inn)} / {it (fun r => AL.vals r.out)} / {it (fun r => AL.vals r.inn)}"
      four ++ " / " ++ four
  let cn := match RowQ.degree d r, RowQ.nbOut r, RowQ.nbIn r with
    | some a, some b, some c => s!"{a} {b} {c}"
    | _, _, _ => "exc:bpp"
  s!"on {l (RowQ.outNeighbors r)} oe {l (RowQ.outEdges r)} in {l (RowQ.inNeighbors r)} ie {l (RowQ.inEdges r)} " ++
  s!"nb {l (RowQ.neighbors d r)} ed {l (RowQ.edgesOf d r)} dg {showOpt ((RowQ.degree d r).map toString)} " ++
  s!"lf {showOpt ((RowQ.isLeaf d r).map showBool)} cn {cn} it {its}"

def qe (v : View) (e : Nat) : String :=
  match v.edgeNodes e with
  | some (a, b) => s!"nodes {a} {b} top {a} bot {b}"
  | none => "nodes exc:bpp top exc:bpp bot exc:bpp"

def qp (v : View) (a b : Nat) : String :=
  let any := match v.getEdge a b with | some e => some e | none => v.getEdge b a
  s!"edge {showOpt ((v.getEdge a b).map toString)} any {showOpt (any.map toString)}"

def qg (v : View) : String :=
  s!"nodes {showNats v.nodes} edges {showNats v.edges} leaves {showNats v.leaves} lset {showNats v.leaves} inner {showNats v.inner} " ++
  s!"cnt {v.nodes.length} {v.edges.length} itn {showNats (Cursor.mk0 v.nodes).drain} / {showNats (Cursor.mk0 v.nodes).drain} " ++
  s!"ite {showNats (Cursor.mk0 v.edges).drain} / {showNats (Cursor.mk0 v.edges).drain} " ++
  s!"dir {showBool v.directed} rec {showOpt (v.recip.map showBool)} root {v.root}"

def leavesFrom (v : View) (n d : Nat) : String :=
  let nbr := fun x => RowQ.neighbors v.directed (v.rowOf x)
  match RowQ.fillLeaves nbr d n n [] with
  | some l => "l " ++ showNats l
  | none => "exc:bpp"

/-! ### object-level query lines -/

def showObjs (l : List Obj) : String := showNats l
def showOO (o : Option Obj) : String := match o with | some a => toString a | none => "-"

/-- answers of observer `o` computed from a graph view (the model's node table, or the rows of
the reference multigraph) and the observer's own maps -/
structure OView where
  v : View
  o : Obs

def ovRow (ov : OView) (a : Obj) : Option (Option Row) := (AL.find a ov.o.Ng).map ov.v.rowOf

def oqn (ov : OView) (a : Obj) : String :=
  let o := ov.o
  let d := ov.v.directed
  let gid := AL.find a o.Ng
  -- a graph query on the id of `a`: throws when `a` is unknown or the id is not in the graph
  let r : Option Row := match gid with | some id => ov.v.rowOf id | none => none
  let nl (q : Option (List Nat)) := showOpt (q.map (fun l => showObjs (o.nodesFromGids l)))
  let el (q : Option (List Nat)) := showOpt (q.map (fun l => showObjs (o.edgesFromGids l)))
  let its := match gid with
    | none => " / ".intercalate (List.replicate 8 "exc:bpp")
    | some _ =>
      match r with
      | none => " / ".intercalate (List.replicate 8 "exc:bpp")
      | some row =>
        let oit (l : List Nat) (f : Nat → Option Obj) : String := showObjs (OCursor.mk (Cursor.mk0 l) f).drain
        let four := s!"{oit (AL.keys row.out) o.nodeFromGid} / {oit (AL.keys row.inn) o.nodeFromGid} / " ++
                    s!"{oit (AL.vals row.out) o.edgeFromGid} / {oit (AL.vals row.inn) o.edgeFromGid}"
        four ++ " / " ++ four
  s!"has {showBool (o.hasNode a)} gid {showOpt (gid.map toString)} idx {showBool (AL.has a o.Ni)} {showOpt ((AL.find a o.Ni).map toString)} " ++
  s!"on {nl (RowQ.outNeighbors r)} in {nl (RowQ.inNeighbors r)} nb {nl (RowQ.neighbors d r)} " ++
  s!"oe {el (RowQ.outEdges r)} ie {el (RowQ.inEdges r)} ed {el (RowQ.edgesOf d r)} " ++
  s!"dg {showOpt ((RowQ.degree d r).map toString)} lf {showOpt ((RowQ.isLeaf d r).map showBool)} it {its}"

def oqe (ov : OView) (x : Obj) : String :=
  let o := ov.o
  let gid := AL.find x o.Eg
  let ends := match gid with
    | some e => (ov.v.edgeNodes e).map (fun p => s!"{showOO (o.nodeFromGid p.1)} {showOO (o.nodeFromGid p.2)}")
    | none => none
  s!"has {showBool (o.hasEdge x)} gid {showOpt (gid.map toString)} idx {showBool (AL.has x o.Ei)} {showOpt ((AL.find x o.Ei).map toString)} " ++
  s!"nodes {showOpt ends}"

def oqp (ov : OView) (a b : Obj) : String :=
  let o := ov.o
  let r := match AL.find a o.Ng, AL.find b o.Ng with
    | some ia, some ib => (ov.v.getEdge ia ib).map (fun e => showOO (o.edgeFromGid e))
    | _, _ => none
  s!"linking {showOpt r}"

/-- indexes of a list of objects (`getNodeIndexes`, :759): throws when one has none -/
def idxs (m : List (Nat × Nat)) (l : List Obj) : Option (List Nat) := l.mapM (fun a => AL.find a m)

def oqg (ov : OView) : String :=
  let o := ov.o
  let v := ov.v
  let nodes := o.gN.filterMap id
  let edges := o.gE.filterMap id
  let leaves := o.nodesFromGids v.leaves
  let inner := o.nodesFromGids v.inner
  -- getNumberOfLeaves (:1580): isLeaf on every registered object; throws when an id is not in the graph
  let nl : Option Nat := (nodes.mapM (fun a => match AL.find a o.Ng with
      | some id => RowQ.isLeaf v.directed (v.rowOf id)
      | none => none)).map (fun (l : List Bool) => (l.filter id).length)
  let itn := showObjs (OCursor.mk (Cursor.mk0 v.nodes) o.nodeFromGid).drain
  let ite := showObjs (OCursor.mk (Cursor.mk0 v.edges) o.edgeFromGid).drain
  s!"nodes {showObjs nodes} edges {showObjs edges} leaves {showObjs leaves} inner {showObjs inner} " ++
  s!"cnt {o.Ng.length} {o.Eg.length} {showOpt (nl.map toString)} itn {itn} / {itn} ite {ite} / {ite} " ++
  s!"nidx {showOpt ((idxs o.Ni nodes).map showNats)} eidx {showOpt ((idxs o.Ei edges).map showNats)} " ++
  s!"lidx {showOpt ((idxs o.Ni leaves).map showNats)} iidx {showOpt ((idxs o.Ni inner).map showNats)} " ++
  -- getRoot (:714) / getRootIndex (:719): the object of the graph's root; its index (throws without one)
  s!"root {showOO (o.nodeFromGid v.root)} ri {showOpt (((o.nodeFromGid v.root).bind (fun a => AL.find a o.Ni)).map toString)}"

def showE (o : Except Kind String) : String :=
  match o with | .ok s => s | .error .bpp => "exc:bpp" | .error .std => "exc:std"

def oqi (ov : OView) (i : Nat) : String :=
  let o := ov.o
  let d := ov.v.directed
  -- getNode(index) (:923): vector::at
  let nodeAt : Except Kind (Option Obj) := if i < o.iN.length then .ok (Vec.get o.iN i) else .error .std
  let edgeAt : Except Kind (Option Obj) := if i < o.iE.length then .ok (Vec.get o.iE i) else .error .std
  -- a query on getNode(i): std when out of range, bpp when null / unknown / without index
  let viaNode (f : Option Row → Option (List Nat)) (edges : Bool) : Except Kind String :=
    match nodeAt with
    | .error k => .error k
    | .ok none => .error .bpp
    | .ok (some a) =>
      match AL.find a o.Ng with
      | none => .error .bpp
      | some id =>
        match f (ov.v.rowOf id) with
        | none => .error .bpp
        | some l =>
          let objs := if edges then o.edgesFromGids l else o.nodesFromGids l
          match idxs (if edges then o.Ei else o.Ni) objs with
          | some is => .ok (showNats is)
          | none => .error .bpp
  let lf : Except Kind String :=
    match nodeAt with
    | .error k => .error k
    | .ok none => .error .bpp
    | .ok (some a) =>
      match AL.find a o.Ng with
      | none => .error .bpp
      | some id => match RowQ.isLeaf d (ov.v.rowOf id) with | some b => .ok (showBool b) | none => .error .bpp
  s!"hn {showBool (o.hasNodeIdx i)} n {showE (nodeAt.map showOO)} he {showBool (o.hasEdgeIdx i)} e {showE (edgeAt.map showOO)} " ++
  s!"oni {showE (viaNode RowQ.outNeighbors false)} ini {showE (viaNode RowQ.inNeighbors false)} " ++
  s!"oei {showE (viaNode RowQ.outEdges true)} lfi {showE lf} " ++
  s!"nbi {showE (viaNode (RowQ.neighbors d) false)} edi {showE (viaNode (RowQ.edgesOf d) true)} iei {showE (viaNode RowQ.inEdges true)}"

/-- `getNodeFromGraphid` / `getEdgeFromGraphid` (const and non-const), `getNodesFromGraphid` / `getEdgesFromGraphid` -/
def oqid (ov : OView) (id : Nat) : String :=
  let o := ov.o
  s!"n {showOO (o.nodeFromGid id)} {showOO (o.nodeFromGid id)} e {showOO (o.edgeFromGid id)} {showOO (o.edgeFromGid id)} " ++
  s!"ns {showObjs (o.nodesFromGids [id, id + 1, 0])} es {showObjs (o.edgesFromGids [id, id + 1, 0])}"

/-- `getLeavesFromNode(Nref, maxDepth)` (:1204) -/
def oleaves (ov : OView) (a : Obj) (d : Nat) : String :=
  match AL.find a ov.o.Ng with
  | none => "exc:bpp"
  | some id =>
    let nbr := fun x => RowQ.neighbors ov.v.directed (ov.v.rowOf x)
    match RowQ.fillLeaves nbr d id id [] with
    | some l => "l " ++ showObjs (ov.o.nodesFromGids l)
    | none => "exc:bpp"

/-! ### one step -/

def norm (s : String) : String := " ".intercalate (toks s)

/-- what the reference multigraph says about the graph part of an operation: result text and
new reference (`none` = raises, reference unchanged) -/
structure Want where
  res : String
  spec : Spec

def wantOf {β : Type} (s : Spec) (r : Option β) (f : β → String) (get : β → Spec) : Want :=
  match r with
  | some b => { res := f b, spec := get b }
  | none => { res := "exc:bpp", spec := s }

/-- judge the implementation's answer: `want` = expected result text and reference after the
operation; `isQuery` = the state must not change at all -/
def judge (st : St) (impl : Option (List String)) (want : Want) (isQuery : Bool) (resClause : String)
    (copyJK : Option (Nat × Nat) := none) (mayChangeWhenRaising : Bool := false) : String × Option World :=
  match impl with
  | none => ("-", none)
  | some t =>
    match splitTok ";" t with
    | [res, stt] =>
      if stt.any (fun tok => tok.startsWith "-:") then ("FAIL:assoc:null_object_key", none) else
      match parseWorldI stt with
      | some (gi, osI) =>
        -- a copy is independent: observer k's maps hold k's own objects only (by identity)
        let foreign : Option String := (List.range osI.length).findSome? (fun k =>
          match (osI[k]?).join with
          | some s => s.foreign k
          | none => none)
        let wi : World := { g := gi, obs := osI.map (fun o => o.map IObs.labels) }
        let res := " ".intercalate res
        let obsFail : Option String := (List.range wi.obs.length).findSome? (fun k =>
          match wi.getObs k with
          | some o => (o.check wi.g).map (fun c => s!"{c}")
          | none => none)
        let unchanged := match st.prev with | some p => p == wi | none => true
        -- deleted items are forgotten in every map of every observer
        let forgot := match st.prev with
          | some p => (List.range wi.obs.length).all (fun k =>
              match p.getObs k, wi.getObs k with
              | some b, some a => Obs.forgotOk wi.g b a
              | _, _ => true)
          | none => true
        let copyOk := match copyJK with
          | some (j, k) => (match wi.getObs j, wi.getObs k with | some o, some c => Obs.sameRelations o c | _, _ => true)
          | none => true
        let v :=
          match wi.g.check with
          | some c => "FAIL:consistent:" ++ c
          | none =>
            if wi.g.abs != want.spec then "FAIL:refines_spec"
            else match foreign with
            | some m => "FAIL:copy_independent:" ++ m
            | none =>
            match obsFail with
              | some c => "FAIL:assoc:" ++ c
              | none =>
                if !forgot then "FAIL:deleted_forgotten"
                else if res != norm want.res then "FAIL:" ++ resClause
                else if res.startsWith "ok indep" && !copyOk then "FAIL:copy_same_relations"
                else if isQuery && !unchanged then "FAIL:query_changes_state"
                else if (res == "exc:bpp" || res == "exc:std") && !unchanged && !mayChangeWhenRaising then "FAIL:raises_unchanged"
                else "ok"
        (v, some wi)
      | none => ("FAIL:parse", none)
    | _ => ("FAIL:parse", none)

def finish (st : St) (res : String) (w' : World) (want : Want) (jv : String × Option World) : St × String × String :=
  let prev := match jv.2 with | some wi => some wi | none => st.prev
  ({ w := w', spec := want.spec, prev := prev }, res ++ " ; " ++ showWorld w', jv.1)

/-- a graph-level mutator called on `getGraph()` -/
def mutOp {α β : Type} (st : St) (impl : Option (List String)) (r : GOut α) (f : α → String)
    (sr : Option β) (sf : β → String) (sget : β → Spec) : St × String × String :=
  let (r', w') := st.w.graphOp r
  let res := match r' with | .ok a _ => f a | .exc _ => "exc:bpp"
  let want := wantOf st.spec sr sf sget
  finish st res w' want (judge st impl want false "result_spec")

def query (st : St) (impl : Option (List String)) (ans : View → String) : St × String × String :=
  let want : Want := { res := ans (viewS st.spec), spec := st.spec }
  finish st (ans (viewG st.g)) st.w want (judge st impl want true "query_spec")

def oquery (st : St) (impl : Option (List String)) (k : Nat) (ans : OView → String) : St × String × String :=
  match st.w.getObs k with
  | none =>
    let want : Want := { res := "ub", spec := st.spec }
    finish st "ub" st.w want (judge st impl want true "query_spec")
  | some o =>
    let want : Want := { res := ans { v := viewS st.spec, o := o }, spec := st.spec }
    finish st (ans { v := viewG st.g, o := o }) st.w want (judge st impl want true "query_spec")

/-- an observer-level mutator; `sr` = what the reference multigraph does for the graph part -/
def omut (st : St) (impl : Option (List String)) (r : OOut String) (want : Want)
    (copyJK : Option (Nat × Nat) := none) : St × String × String :=
  let (res, w') := match r with
    | .ok s w' => (s, w')
    | .exc .bpp w' => ("exc:bpp", w')
    | .exc .std w' => ("exc:std", w')
    | .ub => ("ub", st.w)
  -- the reference multigraph only fixes the graph part; the expected result text of an
  -- object-level call is the model's (whose maps are compared with the implementation's)
  let want' : Want := { res := res, spec := want.spec }
  finish st res w' want' (judge st impl want' false "result_spec" copyJK)

def _root_.Bpp.Graph.OOut.str {α : Type} (r : OOut α) (f : α → String) : OOut String :=
  match r with | .ok a w => .ok (f a) w | .exc k w => .exc k w | .ub => .ub

def _root_.Bpp.Graph.OOut.strW {α : Type} (r : OOut α) (f : World → String) : OOut String :=
  match r with | .ok _ w => .ok (f w) w | .exc k w => .exc k w | .ub => .ub

/-- the number of observers registered on the graph (`observers_.size()`) -/
def reg (w : World) : String := toString (w.obs.filter Option.isSome).length

def optObj (s : String) : Option Obj := if s == "-" then none else s.toNat?

/-- a graph-level mutator of the protocol as an `Op` -/
def parseOp (t : List String) : Option Op :=
  let nat (s : String) : Nat := s.toNat?.getD 0
  match t with
  | ["createNode"] => some .createNode
  | ["createNodeFromNode", o] => some (.createNodeFromNode (nat o))
  | ["createNodeOnEdge", e] => some (.createNodeOnEdge (nat e))
  | ["createNodeFromEdge", e] => some (.createNodeFromEdge (nat e))
  | ["link", a, b] => some (.link (nat a) (nat b))
  | ["linkE", a, b, e] => some (.linkE (nat a) (nat b) (nat e))
  | ["unlink", a, b] => some (.unlink (nat a) (nat b))
  | ["switchNodes", a, b] => some (.switchNodes (nat a) (nat b))
  | ["deleteNode", n] => some (.deleteNode (nat n))
  | ["makeDirected"] => some .makeDirected
  | ["makeUndirected"] => some .makeUndirected
  | ["setRoot", n] => some (.setRoot (nat n))
  | _ => none

/-- a mutator applied to (a copy of) the graph: result text and state -/
def applyText (g : G) (t : List String) : Option (String × G) :=
  match t with
  | ["orientate"] => some (match g.orientate with | .ok _ g' => ("ok", g') | .exc g' => ("exc:bpp", g'))
  | _ => (parseOp t).map (fun op =>
      let r := g.applyR op
      (match r with | .ok l _ => (if l.isEmpty then "ok" else showNats l) | .exc _ => "exc:bpp", r.state))

def step (st : St) (op : List String) (impl : Option (List String)) : St × String × String :=
  let nat (s : String) : Nat := s.toNat?.getD 0
  let okS (_ : Unit) := "ok"
  let w := st.w
  let sp := st.spec
  let keep : Want := { res := "", spec := sp }
  -- translation object -> graph id through the model's maps of observer k (for the reference)
  let gid (k : Nat) (a : Obj) : Option Nat := (w.getObs k).bind (fun o => AL.find a o.Ng)
  let hasE (k : Nat) (x : Option Obj) : Bool := match w.getObs k, x with | some o, some x => o.hasEdge x | _, _ => false
  -- a null pointer (`-`) where an object is required: refused, nothing changes (only the edge object of
  -- `o.link` / `o.createNodeFrom`, their last argument, may be null)
  let nullArg : Bool := match op with
    | "o.link" :: _ :: a :: b :: _ => a == "-" || b == "-"
    | "o.createNodeFrom" :: _ :: o :: a :: _ => o == "-" || a == "-"
    | name :: _ :: args =>
      ["o.createNode", "o.unlink", "o.deleteNode", "o.associateNode", "o.associateEdge", "o.dissociateNode", "o.dissociateEdge",
       "o.setNodeIndex", "o.addNodeIndex", "o.setEdgeIndex", "o.addEdgeIndex", "o.setEdgeLinking", "o.setRoot"].contains name &&
      args.contains "-"
    | _ => false
  if nullArg then omut st impl ((w.nullRefused (nat (op.getD 1 "0"))).str okS) keep else
  match op with
  | ["createNode"] =>
    mutOp st impl st.g.createNode toString (some sp.createNode) (fun r => toString r.1) (·.2)
  | ["createNodeFromNode", o] =>
    mutOp st impl (st.g.createNodeFromNode (nat o)) toString (sp.createNodeFromNode (nat o)) (fun r => toString r.1) (·.2)
  | ["createNodeOnEdge", e] =>
    mutOp st impl (st.g.createNodeOnEdge (nat e)) toString (sp.createNodeOnEdge (nat e)) (fun r => toString r.1) (·.2)
  | ["createNodeFromEdge", e] =>
    mutOp st impl (st.g.createNodeFromEdge (nat e)) toString (sp.createNodeFromEdge (nat e)) (fun r => toString r.1) (·.2)
  | ["link", a, b] =>
    mutOp st impl (st.g.link (nat a) (nat b)) toString (sp.link (nat a) (nat b)) (fun r => toString r.1) (·.2)
  | ["linkE", a, b, e] =>
    mutOp st impl (st.g.linkE (nat a) (nat b) (nat e)) okS (sp.linkE (nat a) (nat b) (nat e)) (fun _ => "ok") id
  | ["unlink", a, b] =>
    mutOp st impl (st.g.unlink (nat a) (nat b)) showNats (sp.unlink (nat a) (nat b)) (fun r => toString r.1) (·.2)
  | ["switchNodes", a, b] =>
    mutOp st impl (st.g.switchNodes (nat a) (nat b)) okS (sp.switchNodes (nat a) (nat b)) (fun _ => "ok") id
  | ["deleteNode", n] =>
    mutOp st impl (st.g.deleteNode (nat n)) okS (sp.deleteNode (nat n)) (fun _ => "ok") id
  | ["makeDirected"] =>
    mutOp st impl (GOut.ok () st.g.makeDirected) okS (some sp.makeDirected) (fun _ => "ok") id
  | ["makeUndirected"] =>
    mutOp st impl st.g.makeUndirected okS sp.makeUndirected (fun _ => "ok") id
  | ["setRoot", n] =>
    mutOp st impl (st.g.setRoot (nat n)) okS (sp.setRoot (nat n)) (fun _ => "ok") id
  | ["orientate"] =>
    -- the reference multigraph replays `makeDirected` and the recorded `switchNodes` calls on its own
    -- definitions; whether the call raises is the model's (it depends on the traversal)
    let run := st.g.orientRun
    let (r', w') := st.w.graphOp st.g.orientate
    let res := match r' with | .ok _ _ => "ok" | .exc _ => "exc:bpp"
    let want : Want := { res := res, spec := sp.orientReplay run.switches }
    -- a raising `orientate` has re-oriented part of the graph: it is judged like a succeeding call
    finish st res w' want (judge st impl want false "result_spec" none true)
  | "gcopy" :: _kind :: rest =>
    -- a mutator called on a copy of the graph (copy constructor / operator= / clone()): the copy is a
    -- graph of its own, without observers; the original and its observers do not change
    match applyText st.g rest with
    | none => (st, "bad-op", "-")
    | some (txt, g') =>
      let res := s!"{txt} reg 0 copy {showGraph { g' with pending := [] }}"
      let want : Want := { res := res, spec := sp }
      finish st res st.w want (judge st impl want true "graph_copy_is_separate")
  | ["gassign", n] =>
    -- `GlobalGraph::operator=` onto the observed graph (GlobalGraph.cpp:41, as repaired): the content becomes
    -- that of a path of n nodes of the other directedness; the observers stay and are told that all
    -- former edges and nodes are gone
    let n := nat n
    let h : G := (Graph.empty (!w.g.directed)).run
      ((List.replicate n Op.createNode) ++ (List.range (n - 1)).map (fun i => Op.link i (i + 1)))
    let w' := w.graphAssign { h with pending := [] }
    omut st impl (.ok "ok reg 0" w') { res := "", spec := { h with pending := [] }.abs }
  | ["notifyE", a, b] =>
    -- `notifyDeletedEdges` is a public member: every observer forgets the objects of the named edges
    let w' := w.stepX (.notify (.edges [nat a, nat b]))
    omut st impl (.ok "ok" w') keep
  | ["notifyN", a, b] =>
    let w' := w.stepX (.notify (.nodes [nat a, nat b]))
    omut st impl (.ok "ok" w') keep
  | ["qn", n] => query st impl (fun v => qn v (nat n))
  | ["qe", e] => query st impl (fun v => qe v (nat e))
  | ["qp", a, b] => query st impl (fun v => qp v (nat a) (nat b))
  | ["qg"] => query st impl qg
  | ["leavesFrom", n, d] => query st impl (fun v => leavesFrom v (nat n) (nat d))
  -- ---------------- observer level
  | ["o.createNode", k, a] =>
    let k := nat k; let a := nat a
    let sr : Option (Nat × Spec) := if (gid k a).isSome || (w.getObs k).isNone then none else some sp.createNode
    omut st impl ((w.createNode k a).str okS) (wantOf sp sr (fun _ => "ok") (·.2))
  | ["o.createNodeFrom", k, o, a, x] =>
    let k := nat k; let o := nat o; let a := nat a; let x := optObj x
    let sr : Option Spec :=
      match gid k o with
      | some io =>
        if hasE k x || (gid k a).isSome then none
        else
          let (n, s1) := sp.createNode
          (s1.link io n).map (·.2)
      | none => none
    omut st impl ((w.createNodeFrom k o a x).str okS) (wantOf sp sr (fun _ => "ok") id)
  | ["o.link", k, a, b, x] =>
    let k := nat k; let a := nat a; let b := nat b; let x := optObj x
    let sr : Option Spec :=
      match gid k a, gid k b with
      | some ia, some ib => if hasE k x then none else (sp.link ia ib).map (·.2)
      | _, _ => none
    omut st impl ((w.link k a b x).str okS) (wantOf sp sr (fun _ => "ok") id)
  | ["o.unlink", k, a, b] =>
    let k := nat k; let a := nat a; let b := nat b
    let sr : Option Spec :=
      match gid k a, gid k b with
      | some ia, some ib => (sp.unlink ia ib).map (·.2)
      | _, _ => none
    omut st impl ((w.unlink k a b).str okS) (wantOf sp sr (fun _ => "ok") id)
  | ["o.deleteNode", k, a] =>
    let k := nat k; let a := nat a
    let sr : Option Spec := (gid k a).bind sp.deleteNode
    omut st impl ((w.deleteNode k a).str okS) (wantOf sp sr (fun _ => "ok") id)
  | ["o.associateNode", k, a, id] =>
    omut st impl ((w.localOp (nat k) (fun g o => World.associateNode g o (nat a) (nat id))).str okS) keep
  | ["o.associateEdge", k, x, e] =>
    omut st impl ((w.localOp (nat k) (fun g o => World.associateEdge g o (nat x) (nat e))).str okS) keep
  | ["o.dissociateNode", k, a] =>
    omut st impl ((w.localOp (nat k) (fun _ o => World.dissociateNodeO o (nat a))).str okS) keep
  | ["o.dissociateEdge", k, x] =>
    omut st impl ((w.localOp (nat k) (fun _ o => World.dissociateEdgeO o (nat x))).str okS) keep
  | ["o.setNodeIndex", k, a, i] =>
    omut st impl ((w.localOp (nat k) (fun _ o => World.setNodeIndexO o (nat a) (nat i))).str (fun _ => toString (nat i))) keep
  | ["o.setEdgeIndex", k, x, i] =>
    omut st impl ((w.localOp (nat k) (fun _ o => World.setEdgeIndexO o (nat x) (nat i))).str (fun _ => toString (nat i))) keep
  | ["o.addNodeIndex", k, a] =>
    let r : OOut String := match w.getObs (nat k) with
      | none => .ub
      | some o => match World.addNodeIndexO o (nat a) with
        | .ok (i, o') => .ok (toString i) (w.setObs (nat k) o')
        | .error kd => .exc kd w
    omut st impl r keep
  | ["o.addEdgeIndex", k, x] =>
    let r : OOut String := match w.getObs (nat k) with
      | none => .ub
      | some o => match World.addEdgeIndexO o (nat x) with
        | .ok (i, o') => .ok (toString i) (w.setObs (nat k) o')
        | .error kd => .exc kd w
    omut st impl r keep
  | ["o.setEdgeLinking", k, a, b, x] =>
    omut st impl ((w.localOp (nat k) (fun g o => World.setEdgeLinkingO g o (nat a) (nat b) (nat x))).str okS) keep
  | ["o.copy", j, k] =>
    omut st impl ((w.copy (nat j) (nat k)).strW (fun w' => "ok indep 1 shared 1 reg " ++ reg w')) keep (some (nat j, nat k))
  | ["o.clone", j, k] =>
    omut st impl ((w.clone (nat j) (nat k)).strW (fun w' => "ok indep 1 shared 1 reg " ++ reg w')) keep (some (nat j, nat k))
  | ["o.copyvia", j, k] =>
    -- the converting constructor <N2, E2> (:157) runs the same two loops; there and back
    omut st impl ((w.copy (nat j) (nat k)).strW (fun w' => "ok indep 1 shared 1 reg " ++ reg w')) keep (some (nat j, nat k))
  | ["o.assign", j, k] =>
    let j := nat j; let k := nat k
    omut st impl ((w.assign j k).strW (fun w' => if j == k then "ok self reg " ++ reg w' else "ok indep 1 shared 1 reg " ++ reg w')) keep
      (if j == k then none else some (j, k))
  | ["o.assignx", j] =>
    -- `operator=` into a temporary observer of another graph (the harness checks the result against the
    -- source by identity and reports the registrations); the world is unchanged once the temporary is gone
    let r : OOut String := match w.getObs (nat j) with
      | none => .ub
      | some o => if !World.copyDefined o then .ub else .ok "ok shared 1 oldreg 0 reg 1 same 1 indep 1 after 0" w
    omut st impl r keep
  | ["o.attach", k] =>
    omut st impl ((w.attach (nat k)).strW (fun w' => "ok reg " ++ reg w')) keep
  | ["o.setRoot", k, a] =>
    let k := nat k; let a := nat a
    let sr : Option Spec := (gid k a).bind sp.setRoot
    omut st impl ((w.setRootObj k a).str okS) (wantOf sp sr (fun _ => "ok") id)
  | ["o.rereg", k] =>
    let r : OOut String := if (w.getObs (nat k)).isNone then .ub else .ok ("exc:bpp reg " ++ reg w) w
    omut st impl r keep
  | ["o.drop", k] =>
    let k := nat k
    let r : OOut String := if k == 0 || (w.getObs k).isNone then .ub else .ok ("ok reg " ++ reg (w.drop k)) (w.drop k)
    omut st impl r keep
  | ["o.qn", k, a] => oquery st impl (nat k) (fun ov => oqn ov (nat a))
  | ["o.qe", k, x] => oquery st impl (nat k) (fun ov => oqe ov (nat x))
  | ["o.qp", k, a, b] => oquery st impl (nat k) (fun ov => oqp ov (nat a) (nat b))
  | ["o.qg", k] => oquery st impl (nat k) oqg
  | ["o.qi", k, i] => oquery st impl (nat k) (fun ov => oqi ov (nat i))
  | ["o.qid", k, id] => oquery st impl (nat k) (fun ov => oqid ov (nat id))
  | ["o.leavesFrom", k, a, d] => oquery st impl (nat k) (fun ov => oleaves ov (nat a) (nat d))
  | _ => (st, "bad-op", "-")

def init (t : List String) : St :=
  let d := !(t.length > 1 && t[1]! == "undir")
  { w := { g := Graph.empty d }, spec := { directed := d }, prev := none }

def machine : Machine St := { init := init, step := step }

end Bpp.Drive.C14
