import BppModel.Proto
import BppModel.Prelude.Scalar
import BppModel.Text.StrLite
import BppModel.Text.Number
import BppModel.Text.Glob
import BppModel.Text.Keyval
import BppModel.Text.Vars
import BppModel.Text.TokenizerU
import BppModel.Text.TokRT
import BppModel.Text.TableRT
import BppModel.Text.NumFmt
/-
Driver for C17 (round trips and exact grammars).  Stateless: every op carries its inputs.
Strings are hex-escaped; the implementation's doubles arrive as 16 hex digits, the model's
value of a double is an exact rational printed `q:<num>/<den>` (gens/C17.py compares it with the
implementation's double by correct rounding; the verdict below checks "within half an ulp").
-/
namespace Bpp.Drive.C17
open Bpp Bpp.Proto Bpp.Text

def showRat (q : Rat) : String := "q:" ++ toString q.num ++ "/" ++ toString q.den
def showOptInt : Option Int → String
  | some n => toString n
  | none => "exc:bpp"
def showOptRat : Option Rat → String
  | some q => showRat q
  | none => "exc:bpp"

def ratAbs (q : Rat) : Rat := if q < 0 then -q else q
def pow2 (e : Int) : Rat := if 0 ≤ e then ((2 ^ e.toNat : Nat) : Rat) else 1 / ((2 ^ (-e).toNat : Nat) : Rat)
def dblMax : Rat := ((2 ^ 53 - 1 : Nat) : Rat) * pow2 971

/-- is the double with bit pattern `hex` a nearest double of `q` (within half a unit in the last
place of its own binade; `±DBL_MAX` for `|q| ≥ DBL_MAX`, libstdc++'s answer on overflow)? -/
def nearestDouble (hex : String) (q : Rat) : Bool :=
  match if hex.length == 16 then Hex.toNat? hex else none with
  | none => false
  | some bits =>
    let neg := bits >>> 63 == 1
    let e := (bits >>> 52) % 2048
    let m := bits % (2 ^ 52)
    if e == 2047 then false
    else
      let (mant, ex) : Nat × Int := if e == 0 then (m, -1074) else (m + 2 ^ 52, (e : Int) - 1075)
      let d : Rat := (if neg then -1 else 1) * ((mant : Nat) : Rat) * pow2 ex
      if dblMax ≤ ratAbs q then ratAbs d == dblMax && (decide (q < 0) == neg)
      else decide (ratAbs (q - d) * 2 ≤ pow2 ex)

def numVerdict (dec sci : Char) (s : Str) (impl : Option (List String)) : String :=
  match impl with
  | none => "-"
  | some [idec, iint, idbl, iintv] =>
    let pd := Number.parseDecimal dec sci s
    let pi := Number.parseInteger sci s
    if idec != showBool pd.isSome then "FAIL:accepts_iff_grammar"
    else if iint != showBool pi.isSome then "FAIL:integer_accepts_iff_grammar"
    else
      let v1 := match pd with
        | none => if idbl == "exc:bpp" then "ok" else "FAIL:toDouble_raises"
        | some p =>
          -- whatever usable `dec` / `sci` the caller chose (toDouble translates them for the stream)
          -- a numeral beyond the range of double has no double as its value: `istringstream >> double`
          -- stores ±DBL_MAX and sets failbit, which toDouble ignores (known finding)
          if dblMax + pow2 970 ≤ ratAbs p.value && idbl != "exc:bpp" then "FAIL:toDouble_overflow_silent"
          else if nearestDouble idbl p.value then "ok" else "FAIL:toDouble_value"
      if v1 != "ok" then v1
      else match pi with
        | none => if iintv == "exc:bpp" then "ok" else "FAIL:toInt_raises"
        | some p =>
          -- the grammar's value when it is an `int`, an exception otherwise
          let want := if Number.intMin ≤ p.value && p.value ≤ Number.intMax then toString p.value else "exc:bpp"
          if iintv == want then "ok" else "FAIL:toInt_value"
  | some _ => "FAIL:parse"

def showMap (m : Keyval.Map) : String :=
  toString m.length ++ String.join (m.map (fun kv => " " ++ hex kv.1 ++ " " ++ hex kv.2))

/-- `k1 v1 k2 v2 …` (hex) -/
def parsePairs : List String → Option (List (Str × Str))
  | [] => some []
  | k :: v :: rest =>
    match unhex k, unhex v, parsePairs rest with
    | some k, some v, some r => some ((k, v) :: r)
    | _, _, _ => none
  | _ => none

def implIs (impl : Option (List String)) (want : String) (clause : String) : String :=
  match impl with
  | none => "-"
  | some t => if " ".intercalate t == want then "ok" else "FAIL:" ++ clause

/-- substitutions allowed per entry before the model reports `hang` -/
def varsFuel : Nat := 400

def step (s : Unit) (op : List String) (impl : Option (List String)) : Unit × String × String :=
  match op with
  | ["num", hs, hd, hc] =>
    match unhex hs, unhex hd, unhex hc with
    | some str, some [dec], some [sci] =>
      let out := showBool (Number.isDecimalNumber dec sci str) ++ " " ++ showBool (Number.isDecimalInteger sci str)
        ++ " " ++ showOptRat (Number.toDouble dec sci str) ++ " " ++ showOptInt (Number.toInt sci str)
      (s, out, numVerdict dec sci str impl)
    | _, _, _ => (s, "bad-op", "-")
  | ["int.rt", n] =>
    match int? n with
    | some n =>
      let str := Number.intToString n
      let out := hex str ++ " " ++ showOptInt (Number.toInt 'e' str)
      let verdict := match impl with
        | none => "-"
        | some [_, back] => if back == toString n then "ok" else "FAIL:int_roundtrip"
        | some _ => "FAIL:parse"
      (s, out, verdict)
    | none => (s, "bad-op", "-")
  | ["dbl.rt", hd, prec] =>
    -- the model formats the exact value of the double (`NumFmt.toStringPrec`, the `%.{P}g` conversion)
    -- and the text must be the implementation's; the verdict reads the text the implementation
    -- produced: it must be in the grammar, denote the rounding of the input to `prec` significant
    -- digits (`NumFmt.roundedValue`: the input itself when it has no more digits), whose nearest double
    -- is the input when `prec` is 17, and parse back to it
    let sa : Option (Bool × Rat) :=
      match if hd.length == 16 then Hex.toNat? hd else none with
      | none => none
      | some bits =>
        let e := (bits >>> 52) % 2048
        let m := bits % (2 ^ 52)
        if e == 2047 then none
        else
          let (mant, ex) : Nat × Int := if e == 0 then (m, -1074) else (m + 2 ^ 52, (e : Int) - 1075)
          some (bits >>> 63 == 1, ((mant : Nat) : Rat) * pow2 ex)
    match sa, nat? prec with
    | some (neg, a), some pr =>
      let txt := NumFmt.toStringPrec pr neg a
      let verdict := match impl with
        | none => "-"
        | some [back, htxt] =>
          match unhex htxt with
          | none => "FAIL:parse"
          | some t =>
            match Number.parseDecimal '.' 'e' t with
            | none => "FAIL:double_format_in_grammar"
            | some p =>
              if p.value != NumFmt.roundedValue pr neg a then "FAIL:toString_value"
              else if NumFmt.fitsPrec pr a && p.value != (if neg then -a else a) then "FAIL:toString_roundtrip_exact"
              else if pr ≥ 17 && back != hd then "FAIL:double_roundtrip"
              else if pr ≥ 17 && !nearestDouble hd p.value then "FAIL:double_format_value"
              else "ok"
        | some _ => "FAIL:double_roundtrip"
      (s, (if pr ≥ 17 then hd else "*") ++ " " ++ hex txt, verdict)
    | _, _ => (s, "bad-op", "-")
  | ["glob", hp, hn] =>
    match unhex hp, unhex hn with
    | some pat, some name =>
      let m := showBool (Glob.matcher pat name)
      let want := showBool (Glob.globMatch pat name)
      -- the three copies of the matcher must all agree with textbook glob semantics
      let verdict := match impl with
        | none => "-"
        | some [a, b, c] => if a == want && b == want && c == want then "ok" else "FAIL:glob_agrees"
        | some _ => "FAIL:parse"
      (s, m ++ " " ++ m ++ " " ++ m, verdict)
    | _, _ => (s, "bad-op", "-")
  | ["kv.single", hd, hsp] =>
    match unhex hd, unhex hsp with
    | some d, some sp =>
      let out := match Keyval.singleKeyval d sp with
        | some (k, v) => hex k ++ " " ++ hex v
        | none => "exc:bpp"
      (s, out, "-")
    | _, _ => (s, "bad-op", "-")
  | ["kv.multi", hd, hsp, nst] =>
    match unhex hd, unhex hsp with
    | some d, some sp =>
      let out := match Keyval.multipleKeyvals d [] sp (nst == "1") with
        | some m => showMap m
        | none => "exc:bpp"
      (s, out, "-")
    | _, _ => (s, "bad-op", "-")
  | ["kv.parse", hd] =>
    match unhex hd with
    | some d =>
      let out := match Keyval.parseProcedure d with
        | some (name, m) => hex name ++ " " ++ showMap m
        | none => "exc:bpp"
      (s, out, "-")
    | _ => (s, "bad-op", "-")
  | "kv.rt" :: hname :: n :: rest =>
    match unhex hname, nat? n, parsePairs rest with
    | some name, some n, some kvs =>
      if kvs.length != n then (s, "bad-op", "-") else
      let desc := Keyval.render name kvs
      let out := match Keyval.parseProcedure desc with
        | some (nm, m) => hex desc ++ " " ++ hex nm ++ " " ++ showMap m
        | none => "exc:bpp"
      -- parse_render: under the theorem's side conditions the parse gives back name and map
      let verdict :=
        if Keyval.NameOk name && kvs.all Keyval.PairOk then
          implIs impl (hex desc ++ " " ++ hex name ++ " " ++ showMap (Keyval.mapOfList kvs)) "parse_render"
        else "-"
      (s, out, verdict)
    | _, _, _ => (s, "bad-op", "-")
  | "kv.crt" :: hname :: n :: rest =>
    match unhex hname, nat? n with
    | some name, some n =>
      match parsePairs (rest.take (2 * n)), parsePairs ((rest.drop (2 * n)).drop 1) with
      | some kvs, some news =>
        let newkv := Keyval.mapOfList news
        let desc := Keyval.render name kvs
        let out := match Keyval.changeKeyvals desc newkv [','] true with
          | some d' => hex d'
          | none => "exc:bpp"
        let verdict :=
          if Keyval.NameOk name && kvs.all Keyval.PairOk then
            implIs impl (hex (Keyval.render name (Keyval.substArgs newkv kvs))) "changeKeyvals_exact"
          else "-"
        (s, out, verdict)
      | _, _ => (s, "bad-op", "-")
    | _, _ => (s, "bad-op", "-")
  | "kv.change" :: hd :: hsp :: nst :: _n :: rest =>
    match unhex hd, unhex hsp, parsePairs rest with
    | some d, some sp, some news =>
      let out := match Keyval.changeKeyvals d (Keyval.mapOfList news) sp (nst == "1") with
        | some d' => hex d'
        | none => "exc:bpp"
      (s, out, "-")
    | _, _, _ => (s, "bad-op", "-")
  | "vars" :: _n :: rest =>
    match parsePairs rest with
    | some kvs =>
      let am := Keyval.mapOfList kvs
      let res := Vars.resolveVariables varsFuel am
      let out := match res with
        | .ok m => showMap m
        | .exc => "exc:bpp"
        | .diverge => "hang"
      -- structured reading of the input: every value parses into text and closed references
      let senv? : Option Vars.SEnv := am.mapM (fun kv => (Vars.parseSegs (kv.2.length + 1) kv.2).map (fun sg => (kv.1, sg)))
      let acyclic := match senv? with
        | some env => Vars.AcyclicOk env
        | none => false
      let verdict := match impl with
        | none => "-"
        -- the implementation did not return: the whitelisted clause `…_cyclic` is used only when the
        -- definitions are not acyclic AND the model does not terminate either
        | some ["hang"] =>
          if !acyclic && res == .diverge then "FAIL:resolve_terminates_cyclic" else "FAIL:resolve_terminates"
        | some ["exc:bpp"] => if acyclic then "FAIL:resolve_fixed_point" else "-"
        | some (_ :: t) =>
          match parsePairs t with
          | none => "FAIL:parse"
          | some m =>
            -- no resolvable reference remains, whatever the input
            if m.any (fun kv => (find ['$', '('] kv.2).isSome) then "FAIL:resolve_no_reference"
            else match senv? with
              | some env =>
                if acyclic then (if m == Vars.resolved env then "ok" else "FAIL:resolve_fixed_point") else "ok"
              | none => "ok"
        | some _ => "FAIL:parse"
      (s, out, verdict)
    | none => (s, "bad-op", "-")
  | _ => (s, "bad-op", "-")

/-! ## round 2: tokenizer / table / distribution round trips -/

open Bpp.Text.U Bpp.Text.RT in
def showErr : Err → String
  | .ub => "ub" | .std => "exc:std" | .bpp => "exc:bpp" | .hang => "hang"

def showStrs (l : List Str) : String :=
  toString l.length ++ String.join (l.map (fun t => " " ++ hex t))

def unhexList : List String → Option (List Str)
  | [] => some []
  | h :: r =>
    match unhex h, unhexList r with
    | some s, some l => some (s :: l)
    | _, _ => none

/-- `n h1 … hn` -/
def parseStrs : List String → Option (List Str)
  | [] => none
  | n :: hs =>
    match nat? n, unhexList hs with
    | some n, some l => if l.length == n then some l else none
    | _, _ => none

open Bpp.Text.U Bpp.Text.RT in
/-- `st.rt`: constructor, `unparseRemainingTokens`, `min k n` calls of `nextToken`, unparse again,
one more `nextToken` when every token was read -/
def stRtModel (s d : Str) (solid ae : Bool) (k : Nat) : String :=
  match mkTokenizer s d solid ae with
  | .error e => showErr e
  | .ok T =>
    let kk := min k T.tokens.length
    match T.unparseRemainingTokens, nextN kk T with
    | .ok u0, .ok (toks, T') =>
      match T'.unparseRemainingTokens with
      | .ok uk =>
        let e := if kk == T.tokens.length then (match T'.nextToken with | .error .bpp => "x" | _ => "!") else "-"
        showStrs T.tokens ++ " / " ++ showStrs T.splits ++ " / " ++ hex u0 ++ " / " ++ showStrs toks ++ " / "
          ++ hex uk ++ " / " ++ e
      | .error e => showErr e
    | .error e, _ => showErr e
    | _, .error e => showErr e

open Bpp.Text.U Bpp.Text.RT in
/-- the predicates of `Props/C17Tokenizer.lean` on the implementation's answer -/
def stRtVerdict (s d : Str) (solid ae : Bool) (k : Nat) (impl : Option (List String)) : String :=
  match impl with
  | none => "-"
  | some t =>
    match splitTok "/" t with
    | [ptoks, psplits, [hu0], pk, [huk], [e]] =>
      match parseStrs ptoks, parseStrs psplits, unhex hu0, parseStrs pk, unhex huk with
      | some tokens, some splits, some u0, some ktoks, some uk =>
        let kk := min k tokens.length
        if !ctorRtOk s d solid ae tokens splits u0 then "FAIL:unparse_tokenize"
        else if ktoks != tokens.take kk || !advanceRtOk tokens splits kk u0 uk
            || (kk == tokens.length && e != "x") then "FAIL:unparse_after_next"
        else "ok"
      | _, _, _, _, _ => "FAIL:parse"
    | _ => "-"                                                    -- raised: nothing to judge here

open Bpp.Text.U Bpp.Text.RT in
/-- `nst.rt`: the same script on a NestedStringTokenizer -/
def nstRtModel (s op en d : Str) (solid : Bool) (k : Nat) : String :=
  match mkNested s op en d solid with
  | .error e => showErr e
  | .ok T =>
    let kk := min k T.tokens.length
    match T.unparseRemainingTokens, nextN kk T with
    | .ok u0, .ok (toks, T') =>
      match T'.unparseRemainingTokens with
      | .ok uk =>
        let e := if kk == T.tokens.length then (match T'.nextToken with | .error .bpp => "x" | _ => "!") else "-"
        showStrs T.tokens ++ " / " ++ showStrs T.splits ++ " / " ++ hex u0 ++ " / " ++ showStrs toks ++ " / "
          ++ hex uk ++ " / " ++ e
      | .error e => showErr e
    | .error e, _ => showErr e
    | _, .error e => showErr e

open Bpp.Text.U Bpp.Text.RT in
/-- the predicates of `Props/C17Nested.lean` on the implementation's answer -/
def nstRtVerdict (s op en d : Str) (solid : Bool) (k : Nat) (impl : Option (List String)) : String :=
  match impl with
  | none => "-"
  | some t =>
    match splitTok "/" t with
    | [ptoks, psplits, [hu0], pk, [huk], [e]] =>
      match parseStrs ptoks, parseStrs psplits, unhex hu0, parseStrs pk, unhex huk with
      | some tokens, some splits, some u0, some ktoks, some uk =>
        let kk := min k tokens.length
        if !nestedRtOk s d solid tokens splits u0 then "FAIL:nested_rejoin"
        else if (match saneBrackets op en d with
                 | some (o, c) => !nestedDepthOk d o c solid tokens
                 | none => false) then "FAIL:nested_balanced_all"
        else if ktoks != tokens.take kk || !advanceRtOk tokens splits kk u0 uk
            || (kk == tokens.length && e != "x") then "FAIL:nested_unparse_after_next"
        else "ok"
      | _, _, _, _, _ => "FAIL:parse"
    | _ => "-"                                                    -- raised: nothing to judge here

/-! ### tables -/

open Bpp.Text.U in
def showTbl (t : Tbl) : String :=
  toString t.nCol ++ " " ++ toString t.rows.length ++ " " ++ showStrs t.colNames ++ " " ++ showStrs t.rowNames
    ++ String.join (t.rows.map (fun r => String.join (r.map (fun x => " " ++ hex x))))

/-- `k` items, then the rest -/
def takeStrs (k : Nat) (l : List String) : Option (List Str × List String) :=
  if l.length < k then none
  else match unhexList (l.take k) with
    | some x => some (x, l.drop k)
    | none => none

/-- the rows of the op line: `nRows` times (`name`?) `nCol` cells -/
def parseRows (hasRow : Bool) (nCol : Nat) : Nat → List String → Option (List (Option Str × List Str))
  | 0, [] => some []
  | 0, _ :: _ => none
  | k + 1, l =>
    match (if hasRow then takeStrs 1 l else some ([], l)) with
    | none => none
    | some (nm, l1) =>
      match takeStrs nCol l1 with
      | none => none
      | some (cells, l2) =>
        match parseRows hasRow nCol k l2 with
        | none => none
        | some rest => some ((if hasRow then nm.head? else none, cells) :: rest)

open Bpp.Text.U Bpp.Text.RT in
/-- `tbl.rt <sep> <align> <nCol> <hasCol> <hasRow> <nRows> items…`: build, write, read back -/
def tblRt (sep : Str) (align : Bool) (nCol : Nat) (colNames : List Str) (rows : List (Option Str × List Str))
    (impl : Option (List String)) : String × String :=
  match buildTbl nCol colNames rows with
  | .error e => ("build:" ++ showErr e, "-")
  | .ok t =>
    match writeTable t sep align with
    | .error e => ("write:" ++ showErr e, "-")
    | .ok text =>
      let back := readBack t text sep
      let out := hex text ++ " / " ++ (match back with | .ok t' => showTbl t' | .error e => showErr e)
      -- table_roundtrip on the implementation's answer: under the side conditions the table read
      -- back is the table written
      let verdict := match impl, sep with
        | none, _ => "-"
        | some ans, [c] =>
          if RtWFcore t c then
            (match splitTok "/" ans with
             | [_, back'] => if " ".intercalate back' == showTbl t then "ok" else "FAIL:table_roundtrip"
             | _ => "FAIL:table_roundtrip")
          else "-"
        | some _, _ => "-"
      (out, verdict)

/-! ### distribution descriptions (explored: the model has no distribution classes; the verdict reads
the implementation's trace — the description written, the distribution before and after) -/

/-- the finite double with this bit pattern, as a rational -/
def ratOfHex (hex : String) : Option Rat :=
  match if hex.length == 16 then Hex.toNat? hex else none with
  | none => none
  | some bits =>
    let neg := bits >>> 63 == 1
    let e := (bits >>> 52) % 2048
    let m := bits % (2 ^ 52)
    if e == 2047 then none
    else
      let (mant, ex) : Nat × Int := if e == 0 then (m, -1074) else (m + 2 ^ 52, (e : Int) - 1075)
      some ((if neg then -1 else 1) * ((mant : Nat) : Rat) * pow2 ex)

/-- relative agreement of two bit patterns: `|a - b| ≤ max(|a|,|b|) / scale`, or both within
`1e-12` of each other in absolute terms (class values that are 0 up to the noise of the
discretisation) -/
def closeHex (scale : Nat) (a b : String) : Bool :=
  a == b || (match ratOfHex a, ratOfHex b with
    | some x, some y =>
      let m := if ratAbs x < ratAbs y then ratAbs y else ratAbs x
      decide (ratAbs (x - y) * (scale : Rat) ≤ m) || decide (ratAbs (x - y) * 1000000000000 ≤ 1)
    | _, _ => false)

/-- `family n v1 … vn p1 … pn P k name1 val1 …` -/
structure DistTrace where
  family : String
  n : Nat
  values : List String
  probs : List String
  params : List (String × String)

def pairUp : List String → List (String × String)
  | a :: b :: r => (a, b) :: pairUp r
  | _ => []

def parseDistTrace (t : List String) : Option DistTrace :=
  match splitTok "P" t with
  | [fam :: n :: nums, _k :: ps] =>
    match nat? n with
    | some n => if nums.length == 2 * n then some ⟨fam, n, nums.take n, nums.drop n, pairUp ps⟩ else none
    | none => none
  | _ => none

/-- the parameters the two distributions have in common have the same values, bit for bit -/
def sameParams (a b : DistTrace) : Bool :=
  b.params.all (fun p => match a.params.lookup p.1 with
    | some v => v == p.2
    | none => true)

/-- the textual layer: the description parses (KeyvalTools model) into the family name and an
argument map; the families with a class count carry it as `n`; every plain argument is a numeral of
the strict decimal grammar -/
def distTextOk (desc : Str) (a : DistTrace) : Bool :=
  match Keyval.parseProcedure desc with
  | none => false
  | some (name, args) =>
    String.ofList name == a.family
    && (match Keyval.mapFind "n".toList args with
        | some v => v == (toString a.n).toList || a.family == "Invariant" || a.family == "Mixture"
        | none => a.family == "Invariant" || a.family == "Mixture" || a.family == "Simple" || a.family == "Constant")
    && args.all (fun kv =>
        kv.2.contains '(' || (Number.parseDecimal '.' 'e' kv.2).isSome)

/-- which option of the original distribution the description language is known not to carry
(known finding): the discretisation scheme of a Beta (`Bi`, `Bp`).  A fixed offset of a Gamma
(`Gf`) and class values that are medians (`Md`) are written since the repairs on fix-C17 and are
judged by the ordinary clauses. -/
def lostOption (op : List String) : Option String :=
  if op.contains "Bi" || op.contains "Bp" then some "dist_discretization_lost"
  else none

def distVerdict (op : List String) (impl : Option (List String)) : String :=
  -- `dist.rtp`: parameters the text cannot carry (fixed notation, 12 / stream-precision decimals)
  let stress := op.head? == some "dist.rtp"
  match impl with
  | none => "-"
  | some t =>
    match splitTok "/" t with
    | [[hdesc], ta, tb] =>
      match unhex hdesc, parseDistTrace ta with
      | some desc, some a =>
        if !distTextOk desc a then "FAIL:dist_text"
        else if tb == ["exc:bpp"] then (if stress then "FAIL:dist_precision_lost" else "FAIL:dist_reads_back")
        else match parseDistTrace tb with
          | none => "FAIL:parse"
          | some b =>
            let same := sameParams a b
            -- the parameters came back bit for bit: the classes agree to 1e-8 relative (the
            -- discretisation is not bit-reproducible across construction histories); they were
            -- rounded by the text (12 decimals, or the precision of the stream): to 1e-5
            let scale := if same then 100000000 else 100000
            let agree := a.family == b.family && a.n == b.n
              && (a.values.zip b.values).all (fun p => closeHex scale p.1 p.2)
              && (a.probs.zip b.probs).all (fun p => closeHex scale p.1 p.2)
            if agree then "ok"
            else if stress then "FAIL:dist_precision_lost"
            else match lostOption op with
              | some cl => "FAIL:" ++ cl
              | none =>
                if a.family != b.family || a.n != b.n then "FAIL:dist_family"
                else if same then "FAIL:dist_values" else "FAIL:dist_values_rounded"
      | _, _ => "FAIL:parse"
    | [["write:exc:bpp"]] => "FAIL:dist_writes"                    -- the writer raised on a distribution that exists
    | _ => "-"                                                    -- `build:exc:bpp`: the generator asked for a
                                                                  -- distribution its constructor refuses

def stepRT (s : Unit) (op : List String) (impl : Option (List String)) : Unit × String × String :=
  match op with
  | ["st.rt", hs, hd, so, al, k] =>
    match unhex hs, unhex hd, nat? k with
    | some str, some d, some k =>
      (s, stRtModel str d (so == "1") (al == "1") k, stRtVerdict str d (so == "1") (al == "1") k impl)
    | _, _, _ => (s, "bad-op", "-")
  | ["nst.rt", hs, ho, he, hd, so, k] =>
    match unhex hs, unhex ho, unhex he, unhex hd, nat? k with
    | some str, some o, some e, some d, some k =>
      (s, nstRtModel str o e d (so == "1") k, nstRtVerdict str o e d (so == "1") k impl)
    | _, _, _, _, _ => (s, "bad-op", "-")
  | "tbl.rt" :: hsep :: al :: nc :: hc :: hr :: nr :: items =>
    match unhex hsep, nat? nc, nat? nr with
    | some sep, some nCol, some nRows =>
      match (if hc == "1" then takeStrs nCol items else some ([], items)) with
      | none => (s, "bad-op", "-")
      | some (colNames, rest) =>
        match parseRows (hr == "1") nCol nRows rest with
        | none => (s, "bad-op", "-")
        | some rows =>
          let (out, v) := tblRt sep (al == "1") nCol colNames rows impl
          (s, out, v)
    | _, _, _ => (s, "bad-op", "-")
  | "dist.rt" :: _ => (s, "?", distVerdict op impl)
  | "dist.rtp" :: _ => (s, "?", distVerdict op impl)
  | _ => (s, "bad-op", "-")

def step' (s : Unit) (op : List String) (impl : Option (List String)) : Unit × String × String :=
  match op with
  | "st.rt" :: _ => stepRT s op impl
  | "nst.rt" :: _ => stepRT s op impl
  | "tbl.rt" :: _ => stepRT s op impl
  | "dist.rt" :: _ => stepRT s op impl
  | "dist.rtp" :: _ => stepRT s op impl
  | _ => step s op impl

def machine : Machine Unit := { init := fun _ => (), step := step' }

end Bpp.Drive.C17
