/-
Model of src/Bpp/Numeric/Range.h (Range<T>, RangeSet<T>, MultiRange<T>) with
integer coordinates.  Transcription of the code that exists: in particular
`sliceWith` resets a non-overlapping range to [0,0[ and `lt` is the source's
`operator<` (begin < r.begin || end < r.end), which is not an order in general.
-/
namespace Bpp

structure Range where
  b : Int
  e : Int
deriving DecidableEq, Repr, Inhabited

namespace Range

/-- `Range(a,b)`: normalising constructor (Range.h:46). -/
def make (a b : Int) : Range := ⟨min a b, max a b⟩

/-- `operator<` (Range.h:73). -/
def lt (x r : Range) : Bool := decide (x.b < r.b) || decide (x.e < r.e)

def shift (x : Range) (v : Int) : Range := ⟨x.b + v, x.e + v⟩
def unshift (x : Range) (v : Int) : Range := ⟨x.b - v, x.e - v⟩
def length (x : Range) : Int := x.e - x.b

def overlap (x r : Range) : Bool := decide (r.b < x.e) && decide (r.e > x.b)
def isContiguous (x r : Range) : Bool := decide (r.b = x.e) || decide (r.e = x.b)
def contains (x r : Range) : Bool := decide (r.b ≥ x.b) && decide (r.e ≤ x.e)
def isEmpty (x : Range) : Bool := decide (x.b = x.e)

/-- `expandWith` (Range.h:140). -/
def expandWith (x r : Range) : Range :=
  let b := if r.b < x.b ∧ r.e ≥ x.b then r.b else x.b
  let e := if r.e > x.e ∧ r.b ≤ x.e then r.e else x.e
  ⟨b, e⟩

/-- `sliceWith` (Range.h:154); the second test reads the already updated begin. -/
def sliceWith (x r : Range) : Range :=
  if x.overlap r then
    let b := if r.b > x.b ∧ r.b ≤ x.e then r.b else x.b
    let e := if r.e < x.e ∧ r.e ≥ b then r.e else x.e
    ⟨b, e⟩
  else ⟨0, 0⟩

end Range

/-! ### RangeSet -/
namespace RangeSet
def addRange (s : List Range) (r : Range) : List Range :=
  if r.isEmpty then s else s ++ [r]
def restrictTo (s : List Range) (r : Range) : List Range :=
  (s.map (·.sliceWith r)).filter (fun x => !x.isEmpty)
def filterWithin (s : List Range) (r : Range) : List Range :=
  s.filter (fun x => r.contains x)
def totalLength (s : List Range) : Int := (s.map Range.length).sum
end RangeSet

/-! ### MultiRange -/
namespace MultiRange

/-- insertion of `x` into a list sorted for the source comparator. -/
def insertBy (lt : Range → Range → Bool) (x : Range) : List Range → List Range
  | [] => [x]
  | y :: ys => if lt x y then x :: y :: ys else y :: insertBy lt x ys

/-- Stand-in for `std::sort(ranges_.begin(), ranges_.end(), rangeComp_)`:
insertion sort with the source comparator. -/
def sortBy (lt : Range → Range → Bool) : List Range → List Range
  | [] => []
  | x :: xs => insertBy lt x (sortBy lt xs)

/-- `clean_` (Range.h:530): sort, then drop the empty ranges. -/
def clean (m : List Range) : List Range :=
  (sortBy Range.lt m).filter (fun x => !x.isEmpty)

/-- The merge loop of `addRange`: the first overlapping range is expanded with
`r`, then with the other overlapping ranges from the last to the second, which
are erased. `acc` is `none` until the first overlapping range has been met. -/
def mergeInto (r : Range) : List Range → Option (Range × List Range)
  | [] => none
  | x :: xs =>
    if x.overlap r then
      -- x is the first overlapping range
      let others := xs.filter (fun y => y.overlap r)
      let rest := xs.filter (fun y => !y.overlap r)
      let merged := others.reverse.foldl Range.expandWith (x.expandWith r)
      some (merged, merged :: rest)
    else
      match mergeInto r xs with
      | none => none
      | some (mg, l) => some (mg, x :: l)

/-- `addRange` (Range.h:405). -/
def addRange (m : List Range) (r : Range) : List Range :=
  match mergeInto r m with
  | none => clean (m ++ [r])
  | some (_, l) => clean l

/-- `restrictTo` (Range.h:436). -/
def restrictTo (m : List Range) (r : Range) : List Range :=
  clean (m.map (·.sliceWith r))

/-- `filterWithin` (Range.h:445). -/
def filterWithin (m : List Range) (r : Range) : List Range :=
  m.filter (fun x => r.contains x)

def totalLength (m : List Range) : Int := (m.map Range.length).sum

def getBounds (m : List Range) : List Int := m.flatMap (fun x => [x.b, x.e])

end MultiRange
end Bpp
