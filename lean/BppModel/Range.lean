/-
Model of src/Bpp/Numeric/Range.h (Range<T>, RangeCollection<T>, RangeSet<T>, MultiRange<T>),
generic in the coordinate type.  What the code uses of `T` is a decidable order (`<`, `<=`,
`==`), `std::min` / `std::max` (constructor), the literal `0` (default arguments and the reset
of `sliceWith`), `+` / `-` (shifts and `length()`), the conversion of a length into the `size_t`
accumulator of `totalLength()` and `operator<<` (`toString`).  The first group is taken from the
ordinary Lean classes, so that the model instantiates at

  * `Int`     for `int`      (no overflow inside the property's universe: theorems
                              `endpoints_closed` / `int_no_overflow` in `Props/C20Inst.lean`),
  * `UInt32`  for `unsigned` (arithmetic modulo 2^32, as the C++ standard prescribes: every
                              subtraction of the header wraps exactly like `UInt32.sub`),
  * `Rat`     for `double`   (exact on the dyadic values that are generated; rounding is not
                              modelled).

Transcription of the code that exists: in particular `sliceWith` resets a non-overlapping range
to [0,0[ and `lt` is the source's `operator<` (begin < r.begin || end < r.end), which is not an
order in general.
-/
namespace Bpp

/-- `Range<T>`: the two private members `begin_`, `end_` (Range.h:30-31). -/
structure Range (α : Type) where
  b : α
  e : α
deriving DecidableEq, Repr, Inhabited

/-- the two type-specific conversions of the header -/
class CoordIO (α : Type) where
  /-- `tot += it->length()` on a `size_t tot` (Range.h:360, 525): the usual arithmetic
  conversions of the compound assignment, for each coordinate type -/
  accLen : Nat → α → Nat
  /-- `TextTools::toString(T)` = `std::ostringstream << t` (TextTools.h:115) -/
  render : α → String

namespace Range
section
variable {α : Type}

/-- `Range(a,b)`: normalising constructor (Range.h:46-49). -/
def make [Min α] [Max α] (a b : α) : Range α := ⟨min a b, max a b⟩

/-- `Range()`: both default arguments are `0` (Range.h:46). -/
def default [Min α] [Max α] [OfNat α 0] : Range α := make 0 0

/-- `Range(a)`: second default argument `0` (Range.h:46). -/
def make1 [Min α] [Max α] [OfNat α 0] (a : α) : Range α := make a 0

/-- copy constructor / `operator=` / `clone()` (Range.h:51-60): member-wise copy. -/
def clone (x : Range α) : Range α := ⟨x.b, x.e⟩

/-- `operator==` (Range.h:65). -/
def eq [DecidableEq α] (x r : Range α) : Bool := decide (x.b = r.b) && decide (x.e = r.e)
/-- `operator!=` (Range.h:69). -/
def ne [DecidableEq α] (x r : Range α) : Bool := decide (x.b ≠ r.b) || decide (x.e ≠ r.e)
/-- `operator<` (Range.h:73). -/
def lt [LT α] [DecidableLT α] (x r : Range α) : Bool := decide (x.b < r.b) || decide (x.e < r.e)

/-- `operator+=`, `operator+` (Range.h:77-86). -/
def shift [Add α] (x : Range α) (v : α) : Range α := ⟨x.b + v, x.e + v⟩
/-- `operator-=`, `operator-` (Range.h:87-96). -/
def unshift [Sub α] (x : Range α) (v : α) : Range α := ⟨x.b - v, x.e - v⟩
/-- `length()` (Range.h:102). -/
def length [Sub α] (x : Range α) : α := x.e - x.b

/-- `overlap` (Range.h:110): `r.begin_ < end_ && r.end_ > begin_`. -/
def overlap [LT α] [DecidableLT α] (x r : Range α) : Bool := decide (r.b < x.e) && decide (x.b < r.e)
/-- `isContiguous` (Range.h:120). -/
def isContiguous [DecidableEq α] (x r : Range α) : Bool := decide (r.b = x.e) || decide (r.e = x.b)
/-- `contains` (Range.h:129): `r.begin_ >= begin_ && r.end_ <= end_`. -/
def contains [LE α] [DecidableLE α] (x r : Range α) : Bool := decide (x.b ≤ r.b) && decide (r.e ≤ x.e)
/-- `isEmpty` (Range.h:171). -/
def isEmpty [DecidableEq α] (x : Range α) : Bool := decide (x.b = x.e)

/-- `expandWith` (Range.h:140-143); the second test reads `end_`, which the first assignment
does not touch. -/
def expandWith [LT α] [LE α] [DecidableLT α] [DecidableLE α] (x r : Range α) : Range α :=
  let b := if r.b < x.b ∧ x.b ≤ r.e then r.b else x.b
  let e := if x.e < r.e ∧ r.b ≤ x.e then r.e else x.e
  ⟨b, e⟩

/-- `sliceWith` (Range.h:154-165); the second test reads the already updated begin. -/
def sliceWith [LT α] [LE α] [DecidableLT α] [DecidableLE α] [OfNat α 0] (x r : Range α) : Range α :=
  if x.overlap r then
    let b := if x.b < r.b ∧ r.b ≤ x.e then r.b else x.b
    let e := if r.e < x.e ∧ b ≤ r.e then r.e else x.e
    ⟨b, e⟩
  else ⟨0, 0⟩

/-- `toString` (Range.h:178). -/
def toString [CoordIO α] (x : Range α) : String :=
  "[" ++ CoordIO.render x.b ++ "," ++ CoordIO.render x.e ++ "["

end
end Range

/-! ### RangeCollection: what both collections implement the same way
(`toString`, `isEmpty`, `size`, `totalLength`, `getRange`, `clear`, copy / assignment) -/
namespace RangeCollection
section
variable {α : Type}

/-- `toString` (Range.h:337-346, 488-497). -/
def toString [CoordIO α] (s : List (Range α)) : String :=
  "{ " ++ String.join (s.map (fun x => x.toString ++ " ")) ++ "}"

/-- `isEmpty` (Range.h:348, 516). -/
def isEmpty (s : List (Range α)) : Bool := s.length == 0
/-- `size` (Range.h:350, 518). -/
def size (s : List (Range α)) : Nat := s.length

/-- `totalLength` (Range.h:355-363, 520-528): a `size_t` accumulator. -/
def totalLength [Sub α] [CoordIO α] (s : List (Range α)) : Nat :=
  s.foldl (fun tot x => CoordIO.accLen tot x.length) 0

/-- `getRange(i)` (Range.h:365, 530): `*ranges_[i]`; out of range is undefined behaviour of
`std::vector::operator[]`, modelled as `none` (never a made-up range). -/
def getRange? (s : List (Range α)) (i : Nat) : Option (Range α) := s[i]?

/-- `clear` (Range.h:374, 532). -/
def clear (_ : List (Range α)) : List (Range α) := []

/-- copy constructor (Range.h:271-277, 402-408): a clone of every element, in order. -/
def copy (src : List (Range α)) : List (Range α) := src.map Range.clone
/-- `operator=` (Range.h:279-289, 410-420): self-assignment (`this == &set`) leaves the object
alone — the guard was added by the round-2 repair, the unguarded code emptied the object —
otherwise the target is emptied and receives a clone of every element, in order. -/
def assign (self : Bool) (tgt src : List (Range α)) : List (Range α) :=
  if self then tgt else clear tgt ++ src.map Range.clone

end
end RangeCollection

/-! ### RangeSet (a `std::vector` of owned ranges, insertion order; no comparator is used) -/
namespace RangeSet
section
variable {α : Type} [LE α] [LT α] [DecidableLE α] [DecidableLT α] [DecidableEq α] [OfNat α 0]
/-- `addRange` (Range.h:296-300). -/
def addRange (s : List (Range α)) (r : Range α) : List (Range α) :=
  if r.isEmpty then s else s ++ [r.clone]
/-- `restrictTo` (Range.h:302-318). -/
def restrictTo (s : List (Range α)) (r : Range α) : List (Range α) :=
  (s.map (·.sliceWith r)).filter (fun x => !x.isEmpty)
/-- `filterWithin` (Range.h:320-335). -/
def filterWithin (s : List (Range α)) (r : Range α) : List (Range α) :=
  s.filter (fun x => r.contains x)
end
def totalLength {α : Type} [Sub α] [CoordIO α] (s : List (Range α)) : Nat :=
  RangeCollection.totalLength s
end RangeSet

/-! ### MultiRange -/
namespace MultiRange
section
variable {α : Type}

/-- insertion of `x` into a list sorted for the source comparator. -/
def insertBy (lt : Range α → Range α → Bool) (x : Range α) : List (Range α) → List (Range α)
  | [] => [x]
  | y :: ys => if lt x y then x :: y :: ys else y :: insertBy lt x ys

/-- Stand-in for `std::sort(ranges_.begin(), ranges_.end(), rangeComp_)` (Range.h:557):
insertion sort with the source comparator. -/
def sortBy (lt : Range α → Range α → Bool) : List (Range α) → List (Range α)
  | [] => []
  | x :: xs => insertBy lt x (sortBy lt xs)

variable [LE α] [LT α] [DecidableLE α] [DecidableLT α] [DecidableEq α] [OfNat α 0]

/-- `clean_` (Range.h:538-558): drop the empty ranges, then sort.  (Round-2 audit repair: the code
used to sort first; the comparator is a strict weak order only on the non-empty pairwise disjoint
ranges, and `std::sort` with the `[0,0[` left by `sliceWith` next to a range straddling 0 was
undefined behaviour — a crash with 17 or more elements.) -/
def clean (m : List (Range α)) : List (Range α) :=
  sortBy Range.lt (m.filter (fun x => !x.isEmpty))

/-- The merge loop of `addRange`: the first overlapping range is expanded with
`r`, then with the other overlapping ranges from the last to the second, which
are erased. The result is `none` when no stored range overlaps. -/
def mergeInto (r : Range α) : List (Range α) → Option (Range α × List (Range α))
  | [] => none
  | x :: xs =>
    if x.overlap r then
      -- x is the first overlapping range
      let others := xs.filter (fun y => y.overlap r)
      let rest := xs.filter (fun y => !y.overlap r)
      let merged := others.reverse.foldl Range.expandWith (x.expandWith r)
      some (merged, merged :: rest)
    else
      match mergeInto r xs with
      | none => none
      | some (mg, l) => some (mg, x :: l)

/-- `addRange` (Range.h:427-457). -/
def addRange (m : List (Range α)) (r : Range α) : List (Range α) :=
  match mergeInto r m with
  | none => clean (m ++ [r.clone])
  | some (_, l) => clean l

/-- `restrictTo` (Range.h:459-466). -/
def restrictTo (m : List (Range α)) (r : Range α) : List (Range α) :=
  clean (m.map (·.sliceWith r))

/-- `filterWithin` (Range.h:468-483). -/
def filterWithin (m : List (Range α)) (r : Range α) : List (Range α) :=
  m.filter (fun x => r.contains x)

end

def totalLength {α : Type} [Sub α] [CoordIO α] (m : List (Range α)) : Nat :=
  RangeCollection.totalLength m

/-- `getBounds` (Range.h:502-511). -/
def getBounds {α : Type} (m : List (Range α)) : List α := m.flatMap (fun x => [x.b, x.e])

end MultiRange

/-! ### the three instantiations -/

/-- `int`: `tot += len` converts `len` to `size_t` (modulo 2^64) and adds modulo 2^64;
`operator<<` prints the decimal numeral. -/
instance : CoordIO Int where
  accLen tot len := (((tot : Int) + len) % (2 ^ 64 : Int)).toNat
  render := toString

/-- `unsigned`: zero-extension, addition modulo 2^64. -/
instance : CoordIO UInt32 where
  accLen tot len := (tot + len.toNat) % 2 ^ 64
  render x := toString x.toNat

/-- decimal expansion of a non-negative rational with at most `fuel` fractional digits, trailing
zeros dropped: what `operator<<(double)` prints at the default precision 6 for the dyadic values
of at most 6 significant digits that are generated. -/
def renderFrac (fuel : Nat) (num den : Nat) : String :=
  match fuel with
  | 0 => ""
  | fuel + 1 =>
    if num == 0 then "" else
      let d := num * 10 / den
      toString d ++ renderFrac fuel (num * 10 % den) den

/-- `double`: `tot += len` is `tot = (size_t)((double)tot + len)`, which truncates after every
addition; a negative or huge sum is undefined behaviour (not reachable: lengths of stored ranges
are positive — `Props/C20.lean`), rendered by `Int.toNat`. -/
instance : CoordIO Rat where
  accLen tot len := (((tot : Rat) + len).floor).toNat
  render x :=
    let neg := decide (x < 0)
    let a := if neg then -x else x
    let ip := a.floor.toNat
    let fr := renderFrac 6 (a.num.toNat - ip * a.den) a.den
    (if neg then "-" else "") ++ toString ip ++ (if fr == "" then "" else "." ++ fr)

end Bpp
