import BppModel.Interval
import BppModel.Text.Number
/-
Model of `IntervalConstraint::getDescription` / `readDescription`
(src/Bpp/Numeric/Constraints.h:234-272) on characters, with the number syntax of
`TextTools::isDecimalNumber` / `toDouble` (src/Bpp/Text/TextTools.cpp:135-222).

Numbers: `isDecimalNumber` (the repaired one, with the digit counter) is transcribed in full: it
decides whether `toDouble` raises.  The *value* of an accepted number text is its exact decimal
value — for plain decimals `-?d+(.d+)?` computed here, for every other accepted text (`.5`, `1.`,
`1e2`, `25e-1` …) by C17's model of the stream extraction (`Bpp.Text.Number.streamDouble`) —
whenever that value is a double (dyadic, 53-bit numerator); a text whose value is not a double
(`0.1`, `1e-3`: the result is libc's rounding) is the explicit outcome `unmodelled`, never a
made-up value.  The decimal rendering of a double (`ostream << double`, 6 significant digits) is
modelled for the doubles printed exactly and without exponent.
-/
namespace Bpp.Describe

inductive NumParse (α : Type) where
  | ok (x : α)
  /-- `toDouble` raises -/
  | reject
  /-- accepted by `isDecimalNumber`, but outside the strict subset whose value is modelled -/
  | unmodelled
deriving Repr, DecidableEq

/-- text form of the scalars of one interpretation -/
class NumText (α : Type) where
  /-- `TextTools::toString(double)` where modelled -/
  renderNum? : α → Option (List Char)
  /-- `TextTools::toDouble` -/
  parseNum : List Char → NumParse α

/-- `std::isspace` in the C locale -/
def isSpace (c : Char) : Bool :=
  c == ' ' || c == '\t' || c == '\n' || c == '\x0b' || c == '\x0c' || c == '\r'

/-- `std::isdigit` -/
def isDigit (c : Char) : Bool := c.isDigit

/-- `TextTools::removeSurroundingWhiteSpaces` -/
def trim (l : List Char) : List Char :=
  ((l.dropWhile isSpace).reverse.dropWhile isSpace).reverse

/-- the loop of `TextTools::isDecimalNumber(s, '.', 'e')` (TextTools.cpp:146-173, as repaired by
"isDecimalNumber/isDecimalInteger require at least one mantissa digit") on the characters not yet
visited (`i == s.size() - 1` in the source = "no character follows"); `sep`, `sci`, `dig` are
`sepCount`, `sciCount`, `digitCount`.  The same loop as `Bpp.Text.Number.decLoop '.' 'e'` (C17's
transcription): `isDecimalNumber_eq_number` (BppProofs/Lemmas/DescribeRat.lean). -/
def isDecLoop : List Char → (sep sci dig : Nat) → Bool
  | [], _, _, dig => decide (0 < dig)                 -- :173 a sign, a separator or an exponent alone is not a number
  | c :: rest, sep, sci, dig =>
    if c == '.' then
      if sep + 1 > 1 || sci > 1 then false else isDecLoop rest (sep + 1) sci dig
    else if c == 'e' then
      if dig == 0 then false else                     -- :154 at least one digit before the `e`
      match rest with
      | [] => false                                   -- must be something after the `e`
      | c' :: rest' =>
        -- `if (sepCount == 0) sepCount = 1`: no separator in the exponent
        if c' == '-' || c' == '+' then
          -- the sign is skipped; it must not be the last character
          match rest' with
          | [] => false
          | _ :: _ =>
            if (if sep == 0 then 1 else sep) > 1 || sci + 1 > 1 then false
            else isDecLoop rest' (if sep == 0 then 1 else sep) (sci + 1) dig
        else
          if (if sep == 0 then 1 else sep) > 1 || sci + 1 > 1 then false
          else isDecLoop (c' :: rest') (if sep == 0 then 1 else sep) (sci + 1) dig
    else if !isDigit c then false
    else if sep > 1 || sci > 1 then false else isDecLoop rest sep sci (dig + 1)

/-- `TextTools::isDecimalNumber(s)` (TextTools.cpp:135) -/
def isDecimalNumber (l : List Char) : Bool :=
  if l.all isSpace then false else
  match l with
  | '-' :: r => isDecLoop r 0 0 0
  | r => isDecLoop r 0 0 0

/-- the value of a string of decimal digits -/
def natOfDigits (l : List Char) : Nat := Nat.ofDigitChars 10 l 0

/-- the strict subset: `-?d+` or `-?d+.d+`; gives sign, integer digits, fraction digits -/
def strictSplit (l : List Char) : Option (Bool × List Char × List Char) :=
  let (neg, body) := match l with
    | '-' :: r => (true, r)
    | r => (false, r)
  let ip := body.takeWhile isDigit
  let rest := body.dropWhile isDigit
  if ip.isEmpty then none else
  match rest with
  | [] => some (neg, ip, [])
  | '.' :: fp => if !fp.isEmpty && fp.all isDigit then some (neg, ip, fp) else none
  | _ => none

def isPow2 (n : Nat) : Bool := n != 0 && (n &&& (n - 1)) == 0

/-- `q` is (exactly) a double: dyadic with a 53-bit numerator (exponent range not an issue for
the magnitudes a description can carry here) -/
def isDouble (q : Rat) : Bool := isPow2 q.den && q.num.natAbs < 2 ^ 53 && q.den ≤ 2 ^ 1000

def parseRat (l : List Char) : NumParse Rat :=
  if !isDecimalNumber l then .reject else
  match strictSplit l with
  | none =>
    -- any other accepted text: the exact value read by `istringstream >> double` (C17's model)
    let q := Bpp.Text.Number.streamDouble l
    if isDouble q then .ok q else .unmodelled
  | some (neg, ip, fp) =>
    let a : Rat := (natOfDigits ip : Rat) + (natOfDigits fp : Rat) / ((10 ^ fp.length : Nat) : Rat)
    let q := if neg then -a else a
    if isDouble q then .ok q else .unmodelled

def padLeft (n : Nat) (l : List Char) : List Char := List.replicate (n - l.length) '0' ++ l

/-- the decimal digits of `n` as written by `ostream << n` -/
def D (n : Nat) : List Char := (toString n).toList

/-- a number text: optional `-`, digits, optionally `.` and digits -/
def numText (neg : Bool) (ip fp : List Char) : List Char :=
  (if neg then ['-'] else []) ++ ip ++ (if fp.isEmpty then [] else '.' :: fp)

/-- rendering of `±a` for `a ≥ 0` -/
def renderAbs? (neg : Bool) (a : Rat) : Option (List Char) :=
  if a == 0 then some ['0']
  else if a ≥ 1000000 || a < 1 / 10000 then none
  else
    -- the least number `j` of decimals with which `a` is written exactly
    match (List.range 11).find? (fun j => (a * ((10 ^ j : Nat) : Rat)).den == 1) with
    | none => none
    | some j =>
      let m := (a * ((10 ^ j : Nat) : Rat)).num.toNat      -- all the digits
      if j == 0 then some (numText neg (D m) [])
      else if (D m).length > 6 then none                  -- more than 6 significant digits
      else some (numText neg (D (m / 10 ^ j)) (padLeft j (D (m % 10 ^ j))))

/-- `ostream << double` (`%g`, 6 significant digits) for the doubles it prints exactly and
without exponent: at most 6 significant digits, `1e-4 ≤ |q| < 1e6`, or 0 -/
def renderRat? (q : Rat) : Option (List Char) :=
  renderAbs? (decide (q < 0)) (if q < 0 then -q else q)

instance : NumText Rat := ⟨renderRat?, parseRat⟩
/-- at `Float` the text form is not modelled -/
instance : NumText Float := ⟨fun _ => none, fun l => if isDecimalNumber l then .unmodelled else .reject⟩

section
variable {α : Type} [Scalar α] [NumText α]

/-- `finiteLowerBound() ? toString(lowerBound_) : "-inf"` -/
def renderLo? : Bound α → Option (List Char)
  | .negInf => some "-inf".toList
  | .fin x => NumText.renderNum? x
  | .posInf => some "inf".toList          -- `ostream << +inf`
/-- `finiteUpperBound() ? toString(upperBound_) : "+inf"` -/
def renderHi? : Bound α → Option (List Char)
  | .posInf => some "+inf".toList
  | .fin x => NumText.renderNum? x
  | .negInf => some "-inf".toList         -- `ostream << -inf`

/-- `getDescription()` (Constraints.h:234); `none` = a bound whose rendering is not modelled -/
def render? (c : Interval α) : Option (List Char) :=
  match renderLo? c.lo, renderHi? c.hi with
  | some l, some h =>
    some ((if c.inclLo then "[ ".toList else "]".toList) ++ l ++ "; ".toList ++ h ++
          (if c.inclHi then "] ".toList else "[".toList))
  | _, _ => none

/-- `std::string::find(";")` -/
def findSemi (l : List Char) : Option Nat := l.findIdx? (· == ';')
/-- `find_first_of("[]", 1)` -/
def findBracket1 (l : List Char) : Option Nat :=
  ((l.drop 1).findIdx? (fun c => c == '[' || c == ']')).map (· + 1)

inductive ReadOut (α : Type) where
  /-- the object after the call; `raised` = a `bpp::Exception` left the call (the object may be
  partially updated: flags, then the lower bound, are written before the upper bound is parsed) -/
  | done (state : Interval α) (raised : Bool)
  | unmodelled
deriving Repr

/-- the second half of `readDescription`: the flags are written, then the lower bound text `deb`
is interpreted and written, then the upper bound text `fin` (Constraints.h:265-270) -/
def readCore (c : Interval α) (il iu : Bool) (deb fin : List Char) : ReadOut α :=
  let c1 := { c with inclLo := il, inclHi := iu }
  let lo : NumParse (Bound α) :=
    if deb == "-inf".toList then .ok .negInf else
    match (NumText.parseNum deb : NumParse α) with
    | .ok x => .ok (.fin x)
    | .reject => .reject
    | .unmodelled => .unmodelled
  match lo with
  | .unmodelled => .unmodelled
  | .reject => .done c1 true
  | .ok lo =>
    let c2 := { c1 with lo := lo }
    if fin == "+inf".toList || fin == "inf".toList then .done { c2 with hi := .posInf } false else
    match (NumText.parseNum fin : NumParse α) with
    | .ok x => .done { c2 with hi := .fin x } false
    | .reject => .done c2 true
    | .unmodelled => .unmodelled

/-- `readDescription(desc)` (Constraints.h:251), repaired: blanks around the two bound texts are
dropped (`removeSurroundingWhiteSpaces`) before they are interpreted -/
def readDescription (c : Interval α) (desc : List Char) : ReadOut α :=
  match findSemi desc, findBracket1 desc with
  | some pdp, some dc =>
    if (desc.head? != some ']' && desc.head? != some '[') || pdp ≥ dc then .done c true else
    let deb := trim ((desc.drop 1).take (pdp - 1))
    let fin := trim ((desc.drop (pdp + 1)).take (dc - pdp - 1))
    readCore c (desc.head? == some '[') ((desc.drop dc).head? == some ']') deb fin
  | _, _ => .done c true

/-- a number text `toDouble` accepts whose exact decimal value no double can stand for: at least
`2^1024` in magnitude (the stream extraction stores `±DBL_MAX` and sets a fail bit that
`TextTools::fromString` ignores) or non-zero and below `2^-1075` (stored as 0).  Exponents of more
than four digits are not evaluated here. -/
def outOfRangeText (t : List Char) : Bool :=
  if !isDecimalNumber t || t.length > 40 then false else
  let ex := (t.dropWhile (· != 'e')).drop 1
  if ex.length > 5 then false else
  let q := Bpp.Text.Number.streamDouble t
  let a := if q < 0 then -q else q
  decide (a ≥ ((2 ^ 1024 : Nat) : Rat)) || (decide (a ≠ 0) && decide (a < 1 / ((2 ^ 1075 : Nat) : Rat)))

/-- one of the two bound texts of a well-formed description is such a numeral -/
def descOutOfRange (desc : List Char) : Bool :=
  match findSemi desc, findBracket1 desc with
  | some pdp, some dc =>
    if (desc.head? != some ']' && desc.head? != some '[') || pdp ≥ dc then false else
    outOfRangeText (trim ((desc.drop 1).take (pdp - 1))) || outOfRangeText (trim ((desc.drop (pdp + 1)).take (dc - pdp - 1)))
  | _, _ => false

namespace Legacy
/-- `readDescription` as found: the texts between the delimiters reach `toDouble` with their blanks -/
def readDescription (c : Interval α) (desc : List Char) : ReadOut α :=
  match findSemi desc, findBracket1 desc with
  | some pdp, some dc =>
    if (desc.head? != some ']' && desc.head? != some '[') || pdp ≥ dc then .done c true else
    let deb := (desc.drop 1).take (pdp - 1)
    let fin := (desc.drop (pdp + 1)).take (dc - pdp - 1)
    readCore c (desc.head? == some '[') ((desc.drop dc).head? == some ']') deb fin
  | _, _ => .done c true
end Legacy

end

/-! hex-escaped strings of the line protocol (`-` = empty) -/
def hexDigitVal (c : Char) : Nat :=
  if '0' ≤ c ∧ c ≤ '9' then c.toNat - '0'.toNat else if 'a' ≤ c ∧ c ≤ 'f' then c.toNat - 'a'.toNat + 10 else 0
def hexToChars (s : String) : List Char :=
  if s == "-" then [] else
  let rec go : List Char → List Char
    | a :: b :: r => Char.ofNat (hexDigitVal a * 16 + hexDigitVal b) :: go r
    | _ => []
  go s.toList
def charsToHex (l : List Char) : String :=
  if l.isEmpty then "-" else
  String.ofList (l.flatMap (fun c => [Hex.hexDigit (c.toNat / 16), Hex.hexDigit (c.toNat % 16)]))

end Bpp.Describe
