import BppModel.Tree
import BppModel.Observer
/-
Model of the object-level wrappers of src/Bpp/Graph/AssociationTreeGraphImplObserver.h
(`AssociationTreeGlobalGraphObserver<N, E>`): the tree container of `BppModel/Tree.lean` watched by
the observers of `BppModel/Observer.lean`.  A `TW` is a `World` (graph + observers) plus the cached
validity flag of the tree container; graph-level mutations deliver `notifyDeletedEdges/Nodes` to
every observer (`World.graphOp`).
Line numbers: the library worktree with its `fix:` commits.
-/
namespace Bpp.Graph

structure TW where
  w : World
  /-- `isValid_` of the TreeGraphImpl -/
  valid : Bool := false
deriving DecidableEq, Repr

namespace TW

def init (rooted : Bool) : TW := { w := World.init rooted }

/-- the tree container inside -/
def toT (tw : TW) : T := { g := tw.w.g, valid := tw.valid }

/-- a graph-level mutator: notifications are delivered, the flag is reset when a primitive ran -/
def liftW {α : Type} (tw : TW) (r : GOut α) : GOut α × TW :=
  let p := tw.w.graphOp r
  (p.1, { w := p.2, valid := match r with
                             | .ok _ _ => false
                             | .exc g' => if g' = tw.w.g then tw.valid else false })

def unit {α : Type} (r : GOut α × TW) : GOut Unit × TW := (r.1.forget, r.2)

def andThen {α β : Type} (r : GOut α × TW) (f : α → TW → GOut β × TW) : GOut β × TW :=
  match r.1 with
  | .ok a _ => f a r.2
  | .exc g => (.exc g, r.2)

def touch (r : GOut Unit × TW) : GOut Unit × TW :=
  match r.1 with
  | .ok _ _ => (r.1, { r.2 with valid := false })
  | .exc _ => r

/-- `TreeGraphImpl::setFather(node, father)` (TreeGraphImpl.h:410) with the observers told -/
def setFatherG (tw : TW) (n f : Nat) : GOut Unit × TW :=
  if !tw.w.g.hasNode f then (.exc tw.w.g, tw) else
  match T.hasFather tw.w.g n with
  | none => (.exc tw.w.g, tw)
  | some hf =>
    let step1 : GOut Unit × TW :=
      if hf then
        match T.father tw.w.g n with
        | none => (.exc tw.w.g, tw)
        | some old => unit (tw.liftW (tw.w.g.unlink old n))
      else (.ok () tw.w.g, tw)
    touch (andThen step1 (fun _ t1 => unit (t1.liftW (t1.w.g.link f n))))

/-- `TreeGraphImpl::addSon(node, son)` (TreeGraphImpl.h:433) -/
def addSonG (tw : TW) (n s : Nat) : GOut Unit × TW := touch (unit (tw.liftW (tw.w.g.link n s)))

/-- result of an object-level call -/
inductive WRes where
  | ok
  | exc (k : Kind)
  | ub
deriving DecidableEq, Repr

def ofG (r : GOut Unit × TW) : WRes × TW :=
  match r.1 with
  | .ok _ _ => (.ok, r.2)
  | .exc _ => (.exc .bpp, r.2)

/-- an operation of the base observer (`World.*`): the flag is reset when the graph was touched
(every such operation that changes the graph runs a primitive) -/
def ofO (tw : TW) (r : OOut Unit) (touched : Bool) : WRes × TW :=
  match r with
  | .ok _ w' => (.ok, { w := w', valid := if touched then false else tw.valid })
  | .exc k w' => (.exc k, { w := w', valid := if w'.g = tw.w.g then tw.valid else false })
  | .ub => (.ub, tw)

def createNode (tw : TW) (k : Nat) (a : Obj) : WRes × TW := tw.ofO (tw.w.createNode k a) true
def link (tw : TW) (k : Nat) (a b : Obj) (x : Option Obj) : WRes × TW := tw.ofO (tw.w.link k a b x) true
def unlink (tw : TW) (k : Nat) (a b : Obj) : WRes × TW := tw.ofO (tw.w.unlink k a b) true
def deleteNode (tw : TW) (k : Nat) (a : Obj) : WRes × TW := tw.ofO (tw.w.deleteNode k a) true

/-- `addSon(nodeObject, sonObject, edgeObject)` (:300): with an edge object the branch is created
through the observer's `link`, which attaches the object -/
def addSon (tw : TW) (k : Nat) (a s : Obj) (x : Option Obj) : WRes × TW :=
  match x with
  | some _ => tw.link k a s x
  | none =>
    match tw.w.getObs k with
    | none => (.ub, tw)
    | some o =>
      match AL.find a o.Ng, AL.find s o.Ng with
      | some ia, some is => ofG (tw.addSonG ia is)
      | _, _ => (.exc .bpp, tw)

/-- `setFather(nodeObject, fatherObject, edgeObject)` (:272) -/
def setFather (tw : TW) (k : Nat) (a f : Obj) (x : Option Obj) : WRes × TW :=
  match tw.w.getObs k with
  | none => (.ub, tw)
  | some o =>
    match AL.find a o.Ng, AL.find f o.Ng with
    | some ia, some ifa =>
      match x with
      | none => ofG (tw.setFatherG ia ifa)
      | some x =>
        -- the object may be the one of the branch to the current father, not of another branch
        let refused : Option Bool :=
          match AL.find x o.Eg with
          | none => some false
          | some ex =>
            match T.hasFather tw.w.g ia with
            | none => none
            | some false => some true
            | some true =>
              match T.edgeToFather tw.w.g ia with
              | none => none
              | some ef => some (decide (ef ≠ ex))
        match refused with
        | none => (.exc .bpp, tw)
        | some true => (.exc .bpp, tw)
        | some false =>
          match ofG (tw.setFatherG ia ifa) with
          | (.ok, tw1) =>
            -- `associateEdge(edgeObject, getGraph()->getEdge(father, node))`
            match tw1.w.g.getEdge ifa ia, tw1.w.getObs k with
            | some e, some o1 =>
              match World.associateEdge tw1.w.g o1 x e with
              | .ok o2 => (.ok, { tw1 with w := tw1.w.setObs k o2 })
              | .error kd => (.exc kd, tw1)
            | none, _ => (.exc .bpp, tw1)
            | _, none => (.ub, tw1)
          | r => r
    | _, _ => (.exc .bpp, tw)

/-- `rootAt(nodeObject)` (:124): no notification is involved -/
def rootAt (tw : TW) (k : Nat) (a : Obj) : TRes (WRes × TW) :=
  match tw.w.getObs k with
  | none => .ok (.ub, tw)
  | some o =>
    match AL.find a o.Ng with
    | none => .ok (.exc .bpp, tw)
    | some ia =>
      match tw.toT.rootAt ia with
      | .ok r =>
        .ok ((match r.1 with | .ok _ _ => WRes.ok | .exc _ => WRes.exc .bpp), { w := { tw.w with g := r.2.g }, valid := r.2.valid })
      | .exc => .exc
      | .fuel => .fuel
      | .ub => .ub

/-- `isValid()` (:99) -/
def isValid (tw : TW) : TRes Bool × TW :=
  let r := tw.toT.isValid
  (r.1, { tw with valid := r.2.valid })

/-! ### queries through objects -/

/-- `getEdgeToFather(nodeObject)` (:109): `none` = throws, `some none` = the branch has no object -/
def edgeToFather (tw : TW) (o : Obs) (a : Obj) : Option (Option Obj) :=
  match AL.find a o.Ng with
  | none => none
  | some ia => (T.edgeToFather tw.w.g ia).map o.edgeFromGid

/-- `getFatherOfNode(nodeObject)` (:143) -/
def fatherOf (tw : TW) (o : Obs) (a : Obj) : Option (Option Obj) :=
  match AL.find a o.Ng with
  | none => none
  | some ia => (T.father tw.w.g ia).map o.nodeFromGid

/-! ### when the calls with an edge object must go through / must be refused (executable preconditions;
`Props/C15Obs.lean` proves them of the model, the driver evaluates them on the implementation's reports) -/

/-- `addSon(a, s, x)` has everything it needs: both node objects are known, the edge object is attached
nowhere, and the father is not yet related to the son -/
def addSonReady (tw : TW) (k : Nat) (a s x : Obj) : Bool :=
  match tw.w.getObs k with
  | none => false
  | some o =>
    match AL.find a o.Ng, AL.find s o.Ng with
    | some ia, some is => !o.hasEdge x && tw.w.g.hasNode ia && tw.w.g.hasNode is && (tw.w.g.outE ia is).isNone
    | _, _ => false

/-- `setFather(a, f, x)` has everything it needs: both node objects are known, the edge object is attached nowhere or
to the branch from `a` to its current father, and `a` has at most one incoming neighbour (`getFatherOfNode` raises
otherwise: "more than one father") -/
def setFatherReady (tw : TW) (k : Nat) (a f x : Obj) : Bool :=
  match tw.w.getObs k with
  | none => false
  | some o =>
    match AL.find a o.Ng, AL.find f o.Ng with
    | some ia, some _ =>
      (!o.hasEdge x || tw.edgeToFather o a == some (some x)) &&
      (match tw.w.g.inNeighbors ia with | some l => decide (l.length ≤ 1) | none => false)
    | _, _ => false

/-- `setFather(a, f, x)` is given an object attached to another branch than the one to the current father of `a` -/
def setFatherForeign (tw : TW) (k : Nat) (a x : Obj) : Bool :=
  match tw.w.getObs k with
  | none => false
  | some o => o.hasEdge x && tw.edgeToFather o a != some (some x)

end TW

inductive TWOp where
  | createNode (k : Nat) (a : Obj)
  | link (k : Nat) (a b : Obj) (x : Option Obj)
  | unlink (k : Nat) (a b : Obj)
  | deleteNode (k : Nat) (a : Obj)
  | addSon (k : Nat) (a s : Obj) (x : Option Obj)
  | setFather (k : Nat) (a f : Obj) (x : Option Obj)
  | rootAt (k : Nat) (a : Obj)
  | isValid
deriving Repr

namespace TW
def step (tw : TW) : TWOp → TW
  | .createNode k a => (tw.createNode k a).2
  | .link k a b x => (tw.link k a b x).2
  | .unlink k a b => (tw.unlink k a b).2
  | .deleteNode k a => (tw.deleteNode k a).2
  | .addSon k a s x => (tw.addSon k a s x).2
  | .setFather k a f x => (tw.setFather k a f x).2
  | .rootAt k a => match tw.rootAt k a with | .ok r => r.2 | _ => tw
  | .isValid => tw.isValid.2
def run (tw : TW) (ops : List TWOp) : TW := ops.foldl step tw
end TW

end Bpp.Graph
