/-
Line protocol shared by all drivers.

A script is a sequence of lines
  case <free text>          -- starts a fresh state
  <op> <arg> ...            -- one operation
  = <tok> ...               -- (optional) what the implementation answered to the op above
The driver answers each op line with one line  `<model result> | <verdict>`,
where verdict is `ok`, or `FAIL:<clause>` when the property's predicate is false
on the *implementation's* answer (given on the following `=` line), or `-`
when no implementation answer was supplied.
-/
namespace Bpp.Proto

def toks (line : String) : List String :=
  (line.trimAscii.toString.splitOn " ").filter (· ≠ "")

/-- split a token list at every occurrence of the token `sep` -/
def splitTok (sep : String) (l : List String) : List (List String) :=
  let (cur, acc) := l.foldl (fun (p : List String × List (List String)) t =>
    if t == sep then ([], p.1.reverse :: p.2) else (t :: p.1, p.2)) ([], [])
  (cur.reverse :: acc).reverse

def int? (s : String) : Option Int := s.toInt?
def nat? (s : String) : Option Nat := s.toNat?

def ints? (l : List String) : Option (List Int) := l.mapM int?

def showInts (l : List Int) : String := " ".intercalate (l.map toString)
def showBool (b : Bool) : String := if b then "1" else "0"

/-- A driver for one property: state, fresh state, step on an op line given
(optionally) the implementation's answer tokens. Returns new state, the
model's answer and the verdict. -/
structure Machine (σ : Type) where
  init : List String → σ
  step : σ → List String → Option (List String) → σ × String × String

partial def readLines (h : IO.FS.Stream) (acc : Array String) : IO (Array String) := do
  let line ← h.getLine
  if line.isEmpty then return acc
  readLines h (acc.push line)

/-- Run a machine over stdin. -/
def run {σ : Type} (m : Machine σ) : IO Unit := do
  let stdin ← IO.getStdin
  let stdout ← IO.getStdout
  let lines ← readLines stdin #[]
  let n := lines.size
  let mut st := m.init []
  let mut i := 0
  while i < n do
    let t := toks lines[i]!
    i := i + 1
    match t with
    | [] => pure ()
    | "#" :: _ => pure ()
    | "case" :: rest => st := m.init rest
    | "=" :: _ => pure ()
    | op =>
      -- look ahead for the implementation's answer
      let impl : Option (List String) :=
        if i < n then
          match toks lines[i]! with
          | "=" :: r => some r
          | _ => none
        else none
      let (st', out, verdict) := m.step st op impl
      st := st'
      stdout.putStrLn (out ++ " | " ++ verdict)
  stdout.flush

end Bpp.Proto
