import BppModel.Alias
/-
What can be observed of an `AbstractParameterAliasable` through its public interface (the *view*
of a slot), and the executable clauses of property C03 phrased on views before / after one
operation.  The driver evaluates the clauses on the views parsed from the *implementation's*
answers; `BppProofs/Props/C03.lean` proves them of the model.  Core Lean only.
-/
namespace Bpp.Alias
open Bpp.ParamList (Bnd Con Par Store ObjId nameOf find? hasParameter names startsWith)

/-- one parameter as seen through `getParameters()` -/
structure PV where
  name : String
  value : Rat
  con : Option Con
  deriving DecidableEq, Inhabited

/-- one object as seen from outside -/
structure SV where
  /-- `getNamespace()` -/
  pre : String
  /-- `getParameters()` -/
  params : List PV
  /-- (x, y): the parameter with short name `x` answers to the listener id `__alias_y_to_x`
  (`hasParameterListener`), i.e. `y` follows `x` -/
  links : List (String × String)
  /-- `getIndependentParameters()`: name and the position in `getParameters()` of the very same
  object (`none`: the object is not one of the owner's parameters) -/
  indep : List (String × Option Nat)
  deriving DecidableEq, Inhabited

abbrev View := List (Option SV)

def NSLOT : Nat := 3

/-! ### the view of a model world -/

def shortNames (w : World) (o : Obj) : List String := o.params.map (fun i => stripNs o.pre (nameOf w.heap i))

/-- does parameter object `i` hold a listener with id `id`?  (`hasParameterListener`) -/
def hasListener (w : World) (i : ObjId) (id : String) : Bool := (w.lsn i).any (fun l => (w.lis l).id == id)

def linksOf (w : World) (o : Obj) : List (String × String) :=
  o.params.flatMap (fun i =>
    let x := stripNs o.pre (nameOf w.heap i)
    ((shortNames w o).filter (fun y => hasListener w i (aliasId x y))).map (fun y => (x, y)))

def svOf (w : World) (o : Obj) : SV :=
  { pre := o.pre
    params := o.params.map (fun i => ⟨nameOf w.heap i, (w.heap.get i).value, (w.heap.get i).con⟩)
    links := linksOf w o
    indep := o.indep.map (fun i => (nameOf w.heap i, o.params.findIdx? (fun j => j == i))) }

def viewOf (w : World) : View := (List.range NSLOT).map (fun k => (w.objs k).map (svOf w))

/-! ### reading a view -/
namespace SV

def short (s : SV) (n : String) : String := stripNs s.pre n
def shorts (s : SV) : List String := s.params.map (fun p => s.short p.name)

/-- `getParameterValue(x)` -/
def value? (s : SV) (x : String) : Option Rat := (s.params.find? (fun p => p.name == s.pre ++ x)).map (·.value)
def con? (s : SV) (x : String) : Option (Option Con) := (s.params.find? (fun p => p.name == s.pre ++ x)).map (·.con)

/-- `y` is the target of some link -/
def isTarget (s : SV) (y : String) : Bool := s.links.any (fun l => l.2 == y)

/-- the parameters `x` follows, nearest first (fuel = number of links + 1) -/
def ancestors (s : SV) : Nat → String → List String
  | 0, _ => []
  | f + 1, x =>
    match s.links.find? (fun l => l.2 == x) with
    | none => []
    | some l => l.1 :: ancestors s f l.1

/-- `y` follows `x` directly or through a chain -/
def follows (s : SV) (x y : String) : Bool := (s.ancestors (s.links.length + 1) y).contains x

/-- the link (x, y) is in sync: both values are equal -/
def synced (s : SV) (l : String × String) : Bool := s.value? l.1 == s.value? l.2

/-- every link is in sync -/
def allSynced (s : SV) : Bool := s.links.all s.synced

/-- names of the parameters reached from `x` by one link and then only by links that are in sync
in `s` (fuel = number of links) -/
def syncedBelow (s : SV) : Nat → List String → List String
  | 0, front => front
  | f + 1, front =>
    let nxt := (s.links.filter (fun l => front.contains l.1 && s.synced l && !front.contains l.2)).map (·.2)
    if nxt.isEmpty then front else syncedBelow s f (front ++ nxt)

def children (s : SV) (x : String) : List String := (s.links.filter (fun l => l.1 == x)).map (·.2)

/-- the structural invariant of every reachable object, as far as it can be observed:
* names pairwise different, every parameter satisfies its own constraint (C01, C02);
* every independent entry *is* one of the owner's parameters, under the same name, once;
* the independent parameters are exactly the parameters that follow nobody;
* a parameter follows at most one parameter, and following is acyclic. -/
def inv (s : SV) : Bool :=
  decide (s.params.map (·.name)).Nodup &&
  s.params.all (fun p => startsWith p.name s.pre) &&
  s.params.all (fun p => match p.con with | some c => c.accepts p.value | none => true) &&
  s.indep.all (fun e => match e.2 with
    | some pos => (s.params[pos]?).map (·.name) == some e.1
    | none => false) &&
  decide (s.indep.map (·.1)).Nodup &&
  s.params.all (fun p => (s.indep.any (fun e => e.1 == p.name)) == !s.isTarget (s.short p.name)) &&
  decide (s.links.map (·.2)).Nodup &&
  s.links.all (fun l => s.shorts.contains l.1 && s.shorts.contains l.2) &&
  s.links.all (fun l => !s.follows l.2 l.1 && l.1 != l.2)

end SV

def View.get (v : View) (k : Nat) : Option SV := (v[k]?).join

/-! ### the clauses -/

/-- slots other than those in `ks` are untouched -/
def frameOk (ks : List Nat) (b a : View) : Bool :=
  (List.range NSLOT).all (fun j => ks.contains j || b.get j == a.get j)

/-- **alias_tracks** on one object, before `b` / after `a` a value update that did not raise:
every parameter whose value changed is equalled by every parameter that follows it directly, and
by every one that follows those through links that were in sync before the update. -/
def tracksOk (b a : SV) : Bool :=
  b.shorts.all (fun x =>
    b.value? x == a.value? x ||
    (b.syncedBelow b.links.length (b.children x)).all (fun y => a.value? y == a.value? x))

/-- only values may differ between `b` and `a` -/
def sameShape (b a : SV) : Bool :=
  b.pre == a.pre && b.links == a.links && b.indep == a.indep &&
  b.params.map (fun p => (p.name, p.con)) == a.params.map (fun p => (p.name, p.con))

/-- what the pair form does to the two constraints (AbstractParameterAliasable.cpp:99-116) -/
def aliasConSpec (c1 c2 : Option Con) : Option Con × Option Con :=
  match c1, c2 with
  | none, none => (none, none)
  | none, some d => (some d, some d)
  | some c, none => (some c, none)
  | some c, some d => if c = d then (some c, some d) else (some (Con.inter d c), some (Con.inter d c))

/-- **alias_not_independent / alias_constraints** after `aliasParameters(p1, p2)` returned:
the link is there and nothing else changed among links; `p2` left the independent list, the
others stay in order; constraints as `aliasConSpec`; values and all other constraints untouched -/
def aliasOk (p1 p2 : String) (b a : SV) : Bool :=
  a.pre == b.pre &&
  a.params.map (fun p => (p.name, p.value)) == b.params.map (fun p => (p.name, p.value)) &&
  a.links.contains (p1, p2) &&
  a.links.all (fun l => l == (p1, p2) || b.links.contains l) &&
  b.links.all (fun l => a.links.contains l) &&
  a.indep == b.indep.filter (fun e => e.1 != b.pre ++ p2) &&
  !(a.indep.any (fun e => e.1 == a.pre ++ p2)) &&
  (match b.con? p1, b.con? p2 with
   | some c1, some c2 =>
     a.con? p1 == some (aliasConSpec c1 c2).1 && a.con? p2 == some (aliasConSpec c1 c2).2
   | _, _ => false) &&
  a.params.all (fun p => p.name == a.pre ++ p1 || p.name == a.pre ++ p2 ||
    b.params.any (fun q => q.name == p.name && q.con == p.con))

/-- must `aliasParameters(p1, p2)` be refused?  unknown name, `p2` already follows somebody
(**refuse_twice**), or `p1` is `p2` / follows `p2` (**refuse_cycle**, any length), or the listener id is in use -/
def mustRefuse (p1 p2 : String) (b : SV) : Bool :=
  !b.shorts.contains p1 || !b.shorts.contains p2 || b.isTarget p2 || p1 == p2 || b.follows p2 p1 ||
  -- the listener id `__alias_<p2>_to_<p1>` is already the id of a link (for names free of "_to_" that
  -- link is `p1 > p2` itself, i.e. `p2` is a target; with "_to_" inside names two different links can
  -- share an id, and the repaired library refuses the second one)
  b.links.any (fun l => aliasId l.1 l.2 == aliasId p1 p2)

/-- **unalias_restores** after `unaliasParameters(p1, p2)` returned -/
def unaliasOk (p1 p2 : String) (b a : SV) : Bool :=
  a.pre == b.pre && a.params == b.params &&
  b.links.contains (p1, p2) &&
  a.links == b.links.filter (fun l => l != (p1, p2)) &&
  a.indep.map (·.1) == b.indep.map (·.1) ++ [b.pre ++ p2] &&
  a.indep.all (fun e => match e.2 with | some pos => (a.params[pos]?).map (·.name) == some e.1 | none => false)

/-- **namespace_preserves** after `setNamespace(pre)` returned -/
def namespaceOk (newPre : String) (b a : SV) : Bool :=
  a.pre == newPre &&
  a.params == b.params.map (fun p => { p with name := renamed b.pre newPre p.name }) &&
  a.links == b.links &&
  a.indep == b.indep.map (fun e => (renamed b.pre newPre e.1, e.2))

/-- **bulk** (after the repair of the final loop): when the map form returned — under the empty
namespace, where the names of the map are the names the pair form takes (under a namespace the map
form looks its names up with the namespace and hands them to the pair form, which adds it again:
it raises, `inv` and `frame` are all that is claimed) —
* every entry `key -> val` of the map is a link `val > key`, and it is in sync;
* every link of before is still there, and it is in sync if it was in sync before or if its source
  changed during the call (**alias_tracks** across the call). -/
def bulkOk (entries : List (String × String)) (b a : SV) : Bool :=
  b.pre != "" ||
  ((mkMap entries).all (fun e => a.links.contains (e.2, e.1) && a.synced (e.2, e.1)) &&
   b.links.all (fun l => a.links.contains l && ((b.value? l.1 == a.value? l.1 && !b.synced l) || a.synced l)))

def Out.isErr : Out → Bool
  | .err _ => true
  | _ => false

/-- well-formed requests: `add` with a name carrying the object's namespace -/
def Op.slot : Op → Nat
  | .new k _ | .add k _ | .alias k .. | .unalias k .. | .bulk k _ | .setv k .. | .setvs k _ | .matchvs k _
  | .setallv k _ | .ns k _ | .aliases k | .aliasOf k _ | .from k _ => k
  | .copy _ d | .assign _ d => d

/-- the slots that must hold an object for the operation to reach the library -/
def Op.needs : Op → List Nat
  | .new .. => []
  | .copy s _ => [s]
  | .assign s d => [s, d]
  | op => [op.slot]

def Op.wellFormed (b : View) : Op → Bool
  | .add k p => match b.get k with
    | some s => startsWith p.name s.pre
    | none => true
  | _ => true

/-- a bulk source that names independent parameters only (or names the object does not have) -/
def namesIndepOnly (s : SV) (src : List (String × Rat)) : Bool :=
  src.all (fun e => !(s.params.any (fun p => p.name == e.1)) || s.indep.any (fun i => i.1 == e.1))

/-- a source that gives both ends of every link the same value -/
def srcConsistent (s : SV) (src : List (String × Rat)) : Bool :=
  s.links.all (fun l => srcFind? src (s.pre ++ l.1) == srcFind? src (s.pre ++ l.2))

/-- the value updates for which **alias_tracks** is claimed: `setParameterValue` of any
parameter; the source-iterating bulk setters when the source names independent parameters only
(a source naming an aliased parameter writes it directly, after its source: see
`Props/C03.lean`, `chain_needs_sync_witness`); `setAllParametersValues` (which writes every
parameter directly) when the source is consistent with the links -/
def Op.tracked (s : SV) : Op → Bool
  | .setv .. => true
  | .setvs _ src | .matchvs _ src => namesIndepOnly s src
  | .setallv _ src => srcConsistent s src
  | _ => false

/-- The clause (if any) of C03 that the step `b --op/out--> a` violates. -/
def checkStep (b : View) (op : Op) (out : Out) (a : View) : Option String :=
  -- termination first: no call may hang or leave the defined behaviour
  if out == .err .hang then some "terminates"
  else if out == .err .ub then some "no_ub"
  else if !frameOk [op.slot] b a then some "frame"
  else
  let invB := fun (v : View) => (List.range NSLOT).all (fun k => match v.get k with | some s => s.inv | none => true)
  if invB b && op.wellFormed b && !invB a then some "inv"
  else if !invB b then none
  else
  match op with
  | .setv k .. | .setvs k _ | .matchvs k _ | .setallv k _ =>
    match b.get k, a.get k with
    | some sb, some sa =>
      if !sameShape sb sa then some "update_shape"
      else if out.isErr then none
      else if op.tracked sb && !tracksOk sb sa then some "alias_tracks"
      else none
    | _, _ => none
  | .alias k p1 p2 =>
    match b.get k, a.get k with
    | some sb, some sa =>
      if mustRefuse p1 p2 sb then
        (if !out.isErr then some "refuse"
         else if sb != sa then some "refuse_unchanged"
         else none)
      else if out == .err .notfound || out == .err .bpp then some "alias_refused_wrongly"
      else if out.isErr then (if sb != sa then some "alias_raise_unchanged" else none)   -- ConstraintException
      else if !aliasOk p1 p2 sb sa then some "alias_effect"
      else none
    | _, _ => none
  | .unalias k p1 p2 =>
    match b.get k, a.get k with
    | some sb, some sa =>
      if out.isErr then (if sb != sa then some "unalias_unchanged" else none)
      else if !unaliasOk p1 p2 sb sa then some "unalias_restores"
      else none
    | _, _ => none
  | .bulk k es =>
    match b.get k, a.get k with
    | some sb, some sa => if out.isErr then none else if !bulkOk es sb sa then some "bulk_links" else none
    | _, _ => none
  | .copy s d =>
    if out.isErr then none
    else if a.get d != b.get s then some "copy_carries"
    else none
  | .assign s d =>
    if out.isErr then none
    else if a.get d != b.get s then some "assign_carries"
    else none
  | .ns k pre =>
    match b.get k, a.get k with
    | some sb, some sa => if out.isErr then none else if !namespaceOk pre sb sa then some "namespace_preserves" else none
    | _, _ => none
  | _ => none

/-- a recorded defect of the unchanged library (findings/C03.json, `C03-bulk-namespace`), judged apart
from `checkStep` (whose clauses are theorems of the model): under a non-empty namespace the map form
looks the names of the map up *with* the namespace (cpp:138, 158) and hands them to the pair form,
which prepends the namespace again (cpp:81): a map that names only existing parameters is answered
`ParameterNotFoundException`.  The model transcribes it (`C03.bulk_namespace_witness`). -/
def checkKnown (b : View) (op : Op) (out : Out) (a : View) : Option String :=
  match op with
  | .bulk k es =>
    match b.get k with
    | some sb =>
      if sb.pre != "" && !es.isEmpty &&
          es.all (fun e => sb.params.any (fun p => p.name == e.1) && sb.params.any (fun p => p.name == e.2)) &&
          out == .err .notfound then some "bulk_namespace"
      -- second recorded defect (`C03-bulk-refused-partial`): the map form makes its links one by one and
      -- equalises values only at the end; when it raises (cycle, double alias, unknown name, constraint) the
      -- links already made stay, out of sync: "refused leaving everything unchanged" does not hold of it
      else if out.isErr && a.get k != some sb then some "bulk_refused_unchanged"
      else none
    | none => none
  | _ => none

end Bpp.Alias
