import BppModel.Param
/-
Model of the optimisation framework of bpp-core (C10), part 1: the objective, parameter lists with
the constraint policy, the `AbstractOptimizer` template, one-dimensional bracketing.

  src/Bpp/Numeric/Function/AbstractOptimizer.{h,cpp}            init / step / optimize, constraint policy
  src/Bpp/Numeric/Function/OptimizationStopCondition.{h,cpp}     FunctionStopCondition
  src/Bpp/Numeric/Function/OneDimensionOptimizationTools.cpp     bracketMinimum, inwardBracketMinimum
  src/Bpp/Numeric/AutoParameter.cpp / Parameter.cpp              through C01's `Bpp.Param`

Transcription of the code that exists after the `fix:` commits of findings/C10.json.  Generic over
`[Scalar α]`: `Float` in the driver (bit-exact tie, sequence of evaluation points included), `ℝ` in the
theorems.  Rounding is not modelled.

The objective is abstract: `obj : List α → α` on the vector of the function's own parameter values
(which are unconstrained, precision 0, as in the harness); every call of `setParameters` is logged.
A raised exception carries the state of the function at that moment (side effects made before a
`throw` persist, as in C++).
-/
namespace Bpp.Optim
open Bpp Scalar

/-- exception classes the optimisers can end with; `hang` is the modelled non-termination of a
`while` loop without a measure (fuel exhausted), `nonfinite` an auto-correction towards an infinite
bound (outside C01's model), `cap` the harness objective's refusal to be evaluated more than a fixed
number of times within one call (its guard against runs that do not end) -/
inductive Exc | constraint | bpp | index | nonfinite | hang | cap
deriving DecidableEq, Repr, Inhabited

/-- a named parameter: the name is the index of the function's parameter it stands for -/
structure NP (α : Type) where
  name : Nat
  p : Param α
deriving Inhabited

abbrev PList (α : Type) := List (NP α)

inductive Policy | keep | ignore | auto
deriving DecidableEq, Repr, Inhabited

section
variable {α : Type} [Scalar α]

def values (l : PList α) : List α := l.map (·.p.value)

def excOf : PErr → Exc
  | .constraint => .constraint
  | .nonfinite => .nonfinite

/-- `l[i].setValue(x)` (virtual: plain or auto-correcting); `index` when there is no such element -/
def setValueAt : PList α → Nat → α → Except Exc (PList α)
  | [], _, _ => .error .index
  | q :: r, 0, x =>
    match q.p.setValue x with
    | .ok p' => .ok ({ q with p := p' } :: r)
    | .error e => .error (excOf e)
  | q :: r, i + 1, x =>
    match setValueAt r i x with
    | .ok r' => .ok (q :: r')
    | .error e => .error e

/-- `l[0].getValue()` -/
def value0 (pl : PList α) : Option α := pl.head?.map (·.p.value)

/-- `AbstractOptimizer::autoParameter` / `ignoreConstraints` (AbstractOptimizer.cpp:273-291),
`DirectionFunction::autoParameter` / `ignoreConstraints` (DirectionFunction.cpp:58-76) -/
def applyPolicy (pol : Policy) (l : PList α) : PList α :=
  match pol with
  | .keep => l
  | .auto => l.map (fun q => { q with p := q.p.toAuto })
  | .ignore => l.map (fun q => { q with p := q.p.removeConstraint.1 })

/-- every parameter of the list holds a value its constraint accepts (C01's invariant) -/
def feasibleList (l : PList α) : Bool := l.all (fun q => q.p.invOk)

/-! ### the objective -/

/-- the function object: its own parameter values and the log of the points at which
`setParameters` left it (most recent first) -/
structure Fn (α : Type) where
  point : List α
  log : List (List α)
deriving Inhabited

/-- `Parameter::setValue` on one of the function's own parameters (no constraint, precision 0) behind
the `getValue() != value` test of `ParameterList::matchParametersValues` (ParameterList.cpp:443) -/
def own (old v : α) : α := if gtb (abs (v - old)) zero then v else old

/-- second loop of `matchParametersValues`: names the function does not have are skipped -/
def matchPoint (pt : List α) : PList α → List α
  | [] => pt
  | q :: r =>
    matchPoint (match pt[q.name]? with
      | some old => pt.set q.name (own old q.p.value)
      | none => pt) r

/-- the harness function's `setParameters`: `matchParametersValues(pl)`, then the point is logged -/
def Fn.setParameters (fn : Fn α) (pl : PList α) : Fn α :=
  let pt := matchPoint fn.point pl
  { point := pt, log := pt :: fn.log }

/-- `getValue()` -/
def Fn.value (obj : List α → α) (fn : Fn α) : α := obj fn.point

/-- `FunctionInterface::f(pl)` (Functions.h:82): `setParameters(pl); return getValue();` -/
def Fn.f (obj : List α → α) (fn : Fn α) (pl : PList α) : Fn α × α :=
  let fn' := fn.setParameters pl
  (fn', obj fn'.point)

/-- what an optimiser sees of the function it works on (`FunctionInterface`, `FirstOrderDerivable`,
`SecondOrderDerivable`): `f(pl)`, `getValue()`, `setParameters(pl)`, `getParameters()` and the
derivatives with respect to the parameter of a given name at the current point.  `F` is the state
of the function object — the objective itself (`Fn`), or a `DirectionFunction` wrapped around it.
An exception carries the function's state. -/
structure FunI (F α : Type) where
  f : F → PList α → Except (Exc × F) (F × α)
  value : F → α
  setParameters : F → PList α → Except (Exc × F) F
  getParameters : F → PList α
  d1 : F → Nat → α
  d2 : F → Nat → α

/-- the function's own parameter list: plain parameters without constraint, precision 0 -/
def Fn.params (fn : Fn α) : PList α :=
  (List.range fn.point.length).zip fn.point |>.map (fun iv => ⟨iv.1, ⟨iv.2, zero, none, false⟩⟩)

/-- analytical derivatives of the objective, by index of the variable -/
structure Deriv (α : Type) where
  d1 : Nat → List α → α
  d2 : Nat → List α → α

/-- the harness objective throws once more than `cap` points have been logged within one call
(`none`: no such guard) -/
def capped (cap : Option Nat) (fn : Fn α) : Bool :=
  match cap with
  | some c => decide (fn.log.length > c)
  | none => false

/-- the objective as a `FunctionInterface` -/
def Fn.iface (obj : List α → α) (D : Deriv α) (cap : Option Nat) : FunI (Fn α) α :=
  { f := fun fn pl => if capped cap (fn.f obj pl).1 then .error (.cap, (fn.f obj pl).1) else .ok (fn.f obj pl),
    value := fun fn => fn.value obj,
    setParameters := fun fn pl =>
      if capped cap (fn.setParameters pl) then .error (.cap, fn.setParameters pl) else .ok (fn.setParameters pl),
    getParameters := Fn.params,
    d1 := fun fn k => D.d1 k fn.point,
    d2 := fun fn k => D.d2 k fn.point }

/-! ### one-dimensional bracketing (OneDimensionOptimizationTools.cpp:28-171) -/

structure BPt (α : Type) where
  x : α
  f : α
deriving Inhabited

structure Bracket (α : Type) where
  a : BPt α
  b : BPt α
  c : BPt α
deriving Inhabited

/-- `NumConstants::GOLDEN_RATIO_PHI()`, `_R()`, `_C()` (NumConstants.h:30-32), computed as there -/
def phi : α := (one + sqrt (ofInt 5)) / ofInt 2
def goldR : α := (phi : α) - one
def goldC : α := one - (goldR : α)
/-- `OneDimensionOptimizationTools::GLIMIT` -/
def glimit : α := ofInt 100

/-- `std::isnan(x) || std::isinf(x)`: never true of a real number -/
def nonFinite (x : α) : Bool := !(eqb x x) || (!(eqb x zero) && eqb (x + x) x)

/-- `NumTools::abs(a)` = `a < 0 ? -a : a` (NumTools.h:31) -/
def ntAbs (a : α) : α := if ltb a zero then -a else a
/-- `NumTools::sign(a, b)` = `abs(a) * sign(b)` (NumTools.h:73), with `sign(0) = 0` -/
def signOf (a : α) : α := if ltb a zero then ofInt (-1) else if eqb a zero then zero else one
def sign2 (a b : α) : α := ntAbs a * signOf b
/-- `NumTools::max(a, b)` = `a > b ? a : b` (NumTools.h:53) -/
def ntMax (a b : α) : α := if gtb a b then a else b

variable {F : Type}

/-- `parameters[0].setValue(x); function.f(parameters)`: the evaluation step of the bracketing
routines and of the one-dimensional optimisers; returns the function, the list and the value -/
def eval0 (I : FunI F α) (fn : F) (pl : PList α) (x : α) : Except (Exc × F) (F × PList α × α) :=
  match setValueAt pl 0 x with
  | .error e => .error (e, fn)
  | .ok pl' =>
    match I.f fn pl' with
    | .error e => .error e
    | .ok (fn', v) => .ok (fn', pl', v)

/-- `while (isnan(b.f) || isinf(b.f)) { b.x /= 1.1; … }` (lines 41-45 and 140-144) -/
def shrinkB (I : FunI F α) : Nat → F → PList α → BPt α → Except (Exc × F) (F × PList α × BPt α)
  | 0, fn, _, _ => .error (.hang, fn)
  | fuel + 1, fn, pl, b =>
    if nonFinite b.f then
      let bx := b.x / ofRat 11 10
      match eval0 I fn pl bx with
      | .error e => .error e
      | .ok (fn', pl', v) => shrinkB I fuel fn' pl' ⟨bx, v⟩
    else .ok (fn, pl, b)

/-- what one pass through the body of `while (bracket.b.f > bracket.c.f)` ends with -/
inductive Pass (α : Type)
  | ret (b : Bracket α)
  | next (b : Bracket α)

/-- the body of the outward loop (lines 63-119) -/
def outwardBody (I : FunI F α) (fn : F) (pl : PList α) (k : Bracket α) : Except (Exc × F) (F × PList α × Pass α) :=
  let a := k.a; let b := k.b; let c := k.c
  let r := (b.x - a.x) * (b.f - c.f)
  let q := (b.x - c.x) * (b.f - a.f)
  let xu := b.x - ((b.x - c.x) * q - (b.x - a.x) * r) /
      (ofInt 2 * sign2 (ntMax (ntAbs (q - r)) Constants.VERY_TINY) (q - r))
  let xulim := b.x + glimit * (c.x - b.x)
  let magn : α := c.x + phi * (c.x - b.x)
  -- "Eliminate oldest point and continue"
  let shift (fn : F) (pl : PList α) (k : Bracket α) (xu fu : α) : Except (Exc × F) (F × PList α × Pass α) :=
    .ok (fn, pl, .next ⟨k.b, k.c, ⟨xu, fu⟩⟩)
  if gtb ((b.x - xu) * (xu - c.x)) zero then
    match eval0 I fn pl xu with
    | .error e => .error e
    | .ok (fn, pl, fu) =>
      if ltb fu c.f then .ok (fn, pl, .ret ⟨b, ⟨xu, fu⟩, c⟩)
      else if gtb fu b.f then .ok (fn, pl, .ret ⟨a, b, ⟨xu, fu⟩⟩)
      else
        match eval0 I fn pl magn with
        | .error e => .error e
        | .ok (fn, pl, fu) => shift fn pl k magn fu
  else if gtb ((c.x - xu) * (xu - xulim)) zero then
    match eval0 I fn pl xu with
    | .error e => .error e
    | .ok (fn, pl, fu) =>
      if ltb fu c.f then
        -- shift(b.x, c.x, xu, c.x + PHI * (c.x - b.x)); setValue(xu); shift(b.f, c.f, fu, f(parameters))
        match eval0 I fn pl magn with
        | .error e => .error e
        | .ok (fn, pl, fm) => shift fn pl ⟨a, c, ⟨xu, fu⟩⟩ magn fm
      else shift fn pl k xu fu
  else if geb ((xu - xulim) * (xulim - c.x)) zero then
    match eval0 I fn pl xulim with
    | .error e => .error e
    | .ok (fn, pl, fu) => shift fn pl k xulim fu
  else
    match eval0 I fn pl magn with
    | .error e => .error e
    | .ok (fn, pl, fu) => shift fn pl k magn fu

/-- `while (bracket.b.f > bracket.c.f) …`: the loop has no measure in the source (a monotone
objective is followed for ever): fuel; its exhaustion is the modelled non-termination -/
def outwardLoop (I : FunI F α) : Nat → F → PList α → Bracket α → Except (Exc × F) (F × Bracket α)
  | 0, fn, _, _ => .error (.hang, fn)
  | fuel + 1, fn, pl, k =>
    if gtb k.b.f k.c.f then
      match outwardBody I fn pl k with
      | .error e => .error e
      | .ok (fn', _, .ret k') => .ok (fn', k')
      | .ok (fn', pl', .next k') => outwardLoop I fuel fn' pl' k'
    else .ok (fn, k)

/-- `OneDimensionOptimizationTools::bracketMinimum(a, b, function, parameters)` (lines 28-122);
`parameters` is passed by value: the caller's list is not modified -/
def bracketMinimum (I : FunI F α) (fuel : Nat) (a b : α) (fn : F) (pl : PList α) : Except (Exc × F) (F × Bracket α) :=
  match eval0 I fn pl a with
  | .error e => .error e
  | .ok (fn, pl, fa) =>
    match eval0 I fn pl b with
    | .error e => .error e
    | .ok (fn, pl, fb) =>
      match shrinkB I fuel fn pl ⟨b, fb⟩ with
      | .error e => .error e
      | .ok (fn, pl, pb) =>
        let pa : BPt α := ⟨a, fa⟩
        -- "Switch roles of first and second point so that we can go downhill"
        let (pa, pb) := if gtb pb.f pa.f then (pb, pa) else (pa, pb)
        let cx := pb.x + phi * (pb.x - pa.x)
        match eval0 I fn pl cx with
        | .error e => .error e
        | .ok (fn, pl, fc) => outwardLoop I fuel fn pl ⟨pa, pb, ⟨cx, fc⟩⟩

/-- the scan `for (i = 1; i <= intervalsNum; i++)` of the inward routine (lines 155-165) -/
def inwardScan (I : FunI F α) (jump : α) : Nat → F → PList α → α → BPt α → Except (Exc × F) (F × PList α × BPt α)
  | 0, fn, pl, _, best => .ok (fn, pl, best)
  | n + 1, fn, pl, curr, best =>
    let curr := curr + jump
    match eval0 I fn pl curr with
    | .error e => .error e
    | .ok (fn, pl, fcurr) =>
      inwardScan I jump n fn pl curr (if ltb fcurr best.f then ⟨curr, fcurr⟩ else best)

/-- `inwardBracketMinimum(a, b, function, parameters, intervalsNum)` (lines 126-171), repaired: the
best scanned point is the middle point `b` of the triple, `a` and `c` are the ends -/
def inwardBracketMinimum (I : FunI F α) (fuel : Nat) (a b : α) (n : Nat) (fn : F) (pl : PList α) :
    Except (Exc × F) (F × Bracket α) :=
  match eval0 I fn pl a with
  | .error e => .error e
  | .ok (fn, pl, fa) =>
    match eval0 I fn pl b with
    | .error e => .error e
    | .ok (fn, pl, fb) =>
      match shrinkB I fuel fn pl ⟨b, fb⟩ with
      | .error e => .error e
      | .ok (fn, pl, pb) =>
        let pa : BPt α := ⟨a, fa⟩
        let best : BPt α := if ltb pa.f pb.f then pa else pb
        let jump := (b - a) / ofInt (Int.ofNat n)
        match inwardScan I jump n fn pl pa.x best with
        | .error e => .error e
        | .ok (fn, pl, best) =>
          match eval0 I fn pl best.x with
          | .error e => .error e
          | .ok (fn, _, fbest) => .ok (fn, ⟨pa, ⟨best.x, fbest⟩, pb⟩)

/-! ### the `AbstractOptimizer` template (AbstractOptimizer.cpp:125-195) -/

/-- the data members of `AbstractOptimizer` that take part in the computation, and those of its
`AbstractOptimizationStopCondition` (tolerance, call counter, burn-in; `lastF`/`newF` are the two
values a `FunctionStopCondition` remembers) -/
structure Core (α : Type) where
  params : PList α
  policy : Policy
  nbEvalMax : Nat
  nbEval : Nat
  cur : α
  tol : Bool
  initialized : Bool
  tolerance : α
  callCount : Nat
  burnin : Nat
  lastF : α
  newF : α
deriving Inhabited

/-- an optimiser: the template's fields, the function it works on, its own fields -/
structure St (F τ α : Type) where
  core : Core α
  fn : F
  ext : τ
deriving Inhabited

/-- the virtual members an optimiser supplies to the template -/
structure Algo (F τ α : Type) where
  /-- `doInit(params)` -/
  doInit : St F τ α → PList α → Except (Exc × F) (St F τ α)
  /-- `doStep()`: the new state and the value returned -/
  doStep : St F τ α → Except (Exc × F) (St F τ α × α)
  /-- `stopCondition_->init()` -/
  stopInit : St F τ α → St F τ α
  /-- `stopCondition_->isToleranceReached()` -/
  stop : St F τ α → St F τ α × Bool
  /-- `getValue()` of the function the optimiser holds -/
  value : F → α

variable {τ : Type}

/-- `FunctionStopCondition::init` (OptimizationStopCondition.cpp:177): the counter is reset and the
new value is the optimiser's current value -/
def fscInit (s : St F τ α) : St F τ α :=
  { s with core := { s.core with callCount := 0, newF := s.core.cur } }

/-- `FunctionStopCondition::isToleranceReached` (OptimizationStopCondition.cpp:189) -/
def fscStop (s : St F τ α) : St F τ α × Bool :=
  let c := s.core
  let c' := { c with callCount := c.callCount + 1, lastF := c.newF, newF := c.cur }
  let s' := { s with core := c' }
  if c'.callCount ≤ c'.burnin then (s', false)
  else (s', ltb (abs (c'.newF - c'.lastF)) c'.tolerance)

/-- `AbstractOptimizer::init(params)` (lines 125-159) -/
def Algo.init (A : Algo F τ α) (s : St F τ α) (params : PList α) : Except (Exc × F) (St F τ α) :=
  let s1 := { s with core := { s.core with params := applyPolicy s.core.policy params } }
  match A.doInit s1 params with
  | .error e => .error e
  | .ok s2 =>
    let s3 := { s2 with core := { s2.core with nbEval := 0, tol := false, initialized := true, cur := A.value s2.fn } }
    .ok (A.stopInit s3)

/-- `AbstractOptimizer::step()` (lines 163-179), no listener modifying the parameters.
`tolIsReached_ = tolIsReached_ || stopCondition_->isToleranceReached()`: the stop condition is not
polled when the flag is already set. -/
def Algo.step (A : Algo F τ α) (s : St F τ α) : Except (Exc × F) (St F τ α × α) :=
  match A.doStep s with
  | .error e => .error e
  | .ok (s1, v) =>
    let s2 := { s1 with core := { s1.core with cur := v } }
    if s2.core.tol then .ok (s2, v)
    else
      let (s3, b) := A.stop s2
      .ok ({ s3 with core := { s3.core with tol := b } }, v)

/-- `for (nbEval_ = 1; nbEval_ < nbEvalMax_ && !tolIsReached_; nbEval_++) step();` from the test
of the guard on.  The source loop has no explicit measure: fuel; `optimize_terminates` shows that
`nbEvalMax_` units are enough whenever `doStep` does not decrease the counter. -/
def Algo.loop (A : Algo F τ α) : Nat → St F τ α → Except (Exc × F) (St F τ α)
  | 0, s => if s.core.nbEval < s.core.nbEvalMax && !s.core.tol then .error (.hang, s.fn) else .ok s
  | fuel + 1, s =>
    if s.core.nbEval < s.core.nbEvalMax && !s.core.tol then
      match A.step s with
      | .error e => .error e
      | .ok (s1, _) => A.loop fuel { s1 with core := { s1.core with nbEval := s1.core.nbEval + 1 } }
    else .ok s

/-- `AbstractOptimizer::optimize()` (lines 183-195); returns `currentValue_` -/
def Algo.optimize (A : Algo F τ α) (fuel : Nat) (s : St F τ α) : Except (Exc × F) (St F τ α × α) :=
  if !s.core.initialized then .error (.bpp, s.fn)
  else
    match A.loop fuel { s with core := { s.core with tol := false, nbEval := 1 } } with
    | .error e => .error e
    | .ok s' => .ok (s', s'.core.cur)

end
end Bpp.Optim
