import BppModel.ParamListExt
/-
Parameters that carry listeners (C02, audit round 1, finding F1).

`Parameter`'s copy constructor, `operator=` and `clone()` copy `listeners_`, a vector of
`shared_ptr<ParameterListener>` (Parameter.cpp:45-62): a clone fires the *same listener objects* as
its source.  `Parameter::setValue` (Parameter.cpp:72-83) stores the value and *then* calls
`parameterValueChanged` of every listener in order; an exception raised by a listener propagates
with the value already stored.

`ParamList.Par` (imported by C03) has no listener field and is left as it is; here the listeners
live in a side table.  One kind of listener is modelled, the one the harness attaches (`Mirror`
in harness/C02.cpp, a minimal `ParameterListener`): *on a value change of its parameter, call
`target->setValue(new value)`* — what `AliasParameterListener::parameterValueChanged`
(AbstractParameterAliasable.h:71-77) does with `(*pl_)[alias_]`, without its name check.

Only the operations needed to tie and judge the behaviour are given a listener-aware step
(`LOp`); with an empty table they are the steps of `ParamList.step` (`Lemmas/ParamListListen.lean`).
Core Lean only.
-/
namespace Bpp.ParamList

/-- the listener table: `(p, t)` = parameter object `p` carries a mirror listener whose target is
object `t`; the listeners of one object are in the order of the table -/
abbrev Mirrors := List (ObjId × ObjId)

def targets (m : Mirrors) (i : ObjId) : List ObjId := (m.filter (fun p => p.1 == i)).map (·.2)

/-- `Parameter::setValue(v)` on the objects of the work list, depth first: an object that already
holds `v` is left alone (`abs(value - value_) > 0` is false: no event); otherwise the constraint is
tested (ConstraintException: everything done so far stays), the value is stored, and the targets of
its listeners are visited before the rest.  `none` = the fuel ran out (explicit; with
`fuel ≥ (objects + 1) · (listeners + 2)` it cannot: every visit that stores `v` removes an object
from those that do not hold `v`). -/
def propagate (m : Mirrors) : Nat → Store → List ObjId → Rat → Option (Store × Option Err)
  | _, h, [], _ => some (h, none)
  | 0, _, _ :: _, _ => none
  | fuel + 1, h, t :: rest, v =>
    if v = (h.get t).value then propagate m fuel h rest v
    else if (h.get t).rejects v then some (h, some .constraint)
    else propagate m fuel (h.put t { h.get t with value := v }) (targets m t ++ rest) v

def fuelFor (m : Mirrors) (h : Store) : Nat := (h.next + 1) * (m.length + 2) + 1

/-- outcome of a listener-aware operation that writes the heap: `none` = out of fuel -/
abbrev LHR := Option (Store × Option Err)

/-- `setParameterValue(name, v)` (ParameterList.cpp:335-339) with listeners -/
def setParameterValueL (m : Mirrors) (h : Store) (l : List ObjId) (n : String) (v : Rat) : LHR :=
  match find? h l n with
  | none => some (h, some .notfound)
  | some i => propagate m (fuelFor m h) h [i] v

/-- second pass of `setParametersValues` (ParameterList.cpp:376-386) with listeners: a raise in the
middle keeps what the earlier entries (and their listeners) wrote -/
def applySomeL (m : Mirrors) (l : List ObjId) : Store → List ObjId → LHR
  | h, [] => some (h, none)
  | h, s :: rest =>
    match find? h l (nameOf h s) with
    | none => applySomeL m l h rest
    | some t =>
      match propagate m (fuelFor m h) h [t] (h.get s).value with
      | none => none
      | some (h', some e) => some (h', some e)
      | some (h', none) => applySomeL m l h' rest

/-- `setParametersValues(params)` (363-387) with listeners: the first pass is the one without -/
def setParametersValuesL (m : Mirrors) (h : Store) (l src : List ObjId) : LHR :=
  match checkSome h l src with
  | some e => some (h, some e)
  | none => applySomeL m l h src

/-- the clones `base, base+1, …` of `srcs` carry the listeners of their sources -/
def cloneMirrors (m : Mirrors) (srcs : List ObjId) (base : Nat) : Mirrors :=
  (srcs.zipIdx).flatMap (fun p => (targets m p.1).map (fun t => (base + p.2, t)))

structure LState where
  s : State
  mirrors : Mirrors := []

inductive LOp where
  /-- any operation of the extended machine that neither writes a value nor clones a parameter
  (add, delete, reset, lookups): listeners play no part -/
  | plain (op : XOp)
  | listen (k : Nat) (name target : String)                       -- attach a mirror listener (both in `L[k]`)
  | copy (k j : Nat)                                                -- copy ctor / clone() / operator=
  | subNames (k j : Nat) (names : List String)                      -- createSubList(names)
  | setValue (k : Nat) (name : String) (v : Rat)
  | setValues (k j : Nat)

/-- answer: `none` = out of fuel -/
def lstep (L : LState) : LOp → Option (LState × XAns)
  | .plain op => let r := xstep L.s op; some ({ L with s := r.1 }, r.2)
  | .listen k n t =>
    match find? L.s.heap (L.s.lists k) n, find? L.s.heap (L.s.lists k) t with
    | some p, some q => some ({ L with mirrors := L.mirrors ++ [(p, q)] }, ⟨.base .ok, none⟩)
    | _, _ => some (L, ⟨.base (.err .notfound), none⟩)
  | .copy k j =>
    let r := cloneAll L.s.heap (L.s.lists k)
    some ({ s := (L.s.withHeap r.1).setList j r.2,
            mirrors := L.mirrors ++ cloneMirrors L.mirrors (L.s.lists k) L.s.heap.next }, ⟨.base .ok, none⟩)
  | .subNames k j ns =>
    let r := createSubListNames L.s.heap (L.s.lists k) [] ns
    match r.err with
    | some e => some ({ L with s := L.s.withHeap r.heap }, ⟨.base (.err e), none⟩)
    | none =>
      -- no error: every name was found and the clones are `next, next+1, …` in the order of `ns`
      some ({ s := (L.s.withHeap r.heap).setList j r.list,
              mirrors := L.mirrors ++
                cloneMirrors L.mirrors (ns.filterMap (find? L.s.heap (L.s.lists k))) L.s.heap.next },
            ⟨.base .ok, none⟩)
  | .setValue k n v =>
    match setParameterValueL L.mirrors L.s.heap (L.s.lists k) n v with
    | none => none
    | some (h, e) => some ({ L with s := L.s.withHeap h }, ⟨.base (.ofErr e), none⟩)
  | .setValues k j =>
    match setParametersValuesL L.mirrors L.s.heap (L.s.lists k) (L.s.lists j) with
    | none => none
    | some (h, e) => some ({ L with s := L.s.withHeap h }, ⟨.base (.ofErr e), none⟩)

end Bpp.ParamList
