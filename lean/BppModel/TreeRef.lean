import BppModel.Graph
/-
The independent reference of C15: a rooted tree given by a parent function read off the *edge
triples* of a graph (never the node rows the implementation's queries read), with ancestors,
most recent common ancestor and paths defined on it; a reference decision of acyclicity by
transitive closure.  These are the executable predicates the driver evaluates on the
implementation's answers; `BppProofs/Props/C15*.lean` proves them of the model.
-/
namespace Bpp.Graph

structure Ref where
  root : Nat
  nodes : List Nat
  /-- (child, parent, edge) -/
  up : List (Nat × Nat × Nat)
deriving Repr

namespace Ref

def parent (r : Ref) (n : Nat) : Option Nat := (r.up.find? (fun t => t.1 == n)).map (·.2.1)
def edgeUp (r : Ref) (n : Nat) : Option Nat := (r.up.find? (fun t => t.1 == n)).map (·.2.2)
def children (r : Ref) (n : Nat) : List Nat := (r.up.filter (fun t => t.2.1 == n)).map (·.1)
def branches (r : Ref) (n : Nat) : List Nat := (r.up.filter (fun t => t.2.1 == n)).map (·.2.2)

/-- ancestors of `n`, itself first, following `parent` for at most `fuel` steps -/
def line (r : Ref) : Nat → Nat → List Nat
  | 0, n => [n]
  | fuel + 1, n => match r.parent n with | some p => n :: r.line fuel p | none => [n]

/-- the ancestors of `n`, itself first, up to the root (a node is an ancestor of itself) -/
def anc (r : Ref) (n : Nat) : List Nat := r.line r.nodes.length n

/-- `a` is an ancestor of `n` -/
def isAnc (r : Ref) (a n : Nat) : Bool := (r.anc n).contains a

/-- `m` is the most recent common ancestor of the nodes `l`: a common ancestor that every common
ancestor is an ancestor of -/
def isMrca (r : Ref) (l : List Nat) (m : Nat) : Bool :=
  r.nodes.contains m && l.all (r.isAnc m) && r.nodes.all (fun c => !(l.all (r.isAnc c)) || r.isAnc c m)

/-- `l` lists, each once, the descendants of `n` (itself included) -/
def isSubtree (r : Ref) (n : Nat) (l : List Nat) : Bool :=
  l.all r.nodes.contains && r.nodes.all (fun x => (l.count x) == (if r.isAnc n x then 1 else 0))

/-- `l` lists, each once, the descendants of `n` that have no child -/
def isLeavesUnder (r : Ref) (n : Nat) (l : List Nat) : Bool :=
  l.all r.nodes.contains && r.nodes.all (fun x => (l.count x) == (if r.isAnc n x && (r.children x).isEmpty then 1 else 0))

/-- `l` lists, each once, the edges to the father of the proper descendants of `n` -/
def isSubtreeEdges (r : Ref) (n : Nat) (l : List Nat) : Bool :=
  (r.up.all (fun t => (l.count t.2.2) == (if r.isAnc n t.1 && t.1 != n then 1 else 0))) && l.all (fun e => r.up.any (fun t => t.2.2 == e))

/-- consecutive nodes are father and son (either way) -/
def linked (r : Ref) (a b : Nat) : Bool := r.parent a == some b || r.parent b == some a

def chain (r : Ref) : List Nat → Bool
  | [] => true
  | [_] => true
  | a :: b :: rest => r.linked a b && chain r (b :: rest)

/-- `p` is the path from `a` to `b`: from `a` to `b` through linked nodes, no node twice -/
def isPath (r : Ref) (a b : Nat) (p : List Nat) : Bool :=
  p.head? == some a && p.getLast? == some b && r.chain p && p.all (fun x => p.count x == 1)

/-- the edge between a node and its father, whichever comes first -/
def edgeBetween (r : Ref) (a b : Nat) : Option Nat :=
  if r.parent a == some b then r.edgeUp a else if r.parent b == some a then r.edgeUp b else none

/-- `es` are the edges along the path `p` -/
def isEdgePath (r : Ref) (p : List Nat) (es : List Nat) : Bool :=
  (p.zip p.tail).map (fun q => r.edgeBetween q.1 q.2) == es.map some

end Ref

/-- the parent function read off the edge table: every edge `(e, top, bottom)` says `top` is the
parent of `bottom` -/
def refRaw (g : G) : Ref :=
  { root := g.root, nodes := AL.keys g.nodes, up := g.edges.map (fun p => (p.2.2, p.2.1, p.1)) }

/-- the graph is a rooted tree in the graph-theoretic sense: directed, the root is a node without
incoming edge, every other node has exactly one incoming edge, and every node reaches the root by
following parents -/
def isRootedTree (g : G) : Bool :=
  let r := refRaw g
  g.directed && g.hasNode g.root &&
  r.nodes.all (fun n => (r.up.filter (fun t => t.1 == n)).length == (if n = g.root then 0 else 1)) &&
  r.up.all (fun t => r.nodes.contains t.1 && r.nodes.contains t.2.1) &&
  r.nodes.all (fun n => (r.anc n).getLast? == some g.root)

def refOf (g : G) : Option Ref := if isRootedTree g then some (refRaw g) else none

/-! ### reference decision of "tree spanning all nodes from the root", unrooted case -/

/-- nodes reachable from the frontier in at most `fuel` rounds, edges taken both ways -/
def reachU (es : List (Nat × Nat)) : Nat → List Nat → List Nat
  | 0, seen => seen
  | fuel + 1, seen =>
    let next := es.foldl (fun acc p =>
      let acc := if acc.contains p.1 && !acc.contains p.2 then p.2 :: acc else acc
      if acc.contains p.2 && !acc.contains p.1 then p.1 :: acc else acc) seen
    reachU es fuel next

/-- an unrooted tree: the root is a node, edges join existing distinct nodes, there are |V| - 1 of
them and every node is connected to the root -/
def isUnrootedTree (g : G) : Bool :=
  let nodes := AL.keys g.nodes
  let es := g.edges.map (fun p => (p.2.1, p.2.2))
  !g.directed && g.hasNode g.root &&
  es.all (fun p => nodes.contains p.1 && nodes.contains p.2 && p.1 != p.2) &&
  es.length + 1 == nodes.length &&
  nodes.all (fun n => (reachU es nodes.length [g.root]).contains n)

/-- the reference answer of the validity predicate -/
def isTreeRef (g : G) : Bool := if g.directed then isRootedTree g else isUnrootedTree g

/-! ### reference decision of acyclicity: transitive closure -/

/-- one round: add `(a, c)` for `(a, b)` in the closure and `(b, c)` an edge -/
def closeStep (es : List (Nat × Nat)) (cl : List (Nat × Nat)) : List (Nat × Nat) :=
  cl.foldl (fun acc p => es.foldl (fun acc q => if q.1 == p.2 && !acc.contains (p.1, q.2) then (p.1, q.2) :: acc else acc) acc) cl

def closure (es : List (Nat × Nat)) : Nat → List (Nat × Nat) → List (Nat × Nat)
  | 0, cl => cl
  | fuel + 1, cl => closure es fuel (closeStep es cl)

/-- no node reaches itself through one or more edges (edges of the edge table, top -> bottom) -/
def isAcyclicRef (g : G) : Bool :=
  let es := g.edges.map (fun p => (p.2.1, p.2.2))
  let cl := closure es g.nodes.length es
  !(cl.any (fun p => p.1 == p.2))

end Bpp.Graph
