import BppModel.ParamListExt
import BppModel.ParamListSpec
/-
Executable predicates of property C02 for the extended machine (`ParamListExt.lean`), evaluated
by the driver on the states reconstructed from the *implementation's* answers.
`BppProofs/Props/C02Complete.lean` proves that every step of the model satisfies them.
Core Lean only.
-/
namespace Bpp.ParamList

def XOp.keepsNames : XOp → Bool
  | .base op => op.keepsNames
  | _ => true

/-- operations of the extension that write nothing at all -/
def XOp.readOnly : XOp → Bool
  | .base _ | .setAllParamsA .. | .setParamsA .. | .apCopy .. => false
  | _ => true

/-! ### `setNamespace` -/

/-- what `setNamespace(newPre)` makes of a name under the current prefix `oldPre` -/
def renamed (oldPre newPre name : String) : String := newPre ++ nameWithoutNamespace oldPre name

/-- the conditions under which `setNamespace` on the owner of register `k` keeps names unique
(first `n` registers): every name of the owner's list starts with the current prefix (the naming
discipline of the class), and no other register holds one of the owner's parameter objects -/
def nsGuard (n : Nat) (s : State) (k : Nat) : Bool :=
  (s.lists k).all (fun i => startsWith (nameOf s.heap i) (s.pre k)) &&
  (List.range n).all (fun r => r == k || (s.lists r).all (fun i => !(s.lists k).contains i))

/-- clause `names_unique_namespace` — **at full strength** (no guard): after `setNamespace` the
names of every register are still pairwise different.  False on the unchanged library in two
situations (known finding `C02-setNamespace-collision`); proved under `nsGuard`
(`names_unique_namespace_partial`). -/
def clauseNamespace (n : Nat) (b : State) (op : Op) (a : State) : Bool :=
  match op with
  | .apNamespace .. => !(allNamesUnique n b) || allNamesUnique n a
  | _ => true

/-- clause `names_unique_namespace_partial`: the same under `nsGuard` over the first `n` registers.
The theorem of the model (`names_unique_namespace_partial`, `clauseNamespaceGuarded_sound`) has the
guard over *all* registers (`XOp.nsSafe`) and `Inv`; the two coincide when the machine has `n`
registers, as the driver's has (6).  A failure of this clause is never a known finding. -/
def clauseNamespaceGuarded (n : Nat) (b : State) (op : Op) (a : State) : Bool :=
  match op with
  | .apNamespace k _ => !(allNamesUnique n b && nsGuard n b k) || allNamesUnique n a
  | _ => true

/-- clause `namespace_exact`: every parameter of the owner's list is renamed to
`newPre ++ (name without the old prefix)`, value and constraint untouched; objects outside the
list untouched; the lists themselves untouched; the owner's prefix is the new one -/
def clauseNamespaceExact (n : Nat) (b : State) (op : Op) (a : State) : Bool :=
  match op with
  | .apNamespace k p =>
    sameLists n b a && a.pre k == p &&
    (!namesUniqueB b k ||
      (List.range b.heap.next).all (fun i =>
        a.heap.get i ==
          (if (b.lists k).contains i then
            { b.heap.get i with name := renamed (b.pre k) p (nameOf b.heap i) }
           else b.heap.get i)))
  | _ => true

/-! ### further clauses on operations of the base machine -/

/-- clause `owner_atomic`: a raising call of an owner-level setter notifies nobody -/
def clauseOwnerAtomic (op : Op) (out : Out) (fired : Option (List ObjId)) : Bool :=
  match op with
  | .apSetAll .. | .apSetValue .. | .apSetValues .. | .apMatch .. => !out.isErr || fired == none
  | _ => fired == none

/-- clause `owner_fired_exact` for `matchParametersValues` of the owner: the notified list consists
of *source* objects, each of whose names is carried by a parameter of the owner that held another
value before the call and holds the notified value after it — and every parameter of the owner whose
value changed is notified -/
def clauseOwnerFired (b : State) (op : Op) (out : Out) (fired : Option (List ObjId)) (a : State) : Bool :=
  match op with
  | .apMatch k j =>
    out.isErr || !namesUniqueB b j ||
      (let f := fired.getD []
       f.all (fun s => (b.lists j).contains s &&
         (match find? b.heap (b.lists k) (nameOf b.heap s) with
          | some t => decide ((b.heap.get t).value ≠ (b.heap.get s).value) &&
                      decide ((a.heap.get t).value = (b.heap.get s).value)
          | none => false)) &&
       (b.lists k).all (fun t =>
         decide ((a.heap.get t).value = (b.heap.get t).value) ||
           f.any (fun s => nameOf b.heap s == nameOf b.heap t)))
  | .apSetValues k _ | .apSetAll k _ =>
    -- the whole source is notified: it covers every parameter whose value changed
    out.isErr ||
      (b.lists k).all (fun t =>
        decide ((a.heap.get t).value = (b.heap.get t).value) ||
          (fired.getD []).any (fun s => nameOf b.heap s == nameOf b.heap t))
  | _ => true

/-- clause `delete_indices_general` (any index vector, repeated or not): the survivors are a
sub-sequence of the list; without a raise exactly `indices.size()` entries are gone -/
def clauseDeleteAny (b : State) (op : Op) (out : Out) (a : State) : Bool :=
  match op with
  | .delIdxs k idx =>
    (a.lists k).isSublist (b.lists k) &&
    (out.isErr || (a.lists k).length + idx.length == (b.lists k).length)
  | _ => true

/-! ### clauses of the new operations -/

/-- the answer of a by-name accessor: the first object of the list carrying the name, or
ParameterNotFoundException when no entry carries it -/
def lookupObjOk (h : Store) (l : List ObjId) (n : String) (out : XOut) : Bool :=
  match out with
  | .obj i =>
    (List.range l.length).any (fun p => l[p]? == some i && nameOf h i == n &&
      (List.range p).all (fun q => (names h l)[q]? != some n))
  | .base (.err .notfound) => !(names h l).contains n
  | _ => false

/-- clause `lookup_exact` for the object-valued and owner-level lookups -/
def clauseXLookup (b : State) (op : XOp) (out : XOut) : Bool :=
  match op with
  | .nth k i =>
    out == (match (b.lists k)[i]? with
            | some x => .obj x
            | none => .ub)
  | .param k n => lookupObjOk b.heap (b.lists k) n out
  | .apParam k n => lookupObjOk b.heap (b.lists k) (b.pre k ++ n) out
  | .apHas k n => out == .base (.bool ((names b.heap (b.lists k)).contains (b.pre k ++ n)))
  | .apGetValue k n =>
    (match find? b.heap (b.lists k) (b.pre k ++ n) with
     | some i => out == .base (.val (b.heap.get i).value)
     | none => out == .base (.err .notfound))
  | .apAt k i =>
    out == (match (b.lists k)[i]? with
            | some x => .obj x
            | none => .base (.err .index))
  | .apNameNoNs k n =>
    (match out with
     | .str r => if startsWith n (b.pre k) then b.pre k ++ r == n else r == n
     | _ => false)
  | .apAddNull _ => out == .base .ok
  | _ => true

/-- clause `whole_assignment_atomic`: the repaired `setAllParameters` / `setParameters` raise
ParameterNotFoundException exactly when a name has no partner, and then change nothing;
otherwise every target is a copy (value and constraint) of its source entry and nothing else
changes -/
def clauseXAssign (n : Nat) (b : State) (op : XOp) (out : XOut) (a : State) : Bool :=
  match op with
  | .setAllParamsA k j =>
    let all := (b.lists k).all (fun i => hasParameter b.heap (b.lists j) (nameOf b.heap i))
    out == .base (if all then .ok else .err .notfound) &&
    (if all then
      sameLists n b a &&
      (!namesUniqueB b k ||
        decide (∀ i, i < b.heap.next → a.heap.get i = expectedAllPar b.heap (b.lists k) (b.lists j) i))
     else unchanged n b a)
  | .setParamsA k j =>
    let all := (b.lists j).all (fun s => hasParameter b.heap (b.lists k) (nameOf b.heap s))
    out == .base (if all then .ok else .err .notfound) &&
    (if all then
      sameLists n b a &&
      (!namesUniqueB b j ||
        decide (∀ i, i < b.heap.next → a.heap.get i = expectedPar b.heap (b.lists k) (b.lists j) i))
     else unchanged n b a)
  | _ => true

/-- clause `owner_copy_independent`: a copied owner holds fresh, pairwise different objects showing
the source's parameters, has the source's prefix, and nothing else changed -/
def clauseXOwnerCopy (n : Nat) (b : State) (op : XOp) (out : XOut) (a : State) : Bool :=
  match op with
  | .apCopy k j =>
    out == .base .ok && freshWith b a j ((b.lists k).map b.heap.get) && a.pre j == b.pre k &&
    (List.range n).all (fun r => r == j || (a.lists r == b.lists r && a.pre r == b.pre r)) && sameObjs b a
  | _ => true

/-- all clauses of the extended machine; `none` = every clause holds -/
def xcheckStep (n : Nat) (b : State) (op : XOp) (out : XOut) (fired : Option (List ObjId)) (a : State) :
    Option String :=
  match op, out with
  | .base op, .base o =>
    match checkStep n b op o fired a with
    | some c => some c
    | none =>
      if !clauseOwnerAtomic op o fired then some "owner_atomic"
      else if !clauseOwnerFired b op o fired a then some "owner_fired_exact"
      else if !clauseDeleteAny b op o a then some "delete_indices_general"
      else if !clauseNamespaceExact n b op a then some "namespace_exact"
      else if !clauseNamespaceGuarded n b op a then some "names_unique_namespace_partial"
      else if !clauseNamespace n b op a then some "names_unique_namespace"
      else none
  | .base _, _ => some "answer_shape"
  | op, out =>
    if fired != none then some "answer_shape"
    else if !(!(allNamesUnique n b) || allNamesUnique n a) then some "names_unique"
    else if !clauseOk n b a then some "list_param_inv"
    else if !(!op.readOnly || unchanged n b a) then some "lookup_pure"
    else if !clauseXLookup b op out then some "lookup_exact"
    else if !clauseXAssign n b op out a then some "whole_assignment_atomic"
    else if !clauseXOwnerCopy n b op out a then some "owner_copy_independent"
    else none

end Bpp.ParamList
