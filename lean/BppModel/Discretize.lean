import BppModel.Prelude.Scalar
import BppModel.Generated.Constants
import BppModel.Generated.DiscretizeConstants
import BppModel.Interval
/-
Model of `bpp::AbstractDiscreteDistribution`
(src/Bpp/Numeric/Prob/AbstractDiscreteDistribution.{h,cpp}), generic over `[Scalar α]`:

 * the tolerance-ordered `std::map<double,double,Order>` (h:35-69, h:80) as an association list
   kept in iteration order (`TMap`);
 * `discretizeEqualProportions` (cpp:341-489), `insertClass_` (495-513), `discretizeEqualIntervals` (517-557),
   (line numbers of the tree at fix-C09 after the audit-round-1 repairs; the `cpp:` references further down
   in this file still carry the numbers of the snapshot: look-ups now 299-330, cumulative queries 225-285,
   discretize 561-590, restrictToConstraint 606-623)
   `discretize` (cpp:494-523), `getBounds`/`getBound` (cpp:527-537, h:141-146),
   `getValueCategory` / `getCategoryIndex` (cpp:259-290), the four cumulative class queries
   (cpp:185-245), `restrictToConstraint` (cpp:539-556), `setNumberOfCategories` (cpp:66-76),
   `setMedian` (h:179-186).

The parent distribution's `pProb`, `qProb`, `Expectation` are parameters (`Parent`): the
theorems hold for every parent satisfying explicit hypotheses; the driver instantiates them with
the closed forms of the exponential / truncated exponential / uniform families
(`DiscretizeFamilies.lean`) or with the values the implementation's own functions returned at the
points the algorithm queried them (gamma, beta, gaussian: the special functions are not ported).

This is the code *after* the repairs recorded in findings/C09.json; the code as found is kept
in `namespace Legacy` for the look-ups (witness theorems in BppProofs/Props/C09.lean).
NaN is not modelled.  An infinite `while` loop of the C++ is a loop with fuel here; running out of
fuel is the explicit outcome `Err.fuel` — unreachable for a positive precision (theorem
`discretize_terminates`).
-/
namespace Bpp.Discretize
open Bpp Bpp.Scalar

/-- ways an operation can end without completing -/
inductive Err where
  | constraint   -- ConstraintException
  | notfound     -- ParameterNotFoundException
  | bpp          -- bpp::Exception
  | index        -- IndexOutOfBoundsException
  | ub           -- the C++ would read past a container (undefined behaviour)
  | fuel         -- the C++ loop would not terminate within the model's fuel
  | unreachable  -- a branch the model's invariants exclude
deriving Repr, DecidableEq, Inhabited

def Err.toString : Err → String
  | .constraint => "exc:constraint" | .notfound => "exc:notfound" | .bpp => "exc:bpp"
  | .index => "exc:index" | .ub => "ub" | .fuel => "fuel" | .unreachable => "unreachable"

/-- the continuous parent: `pProb`, `qProb`, `Expectation` (DiscreteDistribution.h:178-200) -/
structure Parent (α : Type) where
  P : α → α
  Q : α → α
  E : α → α

variable {α : Type} [Scalar α]

/-- `NumConstants::VERY_BIG()` = `1.7E+23` (NumConstants.h:48); as a double 0x44c1ffdbf6b2b2eb -/
def VERY_BIG : α := Gen.VERY_BIG   -- regenerated from the source by tools/gen_discretize_constants.py

def sumL (l : List α) : α := l.foldl (· + ·) Scalar.zero

/-! ## the tolerance-ordered map -/

abbrev TMap (α : Type) := List (α × α)

namespace TMap
/-- `Order::operator()(l1, l2)` (h:65-68): `l1 < l2 - precision_` -/
def lt (prec a b : α) : Bool := Scalar.ltb a (b - prec)

/-- `find(k)`: the entry whose key is equivalent to `k` (neither `comp(e,k)` nor `comp(k,e)`),
searched like `lower_bound` along the iteration order -/
def find? (prec k : α) : TMap α → Option (α × α)
  | [] => none
  | e :: m => if lt prec e.1 k then find? prec k m else if lt prec k e.1 then none else some e

/-- position of `find(k)` in iteration order -/
def findIdx? (prec k : α) : TMap α → Option Nat
  | [] => none
  | e :: m => if lt prec e.1 k then (findIdx? prec k m).map (· + 1) else if lt prec k e.1 then none else some 0

/-- `m[k] = v`: overwrites the value of an equivalent key (the key itself is kept), else inserts
at the `lower_bound` position -/
def assign (prec k v : α) : TMap α → TMap α
  | [] => [(k, v)]
  | e :: m => if lt prec e.1 k then e :: assign prec k v m
              else if lt prec k e.1 then (k, v) :: e :: m else (e.1, v) :: m

/-- `m[k] += v` (a missing key is value-initialised to 0 first) -/
def addTo (prec k v : α) : TMap α → TMap α
  | [] => [(k, Scalar.zero + v)]
  | e :: m => if lt prec e.1 k then e :: addTo prec k v m
              else if lt prec k e.1 then (k, Scalar.zero + v) :: e :: m else (e.1, e.2 + v) :: m

def keys (m : TMap α) : List α := m.map (·.1)
def vals (m : TMap α) : List α := m.map (·.2)

/-- iteration order is strictly increasing for the comparator -/
def sortedB (prec : α) : TMap α → Bool
  | [] => true
  | [_] => true
  | a :: b :: m => lt prec a.1 b.1 && sortedB prec (b :: m)
end TMap

/-! ## the domain `intMinMax_` (h:87): an `IntervalConstraint` whose two bounds are finite -/

structure Dom (α : Type) where
  lo : α
  hi : α
  inclLo : Bool
  inclHi : Bool
  prec : α
deriving Repr, Inhabited

namespace Dom
def toInterval (d : Dom α) : Interval α := ⟨.fin d.lo, .fin d.hi, d.inclLo, d.inclHi, d.prec⟩
/-- `intMinMax_->isCorrect(value)` -/
def isCorrect (d : Dom α) (x : α) : Bool := d.toInterval.isCorrect x
/-- `IntervalConstraint(-VERY_BIG, VERY_BIG, true, true)` (cpp:21) -/
def full : Dom α := ⟨Scalar.zero - VERY_BIG, VERY_BIG, true, true, Constants.TINY⟩
def setLowerBound (d : Dom α) (x : α) (strict : Bool) : Dom α := { d with lo := x, inclLo := !strict }
def setUpperBound (d : Dom α) (x : α) (strict : Bool) : Dom α := { d with hi := x, inclHi := !strict }
end Dom

/-- the data members of `AbstractDiscreteDistribution` (h:76-97) -/
structure DD (α : Type) where
  n : Nat            -- numberOfCategories_
  dist : TMap α      -- distribution_
  bounds : List α    -- bounds_
  dom : Dom α        -- intMinMax_
  median : Bool      -- median_
  scheme : Nat       -- discretizationScheme_ (1 EQUAL_PROB, 2 EQUAL_INTERVAL, 3 EQUAL_PROB_WHEN_POSSIBLE)
  prec : α           -- distribution_.key_comp().precision()
deriving Inhabited

namespace DD
def cats (s : DD α) : List α := s.dist.keys
def probs (s : DD α) : List α := s.dist.vals
/-- `lower :: bounds_ ++ [upper]` (the `allBounds` deque of cpp:481-483, cpp:508-510) -/
def allBounds (s : DD α) : List α := s.dom.lo :: s.bounds ++ [s.dom.hi]
end DD

/-! ## look-ups (cpp:259-290, repaired: the scan starts at `bounds_[0]`) -/

/-- number of leading bounds `b` with `¬ value < b` -/
def classIdx (x : α) : List α → Nat
  | [] => 0
  | b :: bs => if Scalar.ltb x b then 0 else classIdx x bs + 1

/-- `getCategoryIndex(value)` -/
def getCategoryIndex (s : DD α) (x : α) : Except Err Nat :=
  if !(s.dom.isCorrect x) then .error .bpp else .ok (classIdx x s.bounds)

/-- `getValueCategory(value)`: the iterator is advanced `classIdx` times from `begin()`;
dereferencing `end()` is undefined behaviour -/
def getValueCategory (s : DD α) (x : α) : Except Err α :=
  if !(s.dom.isCorrect x) then .error .bpp else
  match s.cats[classIdx x s.bounds]? with
  | some k => .ok k
  | none => .error .ub

/-- `getBound(i)` (h:141-146) -/
def getBound (s : DD α) (i : Nat) : Except Err α :=
  if i + 1 ≥ s.n then .error .index else
  match s.bounds[i]? with
  | some b => .ok b
  | none => .error .ub

/-- `getBounds()` (cpp:527-537) -/
def getBounds (s : DD α) : Except Err (List α) := do
  let inner ← (List.range (s.n - 1)).mapM (fun i => getBound s i)
  return s.dom.lo :: inner ++ [s.dom.hi]

/-- `getCategory(i)` / `getProbability(i)` (cpp:81-101): `it++` i times then dereference -/
def getCategory (s : DD α) (i : Nat) : Except Err α :=
  match s.cats[i]? with | some k => .ok k | none => .error .ub
def getProbabilityAt (s : DD α) (i : Nat) : Except Err α :=
  match s.probs[i]? with | some k => .ok k | none => .error .ub

/-! ## cumulative class queries (cpp:185-245) -/

/-- `getInfCumulativeProbability(category)` : Pr(x < category) -/
def cInf (s : DD α) (k : α) : α :=
  match s.dist.findIdx? s.prec k with
  | some i => sumL (s.probs.take i)
  | none => sumL s.probs
/-- `getIInfCumulativeProbability(category)` : Pr(x ≤ category) -/
def cIInf (s : DD α) (k : α) : α :=
  match s.dist.findIdx? s.prec k with
  | some i => Scalar.one - sumL (s.probs.drop (i + 1))
  | none => Scalar.zero
/-- `getSupCumulativeProbability(category)` : Pr(x > category) -/
def cSup (s : DD α) (k : α) : α :=
  match s.dist.findIdx? s.prec k with
  | some i => sumL (s.probs.drop (i + 1))
  | none => Scalar.zero
/-- `getSSupCumulativeProbability(category)` : Pr(x ≥ category) -/
def cSSup (s : DD α) (k : α) : α :=
  match s.dist.findIdx? s.prec k with
  | some i => Scalar.one - sumL (s.probs.take i)
  | none => Scalar.one - sumL s.probs

/-! ## discretisation -/

/-- consecutive pairs -/
def pairs : List α → List (α × α)
  | a :: b :: t => (a, b) :: pairs (b :: t)
  | _ => []

def nat (i : Nat) : α := Scalar.ofInt (Int.ofNat i)
def half : α := Scalar.ofRat 1 2
def two : α := Scalar.ofInt 2

/-- `insideDomain(q, lower, upper)` (repair): a quantile is kept inside the domain -/
def insideDomain (q lo hi : α) : α :=
  if !(Scalar.geb q lo) then lo else if !(Scalar.leb q hi) then hi else q

/-- interior bounds of the equal-probability scheme (cpp:313-317) -/
def eqPropBounds (par : Parent α) (n : Nat) (lo hi minX ec : α) : List α :=
  (List.range (n - 1)).map (fun i => insideDomain (par.Q (minX + nat (i + 1) * ec)) lo hi)

/-- class medians (cpp:324-327) -/
def medians (par : Parent α) (n : Nat) (lo hi minX ec : α) : List α :=
  (List.range n).map (fun i => insideDomain (par.Q (minX + (nat i + half) * ec)) lo hi)

/-- rescaling of the medians (cpp:329-347, repaired: only by a positive factor) -/
def rescale (vals : List α) (mean ec : α) : List α :=
  let t := sumL vals
  if !(Scalar.eqb t Scalar.zero) && Scalar.gtb (mean / t) Scalar.zero then vals.map (fun v => v * (mean / t / ec)) else vals

/-- value of a mean-valued class `[f, s]` (cpp:351-356, 360-364) -/
def meanValue (par : Parent α) (ec : α) (fs : α × α) : α :=
  let v := (par.E fs.2 - par.E fs.1) / ec
  if !(Scalar.geb v fs.1 && Scalar.leb v fs.2) then (fs.1 + fs.2) / two else v   -- repaired: also catches NaN

def midValue (fs : α × α) : α := (fs.1 + fs.2) / two

/-- bounds of the uniform fallback (cpp:370-374) -/
def uniformBounds (n : Nat) (lo ec : α) : List α :=
  (List.range (n - 1)).map (fun i => lo + nat (i + 1) * ec)

/-- the loops of cpp:387-406: raise leading values below the threshold -/
def adjLow (thr nv : α) : List α → List α
  | [] => []
  | v :: vs => if Scalar.ltb v thr then nv :: adjLow thr nv vs else v :: vs

/-- the loops of cpp:408-427 (on the reversed list): lower trailing values above the threshold -/
def adjHigh (thr nv : α) : List α → List α
  | [] => []
  | v :: vs => if Scalar.gtb v thr then nv :: adjHigh thr nv vs else v :: vs

/-- adjustments near the ends of the domain (cpp:386-427) -/
def adjust (d : Dom α) (prec : α) (vals : List α) : List α :=
  let v1 := if !d.inclLo then adjLow (d.lo + prec) (d.lo + prec) vals else adjLow d.lo (d.lo + prec) vals
  let v2 := if !d.inclHi then adjHigh (d.hi - prec) (d.hi - prec) v1.reverse else adjHigh d.hi (d.hi - prec) v1.reverse
  v2.reverse

/-- `std::numeric_limits<double>::epsilon()` = 2^-52 -/
def dblEpsilon : α := Scalar.ofRat 1 4503599627370496

/-- the separation step (repair): the precision, but at least four spacings of the doubles
around the value: `std::max(precision(), 4 * epsilon * std::abs(v))` -/
def sepStep (prec v : α) : α := Scalar.max prec (Gen.sepFactor * dblEpsilon * Scalar.abs v)

/-- the `while` loop of cpp:438-442: first `v + f*j*step` not equivalent to a key -/
def searchFree (prec step hi v : α) (m : TMap α) : Nat → Int → Int → Option α
  | 0, _, _ => none
  | fuel + 1, j, f =>
    let c := v + Scalar.ofInt (f * j) * step
    if (TMap.find? prec c m).isSome then
      let j' := j + 1
      let f' : Int := if Scalar.geb (v + Scalar.ofInt (f * j') * step) hi then -1 else 1
      searchFree prec step hi v m fuel j' f'
    else some c

/-- fuel of `searchFree`.  Every key is equivalent to at most three candidates on each side (the
step is at least the precision), so `6 * size + 6` turns suffice in exact arithmetic; the fuel is
generous. -/
def searchFuel (m : TMap α) : Nat := 6 * m.length + 1000000

/-- one turn of the loop cpp:432-447 -/
def insertDistinct (prec hi p : α) (m : TMap α) (v : α) : Option (TMap α) :=
  if (TMap.find? prec v m).isSome then
    let f : Int := if Scalar.geb (v + Constants.TINY) hi then -1 else 1
    (searchFree prec (sepStep prec v) hi v m (searchFuel m) 1 f).map (fun c => TMap.assign prec c p m)
  else some (TMap.assign prec v p m)

def insertAll (prec hi p : α) : TMap α → List α → Option (TMap α)
  | m, [] => some m
  | m, v :: vs => (insertDistinct prec hi p m v).bind (fun m' => insertAll prec hi p m' vs)

/-- bounds and raw class values of `discretizeEqualProportions` before the adjustments
(cpp:303-384) -/
def eqPropRaw (par : Parent α) (s : DD α) : List α × List α :=
  let lo := s.dom.lo
  let hi := s.dom.hi
  let minX := par.P lo
  let maxX := par.P hi
  if !(Scalar.eqb maxX minX) then
    let ec := (maxX - minX) / nat s.n
    let bounds := eqPropBounds par s.n lo hi minX ec
    if s.median then
      (bounds, rescale (medians par s.n lo hi minX ec) (par.E hi - par.E lo) ec)
    else
      (bounds, (pairs (lo :: bounds ++ [hi])).map (meanValue par ec))
  else
    let ec := (hi - lo) / nat s.n
    let bounds := uniformBounds s.n lo ec
    (bounds, (pairs (lo :: bounds ++ [hi])).map midValue)

/-- `discretizeEqualProportions()` (cpp:294-450) -/
def eqProp (par : Parent α) (s : DD α) : Except Err (DD α) :=
  let (bounds, raw) := eqPropRaw par s
  let vals := adjust s.dom s.prec raw
  match insertAll s.prec s.dom.hi (Scalar.one / nat s.n) [] vals with
  | some m => .ok { s with dist := m, bounds := bounds }
  | none => .error .fuel

/-- `insertClass_(value, p)` for a list of (value, probability) pairs -/
def insertPairs (prec hi : α) : TMap α → List (α × α) → Option (TMap α)
  | m, [] => some m
  | m, vp :: vps => (insertDistinct prec hi vp.2 m vp.1).bind (fun m' => insertPairs prec hi m' vps)

/-- the class masses of `discretizeEqualIntervals()` (repaired: a domain without mass — `condProb`
zero or NaN — gets classes of equal probability, as in `discretizeEqualProportions`) -/
def eqIntMasses (par : Parent α) (n : Nat) (condProb : α) (allBounds : List α) : List α :=
  (pairs allBounds).map (fun fs =>
    if Scalar.gtb condProb Scalar.zero then (par.P fs.2 - par.P fs.1) / condProb else Scalar.one / nat n)

/-- `discretizeEqualIntervals()` (repaired: the class values are inserted with `insertClass_`, which
keeps them distinct on a domain narrower than `n` times the precision) -/
def eqInt (par : Parent α) (s : DD α) : Except Err (DD α) :=
  let lo := s.dom.lo
  let hi := s.dom.hi
  let condProb := par.P hi - par.P lo
  let interval := (hi - lo) / nat s.n
  let bounds := (List.range (s.n - 1)).map (fun i => lo + (nat i + Scalar.one) * interval)
  let values := (List.range s.n).map (fun i => lo + (nat i + half) * interval)
  let masses := eqIntMasses par s.n condProb (lo :: bounds ++ [hi])
  match insertPairs s.prec hi [] (values.zip masses) with
  | some m => .ok { s with dist := m, bounds := bounds }
  | none => .error .fuel

/-- two consecutive entries are `==` (cpp:512-516) -/
def hasEqualNeighbours : List α → Bool
  | a :: b :: t => Scalar.eqb b a || hasEqualNeighbours (b :: t)
  | _ => false

/-- `discretize()` (cpp:494-523).  A class count of 0 makes `bounds_.resize(n - 1)` wrap around:
not modelled (`Err.ub`). -/
def discretize (par : Parent α) (s : DD α) : Except Err (DD α) :=
  if s.n == 0 then .error .ub
  else if s.scheme == 1 then eqProp par s
  else if s.scheme == 2 then eqInt par s
  else do
    let s1 ← eqProp par s
    if hasEqualNeighbours s1.allBounds then eqInt par s1 else .ok s1

/-- `setNumberOfCategories(nbClasses)` (cpp:66-76) -/
def setNumberOfCategories (par : Parent α) (s : DD α) (n : Nat) : Except Err (DD α) :=
  if s.n != n then discretize par { s with n := n } else .ok s

/-- `setMedian(median)` (h:179-186) -/
def setMedian (par : Parent α) (s : DD α) (b : Bool) : Except Err (DD α) :=
  if s.median != b then discretize par { s with median := b } else .ok s

/-- the new domain of `restrictToConstraint(c)` (cpp:539-556, repaired): the intersection
(`operator&=` of C01's model), refused when empty.  Both ends of a non-empty intersection with a
domain with finite ends are finite (theorem `restrictDom_reachable`). -/
def restrictDom (d : Dom α) (c : Interval α) : Except Err (Dom α × Bool) :=
  let i := d.toInterval.interAssign c
  if i.isEmpty then .error .bpp else
  match i.lo, i.hi with
  | .fin l, .fin h => .ok (⟨l, h, i.inclLo, i.inclHi, i.prec⟩, i.neI d.toInterval)
  | _, _ => .error .unreachable

/-- `restrictToConstraint(c)` for an interval constraint -/
def restrictToConstraint (par : Parent α) (s : DD α) (c : Interval α) : Except Err (DD α) := do
  let (d, changed) ← restrictDom s.dom c
  if changed then discretize par { s with dom := d } else .ok s

/-! ## executable predicates (the theorems of BppProofs/Props/C09.lean are about these; the driver
evaluates them on the implementation's state) -/

def allB (p : α → Bool) (l : List α) : Bool := l.all p

/-- non-decreasing list -/
def nondecr : List α → Bool
  | a :: b :: t => Scalar.leb a b && nondecr (b :: t)
  | _ => true

/-- strictly increasing list -/
def strictIncr : List α → Bool
  | a :: b :: t => Scalar.ltb a b && strictIncr (b :: t)
  | _ => true

/-- clause n_classes: exactly `n` classes, `n - 1` interior bounds -/
def nClassesOk (s : DD α) : Bool := s.dist.length == s.n && s.bounds.length + 1 == s.n

/-- clause probs_nonneg -/
def probsNonneg (s : DD α) : Bool := s.probs.all (fun p => Scalar.leb Scalar.zero p)

/-- clause probs_sum_one, up to `tol` (0 in the theorems) -/
def probsSumOne (tol : α) (s : DD α) : Bool := Scalar.leb (Scalar.abs (sumL s.probs - Scalar.one)) tol

/-- clause bounds_monotone_in_domain: `lower ≤ b₁ ≤ … ≤ b_{n-1} ≤ upper` -/
def boundsMonoInDom (s : DD α) : Bool := nondecr s.allBounds

/-- clause bounds_in_domain: the domain is ordered and every interior bound lies in it — holds
for every parent (the quantiles are clamped into the domain), judged unconditionally by the driver -/
def boundsInDom (s : DD α) : Bool :=
  Scalar.leb s.dom.lo s.dom.hi && s.bounds.all (fun b => Scalar.leb s.dom.lo b && Scalar.leb b s.dom.hi)

/-- clause value_in_domain: every class value lies in the (closed) domain -/
def valuesInDom (s : DD α) : Bool :=
  s.cats.all (fun v => Scalar.leb s.dom.lo v && Scalar.leb v s.dom.hi)

/-- the domain is narrower than four separation steps per class: `n` keys that the map tells apart
hardly fit into it -/
def narrowDom (s : DD α) : Bool :=
  !(Scalar.gtb (s.dom.hi - s.dom.lo) (Scalar.ofInt 4 * nat s.n * sepStep s.prec s.dom.hi))

/-- clause values_strict_mono -/
def valuesStrictMono (s : DD α) : Bool := strictIncr s.cats

/-- clause value_in_own_class: class value `i` lies in `[allBounds[i], allBounds[i+1]]` -/
def valuesInClass (s : DD α) : Bool :=
  (s.cats.zip (pairs s.allBounds)).all (fun vb => Scalar.leb vb.2.1 vb.1 && Scalar.leb vb.1 vb.2.2)

/-- clause equal_mass: every class has probability `1/n` -/
def equalMass (s : DD α) : Bool := s.probs.all (fun p => Scalar.eqb p (Scalar.one / nat s.n))

/-- discrete mean `Σ pᵢ vᵢ` -/
def discreteMean (s : DD α) : α := sumL (s.dist.map (fun kv => kv.2 * kv.1))

/-- the class a value belongs to, as a specification: `k` with `allBounds[k] ≤ x < allBounds[k+1]`
for interior classes (the first / last class extend to the ends of the domain) -/
def inClass (bounds : List α) (k : Nat) (x : α) : Bool :=
  (match k with | 0 => true | j + 1 => match bounds[j]? with | some b => Scalar.leb b x | none => false) &&
  (match bounds[k]? with | some b => Scalar.ltb x b | none => k == bounds.length)

/-- clause lookup_spec, as evaluated on an answer `k` of `getCategoryIndex(x)` -/
def lookupOk (s : DD α) (x : α) (k : Nat) : Bool := inClass s.bounds k x

/-! ## guards: where the comparator precision does not interfere -/

/-- `resolved`: the comparator precision does not interfere with the raw class values of
`discretizeEqualProportions`: the adjustments near the ends of the domain leave them unchanged
and consecutive values are further apart than the precision -/
def listEqB : List α → List α → Bool
  | [], [] => true
  | a :: as, b :: bs => Scalar.eqb a b && listEqB as bs
  | _, _ => false

def separated (prec : α) : List α → Bool
  | a :: b :: t => TMap.lt prec a b && separated prec (b :: t)
  | _ => true

def resolved (par : Parent α) (s : DD α) : Bool :=
  let raw := (eqPropRaw par s).2
  listEqB (adjust s.dom s.prec raw) raw && separated s.prec raw

/-- no mean-valued class fell back to the midpoint of its bounds (cpp:375, 385: "may happen if the
two bounds are undistinguishable").  Under `H` in exact arithmetic the fallback never triggers
(`meanValue_mem`); in doubles it does when the quantile's error is not small against the class
width, and the discrete mean is then not the parent's mean. -/
def noMeanFallback (par : Parent α) (s : DD α) : Bool :=
  let minX := par.P s.dom.lo
  let maxX := par.P s.dom.hi
  Scalar.eqb maxX minX || s.median ||
    (let ec := (maxX - minX) / nat s.n
     (pairs (s.dom.lo :: eqPropBounds par s.n s.dom.lo s.dom.hi minX ec ++ [s.dom.hi])).all (fun fs =>
       let v := (par.E fs.2 - par.E fs.1) / ec
       Scalar.geb v fs.1 && Scalar.leb v fs.2))

/-- the medians of the non-degenerate branch are rescaled (condition of `rescale`) -/
def rescaledB (par : Parent α) (s : DD α) : Bool :=
  let minX := par.P s.dom.lo
  let ec := (par.P s.dom.hi - minX) / nat s.n
  let t := sumL (medians par s.n s.dom.lo s.dom.hi minX ec)
  !(Scalar.eqb t Scalar.zero) && Scalar.gtb ((par.E s.dom.hi - par.E s.dom.lo) / t) Scalar.zero

/-- the classes of the equal-interval scheme are wider than the comparator precision -/
def eqIntResolved (s : DD α) : Bool :=
  s.n ≤ 1 || TMap.lt s.prec Scalar.zero ((s.dom.hi - s.dom.lo) / nat s.n)

/-- the state is the result of `discretizeEqualProportions` (and not of the equal-interval scheme) -/
def eqProbBranch (par : Parent α) (s : DD α) : Bool :=
  s.scheme == 1 || (s.scheme == 3 && !(hasEqualNeighbours (s.dom.lo :: (eqPropRaw par s).1 ++ [s.dom.hi])))

/-! ## the look-ups as found (before the repair) -/
namespace Legacy
/-- `getValueCategory`: the scan started at `bounds_[1]` -/
def valueIdx (x : α) (bounds : List α) : Nat := classIdx x bounds.tail
def getValueCategory (s : DD α) (x : α) : Except Err α :=
  if !(s.dom.isCorrect x) then .error .bpp else
  match s.cats[valueIdx x s.bounds]? with
  | some k => .ok k
  | none => .error .ub
/-- `getCategoryIndex`: returned the position `i ≥ 1` of the first bound `bounds_[i] > value`,
and threw the integer `bounds_.size()` when there is none -/
def firstAbove (x : α) : List α → Nat → Option Nat
  | [], _ => none
  | b :: bs, i => if Scalar.ltb x b then some i else firstAbove x bs (i + 1)
def getCategoryIndex (s : DD α) (x : α) : Except Err (Option Nat) :=
  if !(s.dom.isCorrect x) then .error .bpp else .ok (firstAbove x s.bounds.tail 1)
end Legacy

end Bpp.Discretize
