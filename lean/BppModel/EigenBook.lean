import BppModel.EigenGlue
/-
C06 (round 2) — the *bookkeeping* of the iteration kernels of EigenValue.h, i.e. the parts of
`hqr2` and `tql2` that are logic rather than numerical iteration:

(line numbers: EigenValue.h of the library tree with the verification hooks, branch fix-C06; the section
comments quoted are the source's own and identify the places independently of the numbering)

  * hqr2  (EigenValue.h:646-, "Outer loop over eigenvalue index"; one root 671-, two roots 694-,
           Wilkinson's shift 815-, MATLAB's shift 839-)
      - the running total `exshift` of the exceptional shifts (iter == 10: Wilkinson's ad hoc shift,
        iter == 30: MATLAB's ad hoc shift), subtracted from the diagonal of the active window when taken
        and added back to every eigenvalue when it is deflated ("One root found" / "Two roots found");
      - the formulas of the 2 × 2 deflation (real pair / complex pair);
  * tql2  (EigenValue.h:301-, "Symmetric tridiagonal QL algorithm"; implicit shift 341-,
           `d_[l] = d_[l] + f` 423, sort 441-)
      - the implicit shift `h` subtracted from `d[l .. n-1]`, accumulated in `f`, added back at
        `d_[l] = d_[l] + f`;
      - the final selection sort of the eigenvalues with their eigenvector columns.

The QR / QL *sweeps* themselves (the double-shift Francis step, the Givens chain of tql2) are NOT
transcribed: they enter the two state machines as an event `sweep` carrying the new diagonal of the
active window, an arbitrary parameter.  Theorems (BppProofs/Props/C06Book.lean) hold for every event
sequence, under the one hypothesis a similarity transformation of the active window satisfies: a sweep
preserves the trace of the window.

Tie: the guarded instrumentation of EigenValue.h (`verifLog()`) records, at each bookkeeping step, the
values that enter it and the values the C++ computed; the driver replays the records through the
definitions below at `Float` and compares bit for bit (Drive/C06.lean, op `trace`).

Generic over `[Scalar α]`; core Lean only.
-/
namespace Bpp.EigenBook
open Bpp Scalar Bpp.EigenGlue

variable {α : Type} [Scalar α]

def two : α := ofInt 2

/-- `f[i] = v` -/
def upd (f : Nat → α) (i : Nat) (v : α) : Nat → α := fun j => if j = i then v else f j

/-! ## hqr2: "Two roots found"

```
w = H(n,n-1) * H(n-1,n);
p = (H(n-1,n-1) - H(n,n)) / 2.0;
q = p * p + w;
z = sqrt(abs(q));
H(n,n) = H(n,n) + exshift;  H(n-1,n-1) = H(n-1,n-1) + exshift;
x = H(n,n);
if (q >= 0) {                                   // real pair
  z = (p >= 0) ? p + z : p - z;
  d[n-1] = x + z;  d[n] = d[n-1];  if (z != 0.0) d[n] = x - w / z;
  e[n-1] = 0.0;  e[n] = 0.0;  ...
} else {                                        // complex pair
  d[n-1] = x + p;  d[n] = x + p;  e[n-1] = z;  e[n] = -z;
}
```
`a b c dd` are `H(n-1,n-1) H(n-1,n) H(n,n-1) H(n,n)` before the shift is added back. -/
structure Roots (α : Type) where
  d1 : α
  d2 : α
  e1 : α
  e2 : α

def deflate2 (a b c dd exshift : α) : Roots α :=
  let w := c * b
  let p := (a - dd) / two
  let q := p * p + w
  let z := sqrt (nabs q)
  let x := dd + exshift
  if geb q zero then
    let z := if geb p zero then p + z else p - z
    let d1 := x + z
    let d2 := if eqb z zero then d1 else x - w / z
    { d1 := d1, d2 := d2, e1 := zero, e2 := zero }
  else
    { d1 := x + p, d2 := x + p, e1 := z, e2 := -z }

/-! ## hqr2: MATLAB's ad hoc shift (iter == 30)

```
s = (y - x) / 2.0;  s = s * s + w;
if (s > 0) { s = sqrt(s); if (y < x) s = -s;  s = x - w / ((y - x) / 2.0 + s);  ... exshift += s; }
```
`none`: the branch `s > 0` is not taken, nothing is shifted. -/
def ex30Shift (x y w : α) : Option α :=
  let s := (y - x) / two
  let s := s * s + w
  if gtb s zero then
    let s := sqrt s
    let s := if ltb y x then -s else s
    some (x - w / ((y - x) / two + s))
  else none

/-! ## hqr2: the shift / deflate state machine -/

/-- `n` is the size of the active window (the C++ `n` plus one); `diag i` for `i < n` is the diagonal
of the working Hessenberg matrix `H_` inside the window (outside the window `diag` is not tracked);
`d`, `e` are the output lists; `shifts` is a history variable (every exceptional shift applied so far,
latest first) that no computation reads. -/
structure HqrSt (α : Type) where
  n : Nat
  diag : Nat → α
  exshift : α
  d : Nat → α
  e : Nat → α
  shifts : List α

inductive HqrEv (α : Type) where
  /-- QR sweeps (untranscribed): the diagonal of the window becomes `diag'` -/
  | sweep (diag' : Nat → α)
  /-- `iter == 10`: `x = H(n,n)` is subtracted from the window's diagonal -/
  | ex10
  /-- `iter == 30` with `w = H(n,n-1) * H(n-1,n)` -/
  | ex30 (w : α)
  /-- "One root found" -/
  | defl1
  /-- "Two roots found", `b = H(n-1,n)`, `c = H(n,n-1)` -/
  | defl2 (b c : α)

/-- `exshift += x; for (i = low; i <= n; i++) H(i,i) -= x;` -/
def applyShift (st : HqrSt α) (x : α) : HqrSt α :=
  { st with diag := fun i => if i < st.n then st.diag i - x else st.diag i,
            exshift := st.exshift + x, shifts := x :: st.shifts }

/-- one event; `none` = the C++ cannot be at this point (window too small for the event) -/
def hqrStep (st : HqrSt α) : HqrEv α → Option (HqrSt α)
  | .sweep diag' => some { st with diag := fun i => if i < st.n then diag' i else st.diag i }
  | .ex10 => if 3 ≤ st.n then some (applyShift st (st.diag (st.n - 1))) else none
  | .ex30 w =>
    if 3 ≤ st.n then
      match ex30Shift (st.diag (st.n - 1)) (st.diag (st.n - 2)) w with
      | some s => some (applyShift st s)
      | none => some st
    else none
  | .defl1 =>
    if 1 ≤ st.n then
      let i := st.n - 1
      some { st with n := i, d := upd st.d i (st.diag i + st.exshift), e := upd st.e i zero }
    else none
  | .defl2 b c =>
    if 2 ≤ st.n then
      let i := st.n - 1
      let r := deflate2 (st.diag (i - 1)) b c (st.diag i) st.exshift
      some { st with n := i - 1, d := upd (upd st.d (i - 1) r.d1) i r.d2, e := upd (upd st.e (i - 1) r.e1) i r.e2 }
    else none

def hqrRun (st : HqrSt α) : List (HqrEv α) → Option (HqrSt α)
  | [] => some st
  | ev :: evs => (hqrStep st ev).bind fun st' => hqrRun st' evs

/-- the state at the entry of the outer loop: the whole matrix is active, `exshift = 0` -/
def hqrInit (n : Nat) (diag : Nat → α) : HqrSt α :=
  { n := n, diag := diag, exshift := zero, d := fun _ => zero, e := fun _ => zero, shifts := [] }

/-! ## tql2: the implicit shift

```
g = d[l];  p = (d[l+1] - g) / (2.0 * e[l]);  r = hypot(p, 1.0);  if (p < 0) r = -r;
d[l] = e[l] / (p + r);  d[l+1] = e[l] * (p + r);
h = g - d[l];
for (i = l + 2; i < n; i++) d[i] -= h;
f = f + h;
```
`hypot` is not a `Scalar` operation (Lean's `Float` has none): its value `r` is a parameter; the theorems
assume `r * r = p * p + 1 ∧ 0 < r`, the driver takes it from the record and checks this relation. -/
def tqlShift (n l : Nat) (d : Nat → α) (el r : α) : (Nat → α) × α :=
  let g := d l
  let p := (d (l + 1) - g) / (two * el)
  let r := if ltb p zero then -r else r
  let dl := el / (p + r)
  let dl1 := el * (p + r)
  let h := g - dl
  (fun i => if i = l then dl else if i = l + 1 then dl1 else if l + 2 ≤ i ∧ i < n then d i - h else d i, h)

structure TqlSt (α : Type) where
  n : Nat
  l : Nat
  d : Nat → α
  f : α
  shifts : List α

inductive TqlEv (α : Type) where
  /-- one pass of the do-loop up to `f = f + h`, with `e[l]` and the value of `hypot(p, 1)` -/
  | shift (el r : α)
  /-- the implicit QL transformation (untranscribed): `d[l .. n-1]` becomes `d'` -/
  | sweep (d' : Nat → α)
  /-- `d[l] = d[l] + f`, next `l` -/
  | fin

def tqlStep (st : TqlSt α) : TqlEv α → Option (TqlSt α)
  | .shift el r =>
    if st.l + 1 < st.n then
      let (d', h) := tqlShift st.n st.l st.d el r
      some { st with d := d', f := st.f + h, shifts := h :: st.shifts }
    else none
  | .sweep d' => some { st with d := fun i => if st.l ≤ i ∧ i < st.n then d' i else st.d i }
  | .fin =>
    if st.l < st.n then some { st with d := upd st.d st.l (st.d st.l + st.f), l := st.l + 1 } else none

def tqlRun (st : TqlSt α) : List (TqlEv α) → Option (TqlSt α)
  | [] => some st
  | ev :: evs => (tqlStep st ev).bind fun st' => tqlRun st' evs

def tqlInit (n : Nat) (d : Nat → α) : TqlSt α := { n := n, l := 0, d := d, f := zero, shifts := [] }

/-! ## tql2: "Sort eigenvalues and corresponding vectors"

```
for (i = 0; n > 0 && i < n - 1; i++) {
  k = i;  p = d[i];
  for (j = i + 1; j < n; j++) if (d[j] < p) { k = j; p = d[j]; }
  if (k != i) { d[k] = d[i]; d[i] = p;  for (j = 0; j < n; j++) swap(V(j,i), V(j,k)); }
}
``` -/

/-- the inner loop from `j`, `fuel = n - j` iterations left -/
def minFrom (d : Nat → α) (k : Nat) (p : α) (j : Nat) : Nat → Nat × α
  | 0 => (k, p)
  | fuel + 1 => if ltb (d j) p then minFrom d j (d j) (j + 1) fuel else minFrom d k p (j + 1) fuel

def sortStep (n : Nat) (s : (Nat → α) × FMat α) (i : Nat) : (Nat → α) × FMat α :=
  let (d, V) := s
  let (k, p) := minFrom d i (d i) (i + 1) (n - (i + 1))
  if k ≠ i then
    (upd (upd d k (d i)) i p, fun r c => if c = i then V r k else if c = k then V r i else V r c)
  else (d, V)

def sortEig (n : Nat) (d : Nat → α) (V : FMat α) : (Nat → α) × FMat α :=
  (List.range (n - 1)).foldl (sortStep n) (d, V)

end Bpp.EigenBook
