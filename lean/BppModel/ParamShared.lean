import BppModel.Param
/-
`bpp::Parameter` with its constraint as what it is in the code: a `std::shared_ptr` to a mutable
heap object (src/Bpp/Numeric/Parameter.h:104 `std::shared_ptr<ConstraintInterface> constraint_`).

`BppModel/Param.lean` models the attached constraint *by value*.  That is exact as long as nobody
mutates the constraint object in place while it is attached.  The public interface allows it
without any cast away from const:
 * the constructor and `setConstraint` attach the caller's pointer as it is (Parameter.cpp:34, 99) —
   the caller keeps its own handle (although Parameter.h:120 says "The constraint will be copied");
 * `getConstraint()` / `constraint()` on a non-const parameter return a handle to the non-const
   object (Parameter.h:218, 225), `removeConstraint()` returns it (Parameter.cpp:104);
 * the copy constructor and `operator=` copy the pointer: copies share one object
   (Parameter.cpp:49, 60);
 * `IntervalConstraint::setLowerBound`, `setUpperBound`, `operator&=`, `readDescription` and the
   implicit `operator=` change that object in place (Constraints.h:171, 172, 250, 331);
 * the six static constants (`Parameter::R_PLUS` …) are `const shared_ptr<IntervalConstraint>`:
   constant pointers to *non-const* objects (Parameter.h:307-312).

This file is the model with a heap of constraint objects.  Every member of `Parameter` is the
by-value member applied to the parameter's *view* (its fields with the pointer dereferenced), so
that the by-value model is reused literally and the two models are related by a simulation
(BppProofs/Props/C01Shared.lean).
-/
namespace Bpp

/-- the address of a constraint object: what a `std::shared_ptr<ConstraintInterface>` points to -/
abbrev CRef := Nat

/-- the data members of a `Parameter` object (name and listeners: C03) -/
structure SParam (α : Type) where
  value : α
  precision : α
  /-- `constraint_`: null or the address of a (possibly shared) constraint object -/
  cref : Option CRef
  auto : Bool
deriving Repr, Inhabited

/-- the members of `IntervalConstraint` that change the object in place -/
inductive CMut (α : Type) where
  /-- `setLowerBound(b, strict)` (Constraints.h:171) -/
  | setLower (b : Bound α) (strict : Bool)
  /-- `setUpperBound(b, strict)` (Constraints.h:172) -/
  | setUpper (b : Bound α) (strict : Bool)
  /-- `*this &= d` (Constraints.h:331); the argument is only read -/
  | interAssign (d : Interval α)
  /-- the object becomes `d`: `readDescription` (Constraints.h:250; `d` = what `Describe.readDescription`
  computes, partial updates of a raising call included) and the implicit `operator=` -/
  | replace (d : Interval α)

namespace CMut
variable {α : Type} [Scalar α]
def apply : CMut α → Interval α → Interval α
  | .setLower b s, c => c.setLowerBound b s
  | .setUpper b s, c => c.setUpperBound b s
  | .interAssign d, c => c.interAssign d
  | .replace d, _ => d
end CMut

/-- constraint objects on the heap (cells below `size`; a cell is never freed: an object lives at
least as long as a pointer to it) and parameter objects in registers -/
structure SWorld (α : Type) where
  heap : Nat → Option (Interval α)
  size : Nat
  ps : Nat → Option (SParam α)

namespace SWorld
variable {α : Type}

def empty : SWorld α := ⟨fun _ => none, 0, fun _ => none⟩

/-- `*ptr`, for a possibly null pointer -/
def deref (w : SWorld α) (r : Option CRef) : Option (Interval α) := r.bind w.heap

/-- a null pointer or a pointer to a live object -/
def validRef (w : SWorld α) (r : Option CRef) : Bool :=
  match r with
  | none => true
  | some a => (w.heap a).isSome

/-- the parameter as the by-value model sees it now -/
def view (w : SWorld α) (p : SParam α) : Param α := ⟨p.value, p.precision, w.deref p.cref, p.auto⟩

/-- all parameter registers as the by-value model sees them now -/
def viewStore (w : SWorld α) : PStore α := fun k => (w.ps k).map w.view

def setP (w : SWorld α) (k : Nat) (p : SParam α) : SWorld α :=
  { w with ps := fun i => if i = k then some p else w.ps i }

/-- is some live parameter attached to the object at `a`? (over the registers below `n`) -/
def attachedBelow (w : SWorld α) (a : CRef) : Nat → Bool
  | 0 => false
  | n + 1 => (match w.ps n with | some p => p.cref == some a | none => false) || attachedBelow w a n

end SWorld

namespace SParam
variable {α : Type}
/-- write the value members of a by-value result back into the object; the pointer stays -/
def sync (p : SParam α) (q : Param α) : SParam α := { p with value := q.value, precision := q.precision, auto := q.auto }
end SParam

/-- one call of the public interface: on a constraint object or on the parameter in register `k` -/
inductive SOp (α : Type) where
  /-- a new constraint object: a constructor of `IntervalConstraint`, `clone()`, the result of `operator&` -/
  | alloc (c : Interval α)
  /-- an in-place member of `IntervalConstraint` on the object at `a`, through any handle to it -/
  | mutate (a : CRef) (m : CMut α)
  /-- `Parameter(name, value, ptr, precision)` / `AutoParameter(name, value, ptr)`: attaches `ptr` itself -/
  | construct (k : Nat) (auto : Bool) (v : α) (r : Option CRef) (prec : α)
  | copy (src dst : Nat)
  | toAuto (src dst : Nat)
  | toPlain (src dst : Nat)
  | assign (src dst : Nat)
  | setValue (k : Nat) (v : α)
  | setPrecision (k : Nat) (x : α)
  /-- `setConstraint(ptr)`: attaches `ptr` itself -/
  | setConstraint (k : Nat) (r : Option CRef)
  | removeConstraint (k : Nat)

namespace SOp
variable {α : Type} [Scalar α]

/-- one step.  `.absent`: the script names an empty register or a dangling address (not a library
outcome).  A raising call leaves the world as it was. -/
def step (w : SWorld α) : SOp α → SWorld α × POutcome
  | .alloc c => ({ w with heap := fun i => if i = w.size then some c else w.heap i, size := w.size + 1 }, .done)
  | .mutate a m =>
    match w.heap a with
    | some c => ({ w with heap := fun i => if i = a then some (m.apply c) else w.heap i }, .done)
    | none => (w, .absent)
  | .construct k auto v r prec =>
    if !w.validRef r then (w, .absent) else
    match Param.construct v (w.deref r) prec auto with
    | .ok q => (w.setP k ⟨q.value, q.precision, r, q.auto⟩, .done)
    | .error e => (w, .raised e)
  | .copy src dst =>
    match w.ps src with
    | some p => (w.setP dst p, .done)               -- the pointer is copied: one shared object
    | none => (w, .absent)
  | .toAuto src dst =>
    match w.ps src with
    | some p => (w.setP dst { p with auto := true }, .done)
    | none => (w, .absent)
  | .toPlain src dst =>
    match w.ps src with
    | some p => (w.setP dst { p with auto := false }, .done)
    | none => (w, .absent)
  | .assign src dst =>
    match w.ps src, w.ps dst with
    | some p, some q => (w.setP dst { p with auto := q.auto }, .done)
    | _, _ => (w, .absent)
  | .setValue k v =>
    match w.ps k with
    | some p =>
      match (w.view p).setValue v with
      | .ok q => (w.setP k (p.sync q), .done)
      | .error e => (w, .raised e)
    | none => (w, .absent)
  | .setPrecision k x =>
    match w.ps k with
    | some p => (w.setP k (p.sync ((w.view p).setPrecision x)), .done)
    | none => (w, .absent)
  | .setConstraint k r =>
    if !w.validRef r then (w, .absent) else
    match w.ps k with
    | some p =>
      match (w.view p).setConstraint (w.deref r) with
      | .ok _ => (w.setP k { p with cref := r }, .done)
      | .error e => (w, .raised e)
    | none => (w, .absent)
  | .removeConstraint k =>
    match w.ps k with
    | some p => (w.setP k { p with cref := none }, .done)
    | none => (w, .absent)

/-- a whole history, raising calls included -/
def run (w : SWorld α) : List (SOp α) → SWorld α
  | [] => w
  | op :: rest => run (step w op).1 rest

/-- the same call as the by-value model sees it: pointers replaced by what they point to *now*.
`alloc` and `mutate` are not calls on a parameter and have no by-value counterpart. -/
def erase (w : SWorld α) : SOp α → Option (POp α)
  | .alloc _ => none
  | .mutate _ _ => none
  | .construct k auto v r prec => some (.construct k auto v (w.deref r) prec)
  | .copy s d => some (.copy s d)
  | .toAuto s d => some (.toAuto s d)
  | .toPlain s d => some (.toPlain s d)
  | .assign s d => some (.assign s d)
  | .setValue k v => some (.setValue k v)
  | .setPrecision k x => some (.setPrecision k x)
  | .setConstraint k r => some (.setConstraint k (w.deref r))
  | .removeConstraint k => some (.removeConstraint k)

/-- does the call mention only live addresses? -/
def refsOk (w : SWorld α) : SOp α → Bool
  | .construct _ _ _ r _ => w.validRef r
  | .setConstraint _ r => w.validRef r
  | _ => true

end SOp
end Bpp
