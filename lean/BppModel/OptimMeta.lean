import BppModel.OptimMulti
import BppModel.OptimLine
/-
Model of the optimisation framework (C10), part 5: `MetaOptimizer`
(src/Bpp/Numeric/Function/MetaOptimizer.cpp, after the `fix:` commits of findings/C10.json), in the
configuration the harness builds: two optimisers in a `MetaOptimizerInfos`, a
`SimpleMultiDimensions` for a first group of parameter names and a `BfgsMultiDimensions` for a second
one (possibly empty), both with the same iteration type (`step` / `full`).

(Round 3 repairs: the shortcut "a single optimiser has parameters: tolerance reached" applies only when
that optimiser is iterated in `full` mode and has been run with the final tolerance.  Other configurations
— Powell / conjugate gradient members, a single member — are built by the harness and explored through
the predicates only.)

The decimal logarithm is not an operation of `Scalar`: it is a parameter `log10` of the model (the
driver passes libm's; the schedule of tolerances it feeds plays no role in any theorem).
-/
namespace Bpp.Optim
open Bpp Scalar

section
variable {α : Type} [Scalar α] {F : Type}

structure Meta (α : Type) where
  /-- `n_`: number of progressive steps -/
  n : Nat
  /-- iteration type `IT_TYPE_FULL` (else `IT_TYPE_STEP`) -/
  full : Bool
  /-- `optDesc_->getParameterNames(0 / 1)` -/
  g1 : List Nat
  g2 : List Nat
  /-- `optParameters_[0 / 1]` -/
  p1 : PList α
  p2 : PList α
  /-- the `SimpleMultiDimensions` and the `BfgsMultiDimensions` held by the description -/
  c1 : Core α
  e1 : Simple α
  c2 : Core α
  e2 : Bfgs α
  stepCount : Nat
  initialValue : α
  precisionStep : α
deriving Inhabited

/-- `for name in names: if parameters.hasParameter(name): l.addParameter(getParameters().parameter(name))`
(MetaOptimizer.cpp:77-87) -/
def metaSubList (own given : PList α) (ns : List Nat) : PList α :=
  ns.filterMap (fun n => if (findNamed given n).isSome then findNamed own n else none)

/-- `MetaOptimizer::doInit` (MetaOptimizer.cpp:72-117) -/
def metaDoInit (I : FunI F α) (log10 : α → α) (s : St F (Meta α) α) (params : PList α) : Except (Exc × F) (St F (Meta α) α) :=
  let p1 := metaSubList s.core.params params s.ext.g1
  let p2 := metaSubList s.core.params params s.ext.g2
  -- "Initialize optimizers": the constraint policy is handed down to those that have parameters
  let c1 := if p1.length > 0 then { s.ext.c1 with policy := s.core.policy } else s.ext.c1
  let c2 := if p2.length > 0 then { s.ext.c2 with policy := s.core.policy } else s.ext.c2
  -- "Actualize parameters"
  match matchList s.core.params (I.getParameters s.fn) with
  | .error e => .error (e, s.fn)
  | .ok own =>
    match I.setParameters s.fn own with
    | .error e => .error e
    | .ok fn =>
      let iv := I.value fn
      let ps := (log10 s.core.tolerance - log10 (abs iv)) / ofInt (Int.ofNat s.ext.n)
      .ok { s with fn := fn, core := { s.core with params := own },
                   ext := { s.ext with p1 := p1, p2 := p2, c1 := c1, c2 := c2, stepCount := 1, initialValue := iv, precisionStep := ps } }

/-- the body of the loop of `doStep` for the `SimpleMultiDimensions` (MetaOptimizer.cpp:146-170) -/
def metaRunSimple (I : FunI F α) (fuel : Nat) (s : St F (Meta α) α) (tol : α) : Except (Exc × F) (St F (Meta α) α) :=
  if s.ext.p1.length == 0 then .ok s else
  match matchList s.ext.p1 s.core.params with
  | .error e => .error (e, s.fn)
  | .ok p1 =>
    let sub : St F (Simple α) α := { core := { s.ext.c1 with tolerance := tol }, fn := s.fn, ext := s.ext.e1 }
    match (simpleAlgo I fuel).init sub p1 with
    | .error e => .error e
    | .ok sub =>
      match (if s.ext.full then (simpleAlgo I fuel).optimize fuel sub else (simpleAlgo I fuel).step sub) with
      | .error e => .error e
      | .ok (sub, _) =>
        match matchList s.core.params sub.core.params with
        | .error e => .error (e, sub.fn)
        | .ok own =>
          .ok { s with fn := sub.fn, core := { s.core with params := own, nbEval := s.core.nbEval + sub.core.nbEval },
                       ext := { s.ext with p1 := p1, c1 := sub.core, e1 := sub.ext } }

/-- the same for the `BfgsMultiDimensions` -/
def metaRunBfgs (I : FunI F α) (fuel : Nat) (s : St F (Meta α) α) (tol : α) : Except (Exc × F) (St F (Meta α) α) :=
  if s.ext.p2.length == 0 then .ok s else
  match matchList s.ext.p2 s.core.params with
  | .error e => .error (e, s.fn)
  | .ok p2 =>
    let sub : St F (Bfgs α) α := { core := { s.ext.c2 with tolerance := tol }, fn := s.fn, ext := s.ext.e2 }
    match (bfgsAlgo I fuel).init sub p2 with
    | .error e => .error e
    | .ok sub =>
      match (if s.ext.full then (bfgsAlgo I fuel).optimize fuel sub else (bfgsAlgo I fuel).step sub) with
      | .error e => .error e
      | .ok (sub, _) =>
        match matchList s.core.params sub.core.params with
        | .error e => .error (e, sub.fn)
        | .ok own =>
          .ok { s with fn := sub.fn, core := { s.core with params := own, nbEval := s.core.nbEval + sub.core.nbEval },
                       ext := { s.ext with p2 := p2, c2 := sub.core, e2 := sub.ext } }

/-- `MetaOptimizer::doStep` (MetaOptimizer.cpp:121-181) -/
def metaDoStep (I : FunI F α) (fuel : Nat) (s : St F (Meta α) α) : Except (Exc × F) (St F (Meta α) α × α) :=
  let sc := s.ext.stepCount + 1
  let s := { s with ext := { s.ext with stepCount := sc } }
  let progressive := decide (sc ≤ s.ext.n) && gtb (abs s.ext.initialValue) zero
  let tol :=
    if sc ≤ s.ext.n && gtb (abs s.ext.initialValue) zero then
      abs s.ext.initialValue * pow (ofInt 10) (ofInt (Int.ofNat sc) * s.ext.precisionStep)
    else s.core.tolerance
  match metaRunSimple I fuel s tol with
  | .error e => .error e
  | .ok s =>
    match metaRunBfgs I fuel s tol with
    | .error e => .error e
    | .ok s =>
      let tolTest := (if s.ext.p1.length > 0 then 1 else 0) + (if s.ext.p2.length > 0 then 1 else 0)
      -- (repaired) a single active optimiser ends the run only when it is iterated in `full` mode and has
      -- been run with the final tolerance (not with one of the coarser ones of the progressive steps)
      .ok ({ s with core := { s.core with tol := decide (tolTest = 1) && s.ext.full && !progressive } }, I.value s.fn)

def metaAlgo (I : FunI F α) (log10 : α → α) (fuel : Nat) : Algo F (Meta α) α :=
  { doInit := metaDoInit I log10,
    doStep := metaDoStep I fuel,
    stopInit := fscInit,
    stop := fscStop,
    value := I.value }

end
end Bpp.Optim
