import BppModel.Simplex
/-
Object model of `Simplex` / `OrderedSimplex` (src/Bpp/Numeric/Prob/Simplex.{h,cpp}): every data
member, the copy operations, a heap.

`BppModel/Simplex.lean` transcribes the three codings and the calls on ONE object seen as a value
(`St`: dimension, method, one constraint flag, parameter values, probabilities).  This file puts the
same code on objects that carry ALL their data members and live in a heap:

  class Simplex : AbstractParameterAliasable            Simplex.h:66-143
    ParameterList parameters_   (AbstractParametrizable.h:30)  vector<shared_ptr<Parameter>>:
                                 here a list of ADDRESSES of `Parameter` cells (`HObj.paddr`);
                                 a `Parameter` cell = value_ + constraint_ (`Param`), the constraint
                                 being one of the two static objects PROP_CONSTRAINT_IN = [0,1]
                                 / PROP_CONSTRAINT_EX = ]0,1[ (Parameter.cpp:139-140), which is all
                                 `allowNull` leaves behind in the object
    size_t dim_; unsigned short method_; vector<double> vProb_; vector<double> valpha_   (:74-98)
  class OrderedSimplex : Simplex                         Simplex.h:163-230
    vector<double> vValues_                                                              (:166)

Copy construction, `clone()` and `operator=` are the IMPLICIT member-wise operations of both classes
(no user-declared copy operation in Simplex.h), on top of
  * `AbstractParameterAliasable(const&)` / `operator=` (AbstractParameterAliasable.cpp:11-76, with
    the `this == &ap` guard) -> `AbstractParametrizable` implicit copy -> `ParameterList(const&)` /
    `operator=` (ParameterList.cpp:16-40): every parameter is replaced by `pl.parameters_[i]->clone()`,
    a NEW `Parameter` object holding the source's value_ and constraint_ (Parameter.cpp:45-53);
  * member-wise copy of dim_, method_, vProb_, valpha_ (and vValues_ in OrderedSimplex).
They are transcribed member by member (`Obj.copySimplexPart`, `Obj.assignSimplexPart`, ...): dropping
one line of these definitions is the model of forgetting one member in a hand-written copy operation.

Not modelled (property C03's subject): parameter names and the namespace (a parameter is addressed by
its position: "theta<i>" = position i-1), `independentParameters_`, alias listeners,
`setConstraint` / `removeConstraint`, and access to the `Parameter` objects behind the object's back
(`getParameter()` hands out the shared_ptr; the non-const `getFrequencies()` hands out `vProb_`).

Vector arguments: both `setFrequencies` raise (`DimensionException`) on a vector of another size than
the dimension (third and fourth repairs; before, `Simplex::setFrequencies` read the first `dim_`
entries of a longer vector and read a shorter one out of bounds: `Obj.setFrequenciesBaseUnchecked`).

In-place writes `vProb_[i]`, `valpha_[i]`, `vValues_[i-1]` for all i below the dimension are modelled
as replacing the vector: the vectors have exactly that size (invariants `OK.probsLen`, `OK.cache`,
`OK.values` of BppProofs/Lemmas/SimplexObj.lean, established by the constructors' push_backs and
carried by the copy operations), so no write is out of bounds.
-/
namespace Bpp.SimplexObj
open Bpp Scalar Bpp.Simplex

variable {α : Type} [Scalar α]

/-! ### `Parameter` objects -/

/-- a `Parameter` object as far as a simplex uses it: `value_`, and which static constraint
`constraint_` points to (`incl = true`: PROP_CONSTRAINT_IN = [0,1], `false`: PROP_CONSTRAINT_EX = ]0,1[) -/
structure Param (α : Type) where
  value : α
  incl : Bool
deriving Repr, Inhabited

/-- `Parameter::clone()` = `new Parameter(*this)` (Parameter.cpp:45-53): value_ and the constraint
pointer are copied (name_, precision_ = 0 and the empty listener list are not modelled) -/
def Param.clone (p : Param α) : Param α := { value := p.value, incl := p.incl }

/-- `new Parameter(name, v, pc)` for each value (Parameter.cpp:34-43: the initial value is tested
against the constraint), `pc = allowNull ? PROP_CONSTRAINT_IN : PROP_CONSTRAINT_EX` (:25, :99) -/
def newParams (allowNull : Bool) (vals : List α) : Except Err (List (Param α)) :=
  vals.mapM fun v => if inConstraint allowNull v then .ok ⟨v, allowNull⟩ else .error .constraint

/-! ### an object with all its members (the parameters dereferenced) -/

structure Obj (α : Type) where
  /-- `parameters_` : theta1 .. theta(n-1) -/
  params : List (Param α)
  dim : Nat
  method : Nat
  vProb : List α
  /-- `valpha_`: ratio cache of the local-ratio coding -/
  valpha : List α
  /-- `vValues_`; `none`: the object is a plain `Simplex` -/
  vValues : Option (List α)
deriving Repr, Inhabited

/-- the values `getParameterValue("theta<i>")` -/
def Obj.θ (o : Obj α) : List α := o.params.map (·.value)

/-- :47-50  `valpha_.push_back(vProb_[i + 1] / vProb_[i])`  and  :234  `valpha_[i] = probas[i + 1] / probas[i]` -/
def ratios : List α → List α
  | [] => []
  | [_] => []
  | p :: q :: rest => (q / p) :: ratios (q :: rest)

/-- :156-175, the part of the local-ratio case that READS `valpha_` (just rewritten by :151-155) -/
def probsLocalFrom (dim : Nat) (al : List α) : List α :=
  let raw := rawLocal al one
  let x := normLocal raw
  if gtb x TINY then raw.map (fun v => v / x)
  else raw.map (fun _ => one / ofInt dim)

/-- `Simplex::fireParameterChanged` :132-206 with the cache: case 2 first rewrites EVERY
`valpha_[i]`, i < dim-1, from the parameters (:151-155), then reads them -/
def Obj.fireBase (o : Obj α) : Obj α :=
  if o.dim = 0 then o else
  match o.method with
  | 1 => { o with vProb := probsGlobal o.θ one }
  | 2 =>
    let al := alphas o.θ
    { o with valpha := al, vProb := probsLocalFrom o.dim al }
  | 3 => { o with vProb := probsBinary o.dim o.θ }
  | _ => o

/-- the additional step of `OrderedSimplex::fireParameterChanged` :284-293 (nothing on a plain object) -/
def Obj.refresh (o : Obj α) : Obj α :=
  match o.vValues with
  | none => o
  | some _ => { o with vValues := some (orderedValues o.vProb 1) }

/-- the virtual `fireParameterChanged` -/
def Obj.fire (o : Obj α) : Obj α := o.fireBase.refresh

/-! ### the parameter layer: requests by name

A `ParameterList` passed to `matchParametersValues` / `setParametersValues` holds at most one value
per name (`addParameter` refuses duplicates): it is a partial function `req` from the index `i` of
"theta<i>" to the requested value.  Names the object does not have are skipped (`hasParameter`). -/

/-- first loop of ParameterList.cpp:421-432 / :363-374: every requested value against the
constraint of the parameter of that name (`from` = index of the head, 1-based) -/
def testFrom (req : Nat → Option α) : Nat → List (Param α) → Bool
  | _, [] => true
  | i, p :: ps =>
    (match req i with | some v => inConstraint p.incl v | none => true) && testFrom req (i + 1) ps

/-- second loop (:436-452 / :377-386): `p->setValue(v)` where the value differs (Parameter.cpp:72-83
with precision 0; the constraint has been tested by the first loop) -/
def writeFrom (req : Nat → Option α) : Nat → List (Param α) → List (Param α)
  | _, [] => []
  | i, p :: ps =>
    (match req i with
      | some v => if eqb p.value v then p else { p with value := v }
      | none => p) :: writeFrom req (i + 1) ps

/-- `ch` of :434-449: did a value differ -/
def changedFrom (req : Nat → Option α) : Nat → List (Param α) → Bool
  | _, [] => false
  | i, p :: ps =>
    (match req i with | some v => !(eqb p.value v) | none => false) || changedFrom req (i + 1) ps

/-- a full list theta1..theta(n-1) in order (what `setFrequencies` builds, :220-266) -/
def reqOfList (θ : List α) : Nat → Option α := fun i => if i = 0 then none else θ[i - 1]?

/-- an explicit list of (index, value), indices distinct -/
def reqOfPairs (pl : List (Nat × α)) : Nat → Option α := fun i => pl.lookup i

/-- `AbstractParametrizable::matchParametersValues` (h:76-83): test, write what differs,
`fireParameterChanged` only if something differed -/
def Obj.matchReq (o : Obj α) (req : Nat → Option α) : Except Err (Obj α) :=
  if testFrom req 1 o.params then
    if changedFrom req 1 o.params then .ok ({ o with params := writeFrom req 1 o.params }).fire
    else .ok o
  else .error .constraint

/-- `AbstractParametrizable::setParametersValues` (h:70-74): test, write, ALWAYS fire -/
def Obj.setReq (o : Obj α) (req : Nat → Option α) : Except Err (Obj α) :=
  if testFrom req 1 o.params then .ok ({ o with params := writeFrom req 1 o.params }).fire
  else .error .constraint

/-- the parameter named "theta<i>" -/
def Obj.param? (o : Obj α) (i : Nat) : Option (Param α) := if i = 0 then none else o.params[i - 1]?

/-- `setParameterValue("theta<i>", v)` (h:64-68; ParameterList.cpp:335-339; Parameter::setValue):
unknown name -> ParameterNotFoundException; a differing value is tested against the constraint and
stored; then `fireParameterChanged`, always -/
def Obj.setOne (o : Obj α) (i : Nat) (v : α) : Except Err (Obj α) :=
  match o.param? i with
  | none => .error .notfound
  | some p =>
    if gtb (abs (v - p.value)) zero then
      if inConstraint p.incl v then
        .ok ({ o with params := o.params.set (i - 1) { p with value := v } }).fire
      else .error .constraint
    else .ok o.fire

/-! ### constructors and the frequency setter -/

/-- :230-235, local-ratio case of `setFrequencies`: `valpha_[i] = probas[i + 1] / probas[i]` while the
parameter list is being built -/
def Obj.cacheWrite (o : Obj α) (p : List α) : Obj α :=
  if o.method = 2 then { o with valpha := ratios p } else o

/-- `Simplex::setFrequencies` :209-269 on any object (the call of `fireParameterChanged` inside
`matchParametersValues` is virtual).  Returns the object after the call and the exception, if any:
for the local-ratio coding `valpha_[i]` is written at :234, BEFORE `matchParametersValues` validates
the parameters at :268, so a rejected vector leaves its ratios in the cache. -/
def Obj.setFrequenciesBase (o : Obj α) (probas : List α) : Obj α × Option Err :=
  if o.dim = 0 then (o, none)
  else if !(sumOk probas) then (o, some .sum)
  else if probas.length ≠ o.dim then (o, some .sum)    -- `DimensionException` (fourth repair)
  else
    let p := probas.take o.dim
    let o1 := o.cacheWrite p
    match o1.matchReq (reqOfList (paramsOf o.method p)) with
    | .ok o2 => (o2, none)
    | .error e => (o1, some e)

/-- `Simplex::setFrequencies` as it was before the fourth repair (no test of the size; kept for the
witness theorems): the whole argument is summed, the first `dim_` entries are read — a longer vector
is accepted, a shorter one that passes the sum test is read out of bounds -/
def Obj.setFrequenciesBaseUnchecked (o : Obj α) (probas : List α) : Obj α × Option Err :=
  if o.dim = 0 then (o, none)
  else if !(sumOk probas) then (o, some .sum)
  else if probas.length < o.dim then (o, some .ub)
  else
    let p := probas.take o.dim
    let o1 := o.cacheWrite p
    match o1.matchReq (reqOfList (paramsOf o.method p)) with
    | .ok o2 => (o2, none)
    | .error e => (o1, some e)

/-- `Simplex::Simplex(const std::vector<double>& probas, method, allowNull)` :12-82 -/
def construct (probas : List α) (method : Nat) (allowNull : Bool) : Except Err (Obj α) :=
  if probas.length = 0 then .ok ⟨[], 0, method, [], [], none⟩
  else if !(sumOk probas) then .error .sum
  else do
    let ps ← newParams allowNull (paramsOf method probas)
    .ok ⟨ps, probas.length, method, probas, if method = 2 then ratios probas else [], none⟩

/-- `Simplex::Simplex(size_t dim, method, allowNull)` :84-130 -/
def constructDim (dim method : Nat) (allowNull : Bool) : Except Err (Obj α) :=
  if dim = 0 then .ok ⟨[], 0, method, [], [], none⟩
  else
    let u : List α := List.replicate dim (one / ofInt dim)
    let half : α := ofRat 1 2
    match method with
    | 1 => do
      let ps ← newParams allowNull (paramsGlobal u one)
      .ok ⟨ps, dim, method, u, [], none⟩
    | 2 => do
      let ps ← newParams allowNull (List.replicate (dim - 1) half)
      .ok ⟨ps, dim, method, u, List.replicate (dim - 1) one, none⟩
    | 3 => do
      let ps ← newParams allowNull (List.replicate (dim - 1) half)
      -- :126 `setFrequencies(vProb_)`; inside the constructor the dynamic type is `Simplex`
      match (Obj.setFrequenciesBase ⟨ps, dim, method, u, [], none⟩ u) with
      | (o, none) => .ok o
      | (_, some e) => .error e
    | _ => .ok ⟨[], dim, method, u, [], none⟩

/-- `OrderedSimplex(size_t dim, ...)` Simplex.h:184-196 -/
def oConstructDim (dim method : Nat) (allowNull : Bool) : Except Err (Obj α) := do
  let b ← constructDim (α := α) dim method allowNull
  .ok { b with vValues := some (orderedValues b.vProb 1) }

/-- `OrderedSimplex::setFrequencies` :296-318 (after the repairs: empty vector returns at once;
a vector of another size than the dimension raises `DimensionException` — a `bpp::Exception`, shown
`exc:bpp` like the sum test, hence `Err.sum`; `vValues_` is assigned once the base class has accepted
the vector) -/
def Obj.oSetFrequencies (o : Obj α) (v : List α) : Obj α × Option Err :=
  if v.length = 0 then (o, none)
  else if v.length ≠ o.dim then (o, some .sum)
  else
    match o.setFrequenciesBase (orderedToProbs v 1) with
    | (o', none) => ({ o' with vValues := some v }, none)
    | (o', some e) => (o', some e)

/-- `OrderedSimplex::setFrequencies` as it was before the third repair (no test of the size; kept for
the witness theorem `C19.ordered_setFrequencies_unchecked_long_vector`).  The function works with
the size of its ARGUMENT: `vprob` has `v.size()` entries, the base class sums all of them and reads
the first `dim_` (`Simplex::setFrequencies` :214, :224-264), so a LONGER vector is defined behaviour:
accepted if its transform sums to one, and `vValues_ = vValues` then installs a vector that is longer
than the dimension.  A SHORTER one makes the base class read `probas[i]` out of bounds. -/
def Obj.oSetFrequenciesUnchecked (o : Obj α) (v : List α) : Obj α × Option Err :=
  if v.length = 0 then (o, none)
  else
    match o.setFrequenciesBaseUnchecked (orderedToProbs v 1) with
    | (o', none) => ({ o' with vValues := some v }, none)
    | (o', some e) => (o', some e)

/-- `OrderedSimplex(const std::vector<double>& probas, ...)` :274-279 -/
def oConstruct (v : List α) (method : Nat) (allowNull : Bool) : Except Err (Obj α) := do
  let b ← constructDim (α := α) v.length method allowNull
  match (Obj.oSetFrequencies { b with vValues := some v } v) with
  | (o, none) => .ok o
  | (_, some e) => .error e

/-- `setFrequencies` of the object's own class (the member is not virtual: the harness calls it
through a pointer of the object's class) -/
def Obj.setFrequencies (o : Obj α) (p : List α) : Obj α × Option Err :=
  match o.vValues with
  | none => o.setFrequenciesBase p
  | some _ => o.oSetFrequencies p

/-! ### copy operations, member by member -/

/-- `ParameterList(const ParameterList&)` / `operator=` (ParameterList.cpp:16-40): a clone of every parameter -/
def cloneParams (ps : List (Param α)) : List (Param α) := ps.map Param.clone

/-- implicit `Simplex(const Simplex&)`: the new object is a plain `Simplex` whatever the class of `src` -/
def Obj.copySimplexPart (src : Obj α) : Obj α :=
  { params := cloneParams src.params      -- AbstractParameterAliasable(const&) -> parameters_
    dim := src.dim                        -- dim_
    method := src.method                  -- method_
    vProb := src.vProb                    -- vProb_
    valpha := src.valpha                  -- valpha_
    vValues := none }

/-- copy construction within the class of `src` (`Simplex(const Simplex&)` of a Simplex, implicit
`OrderedSimplex(const OrderedSimplex&)`), which is also `clone()` (Simplex.h:128, :224) -/
def Obj.copyCtor (src : Obj α) : Obj α :=
  { src.copySimplexPart with vValues := src.vValues }     -- vValues_

/-- implicit `Simplex::operator=`: the members of `Simplex` are assigned, nothing else -/
def Obj.assignSimplexPart (tgt src : Obj α) : Obj α :=
  { tgt with
    params := cloneParams src.params      -- AbstractParameterAliasable::operator= -> parameters_
    dim := src.dim                        -- dim_
    method := src.method                  -- method_
    vProb := src.vProb                    -- vProb_
    valpha := src.valpha }                -- valpha_

/-- implicit `operator=` of the common class of `tgt` and `src` -/
def Obj.assign (tgt src : Obj α) : Obj α :=
  { tgt.assignSimplexPart src with vValues := src.vValues }   -- vValues_ (OrderedSimplex)

/-! ### the heap -/

/-- an object in the heap: the parameter list holds addresses of `Parameter` cells -/
structure HObj (α : Type) where
  paddr : List Nat
  dim : Nat
  method : Nat
  vProb : List α
  valpha : List α
  vValues : Option (List α)
deriving Repr, Inhabited

structure Heap (α : Type) where
  /-- `Parameter` objects in allocation order (never freed in the model) -/
  cells : List (Param α)
  /-- registers (the harness' `unique_ptr`s) -/
  regs : List (Option (HObj α))
deriving Repr, Inhabited

def Heap.empty (n : Nat) : Heap α := ⟨[], List.replicate n none⟩

/-- outcomes of a heap operation other than normal return -/
inductive HErr where
  | exc (e : Err)     -- the C++ raised
  | empty             -- no object in the register
  | dangling          -- a parameter address outside the heap (never: `Sep`)
  | badclass          -- the classes of the two objects do not allow the operation (would not compile)
deriving DecidableEq, Repr, Inhabited

def Heap.obj? (h : Heap α) (k : Nat) : Option (HObj α) := (h.regs[k]?).join

/-- `*p` for every pointer of the list -/
def derefs (cells : List (Param α)) : List Nat → Option (List (Param α))
  | [] => some []
  | a :: as =>
    match cells[a]?, derefs cells as with
    | some p, some ps => some (p :: ps)
    | _, _ => none

/-- dereference the parameter list -/
def Heap.load (h : Heap α) (ho : HObj α) : Option (Obj α) :=
  match derefs h.cells ho.paddr with
  | none => none
  | some ps => some ⟨ps, ho.dim, ho.method, ho.vProb, ho.valpha, ho.vValues⟩

def Heap.view (h : Heap α) (k : Nat) : Except HErr (HObj α × Obj α) :=
  match h.obj? k with
  | none => .error .empty
  | some ho =>
    match h.load ho with
    | none => .error .dangling
    | some o => .ok (ho, o)

/-- write parameter cells back in place -/
def writeCells (cells : List (Param α)) : List Nat → List (Param α) → List (Param α)
  | a :: as, p :: ps => writeCells (cells.set a p) as ps
  | _, _ => cells

/-- a member function has run on the object in register `k`: its `Parameter` objects are the same
objects (new values), the other members are overwritten -/
def Heap.store (h : Heap α) (k : Nat) (ho : HObj α) (o : Obj α) : Heap α :=
  { cells := writeCells h.cells ho.paddr o.params
    regs := h.regs.set k (some ⟨ho.paddr, o.dim, o.method, o.vProb, o.valpha, o.vValues⟩) }

/-- a new object, or an object all of whose parameters were replaced by new `Parameter` objects
(constructors, copy construction, `ParameterList::operator=`), in register `j` -/
def Heap.allocObj (h : Heap α) (j : Nat) (o : Obj α) : Heap α :=
  { cells := h.cells ++ o.params
    regs := h.regs.set j
      (some ⟨(List.range o.params.length).map (h.cells.length + ·), o.dim, o.method, o.vProb, o.valpha, o.vValues⟩) }

inductive HOp (α : Type) where
  | newVec (j : Nat) (ordered : Bool) (m : Nat) (a : Bool) (p : List α)
  | newDim (j : Nat) (ordered : Bool) (n m : Nat) (a : Bool)
  | setFreq (k : Nat) (p : List α)
  /-- `matchParametersValues` with one value per parameter, in order -/
  | setPar (k : Nat) (θ : List α)
  /-- `matchParametersValues` with some (index, value) -/
  | matchSome (k : Nat) (pl : List (Nat × α))
  /-- `setParametersValues` with some (index, value) -/
  | setSome (k : Nat) (pl : List (Nat × α))
  | setOne (k : Nat) (i : Nat) (v : α)
  /-- the public `fireParameterChanged` -/
  | fire (k : Nat)
  /-- copy construction / `clone()`: a new object of the class of `k` in register `j` -/
  | copy (k j : Nat)
  /-- `new Simplex(static_cast<const Simplex&>(*k))`, `k` ordered: a sliced plain copy -/
  | sliceCopy (k j : Nat)
  /-- `*j = *k`, both of the same class -/
  | assign (k j : Nat)
  /-- `*j = *k`, `j` a Simplex, `k` an OrderedSimplex -/
  | sliceAssign (k j : Nat)
  /-- `static_cast<Simplex&>(*j) = *k`, `j` an OrderedSimplex, `k` a Simplex of the same dimension:
  `vValues_` of `j` keeps its former content (modelled for equal dimensions only) -/
  | baseAssign (k j : Nat)

def exceptToPair (o : Obj α) : Except Err (Obj α) → Obj α × Option Err
  | .ok o' => (o', none)
  | .error e => (o, some e)

/-- run a member function on the object in register `k` -/
def Heap.update (h : Heap α) (k : Nat) (f : Obj α → Obj α × Option Err) : Heap α × Option HErr :=
  match h.view k with
  | .error e => (h, some e)
  | .ok (ho, o) =>
    match f o with
    | (o', none) => (h.store k ho o', none)
    | (o', some e) => (h.store k ho o', some (.exc e))

/-- same for a member function that leaves the object untouched when it raises -/
def Heap.updateE (h : Heap α) (k : Nat) (f : Obj α → Except Err (Obj α)) : Heap α × Option HErr :=
  match h.view k with
  | .error e => (h, some e)
  | .ok (ho, o) =>
    match f o with
    | .ok o' => (h.store k ho o', none)
    | .error e => (h, some (.exc e))

def Heap.create (h : Heap α) (j : Nat) (r : Except Err (Obj α)) : Heap α × Option HErr :=
  match r with
  | .ok o => (h.allocObj j o, none)
  | .error e => (h, some (.exc e))

def applyH (h : Heap α) : HOp α → Heap α × Option HErr
  | .newVec j false m a p => h.create j (construct p m a)
  | .newVec j true m a p => h.create j (oConstruct p m a)
  | .newDim j false n m a => h.create j (constructDim n m a)
  | .newDim j true n m a => h.create j (oConstructDim n m a)
  | .setFreq k p => h.update k (fun o => o.setFrequencies p)
  | .setPar k θ => h.updateE k (fun o => o.matchReq (reqOfList θ))
  | .matchSome k pl => h.updateE k (fun o => o.matchReq (reqOfPairs pl))
  | .setSome k pl => h.updateE k (fun o => o.setReq (reqOfPairs pl))
  | .setOne k i v => h.updateE k (fun o => o.setOne i v)
  | .fire k => h.updateE k (fun o => .ok o.fire)
  | .copy k j =>
    match h.view k with
    | .error e => (h, some e)
    | .ok (_, src) => (h.allocObj j src.copyCtor, none)
  | .sliceCopy k j =>
    match h.view k with
    | .error e => (h, some e)
    | .ok (_, src) => (h.allocObj j src.copySimplexPart, none)
  | .assign k j =>
    match h.view k, h.view j with
    | .error e, _ => (h, some e)
    | _, .error e => (h, some e)
    | .ok (_, src), .ok (_, tgt) =>
      if src.vValues.isSome ≠ tgt.vValues.isSome then (h, some .badclass)
      else if k = j then (h, none)      -- `if (this == &ap) return *this;` then self-assignment of the members
      else (h.allocObj j (tgt.assign src), none)
  | .sliceAssign k j =>
    match h.view k, h.view j with
    | .error e, _ => (h, some e)
    | _, .error e => (h, some e)
    | .ok (_, src), .ok (_, tgt) =>
      if !src.vValues.isSome || tgt.vValues.isSome then (h, some .badclass)
      else (h.allocObj j (tgt.assignSimplexPart src), none)
  | .baseAssign k j =>
    match h.view k, h.view j with
    | .error e, _ => (h, some e)
    | _, .error e => (h, some e)
    | .ok (_, src), .ok (_, tgt) =>
      if src.vValues.isSome || !tgt.vValues.isSome || src.dim ≠ tgt.dim then (h, some .badclass)
      else (h.allocObj j (tgt.assignSimplexPart src), none)

def stepH (h : Heap α) (op : HOp α) : Heap α := (applyH h op).1

def runH (h : Heap α) (ops : List (HOp α)) : Heap α := ops.foldl stepH h

end Bpp.SimplexObj
