import BppModel.Prelude.Scalar
/-
Model of src/Bpp/Numeric/VectorTools.h (vectors = `List α`), of
`StatTools::computeFdr` (src/Bpp/Numeric/Stat/StatTools.cpp) — a transcription of the code
that exists (after the `fix:` commits listed in findings/C07.json; the pre-repair text of each
repaired routine is kept next to it with suffix `Orig`, and is what the witness theorems are about).

Conventions
 * `v[i]` whose index is not bounded by the enclosing `for (i < v.size())` is a *checked* read
   (`at?`): out of range is the distinct outcome `Err.ub`, never a default value.
 * documented exceptions are outcomes `Err.dimension` (DimensionException), `Err.empty`
   (EmptyVectorException), `Err.badnumber` (BadNumberException), `Err.notfound`
   (ElementNotFoundException).
 * `std::sort` on values / on indices is modelled by core `List.mergeSort` with the source
   comparator (any correct sort gives the same *values*; for the index sort and the FDR ranks the
   order of ties is implementation-defined: the theorems are stated for every sorting permutation
   and the driver judges the implementation relationally).
 * numeric routines are generic over `[Scalar α]`; the template parameters `InputType`,
   `OutputType` are both the scalar type (the library is used at `double, double`).
-/
namespace Bpp.VecTools

inductive Err | dimension | empty | badnumber | notfound | ub
  deriving DecidableEq, Repr, Inhabited

abbrev Res (α : Type) := Except Err α

/-- a C++ `v[i]` that is not guarded by a loop bound -/
def at? {α : Type} (v : List α) (i : Nat) : Res α :=
  match v[i]? with
  | some x => .ok x
  | none => .error .ub

section Numeric
variable {α : Type} [Scalar α]
open Scalar

/-! ### element-wise operators (VectorTools.h:58-302) -/

/-- `operator+,-,*,/ (vector, vector)` (VectorTools.h:58-136): DimensionException on mismatch -/
def zipOp (f : α → α → α) (v1 v2 : List α) : Res (List α) :=
  if v1.length ≠ v2.length then .error .dimension else .ok (List.zipWith f v1 v2)

def add (v1 v2 : List α) : Res (List α) := zipOp (· + ·) v1 v2
def sub (v1 v2 : List α) : Res (List α) := zipOp (· - ·) v1 v2
def mul (v1 v2 : List α) : Res (List α) := zipOp (· * ·) v1 v2
def div (v1 v2 : List α) : Res (List α) := zipOp (· / ·) v1 v2

/-- `operator+ (vector, C)` … (VectorTools.h:139-221) -/
def addC (v : List α) (c : α) : List α := v.map (· + c)
def cAdd (c : α) (v : List α) : List α := v.map (c + ·)
def subC (v : List α) (c : α) : List α := v.map (· - c)
def cSub (c : α) (v : List α) : List α := v.map (c - ·)
def mulC (v : List α) (c : α) : List α := v.map (· * c)
def cMul (c : α) (v : List α) : List α := v.map (c * ·)
def divC (v : List α) (c : α) : List α := v.map (· / c)
def cDiv (c : α) (v : List α) : List α := v.map (c / ·)

/-- the compound operators `v1 op= v2` before the repair (VectorTools.h:223-257):
`for (i < v1.size()) v1[i] op= v2[i]` — no size test, reads `v2[i]` out of range when `v2` is
shorter and silently ignores the tail of a longer `v2`. -/
def zipAssignOrig (f : α → α → α) : List α → List α → Res (List α)
  | [], _ => .ok []
  | _ :: _, [] => .error .ub
  | x :: xs, y :: ys => do let r ← zipAssignOrig f xs ys; pure (f x y :: r)

/-- the compound operators after the repair: same DimensionException as the binary operators -/
def zipAssign (f : α → α → α) (v1 v2 : List α) : Res (List α) := zipOp f v1 v2

/-! ### reductions (VectorTools.h:556-629) -/

/-- `prod` (VectorTools.h:556): `T p = 1; for x: p *= x` -/
def prod (v : List α) : α := v.foldl (· * ·) one

/-- `cumProd` (VectorTools.h:572): `p[0]=v[0]; p[i]=v[i]*p[i-1]` -/
def cumProdAux (acc : α) : List α → List α
  | [] => []
  | x :: xs => let a := x * acc; a :: cumProdAux a xs
def cumProd : List α → List α
  | [] => []
  | x :: xs => x :: cumProdAux x xs

/-- `sum` (VectorTools.h:586): `T s = 0; for x: s += x` -/
def sum (v : List α) : α := v.foldl (· + ·) zero

/-- `sumProd` before the repair (VectorTools.h:600): starts from `v2[0]*v1[0]` after the size test,
i.e. reads element 0 of two empty vectors -/
def sumProdOrig (v1 v2 : List α) : Res α :=
  if v1.length ≠ v2.length then .error .dimension else do
    let a ← at? v2 0
    let b ← at? v1 0
    pure ((List.zipWith (fun x y => y * x) v1 v2).tail.foldl (· + ·) (a * b))

/-- `sumProd` after the repair: `T x = 0; for (i = 0 …) x += v2[i]*v1[i]` -/
def sumProd (v1 v2 : List α) : Res α :=
  if v1.length ≠ v2.length then .error .dimension else
    .ok ((List.zipWith (fun x y => y * x) v1 v2).foldl (· + ·) zero)

/-- `cumSum` (VectorTools.h:623): `std::partial_sum` -/
def cumSumAux (acc : α) : List α → List α
  | [] => []
  | x :: xs => let a := acc + x; a :: cumSumAux a xs
def cumSum : List α → List α
  | [] => []
  | x :: xs => x :: cumSumAux x xs

/-! ### scalar products and norms (VectorTools.h:938-1072) -/

/-- `scalar` (VectorTools.h:938) -/
def scalar (v1 v2 : List α) : Res α :=
  if v1.length ≠ v2.length then .error .dimension else
    .ok ((List.zipWith (· * ·) v1 v2).foldl (· + ·) zero)

def zipWith3 {β γ δ ε : Type} (f : β → γ → δ → ε) : List β → List γ → List δ → List ε
  | a :: as, b :: bs, c :: cs => f a b c :: zipWith3 f as bs cs
  | _, _, _ => []

/-- weighted `scalar` (VectorTools.h:968): `result += v1[i]*v2[i]*w[i]` -/
def scalarW (v1 v2 w : List α) : Res α :=
  if v1.length ≠ w.length then .error .dimension
  else if v2.length ≠ w.length then .error .dimension
  else .ok ((zipWith3 (fun a b c => a * b * c) v1 v2 w).foldl (· + ·) zero)

/-- `norm` (VectorTools.h:1014) -/
def norm (v : List α) : α := sqrt ((v.map (fun x => x * x)).foldl (· + ·) zero)

/-- weighted `norm` (VectorTools.h:1032) -/
def normW (v w : List α) : Res α :=
  if v.length ≠ w.length then .error .dimension else
    .ok (sqrt ((List.zipWith (fun x c => x * x * c) v w).foldl (· + ·) zero))

/-- `cos` (VectorTools.h:1053) -/
def cos (v1 v2 : List α) : Res α := do
  let s ← scalar v1 v2
  pure (s / (norm v1 * norm v2))

/-! ### extrema (VectorTools.h:1089-1251) -/

/-- `min`/`max` (VectorTools.h:1089,1110) with the comparison as a parameter
(`better y m` = "`y` replaces the current extremum `m`") -/
def extremum {β : Type} (better : β → β → Bool) : List β → Res β
  | [] => .error .empty
  | x :: xs => .ok (xs.foldl (fun m y => if better y m then y else m) x)

def min (v : List α) : Res α := extremum (fun y m => ltb y m) v
def max (v : List α) : Res α := extremum (fun y m => gtb y m) v

/-- loop of `whichMax`/`whichMin` (VectorTools.h:1132,1159): state (extremum, its position, i) -/
def whichLoop {β : Type} (better : β → β → Bool) : β → Nat → Nat → List β → Nat
  | _, pos, _, [] => pos
  | m, pos, i, y :: ys => if better y m then whichLoop better y i (i + 1) ys else whichLoop better m pos (i + 1) ys

def whichExtremum {β : Type} (better : β → β → Bool) : List β → Res Nat
  | [] => .error .empty
  | x :: xs => .ok (whichLoop better x 0 1 xs)

def whichMax (v : List α) : Res Nat := whichExtremum (fun y m => gtb y m) v
def whichMin (v : List α) : Res Nat := whichExtremum (fun y m => ltb y m) v

/-- positions `i` with `v[i] == x`, starting the count at `k` -/
def positionsOf (x : α) : Nat → List α → List Nat
  | _, [] => []
  | k, y :: ys => if eqb y x then k :: positionsOf x (k + 1) ys else positionsOf x (k + 1) ys

/-- `whichMaxAll` / `whichMinAll` (VectorTools.h:1186,1212) -/
def whichMaxAll (v : List α) : Res (List Nat) := do
  if v.length = 0 then throw .empty
  let m ← max v
  pure (positionsOf m 0 v)
def whichMinAll (v : List α) : Res (List Nat) := do
  if v.length = 0 then throw .empty
  let m ← min v
  pure (positionsOf m 0 v)

/-- `whichAll` (VectorTools.h:421): all positions of `x`; ElementNotFoundException when there is none -/
def whichAll (v : List α) (x : α) : Res (List Nat) :=
  let w := positionsOf x 0 v
  if w.length ≠ 0 then .ok w else .error .notfound

/-- `append(vector of vectors)` before the repair (VectorTools.h:1920): only `vecElementL[0]` was copied -/
def appendAllOrig (vs : List (List α)) : List α :=
  match vs with
  | [] => []
  | [v] => v
  | v :: _ => v

/-- `append(vector of vectors)` after the repair: the concatenation -/
def appendAll (vs : List (List α)) : List α :=
  match vs with
  | [] => []
  | [v] => v
  | _ => vs.foldl (fun acc v => acc ++ v) []

/-- `range` (VectorTools.h:1238) -/
def range : List α → Res (α × α)
  | [] => .error .empty
  | x :: xs => .ok (xs.foldl (fun (r : α × α) y =>
      let r0 := if ltb y r.1 then y else r.1
      let r1 := if gtb y r.2 then y else r.2
      (r0, r1)) (x, x))

/-! ### order, median, moments (VectorTools.h:1254-1543) -/

/-- the comparator handed to a sort that uses `a < b`: "not (b < a)" as a total preorder -/
def leOfLt {β : Type} (lt : β → β → Bool) (a b : β) : Bool := !(lt b a)

/-- `std::sort(v.begin(), v.end())` on values -/
def sortVals (v : List α) : List α := v.mergeSort (leOfLt ltb)

/-- `order` (VectorTools.h:1273): indices sorted by `values_[a] < values_[b]`; the model pairs each
index with its value instead of indexing back into the vector -/
def order (v : List α) : Res (List Nat) :=
  if v.length = 0 then .error .empty else
    .ok ((v.zipIdx.mergeSort (fun a b => leOfLt ltb a.1 b.1)).map (·.2))

/-- `mean` (VectorTools.h:1312): `sum(v)/(OutputType)v.size()` -/
def mean (v : List α) : α := sum v / ofInt v.length

/-- weighted `mean` (VectorTools.h:1323) -/
def meanW (v w : List α) (normalizeWeights : Bool) : Res α :=
  if normalizeWeights then scalar v (divC w (sum w)) else scalar v w

/-- `median` (VectorTools.h:1341); the vector is sorted in place (second component) -/
def median (v : List α) : Res (α × List α) :=
  if v.length = 0 then .ok (zero, v)
  else if v.length = 1 then do let x ← at? v 0; pure (x, v)
  else
    let s := sortVals v
    let i := s.length / 2
    if s.length % 2 = 0 then do
      let a ← at? s (i - 1)
      let b ← at? s i
      pure ((a + b) / ofInt 2, s)
    else do
      let b ← at? s i
      pure (b, s)

/-- `center` (VectorTools.h:1368) -/
def center (v : List α) : List α := let m := mean v; v.map (· - m)

/-- weighted `center` (VectorTools.h:1387) -/
def centerW (v w : List α) (normalizeWeights : Bool) : Res (List α) := do
  let m ← meanW v w normalizeWeights
  pure (v.map (· - m))

/-- `cov` (VectorTools.h:1406): `x = scalar(center v1, center v2)/n; if unbiased x = x*n/(n-1)` -/
def cov (v1 v2 : List α) (unbiased : Bool) : Res α := do
  let n : α := ofInt v1.length
  let s ← scalar (center v1) (center v2)
  let x := s / n
  pure (if unbiased then x * n / (n - one) else x)

/-- weighted `cov` (VectorTools.h:1428) -/
def covW (v1 v2 w : List α) (unbiased normalizeWeights : Bool) : Res α := do
  let wn := if normalizeWeights then divC w (sum w) else w
  let c1 ← centerW v1 wn false
  let c2 ← centerW v2 wn false
  let x ← scalarW c1 c2 wn
  pure (if unbiased then x / (one - sum (wn.map (fun a => a * a))) else x)

def var (v : List α) (unbiased : Bool) : Res α := cov v v unbiased
def varW (v w : List α) (unbiased normalizeWeights : Bool) : Res α := covW v v w unbiased normalizeWeights
def sd (v : List α) (unbiased : Bool) : Res α := do let x ← var v unbiased; pure (sqrt x)
def sdW (v w : List α) (unbiased normalizeWeights : Bool) : Res α := do
  let x ← varW v w unbiased normalizeWeights; pure (sqrt x)

/-- `cor` (VectorTools.h:1514) -/
def cor (v1 v2 : List α) : Res α := do
  let c ← cov v1 v2 true
  let s1 ← sd v1 true
  let s2 ← sd v2 true
  pure (c / (s1 * s2))

/-- weighted `cor` (VectorTools.h:1529) -/
def corW (v1 v2 w : List α) (normalizeWeights : Bool) : Res α := do
  let wn := if normalizeWeights then divC w (sum w) else w
  let c ← covW v1 v2 wn false false
  let s1 ← sdW v1 wn false false
  let s2 ← sdW v2 wn false false
  pure (c / (s1 * s2))

/-- `shannon` (VectorTools.h:1559): `if (x > 0) s += x*log(x)/log(base)`; returns `-s` -/
def shannon (v : List α) (base : α) : α :=
  - (v.foldl (fun s x => if gtb x zero then s + x * log x / log base else s) zero)

/-! ### seq (VectorTools.h:376) -/

/-- `seq(from, to, by)` for a floating type.  `trunc` is the `(size_t)` conversion of a
non-negative value.  `(size_t)((|from-to| + by/100)/by) + 1` elements starting from `from`
(after the repair; before it a descending sequence started from `to`), advancing by `±by`
with `val += step`.  A step that is not positive makes the size conversion undefined. -/
def seqFill (step : α) : Nat → α → List α
  | 0, _ => []
  | n + 1, val => val :: seqFill step n (val + step)

def seqWith (trunc : α → Nat) (start : α → α → α) (frm to by_ : α) : Res (List α) :=
  if !(gtb by_ zero) then .error .ub else
    let n := trunc ((abs (frm - to) + by_ / ofInt 100) / by_) + 1
    let step := if ltb frm to then by_ else - by_
    .ok (seqFill step n (start frm to))

def seqOrig (trunc : α → Nat) (frm to by_ : α) : Res (List α) :=
  seqWith trunc (fun f t => if ltb f t then f else t) frm to by_
def seq (trunc : α → Nat) (frm to by_ : α) : Res (List α) :=
  seqWith trunc (fun f _ => f) frm to by_

end Numeric

/-! ### set-like helpers (VectorTools.h:401-481, 1731-1990); `==` and `<` are parameters -/
section Sets
variable {β : Type} (eq lt : β → β → Bool)

/-- `contains` (VectorTools.h:1763) -/
def contains (v : List β) (x : β) : Bool := v.any (fun y => eq y x)

/-- `which` (VectorTools.h:401) -/
def whichFrom (x : β) : Nat → List β → Res Nat
  | _, [] => .error .notfound
  | k, y :: ys => if eq y x then .ok k else whichFrom x (k + 1) ys
def which (v : List β) (x : β) : Res Nat := whichFrom eq x 0 v

/-- adjacent-duplicate removal of `unique` (VectorTools.h:451-456) -/
def dedupAdj (prev : β) : List β → List β
  | [] => []
  | y :: ys => if !(eq y prev) then y :: dedupAdj y ys else dedupAdj y ys

/-- `unique` (VectorTools.h:445) -/
def unique (v : List β) : List β :=
  match v.mergeSort (leOfLt lt) with
  | [] => []
  | x :: xs => x :: dedupAdj eq x xs

/-- `isUnique` (VectorTools.h:470) -/
def noAdjDup (prev : β) : List β → Bool
  | [] => true
  | y :: ys => if eq y prev then false else noAdjDup y ys
def isUnique (v : List β) : Bool :=
  match v.mergeSort (leOfLt lt) with
  | [] => true
  | x :: xs => noAdjDup eq x xs

/-- `vectorUnion(vec1, vec2)` before the repair (VectorTools.h:1829): `unionEl = vec1`, then the
elements of `vec2` not yet present are pushed — repeated elements of `vec1` stay repeated, against
the documented "duplicate element will be removed".  (`extend`, VectorTools.h:1958, is this loop
in place and documents exactly that.) -/
def vectorUnionOrig (v1 v2 : List β) : List β :=
  v2.foldl (fun u x => if !(contains eq u x) then u ++ [x] else u) v1

/-- `vectorUnion(vec1, vec2)` after the repair: both vectors go through the push-if-absent loop,
starting from the empty vector (as the vector-of-vectors overload does) -/
def vectorUnion (v1 v2 : List β) : List β :=
  vectorUnionOrig eq (vectorUnionOrig eq [] v1) v2

/-- `vectorIntersection` (VectorTools.h:1849) -/
def vectorIntersection (v1 v2 : List β) : List β := v1.filter (fun x => contains eq v2 x)

/-- `haveSameElements` (VectorTools.h:1731/1749): same size and equal after sorting -/
def listEq : List β → List β → Bool
  | [], [] => true
  | x :: xs, y :: ys => eq x y && listEq xs ys
  | _, _ => false
def haveSameElements (v1 v2 : List β) : Bool :=
  if v1.length ≠ v2.length then false
  else listEq eq (v1.mergeSort (leOfLt lt)) (v2.mergeSort (leOfLt lt))

/-- the `while (j < v2.size() - 1 && v2[j] < x) j++` of `diff`/`containsAll`: the state `j` is
the suffix of the sorted `v2` that starts at `j`; it never becomes empty -/
def advance (x : β) : List β → List β
  | y :: z :: rest => if lt y x then advance x (z :: rest) else y :: z :: rest
  | s => s

/-- `i > 0 && v1[i] == v1[i-1]` -/
def sameAsPrev (prev : Option β) (x : β) : Bool :=
  match prev with
  | some p => eq x p
  | none => false

/-- loop of `diff` (VectorTools.h:1983-1988) over the sorted `v1` (with the previous element, for
`if (i > 0 && v1[i] == v1[i-1]) continue`) and the current suffix of the sorted `v2`;
`v2[j]` is a checked read (the suffix is empty exactly when `v2` is) -/
def diffLoop : Option β → List β → List β → Res (List β)
  | _, [], _ => .ok []
  | prev, x :: xs, s =>
    if sameAsPrev eq prev x then diffLoop (some x) xs s
    else
      let s' := advance lt x s
      match s' with
      | [] => .error .ub
      | y :: _ => do
        let r ← diffLoop (some x) xs s'
        pure (if !(eq y x) then x :: r else r)

/-- `diff(v1, v2, v3)` before the repair (VectorTools.h:1976): `if (v2.size()==0) append(v3, v1)` and
then the loop all the same, whose bound `v2.size() - 1` wraps around and whose `v2[j]` reads an
empty vector.  Returns the value appended to `v3`. -/
def diffOrig (v1 v2 : List β) : Res (List β) := do
  let pre := if v2.length = 0 then v1 else []
  let r ← diffLoop eq lt none (v1.mergeSort (leOfLt lt)) (v2.mergeSort (leOfLt lt))
  pure (pre ++ r)

/-- `diff` after the repair: with an empty `v2` every distinct element of the sorted `v1` is kept
(`j < v2.size()` guards the read) -/
def diffLoopFixed : Option β → List β → List β → List β
  | _, [], _ => []
  | prev, x :: xs, s =>
    if sameAsPrev eq prev x then diffLoopFixed (some x) xs s
    else
      let s' := advance lt x s
      match s' with
      | [] => x :: diffLoopFixed (some x) xs s'
      | y :: _ => if !(eq y x) then x :: diffLoopFixed (some x) xs s' else diffLoopFixed (some x) xs s'

def diff (v1 v2 : List β) : List β :=
  diffLoopFixed eq lt none (v1.mergeSort (leOfLt lt)) (v2.mergeSort (leOfLt lt))

/-- loop of `containsAll` (VectorTools.h:1796-1802) over the sorted `v2` (with the previous element)
and the current suffix of the sorted `v1`; before the repair `v1[j]` is an unguarded read -/
def containsAllLoopOrig : Option β → List β → List β → Res Bool
  | _, [], _ => .ok true
  | prev, x :: xs, s =>
    if sameAsPrev eq prev x then containsAllLoopOrig (some x) xs s
    else
      let s' := advance lt x s
      match s' with
      | [] => .error .ub
      | y :: _ => if !(eq y x) then .ok false else containsAllLoopOrig (some x) xs s'

def containsAllOrig (v1 v2 : List β) : Res Bool :=
  containsAllLoopOrig eq lt none (v2.mergeSort (leOfLt lt)) (v1.mergeSort (leOfLt lt))

/-- after the repair (`j >= v1.size() ||` guards the read): an exhausted/empty `v1` answers false -/
def containsAllLoop : Option β → List β → List β → Bool
  | _, [], _ => true
  | prev, x :: xs, s =>
    if sameAsPrev eq prev x then containsAllLoop (some x) xs s
    else
      let s' := advance lt x s
      match s' with
      | [] => false
      | y :: _ => if !(eq y x) then false else containsAllLoop (some x) xs s'

/-- `containsAll(v1, v2)` (VectorTools.h:1791): does `v1` contain every element of `v2` -/
def containsAll (v1 v2 : List β) : Bool :=
  containsAllLoop eq lt none (v2.mergeSort (leOfLt lt)) (v1.mergeSort (leOfLt lt))

/-! `std::map<K, V>` as an association list kept strictly increasing in the key -/

/-- `m[k] = f(m[k])` where a missing key is first value-initialised (`f none`) -/
def mapUpdate {γ : Type} (k : β) (f : Option γ → γ) : List (β × γ) → List (β × γ)
  | [] => [(k, f none)]
  | (k', c) :: rest =>
    if lt k k' then (k, f none) :: (k', c) :: rest
    else if lt k' k then (k', c) :: mapUpdate k f rest
    else (k', f (some c)) :: rest

/-- `m[k]` for reading -/
def mapGet? {γ : Type} (k : β) : List (β × γ) → Option γ
  | [] => none
  | (k', c) :: rest => if lt k k' then none else if lt k' k then mapGet? k rest else some c

end Sets


/-! ### entropy and mutual information of samples (VectorTools.h:1585-1641) -/
section Entropy
variable {α : Type} [Scalar α]
open Scalar

/-- `counts[x]++` for every element: the `std::map<T,double>` of occurrence counts -/
def countMap (v : List α) : List (α × α) :=
  v.foldl (fun m x => mapUpdate ltb x (fun o => o.getD zero + one) m) []

/-- `shannonDiscrete` (VectorTools.h:1585): `s += (c/n)*log(c/n)/log(base)` over the count map; `-s` -/
def shannonDiscrete (v : List α) (base : α) : α :=
  let n : α := ofInt v.length
  let s := (countMap v).foldl (fun s (kc : α × α) => s + (kc.2 / n) * log (kc.2 / n) / log base) zero
  Neg.neg s

/-- the nested count map `counts12[a][b]++` -/
def countMap2 (v1 v2 : List α) : List (α × List (α × α)) :=
  (List.zip v1 v2).foldl (fun m (ab : α × α) =>
    mapUpdate ltb ab.1 (fun o => mapUpdate ltb ab.2 (fun c => c.getD zero + one) (o.getD [])) m) []

/-- `miDiscrete` (VectorTools.h:1617): Σ over the joint count map of
`(c12/n)*log(c12*n/(c1[a]*c2[b]))/log(base)`; `counts1[a]` of a missing key is the value-initialised 0 -/
def miDiscrete (v1 v2 : List α) (base : α) : Res α :=
  if v1.length ≠ v2.length then .error .dimension else
    let c1 := countMap v1
    let c2 := countMap v2
    let n : α := ofInt v1.length
    .ok ((countMap2 v1 v2).foldl (fun s (row : α × List (α × α)) =>
      row.2.foldl (fun s (kc : α × α) =>
        s + (kc.2 / n) * log (kc.2 * n / (((mapGet? ltb row.1 c1).getD zero) * ((mapGet? ltb kc.1 c2).getD zero))) / log base) s) zero)

end Entropy

/-! ## Specifications

The definitions the theorems of `BppProofs/Props/C07*.lean` equate the routines with.  They are
executable: the driver evaluates the *same* definitions on the implementation's answers
(`Spec.*` at `Rat`, i.e. exactly; the predicates through their `Decidable` instances). -/

namespace Spec
variable {α : Type} [Scalar α]
open Scalar

/-- Σ v -/
def sum (v : List α) : α := v.foldr (· + ·) zero
/-- Π v -/
def prod (v : List α) : α := v.foldr (· * ·) one
/-- Σ aᵢ·bᵢ -/
def dot (a b : List α) : α := sum (List.zipWith (· * ·) a b)
/-- Σ aᵢ·bᵢ·wᵢ -/
def dotW (a b w : List α) : α := sum (zipWith3 (fun x y c => x * y * c) a b w)
/-- (Σ v)/n -/
def mean (v : List α) : α := sum v / ofInt v.length
/-- (Σ vᵢ·wᵢ)/(Σ w) -/
def meanW (v w : List α) : α := dot v w / sum w
/-- Σ (aᵢ-ā)(bᵢ-b̄) / (n-1 | n) -/
def cov (a b : List α) (unbiased : Bool) : α :=
  sum (List.zipWith (fun x y => (x - mean a) * (y - mean b)) a b) /
    (if unbiased then ofInt a.length - one else ofInt a.length)
end Spec

section Pred
variable {β : Type}

/-- `pos` is the first position of an extremal element (`better y m`: `y` beats `m`):
nothing beats `v[pos]`, and `v[pos]` beats everything before it -/
def IsFirstExtremum (better : β → β → Bool) (v : List β) (pos : Nat) : Prop :=
  match v[pos]? with
  | none => False
  | some m => (∀ y ∈ v, better y m = false) ∧ (∀ y ∈ v.take pos, better m y = true)

instance (better : β → β → Bool) (v : List β) (pos : Nat) : Decidable (IsFirstExtremum better v pos) := by
  unfold IsFirstExtremum; split <;> infer_instance

/-- `m` occurs in `v` and nothing beats it -/
def IsExtremum (eq better : β → β → Bool) (v : List β) (m : β) : Prop :=
  contains eq v m = true ∧ ∀ y ∈ v, better y m = false

instance (eq better : β → β → Bool) (v : List β) (m : β) : Decidable (IsExtremum eq better v m) := by
  unfold IsExtremum; infer_instance

/-- position `i` holds a value `== m` -/
def holdsAt (eq : β → β → Bool) (v : List β) (m : β) (i : Nat) : Bool :=
  match v[i]? with
  | some y => eq y m
  | none => false

/-- exactly the positions holding a value `== m`, in increasing order -/
def IsPositionsOf (eq : β → β → Bool) (v : List β) (m : β) (pos : List Nat) : Prop :=
  pos = (List.range v.length).filter (holdsAt eq v m)

instance (eq : β → β → Bool) (v : List β) (m : β) (pos : List Nat) : Decidable (IsPositionsOf eq v m pos) := by
  unfold IsPositionsOf; infer_instance

/-- non-decreasing for the strict comparison `lt`: no later element is smaller -/
def SortedBy (lt : β → β → Bool) (l : List β) : Prop := l.Pairwise (fun a b => lt b a = false)

instance (lt : β → β → Bool) (l : List β) : Decidable (SortedBy lt l) := by
  unfold SortedBy; infer_instance

/-- strictly increasing -/
def StrictSorted (lt : β → β → Bool) (l : List β) : Prop := l.Pairwise (fun a b => lt a b = true)

instance (lt : β → β → Bool) (l : List β) : Decidable (StrictSorted lt l) := by
  unfold StrictSorted; infer_instance

/-- `idx` is a permutation of the positions of `v` along which `v` is non-decreasing -/
def IsSortingPerm (lt : β → β → Bool) (v : List β) (idx : List Nat) : Prop :=
  idx.Perm (List.range v.length) ∧ SortedBy lt (idx.filterMap (fun i => v[i]?))

instance (lt : β → β → Bool) (v : List β) (idx : List Nat) : Decidable (IsSortingPerm lt v idx) := by
  unfold IsSortingPerm; infer_instance

/-- `s` is `v` sorted -/
def IsSortOf [DecidableEq β] (lt : β → β → Bool) (v s : List β) : Prop := s.Perm v ∧ SortedBy lt s

instance [DecidableEq β] (lt : β → β → Bool) (v s : List β) : Decidable (IsSortOf lt v s) := by
  unfold IsSortOf; infer_instance

/-- `m` is a median: at least half of the elements are `≤ m` and at least half are `≥ m` -/
def IsMedian (lt : β → β → Bool) (v : List β) (m : β) : Prop :=
  v.length ≤ 2 * v.countP (fun x => !(lt m x)) ∧ v.length ≤ 2 * v.countP (fun x => !(lt x m))

instance (lt : β → β → Bool) (v : List β) (m : β) : Decidable (IsMedian lt v m) := by
  unfold IsMedian; infer_instance

/-- the two lists have the same elements -/
def SameSet (eq : β → β → Bool) (a b : List β) : Prop :=
  (∀ x ∈ a, contains eq b x = true) ∧ (∀ x ∈ b, contains eq a x = true)

instance (eq : β → β → Bool) (a b : List β) : Decidable (SameSet eq a b) := by
  unfold SameSet; infer_instance

/-- no two positions hold `==` values -/
def NoDup (eq : β → β → Bool) (l : List β) : Prop := l.Pairwise (fun a b => eq a b = false)

instance (eq : β → β → Bool) (l : List β) : Decidable (NoDup eq l) := by
  unfold NoDup; infer_instance

/-- `u` = `a` followed by elements of `b`, holds exactly the elements of `a` or `b`, and adds no
duplicate -/
def IsUnion (eq : β → β → Bool) (a b u : List β) : Prop :=
  (∀ x ∈ u, contains eq a x = true ∨ contains eq b x = true) ∧
  (∀ x ∈ a, contains eq u x = true) ∧ (∀ x ∈ b, contains eq u x = true) ∧
  listEq eq (u.take a.length) a = true ∧ NoDup eq (u.drop a.length) ∧
  (∀ x ∈ u.drop a.length, contains eq a x = false)

instance (eq : β → β → Bool) (a b u : List β) : Decidable (IsUnion eq a b u) := by
  unfold IsUnion; infer_instance

/-- elements of `a` that occur in `b` -/
def IsInter (eq : β → β → Bool) (a b r : List β) : Prop :=
  (∀ x ∈ r, contains eq a x = true ∧ contains eq b x = true) ∧
  (∀ x ∈ a, contains eq b x = true → contains eq r x = true)

instance (eq : β → β → Bool) (a b r : List β) : Decidable (IsInter eq a b r) := by
  unfold IsInter; infer_instance

/-- elements of `a` that do not occur in `b`, strictly increasing -/
def IsDiff (eq lt : β → β → Bool) (a b r : List β) : Prop :=
  (∀ x ∈ r, contains eq a x = true ∧ contains eq b x = false) ∧
  (∀ x ∈ a, contains eq b x = false → contains eq r x = true) ∧ StrictSorted lt r

instance (eq lt : β → β → Bool) (a b r : List β) : Decidable (IsDiff eq lt a b r) := by
  unfold IsDiff; infer_instance

end Pred

/-! ### StatTools::computeFdr (StatTools.cpp:13-28) -/
section Fdr
variable {α : Type} [Scalar α]
open Scalar

/-- `fdr[idx] = val`: a checked write -/
def setAt? {β : Type} (v : List β) (i : Nat) (x : β) : Res (List β) :=
  if i < v.length then .ok (v.set i x) else .error .ub

/-- `PValue_::operator<` is `other.pvalue_ < pvalue_`: the sort is by *decreasing* p-value -/
def pvalLt (a b : α × Nat) : Bool := ltb b.1 a.1

def sortPValues (p : List α) : List (α × Nat) := p.zipIdx.mergeSort (leOfLt pvalLt)

/-- the scatter loop; `denom k entry` is the divisor used for the entry at sorted position `k` -/
def fdrLoop (n : Nat) (denom : Nat → (α × Nat) → Nat) : Nat → List (α × Nat) → List α → Res (List α)
  | _, [], out => .ok out
  | k, e :: es, out => do
    let out' ← setAt? out e.2 (e.1 * ofInt n / ofInt (denom k e))
    fdrLoop n denom (k + 1) es out'

/-- before the repair the divisor is the *original index* + 1 (StatTools.cpp:26) -/
def computeFdrOrig (p : List α) : Res (List α) :=
  fdrLoop p.length (fun _ e => e.2 + 1) 0 (sortPValues p) (List.replicate p.length zero)

/-- after the repair: the rank; position `k` of the decreasing sort has rank `n - k` -/
def computeFdr (p : List α) : Res (List α) :=
  fdrLoop p.length (fun k _ => p.length - k) 0 (sortPValues p) (List.replicate p.length zero)

/-- the entry answered for the p-value at position `σ[k]` of the ranking is `p·n/(n - k)` -/
def fdrEntryOk (p out : List α) (σ : List Nat) (k : Nat) : Bool :=
  match σ[k]? with
  | none => false
  | some i =>
    match p[i]?, out[i]? with
    | some x, some o => eqb o (x * ofInt p.length / ofInt ((p.length - k : Nat) : Int))
    | _, _ => false

/-- Benjamini–Hochberg along a ranking `σ`: `σ` lists the positions by *decreasing* p-value (a
permutation of the positions; equal p-values in any order), the answer has one entry per p-value,
and the p-value at `σ[k]` — whose rank among the `n` p-values is `n - k` — is answered
`p·n/(n - k)` -/
def IsFdrVia (p out : List α) (σ : List Nat) : Prop :=
  IsSortingPerm (fun a b => ltb b a) p σ ∧ out.length = p.length ∧
  ∀ k, k < σ.length → fdrEntryOk p out σ k = true

instance (p out : List α) (σ : List Nat) : Decidable (IsFdrVia p out σ) := by
  unfold IsFdrVia; infer_instance

end Fdr
end Bpp.VecTools
