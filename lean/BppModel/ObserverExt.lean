import BppModel.Observer
import BppModel.GraphOrient
/-
Round 2 extension of the observer model (BppModel/Observer.lean is left untouched: the tree
model builds on it).

1. **Object identity.**  In `Observer.lean` an object is a label and every observer has its own
   name space of labels: the object `a` of observer `k` is the pair `(k, a)`.  Here that pair is
   made explicit (`Ident`), the observer state is restated with identities (`IObs`), and the
   same-type copy constructor (AssociationGraphImplObserver.h:204-248; `clone()` :313 and the
   repaired `operator=` :255 run the same two loops) is transcribed *with* identities (`copyI`):
   which object — the source's or the freshly copied one — goes into which of the eight maps is
   visible.  `Props/C14Copy.lean` proves that the copy holds fresh objects only
   (`copy_independent`) and that forgetting the owners gives back `copyObs` (`copyI_tag`).
   `IObs.foreign` is the predicate the driver evaluates on the implementation's raw tables after
   every operation (the harness reports, for every map entry, the pool that owns the object
   actually stored).

2. **More members**: `clone()`, `operator=`, the constructor on an existing graph (:138),
   `setRoot(Nref)` (:706), and the histories over them (`WOpX`, `World.stepX`).
-/
namespace Bpp.Graph

/-- identity of an object: the observer (slot) whose pool created it, and its label there -/
structure Ident where
  owner : Nat
  label : Nat
deriving DecidableEq, Repr

/-- `std::vector<std::shared_ptr<T>>` with identities -/
abbrev IVec := List (Option Ident)

/-- the eight maps of an observer, with identities (maps in the order the harness prints them:
ascending label) -/
structure IObs where
  gN : IVec := []
  gE : IVec := []
  Ng : List (Ident × Nat) := []
  Eg : List (Ident × Nat) := []
  iN : IVec := []
  iE : IVec := []
  Ni : List (Ident × Nat) := []
  Ei : List (Ident × Nat) := []
deriving DecidableEq, Repr

namespace IObs

def vecLabels (v : IVec) : Vec := v.map (fun o => o.map (·.label))
def mapLabels (m : List (Ident × Nat)) : List (Nat × Nat) := m.map (fun p => (p.1.label, p.2))

/-- forget who owns the objects -/
def labels (s : IObs) : Obs :=
  { gN := vecLabels s.gN, gE := vecLabels s.gE, Ng := mapLabels s.Ng, Eg := mapLabels s.Eg,
    iN := vecLabels s.iN, iE := vecLabels s.iE, Ni := mapLabels s.Ni, Ei := mapLabels s.Ei }

def vecOwned (k : Nat) (v : IVec) : Bool :=
  v.all (fun o => match o with | some a => a.owner == k | none => true)
def mapOwned (k : Nat) (m : List (Ident × Nat)) : Bool := m.all (fun p => p.1.owner == k)

/-- the first of the eight maps of observer `k` that holds an object `k` does not own -/
def foreign (k : Nat) (s : IObs) : Option String :=
  if !vecOwned k s.gN then some "graphidToN"
  else if !vecOwned k s.gE then some "graphidToE"
  else if !mapOwned k s.Ng then some "NToGraphid"
  else if !mapOwned k s.Eg then some "EToGraphid"
  else if !vecOwned k s.iN then some "indexToN"
  else if !vecOwned k s.iE then some "indexToE"
  else if !mapOwned k s.Ni then some "NToIndex"
  else if !mapOwned k s.Ei then some "EToIndex"
  else none

/-- every object in the vector / map belongs to the given list of objects -/
def objects (s : IObs) : List Ident :=
  s.gN.filterMap id ++ s.gE.filterMap id ++ s.Ng.map (·.1) ++ s.Eg.map (·.1) ++
  s.iN.filterMap id ++ s.iE.filterMap id ++ s.Ni.map (·.1) ++ s.Ei.map (·.1)

end IObs

/-- observer `k` of the label-level model, with the identities made explicit -/
def Obs.tag (k : Nat) (o : Obs) : IObs :=
  let tv (v : Vec) : IVec := v.map (fun x => x.map (fun a => (⟨k, a⟩ : Ident)))
  let tm (m : List (Nat × Nat)) : List (Ident × Nat) := m.map (fun p => ((⟨k, p.1⟩ : Ident), p.2))
  { gN := tv o.gN, gE := tv o.gE, Ng := tm o.Ng, Eg := tm o.Eg, iN := tv o.iN, iE := tv o.iE, Ni := tm o.Ni, Ei := tm o.Ei }

namespace IObs

/-- `map::find` on an identity-keyed map -/
def ifind (a : Ident) : List (Ident × Nat) → Option Nat
  | [] => none
  | (b, v) :: r => if b = a then some v else ifind a r

/-- `v[i] = o` (`vector::operator[]`, in range) -/
def put (v : IVec) (i : Nat) (o : Option Ident) : IVec := v.set i o

/-- the same-type copy constructor (:204-248) into slot `k`, with identities.  For every entry
`(src, id)` of the source's `NToGraphid_` a new object `node = copy(*src)` is made — identity
`(k, label of src)` — and

    NToGraphid_[node] = id;  graphidToN_[id] = node;
    if src has an index i:  NToIndex_[node] = i;  indexToN_[i] = node;

likewise for the edges (:231-245). -/
def copyI (k : Nat) (s : IObs) : IObs :=
  let fresh (a : Ident) : Ident := ⟨k, a.label⟩
  let gN := s.Ng.foldl (fun v p => put v p.2 (some (fresh p.1))) (List.replicate s.gN.length none)
  let gE := s.Eg.foldl (fun v p => put v p.2 (some (fresh p.1))) (List.replicate s.gE.length none)
  let ni := s.Ng.filterMap (fun p => (ifind p.1 s.Ni).map (fun i => (fresh p.1, i)))
  let ei := s.Eg.filterMap (fun p => (ifind p.1 s.Ei).map (fun i => (fresh p.1, i)))
  let iN := ni.foldl (fun v p => put v p.2 (some p.1)) (List.replicate s.iN.length none)
  let iE := ei.foldl (fun v p => put v p.2 (some p.1)) (List.replicate s.iE.length none)
  { gN := gN, gE := gE, Ng := s.Ng.map (fun p => (fresh p.1, p.2)), Eg := s.Eg.map (fun p => (fresh p.1, p.2)),
    iN := iN, iE := iE, Ni := ni, Ei := ei }

/-- what a copy constructor that stores the *source's* edge object in `indexToE_` would build
(the kind of slip `copy_independent` excludes; used for the non-vacuity example only) -/
def copyI_aliasing (k : Nat) (s : IObs) : IObs :=
  let c := copyI k s
  let ei := s.Eg.filterMap (fun p => (ifind p.1 s.Ei).map (fun i => (p.1, i)))
  { c with iE := ei.foldl (fun v p => put v p.2 (some p.1)) (List.replicate s.iE.length none) }

end IObs

/-! ### more members of the observer -/

namespace World

/-- `clone()` (:313): `new AssociationGraphImplObserver(*this)` -/
def clone (w : World) (j k : Nat) : OOut Unit := w.copy j k

/-- `operator=` (:255, as repaired): self-assignment does nothing; otherwise everything the
target knew is forgotten and the two loops of the copy constructor fill it from the source; the
target stays registered (source and target observe the same graph in a `World`) -/
def assign (w : World) (j k : Nat) : OOut Unit :=
  match w.getObs j, w.getObs k with
  | some o, some _ =>
    if j = k then .ok () w
    else if !copyDefined o then .ub
    else .ok () (w.setObs k (copyObs o))
  | _, _ => .ub

/-- `AssociationGraphImplObserver(std::shared_ptr<GraphImpl> subjectGraph)` (:138): a new, empty
observer of the existing graph, in a free slot -/
def attach (w : World) (k : Nat) : OOut Unit :=
  if k = 0 || decide (k ≥ w.obs.length) || (w.getObs k).isSome then .ub
  else .ok () (w.setObs k {})

/-- an object-level mutator called with a null pointer where an object is required —
`createNode(null)`, `createNode(origin, null, …)`, `associateNode/Edge(null, …)`, `set/addNodeIndex(null)`,
`set/addEdgeIndex(null)`, `setEdgeLinking(…, null)` (refused since the repair: the null pointer would
become a key of the object maps), and `link`, `unlink`, `deleteNode`, `dissociate*`, `setRoot` with a null
node / edge (never known to the observer): raises, nothing changes.  Only the edge object of
`link` / `createNode(origin, new, edge)` may be null (`Option Obj`) -/
def nullRefused (w : World) (k : Nat) : OOut Unit :=
  match w.getObs k with
  | none => .ub
  | some _ => .exc .bpp w

/-- `setRoot(Nref)` (:706): `getGraph()->setRoot(getNodeGraphid(newRoot))` -/
def setRootObj (w : World) (k : Nat) (a : Obj) : OOut Unit :=
  match w.getObs k with
  | none => .ub
  | some o =>
    match AL.find a o.Ng with
    | none => .exc .bpp w
    | some id =>
      match w.g.setRoot id with
      | .ok _ g' => .ok () { w with g := g' }
      | .exc g' => .exc .bpp { w with g := g' }

/-- `GlobalGraph::operator=` onto the observed graph (GlobalGraph.cpp:41-67, as repaired): the content
becomes that of `h`, the registered observers stay and are told that every former edge and node
is gone (`notifyDeletedEdges(formerEdges); notifyDeletedNodes(formerNodes)`) -/
def graphAssign (w : World) (h : G) : World :=
  ({ w with g := { h with pending := w.g.pending ++ [.edges w.g.allEdges, .nodes w.g.allNodes] } } : World).deliver

/-- `notifyDeletedEdges` / `notifyDeletedNodes` (GlobalGraph.h:668/:674) are public: called directly, every
registered observer forgets the objects of the named ids — whether or not they are still in the graph -/
def notifyDirect (w : World) (ev : Event) : World :=
  ({ w with g := { w.g with pending := w.g.pending ++ [ev] } } : World).deliver

/-- `getRoot()` (:714): the object of the graph's root, null when it has none -/
def rootObj (w : World) (o : Obs) : Option Obj := o.nodeFromGid w.g.root

/-- `getLeavesFromNode(Nref, maxDepth)` (:1204) -/
def leavesFromObj (w : World) (o : Obs) (a : Obj) (d : Nat) : Option (List Obj) :=
  match AL.find a o.Ng with
  | none => none
  | some id => (w.g.leavesFromNode id d).map o.nodesFromGids

end World

/-- histories over the members of `WOp` and the ones added here -/
inductive WOpX where
  | base (op : WOp)
  | clone (j k : Nat)
  | assign (j k : Nat)
  | attach (k : Nat)
  | setRoot (k : Nat) (a : Obj)
  /-- the observed graph is assigned the graph reached by the history `hist` from the empty graph -/
  | graphAssign (d : Bool) (hist : List Op)
  /-- `orientate()` called on the observed graph -/
  | orientate
  /-- the public `notifyDeletedEdges(ids)` / `notifyDeletedNodes(ids)` called directly, with any ids -/
  | notify (ev : Event)
  /-- an object-level mutator of observer `k` called with a null pointer where an object is required -/
  | nullCall (k : Nat)
deriving Repr

namespace World
def stepX (w : World) : WOpX → World
  | .base op => w.step op
  | .clone j k => (w.clone j k).world w
  | .assign j k => (w.assign j k).world w
  | .attach k => (w.attach k).world w
  | .setRoot k a => (w.setRootObj k a).world w
  | .graphAssign d hist => w.graphAssign { (Graph.empty d).run hist with pending := [] }
  | .orientate => (w.graphOp w.g.orientate).2
  | .notify ev => w.notifyDirect ev
  | .nullCall k => (w.nullRefused k).world w

def runX (w : World) (ops : List WOpX) : World := ops.foldl stepX w
end World

end Bpp.Graph
