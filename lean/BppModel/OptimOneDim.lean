import BppModel.Optim
/-
Model of the optimisation framework (C10), part 2: the one-dimensional optimisers, transcribed in
full (`doInit`, `doStep`, their stop conditions, their redefinitions of `optimize`):

  src/Bpp/Numeric/Function/GoldenSectionSearch.cpp          (after the two `fix:` commits of findings/C10.json)
  src/Bpp/Numeric/Function/BrentOneDimension.cpp
  src/Bpp/Numeric/Function/NewtonBacktrackOneDimension.cpp  (after the `fix:` commit)
  src/Bpp/Numeric/Function/NewtonOneDimension.cpp

All of them are written against `FunI`, so that the same text serves when the function is the
objective itself and when it is a `DirectionFunction` (line minimisation, line search).
-/
namespace Bpp.Optim
open Bpp Scalar

section
variable {α : Type} [Scalar α] {F : Type}

/-- `getParameter_(0).setValue(x); getFunction()->f(getParameters())` on the optimiser's own list -/
def evalOwn {τ : Type} (I : FunI F α) (s : St F τ α) (x : α) : Except (Exc × F) (St F τ α × α) :=
  match eval0 I s.fn s.core.params x with
  | .error e => .error e
  | .ok (fn, pl, v) => .ok ({ s with fn := fn, core := { s.core with params := pl } }, v)

/-! ### GoldenSectionSearch -/

structure Gss (α : Type) where
  f1 : α
  f2 : α
  x0 : α
  x1 : α
  x2 : α
  x3 : α
  xinf : α
  xsup : α
deriving Inhabited

/-- `setInitialInterval(inf, sup)` (GoldenSectionSearch.cpp:85, BrentOneDimension.cpp:98) -/
def orderedInterval (inf sup : α) : α × α := if gtb sup inf then (inf, sup) else (sup, inf)

/-- `GSSStopCondition::getCurrentTolerance` (GoldenSectionSearch.cpp:25) -/
def Gss.currentTolerance (g : Gss α) : α := ntAbs (g.x3 - g.x0) / (ntAbs g.x1 + ntAbs g.x2)

/-- `GSSStopCondition::isToleranceReached` (GoldenSectionSearch.cpp:15), repaired: the *current*
tolerance is compared with the tolerance -/
def gssStop (s : St F (Gss α) α) : St F (Gss α) α × Bool :=
  let c := { s.core with callCount := s.core.callCount + 1 }
  let s' := { s with core := c }
  if c.callCount ≤ c.burnin then (s', false)
  else (s', leb s'.ext.currentTolerance c.tolerance)

/-- `GoldenSectionSearch::doInit` (GoldenSectionSearch.cpp:45-81) -/
def gssDoInit (I : FunI F α) (fuel : Nat) (s : St F (Gss α) α) (params : PList α) : Except (Exc × F) (St F (Gss α) α) :=
  if params.length != 1 then .error (.bpp, s.fn) else
  match bracketMinimum I fuel s.ext.xinf s.ext.xsup s.fn s.core.params with
  | .error e => .error e
  | .ok (fn, k) =>
    let g := s.ext
    let x0 := k.a.x
    let x3 := k.c.x
    let (x1, x2) : α × α :=
      if gtb (ntAbs (k.c.x - k.b.x)) (ntAbs (k.b.x - k.a.x)) then
        (k.b.x, k.b.x + goldC * (k.c.x - k.b.x))
      else
        (k.b.x - goldC * (k.b.x - k.a.x), k.b.x)
    let s := { s with fn := fn, ext := { g with x0 := x0, x1 := x1, x2 := x2, x3 := x3 } }
    match evalOwn I s x1 with
    | .error e => .error e
    | .ok (s, f1) =>
      match evalOwn I { s with ext := { s.ext with f1 := f1 } } x2 with
      | .error e => .error e
      | .ok (s, f2) => .ok { s with ext := { s.ext with f2 := f2 } }

/-- `tolIsReached_ = nbEval_ > 2 && getStopCondition()->isToleranceReached()` -/
def gssPoll (s : St F (Gss α) α) : St F (Gss α) α :=
  if s.core.nbEval > 2 then
    let (s', b) := gssStop s
    { s' with core := { s'.core with tol := b } }
  else { s with core := { s.core with tol := false } }

/-- the part common to the two branches of `doStep`: `getParameter_(0).setValue(x); tolIsReached_ =
nbEval_ > 2 && getStopCondition()->isToleranceReached(); … getFunction()->f(getParameters())` -/
def gssProbe (I : FunI F α) (s : St F (Gss α) α) (x : α) : Except (Exc × F) (St F (Gss α) α × α) :=
  match setValueAt s.core.params 0 x with
  | .error e => .error (e, s.fn)
  | .ok pl =>
    let s := gssPoll { s with core := { s.core with params := pl } }
    match I.f s.fn s.core.params with
    | .error e => .error e
    | .ok (fn, v) => .ok ({ s with fn := fn }, v)

/-- `GoldenSectionSearch::doStep` (GoldenSectionSearch.cpp:100-129) -/
def gssDoStep (I : FunI F α) (s : St F (Gss α) α) : Except (Exc × F) (St F (Gss α) α × α) :=
  let s := { s with core := { s.core with nbEval := s.core.nbEval + 1 } }
  let g := s.ext
  if ltb g.f2 g.f1 then
    -- shift(x0, x1, x2); x2 = R * x1 + C * x3; … shift(f1, f2, f(...)); return f2
    let x2 := goldR * g.x2 + goldC * g.x3
    match gssProbe I { s with ext := { g with x0 := g.x1, x1 := g.x2, x2 := x2 } } x2 with
    | .error e => .error e
    | .ok (s, v) => .ok ({ s with ext := { s.ext with f1 := s.ext.f2, f2 := v } }, v)
  else
    -- shift(x3, x2, x1); x1 = R * x2 + C * x0; … shift(f2, f1, f(...)); return f1
    let x1 := goldR * g.x1 + goldC * g.x0
    match gssProbe I { s with ext := { g with x3 := g.x2, x2 := g.x1, x1 := x1 } } x1 with
    | .error e => .error e
    | .ok (s, v) => .ok ({ s with ext := { s.ext with f2 := s.ext.f1, f1 := v } }, v)

def gssAlgo (I : FunI F α) (fuel : Nat) : Algo F (Gss α) α :=
  { doInit := gssDoInit I fuel,
    doStep := gssDoStep I,
    stopInit := fun s => { s with core := { s.core with callCount := 0 } },
    stop := gssStop,
    value := I.value }

/-- `GoldenSectionSearch::optimize` (repaired): the template's loop, then the parameter is set to
the better of the two inner points and the function is evaluated there -/
def gssOptimize (I : FunI F α) (fuel : Nat) (s : St F (Gss α) α) : Except (Exc × F) (St F (Gss α) α × α) :=
  match (gssAlgo I fuel).optimize fuel s with
  | .error e => .error e
  | .ok (s, _) =>
    match evalOwn I s (if ltb s.ext.f1 s.ext.f2 then s.ext.x1 else s.ext.x2) with
    | .error e => .error e
    | .ok (s, v) => .ok ({ s with core := { s.core with cur := v } }, v)

/-! ### BrentOneDimension -/

structure Brent (α : Type) where
  a : α
  b : α
  d : α
  e : α
  fv : α
  fw : α
  fx : α
  tol1 : α
  tol2 : α
  v : α
  w : α
  x : α
  xm : α
  xinf : α
  xsup : α
  inward : Bool
deriving Inhabited

/-- `BrentOneDimension::ZEPS` -/
def zeps : α := ofRat 1 10000000000

/-- `BODStopCondition::isToleranceReached` (BrentOneDimension.cpp:15) -/
def brentStop (s : St F (Brent α) α) : St F (Brent α) α × Bool :=
  let c := { s.core with callCount := s.core.callCount + 1 }
  let s' := { s with core := c }
  if c.callCount ≤ c.burnin then (s', false)
  else
    let g := s'.ext
    (s', leb (ntAbs (g.x - g.xm)) (g.tol2 - ofRat 1 2 * (g.b - g.a)))

/-- `BrentOneDimension::doInit` (BrentOneDimension.cpp:51-94); the inward routine is called with its
default of 10 intervals -/
def brentDoInit (I : FunI F α) (fuel : Nat) (s : St F (Brent α) α) (params : PList α) : Except (Exc × F) (St F (Brent α) α) :=
  if params.length != 1 then .error (.bpp, s.fn) else
  let br := if s.ext.inward then inwardBracketMinimum I fuel s.ext.xinf s.ext.xsup 10 s.fn s.core.params
            else bracketMinimum I fuel s.ext.xinf s.ext.xsup s.fn s.core.params
  match br with
  | .error e => .error e
  | .ok (fn, k) =>
    let g := s.ext
    let a := if ltb k.a.x k.c.x then k.a.x else k.c.x
    let b := if gtb k.a.x k.c.x then k.a.x else k.c.x
    match I.f fn s.core.params with
    | .error e => .error e
    | .ok (fn, fx) =>
      let s := { s with fn := fn }
      if ltb fx k.b.f then
        -- "We don't want to lose our initial guess!"
        match value0 s.core.params with
        | none => .error (.index, fn)
        | some x0 =>
          .ok { s with ext := { g with e := zero, a := a, b := b, fw := fx, fv := fx, fx := fx, x := x0, w := x0, v := x0 } }
      else
        let x := k.b.x
        match evalOwn I s x with
        | .error e => .error e
        | .ok (s, fx) =>
          .ok { s with ext := { g with e := zero, a := a, b := b, fw := fx, fv := fx, fx := fx, x := x, w := x, v := x } }

/-- first half of `BrentOneDimension::doStep` (BrentOneDimension.cpp:115-143): the abscissa `u` to
try next (parabolic interpolation through x, v, w when it is acceptable, a golden section step
otherwise), with the scratch members it leaves behind (`xm`, `tol1`, `tol2`, `d`, `e`) -/
def brentPropose (tolerance : α) (g : Brent α) : Brent α × α :=
  let half : α := ofRat 1 2
  let two : α := ofInt 2
  let xm := half * (g.a + g.b)
  let tol1 := tolerance * ntAbs g.x + zeps
  let tol2 := two * tol1
  -- golden section step: d = C * (e = (x >= xm ? a - x : b - x))
  let golden : α × α :=
    let e := if geb g.x xm then g.a - g.x else g.b - g.x
    (goldC * e, e)
  let de : α × α :=
    if gtb (ntAbs g.e) tol1 then
      let r := (g.x - g.w) * (g.fx - g.fv)
      let q := (g.x - g.v) * (g.fx - g.fw)
      let p := (g.x - g.v) * q - (g.x - g.w) * r
      let q := two * (q - r)
      let p := if gtb q zero then -p else p
      let q := ntAbs q
      let etemp := g.e
      let e := g.d
      if geb (ntAbs p) (ntAbs (half * q * etemp)) || leb p (q * (g.a - g.x)) || geb p (q * (g.b - g.x)) then golden
      else
        let d := p / q
        let u := g.x + d
        let d := if ltb (u - g.a) tol2 || ltb (g.b - u) tol2 then sign2 tol1 (xm - g.x) else d
        (d, e)
    else golden
  let u := if geb (ntAbs de.1) tol1 then g.x + de.1 else g.x + sign2 tol1 de.1
  ({ g with xm := xm, tol1 := tol1, tol2 := tol2, d := de.1, e := de.2 }, u)

/-- second half of `doStep` (BrentOneDimension.cpp:151-178): housekeeping once `fu = f(u)` is known -/
def brentUpdate (g : Brent α) (u fu : α) : Brent α :=
  if leb fu g.fx then
    let g := if geb u g.x then { g with a := g.x } else { g with b := g.x }
    { g with v := g.w, w := g.x, x := u, fv := g.fw, fw := g.fx, fx := fu }
  else
    let g := if ltb u g.x then { g with a := u } else { g with b := u }
    if leb fu g.fw || eqb g.w g.x then { g with v := g.w, w := u, fv := g.fw, fw := fu }
    else if leb fu g.fv || eqb g.v g.x || eqb g.v g.w then { g with v := u, fv := fu }
    else g

/-- `BrentOneDimension::doStep` (BrentOneDimension.cpp:113-183) -/
def brentDoStep (I : FunI F α) (s : St F (Brent α) α) : Except (Exc × F) (St F (Brent α) α × α) :=
  let (g1, u) := brentPropose s.core.tolerance s.ext
  -- "Function evaluation": on a copy of the optimiser's list
  match setValueAt s.core.params 0 u with
  | .error ex => .error (ex, s.fn)
  | .ok pl =>
    match I.f s.fn pl with
    | .error ex => .error ex
    | .ok (fn, fu) =>
      let g := brentUpdate g1 u fu
      -- "Store results for this step"
      match setValueAt s.core.params 0 g.x with
      | .error ex => .error (ex, fn)
      | .ok pl' => .ok ({ s with fn := fn, ext := g, core := { s.core with params := pl' } }, g.fx)

def brentAlgo (I : FunI F α) (fuel : Nat) : Algo F (Brent α) α :=
  { doInit := brentDoInit I fuel,
    doStep := brentDoStep I,
    stopInit := fun s => { s with core := { s.core with callCount := 0 } },
    stop := brentStop,
    value := I.value }

/-- `BrentOneDimension::optimize` (BrentOneDimension.cpp:187-195): the template's loop, then the
function is evaluated at the optimiser's parameter -/
def brentOptimize (I : FunI F α) (fuel : Nat) (s : St F (Brent α) α) : Except (Exc × F) (St F (Brent α) α × α) :=
  match (brentAlgo I fuel).optimize fuel s with
  | .error e => .error e
  | .ok (s, _) =>
    match I.f s.fn s.core.params with
    | .error e => .error e
    | .ok (fn, v) => .ok ({ s with fn := fn, core := { s.core with cur := v } }, v)

/-! ### NewtonBacktrackOneDimension -/

structure NBack (α : Type) where
  fold : α
  f : α
  alam : α
  alamin : α
  alam2 : α
  f2 : α
  slope : α
  test : α
deriving Inhabited

/-- `NewtonBacktrackOneDimension::doInit` (NewtonBacktrackOneDimension.cpp:25-34): the tolerance of
the stop condition is divided by `test_` (at every call) -/
def nbackDoInit (I : FunI F α) (s : St F (NBack α) α) (params : PList α) : Except (Exc × F) (St F (NBack α) α) :=
  if params.length != 1 then .error (.bpp, s.fn) else
  match I.f s.fn s.core.params with
  | .error e => .error e
  | .ok (fn, v) =>
    let t := s.core.tolerance / s.ext.test
    .ok { s with fn := fn, core := { s.core with tolerance := t },
                 ext := { s.ext with fold := v, alamin := t, alam := one } }

/-- the step length after the first rejected one (lines 58-63):
`tmplam_ = -slope_ / (2.0 * (f_ - fold_ - slope_)); alam_ = tmplam_ > 0.1 ? tmplam_ : 0.1` -/
def nbackFirst (g : NBack α) (f : α) : α :=
  let tmplam := -g.slope / (ofInt 2 * (f - g.fold - g.slope))
  if gtb tmplam (ofRat 1 10) then tmplam else ofRat 1 10

/-- the step length after a later rejected one (lines 66-89): cubic model through the last two
trials, capped at `0.5 * alam_`, floored at `0.1 * alam_` -/
def nbackNext (g : NBack α) (f : α) : α :=
  let half : α := ofRat 1 2
  let rhs1 := f - g.fold - g.alam * g.slope
  let rhs2 := g.f2 - g.fold - g.alam2 * g.slope
  let a := (rhs1 / (g.alam * g.alam) - rhs2 / (g.alam2 * g.alam2)) / (g.alam - g.alam2)
  let b := (-g.alam2 * rhs1 / (g.alam * g.alam) + g.alam * rhs2 / (g.alam2 * g.alam2)) / (g.alam - g.alam2)
  let tmplam :=
    if eqb a zero then -g.slope / (ofInt 2 * b)
    else
      let disc := b * b - ofInt 3 * a * g.slope
      if ltb disc zero then half * g.alam
      else if leb b zero then (-b + sqrt disc) / (ofInt 3 * a)
      else -g.slope / (b + sqrt disc)
  let tmplam := if gtb tmplam (half * g.alam) then half * g.alam else tmplam
  if gtb tmplam (ofRat 1 10 * g.alam) then tmplam else ofRat 1 10 * g.alam

/-- `NewtonBacktrackOneDimension::doStep` (NewtonBacktrackOneDimension.cpp:38-92), repaired: when
no step is acceptable the function is evaluated at the point the optimiser goes back to -/
def nbackDoStep (I : FunI F α) (s : St F (NBack α) α) : Except (Exc × F) (St F (NBack α) α × α) :=
  let g := s.ext
  if ltb g.alam g.alamin then
    match evalOwn I s zero with
    | .error e => .error e
    | .ok (s, v) => .ok ({ s with core := { s.core with tol := true } }, v)
  else
    match evalOwn I s g.alam with
    | .error e => .error e
    | .ok (s, f) =>
      let g := { g with f := f }
      if leb f (g.fold + g.alam * ofRat 1 10000 * g.slope) then
        .ok ({ s with ext := g, core := { s.core with tol := true } }, f)
      else if eqb g.alam one then
        .ok ({ s with ext := { g with f2 := f, alam := nbackFirst g f } }, f)
      else
        .ok ({ s with ext := { g with alam2 := g.alam, f2 := f, alam := nbackNext g f } }, f)

/-- `NBODStopCondition`: `init()` does nothing, `isToleranceReached()` is `false` -/
def nbackAlgo (I : FunI F α) : Algo F (NBack α) α :=
  { doInit := nbackDoInit I,
    doStep := nbackDoStep I,
    stopInit := fun s => s,
    stop := fun s => (s, false),
    value := I.value }

/-! ### NewtonOneDimension -/

structure Newton1 (α : Type) where
  param : Nat
  maxCorrection : Nat
deriving Inhabited

/-- `newPoint[0].setValue(getParameters()[0].getValue() - movement); newValue = f(newPoint)` and the
Felsenstein-Churchill loop (NewtonOneDimension.cpp:58-79).  `count` corrections have been applied. -/
def newtonCorrect (I : FunI F α) (cur x0 : α) (bck : PList α) (maxc : Nat) :
    Nat → Nat → F → PList α → α → α → Except (Exc × F) (F × Option (PList α × α))
  | 0, _, fn, _, _, _ => .error (.hang, fn)
  | fuel + 1, count, fn, newPoint, movement, newValue =>
    if gtb newValue cur then
      -- "Restore previous point"
      match I.setParameters fn bck with
      | .error e => .error e
      | .ok fn =>
        let count := count + 1
        if count ≥ maxc then .ok (fn, none)
        else
          let movement := movement / ofInt 2
          match setValueAt newPoint 0 (x0 - movement) with
          | .error e => .error (e, fn)
          | .ok newPoint =>
            match I.f fn newPoint with
            | .error e => .error e
            | .ok (fn, nv) => newtonCorrect I cur x0 bck maxc fuel count fn newPoint movement nv
    else .ok (fn, some (newPoint, newValue))

/-- `NewtonOneDimension::doStep` (NewtonOneDimension.cpp:38-83) -/
def newtonDoStep (I : FunI F α) (s : St F (Newton1 α) α) : Except (Exc × F) (St F (Newton1 α) α × α) :=
  let newPoint := s.core.params
  let bck := I.getParameters s.fn
  let d1 := I.d1 s.fn s.ext.param
  let d2 := I.d2 s.fn s.ext.param
  let movement := if leb d2 zero then -d1 / d2 else d1 / d2
  let movement := if !(eqb movement movement) then zero else movement
  match value0 s.core.params with
  | none => .error (.index, s.fn)
  | some x0 =>
    match setValueAt newPoint 0 (x0 - movement) with
    | .error e => .error (e, s.fn)
    | .ok newPoint =>
      match I.f s.fn newPoint with
      | .error e => .error e
      | .ok (fn, nv) =>
        match newtonCorrect I s.core.cur x0 bck s.ext.maxCorrection (s.ext.maxCorrection + 1) 0 fn newPoint movement nv with
        | .error e => .error e
        | .ok (fn, none) => .ok ({ s with fn := fn, core := { s.core with tol := true } }, s.core.cur)
        | .ok (fn, some (pl, v)) => .ok ({ s with fn := fn, core := { s.core with params := pl } }, v)

/-- `NewtonOneDimension::doInit` (NewtonOneDimension.cpp:25-34) -/
def newtonDoInit (I : FunI F α) (s : St F (Newton1 α) α) (params : PList α) : Except (Exc × F) (St F (Newton1 α) α) :=
  match params with
  | [q] =>
    match I.f s.fn s.core.params with
    | .error e => .error e
    | .ok (fn, v) =>
      .ok (fscInit { s with fn := fn, core := { s.core with cur := v }, ext := { s.ext with param := q.name } })
  | _ => .error (.bpp, s.fn)

def newtonAlgo (I : FunI F α) : Algo F (Newton1 α) α :=
  { doInit := newtonDoInit I,
    doStep := newtonDoStep I,
    stopInit := fscInit,
    stop := fscStop,
    value := I.value }

end
end Bpp.Optim
