import BppModel.Prelude.Scalar
import BppModel.Generated.TransformConstants
/-
Model of src/Bpp/Numeric/TransformedParameter.h (RTransformedParameter,
IntervalTransformedParameter -- hyperbolic and tangent variants --,
PlaceboTransformedParameter), generic over `Scalar α`.

Transcription of the code that exists (after the `fix:` commits recorded in
findings/C11.json): same operations in the same order, so that the `Float`
instance reproduces the C++ bit for bit.

* `paramSet` is `Parameter::setValue` (Parameter.cpp:72-83) of a parameter with no
  constraint and precision 0: the new value is stored only if `|value - value_| > 0`
  (so a NaN is never stored, and `-0.0` does not replace `0.0`).
* The `Parameter` constructor (Parameter.cpp:34-43, after the C01 `fix:` "Parameter constructor
  checks the initial value against the constraint") stores the initial value directly -- it no
  longer goes through `setValue` from 0 -- so a NaN initial value (e.g. `atanh` of an argument
  below -1 when `IntervalTransformedParameter` is built with a value outside its bounds) *is*
  stored by the constructors `IT.new`, `TP.placebo` (`RT.new` goes through `setOriginalValue`).
* `std::pow(e, 2)` is written `sq e = e * e`: g++ compiles `pow(x, 2)` to `x * x`
  (checked in the generated assembly at -O1), over the reals the two agree
  (`Real.rpow_two`); `std::pow(scale_, 3)` stays a call to libm `pow`.
* `NumConstants::PI()` is a parameter `pi` of the interval functions; the library's
  value is `Generated.TransformConstants.PI` (see `Lib` at the end).
* An exception (`ConstraintException`) is the outcome `none`.
-/
namespace Bpp.Transform
open Bpp Bpp.Scalar

variable {α : Type} [Scalar α]

def two : α := ofInt 2

/-- `Parameter::setValue` without constraint, precision 0 (Parameter.cpp:72-83). -/
def paramSet (cur v : α) : α :=
  if gtb (Scalar.abs (v - cur)) (zero / two) then v else cur

/-- `std::pow(e, 2)` as compiled (`e * e`). -/
def sq (e : α) : α := e * e

/-! ### RTransformedParameter (TransformedParameter.h:81-152) -/

structure RT (α : Type) where
  scale : α
  bound : α
  positive : Bool
  /-- `Parameter::value_`: the transformed coordinate -/
  x : α

namespace RT

/-- `setOriginalValue` (TransformedParameter.h:111-118): four independent `if`s. -/
def setOriginal (t : RT α) (value : α) : Option (RT α) :=
  if (if t.positive then leb value t.bound else geb value t.bound) then none
  else
    let x1 := if t.positive && ltb value (one + t.bound)
      then paramSet t.x (log (t.scale * (value - t.bound))) else t.x
    let x2 := if t.positive && geb value (one + t.bound)
      then paramSet x1 (t.scale * (value - one - t.bound)) else x1
    let x3 := if !t.positive && gtb value ((-one) + t.bound)
      then paramSet x2 (log ((-t.scale) * (value - t.bound))) else x2
    let x4 := if !t.positive && leb value ((-one) + t.bound)
      then paramSet x3 ((-t.scale) * (value + one - t.bound)) else x3
    some { t with x := x4 }

/-- the constructor (TransformedParameter.h:99-106): `Parameter(name, 1.)` then `setOriginalValue` -/
def new (value bound : α) (positive : Bool) (scale : α) : Option (RT α) :=
  setOriginal { scale := scale, bound := bound, positive := positive, x := one } value

/-- `getOriginalValue` (TransformedParameter.h:120-128) -/
def getOriginal (t : RT α) : α :=
  if t.positive then
    if ltb t.x zero then exp t.x / t.scale + t.bound
    else t.x / t.scale + one + t.bound
  else if ltb t.x zero then (-(exp t.x)) / t.scale + t.bound
  else (-t.x) / t.scale - one + t.bound

/-- `getFirstOrderDerivative` (TransformedParameter.h:130-138) -/
def d1 (t : RT α) : α :=
  if t.positive then
    if ltb t.x zero then exp t.x / t.scale else one / t.scale
  else if ltb t.x zero then (-(exp t.x)) / t.scale
  else (-one) / t.scale

/-- `getSecondOrderDerivative` (TransformedParameter.h:140-148) -/
def d2 (t : RT α) : α :=
  if t.positive then
    if ltb t.x zero then exp t.x / t.scale else zero
  else if ltb t.x zero then (-(exp t.x)) / t.scale
  else zero

end RT

/-! ### IntervalTransformedParameter (TransformedParameter.h:165-236) -/

structure IT (α : Type) where
  scale : α
  lo : α
  hi : α
  hyper : Bool
  x : α

namespace IT

/-- the forward map, written twice in the source (constructor l.187-189 and
`setOriginalValue` l.205-207) with the same expression.  In the tangent variant the ratio
`(value - lo) / (hi - lo)` is computed first (`fix:` "tangent transform of a value one ulp below the
upper bound", findings/C11.json): it is at most 1 in floating point, so the angle cannot exceed
`pi / 2` by rounding. -/
def fwd (pi scale lo hi : α) (hyper : Bool) (value : α) : α :=
  if hyper then scale * atanh (two * (value - lo) / (hi - lo) - one)
  else scale * tan (pi * ((value - lo) / (hi - lo)) - pi / two)

/-- the constructor (TransformedParameter.h:186-195): no check of the value -/
def new (pi value lo hi scale : α) (hyper : Bool) : IT α :=
  { scale := scale, lo := lo, hi := hi, hyper := hyper, x := fwd pi scale lo hi hyper value }

/-- `setOriginalValue` (TransformedParameter.h:200-206) -/
def setOriginal (pi : α) (t : IT α) (value : α) : Option (IT α) :=
  if leb value t.lo || geb value t.hi then none
  else some { t with x := paramSet t.x (fwd pi t.scale t.lo t.hi t.hyper value) }

/-- `getOriginalValue` (TransformedParameter.h:208-218), with the final clamp to `[lo,hi]` -/
def getOriginal (pi : α) (t : IT α) : α :=
  let x2 := if t.hyper then (tanh (t.x / t.scale) + one) * (t.hi - t.lo) / two + t.lo
    else (atan (t.x / t.scale) + pi / two) * (t.hi - t.lo) / pi + t.lo
  let x2 := if ltb x2 t.lo then t.lo else x2
  if gtb x2 t.hi then t.hi else x2

/-- `getFirstOrderDerivative` (TransformedParameter.h:221-228) -/
def d1 (pi : α) (t : IT α) : α :=
  if t.hyper then one / (sq (cosh (t.x / t.scale))) * (t.hi - t.lo) / (two * t.scale)
  else (t.hi - t.lo) / (pi * t.scale * (sq (t.x / t.scale) + one))

/-- `getSecondOrderDerivative` (TransformedParameter.h:229-236) -/
def d2 (pi : α) (t : IT α) : α :=
  if t.hyper then
    (-one) / (sq (cosh (t.x / t.scale))) * tanh (t.x / t.scale) * (t.hi - t.lo) / (t.scale * t.scale)
  else
    (-two) * t.x * (t.hi - t.lo) / (pi * Scalar.pow t.scale (ofInt 3) * sq (sq (t.x / t.scale) + one))

end IT

/-! ### PlaceboTransformedParameter (TransformedParameter.h:245-269) and the common interface -/

inductive TP (α : Type) where
  | r (t : RT α)
  | i (t : IT α)
  | p (x : α)

namespace TP

def placebo (value : α) : TP α := .p value

/-- `getValue()` -/
def x : TP α → α
  | .r t => t.x
  | .i t => t.x
  | .p x => x

/-- `setValue(v)`: a transformed parameter has no constraint -/
def setX (v : α) : TP α → TP α
  | .r t => .r { t with x := paramSet t.x v }
  | .i t => .i { t with x := paramSet t.x v }
  | .p x => .p (paramSet x v)

def setOriginal (pi : α) (v : α) : TP α → Option (TP α)
  | .r t => (t.setOriginal v).map .r
  | .i t => (IT.setOriginal pi t v).map .i
  | .p x => some (.p (paramSet x v))

def getOriginal (pi : α) : TP α → α
  | .r t => t.getOriginal
  | .i t => IT.getOriginal pi t
  | .p x => x

def d1 (pi : α) : TP α → α
  | .r t => t.d1
  | .i t => IT.d1 pi t
  | .p _ => one

def d2 (pi : α) : TP α → α
  | .r t => t.d2
  | .i t => IT.d2 pi t
  | .p _ => zero

end TP

/-- the library's constant -/
def libPI : α := Bpp.Generated.TransformConstants.PI
def libTINY : α := Bpp.Generated.TransformConstants.TINY

end Bpp.Transform
