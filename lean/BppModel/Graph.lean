/-
Model of src/Bpp/Graph/GlobalGraph.{h,cpp}: the node table
  nodeStructure_ : map<Node, pair<map<Node,Edge>, map<Node,Edge>>>   (GlobalGraph.h:39)
the edge table
  edgeStructure_ : map<Edge, pair<Node,Node>>                         (GlobalGraph.h:46)
the two id counters, the root and the directed flag, with every member the observer
/ tree / DAG classes reach.  Transcription of the code that exists in the library
worktree (including the `fix:` commits of branch fix-C14); line numbers refer to
GlobalGraph.cpp of that tree.

`std::map` is replaced by its specification on association lists with ascending keys
(`AL`): `insertNew` = `map::insert` (does not overwrite), `set` = `operator[] =`
(overwrites), `erase`, `find`; iteration order = list order = ascending keys.
Ids are `Nat` (wrap-around of `unsigned int` counters is not modelled).

A mutator returns `GOut`: `ok value state` or `exc state` (a `bpp::Exception` was
thrown; the state is whatever the code left behind).  Notifications to observers
(`notifyDeletedEdges/Nodes`) are appended to the field `pending`, which the observer
model consumes; it is not part of the C++ state.
Iterators dereference `nodeStructure_.find(node)` without a check (GlobalGraph.h:716..):
on an absent node that is undefined behaviour = outcome `QRes.ub`.
-/
namespace Bpp

/-! association lists standing for `std::map<unsigned, β>` -/
namespace AL
variable {β : Type}

def find (k : Nat) : List (Nat × β) → Option β
  | [] => none
  | (k', v) :: r => if k' = k then some v else find k r

def has (k : Nat) (l : List (Nat × β)) : Bool := (find k l).isSome

/-- insertion of a key that is not present, before the first greater key -/
def insertSorted (k : Nat) (v : β) : List (Nat × β) → List (Nat × β)
  | [] => [(k, v)]
  | (k', v') :: r => if k < k' then (k, v) :: (k', v') :: r else (k', v') :: insertSorted k v r

/-- `std::map::insert(pair)`: no effect when the key is present -/
def insertNew (k : Nat) (v : β) (l : List (Nat × β)) : List (Nat × β) :=
  if has k l then l else insertSorted k v l

/-- `m[k] = v`: overwrites -/
def set (k : Nat) (v : β) (l : List (Nat × β)) : List (Nat × β) :=
  if has k l then l.map (fun p => if p.1 = k then (p.1, v) else p) else insertSorted k v l

/-- `m.erase(k)` -/
def erase (k : Nat) (l : List (Nat × β)) : List (Nat × β) := l.filter (fun p => p.1 ≠ k)

/-- `it->second = f(it->second)` for `it = m.find(k)`, nothing when absent -/
def modify (k : Nat) (f : β → β) (l : List (Nat × β)) : List (Nat × β) :=
  l.map (fun p => if p.1 = k then (p.1, f p.2) else p)

def keys (l : List (Nat × β)) : List Nat := l.map (·.1)
def vals (l : List (Nat × β)) : List β := l.map (·.2)

end AL

namespace Graph

/-- one row of the node table: `.first` = outgoing map, `.second` = incoming map,
both `neighbour ↦ edge` -/
structure Row where
  out : List (Nat × Nat) := []
  inn : List (Nat × Nat) := []
deriving DecidableEq, Repr, Inhabited

inductive Event where
  | edges (l : List Nat)   -- notifyDeletedEdges
  | nodes (l : List Nat)   -- notifyDeletedNodes
deriving DecidableEq, Repr

structure G where
  directed : Bool
  nodes : List (Nat × Row) := []
  edges : List (Nat × (Nat × Nat)) := []
  nextNode : Nat := 0     -- highestNodeID_
  nextEdge : Nat := 0     -- highestEdgeID_
  root : Nat := 0
  pending : List Event := []
deriving DecidableEq, Repr

/-- `GlobalGraph(bool directed)` (GlobalGraph.cpp:19) -/
def empty (directed : Bool) : G := { directed := directed }

inductive GOut (α : Type) where
  | ok (a : α) (g : G)
  | exc (g : G)
deriving Repr

/-- result of a query: value, `bpp::Exception`, or undefined behaviour -/
inductive QRes (α : Type) where
  | ok (a : α)
  | exc
  | ub
deriving DecidableEq, Repr

namespace G

def hasNode (g : G) (n : Nat) : Bool := AL.has n g.nodes
def hasEdge (g : G) (e : Nat) : Bool := AL.has e g.edges
/-- the outgoing entry `nodeStructure_[a].first[b]` -/
def outE (g : G) (a b : Nat) : Option Nat := (AL.find a g.nodes).bind (fun r => AL.find b r.out)
/-- the incoming entry `nodeStructure_[b].second[a]` -/
def inE (g : G) (b a : Nat) : Option Nat := (AL.find b g.nodes).bind (fun r => AL.find a r.inn)

/-! ### private primitives -/

/-- `linkInNodeStructure_` (GlobalGraph.cpp:250): absent nodes are silently skipped,
`insert` does not overwrite -/
def linkInNode (a b e : Nat) (g : G) : G :=
  let n1 := AL.modify a (fun r => { r with out := AL.insertNew b e r.out }) g.nodes
  let n2 := AL.modify b (fun r => { r with inn := AL.insertNew a e r.inn }) n1
  { g with nodes := n2 }

/-- `linkInEdgeStructure_` (GlobalGraph.cpp:217): `edgeStructure_[edge] = (a,b)` overwrites -/
def linkInEdge (a b e : Nat) (g : G) : G := { g with edges := AL.set e (a, b) g.edges }

/-- `unlinkInEdgeStructure_` (GlobalGraph.cpp:207) -/
def unlinkInEdge (e : Nat) (g : G) : GOut Unit :=
  if g.hasEdge e then .ok () { g with edges := AL.erase e g.edges } else .exc g

/-- `unlinkInNodeStructure_` (GlobalGraph.cpp:224): the four look-ups are checked
before anything is erased -/
def unlinkInNode (a b : Nat) (g : G) : GOut Nat :=
  match AL.find a g.nodes with
  | none => .exc g
  | some ra =>
    match AL.find b ra.out with
    | none => .exc g
    | some e =>
      match AL.find b g.nodes with
      | none => .exc g
      | some rb =>
        match AL.find a rb.inn with
        | none => .exc g
        | some _ =>
          let n1 := AL.modify a (fun r => { r with out := AL.erase b r.out }) g.nodes
          let n2 := AL.modify b (fun r => { r with inn := AL.erase a r.inn }) n1
          .ok e { g with nodes := n2 }

/-! ### mutators -/

/-- `createNode` (GlobalGraph.cpp:263) -/
def createNode (g : G) : GOut Nat :=
  let n := g.nextNode
  .ok n { g with nextNode := n + 1, nodes := AL.set n {} g.nodes }

/-- the validation shared by both `link` overloads (GlobalGraph.cpp:85-88, 107-110) -/
def linkRefused (g : G) (a b : Nat) : Bool :=
  !g.hasNode a || !g.hasNode b || (g.outE a b).isSome

/-- the three writes shared by both overloads (GlobalGraph.cpp:94-99, 115-120) -/
def linkWrite (a b e : Nat) (g : G) : G :=
  let g1 := linkInNode a b e g
  let g2 := if g.directed then g1 else linkInNode b a e g1
  linkInEdge a b e g2

/-- `link(nodeA, nodeB)` (GlobalGraph.cpp:82) -/
def link (a b : Nat) (g : G) : GOut Nat :=
  if linkRefused g a b then .exc g
  else
    let e := g.nextEdge
    .ok e (linkWrite a b e { g with nextEdge := e + 1 })

/-- `link(nodeA, nodeB, edgeID)` (GlobalGraph.cpp:103) -/
def linkE (a b e : Nat) (g : G) : GOut Unit :=
  if g.hasEdge e then .exc g
  else if linkRefused g a b then .exc g
  else
    let g0 := if e ≥ g.nextEdge then { g with nextEdge := e + 1 } else g
    .ok () (linkWrite a b e g0)

/-- `unlink` (GlobalGraph.cpp:124) -/
def unlink (a b : Nat) (g : G) : GOut (List Nat) :=
  match unlinkInNode a b g with
  | .exc g' => .exc g'
  | .ok e g1 =>
    let r2 : GOut Nat := if !g.directed && a ≠ b then unlinkInNode b a g1 else .ok e g1
    match r2 with
    | .exc g' => .exc g'
    | .ok _ g2 =>
      match unlinkInEdge e g2 with
      | .exc g' => .exc g'
      | .ok _ g3 => .ok [e] { g3 with pending := g3.pending ++ [.edges [e]] }

/-- the node table written by the exchange of `switchNodes` (GlobalGraph.cpp:191-200) for the
relation father -> son carried by edge e -/
def switchedNodes (f s e : Nat) (nodes : List (Nat × Row)) : List (Nat × Row) :=
  let n1 := AL.modify f (fun r => { r with out := AL.erase s r.out }) nodes
  let n2 := AL.modify s (fun r => { r with inn := AL.erase f r.inn }) n1
  let n3 := AL.modify s (fun r => { r with out := AL.set f e r.out }) n2
  AL.modify f (fun r => { r with inn := AL.set s e r.inn }) n3

/-- second half of `switchNodes` (GlobalGraph.cpp:181-204), once the forward relation
father -> son (edge e) has been found -/
def switchFrom (f s e : Nat) (g : G) : GOut Unit :=
  if (g.inE s f).isNone then .exc g
  else if f ≠ s && (g.outE s f).isSome then .exc g
  else .ok () { g with nodes := switchedNodes f s e g.nodes, edges := AL.set e (s, f) g.edges }

/-- `switchNodes` (GlobalGraph.cpp:144) -/
def switchNodes (a b : Nat) (g : G) : GOut Unit :=
  if !g.directed then .exc g
  else if !g.hasNode a || !g.hasNode b then .exc g
  else
    -- Forwards: A->B, otherwise B->A
    match g.outE a b with
    | some e => switchFrom a b e g
    | none =>
      match g.outE b a with
      | some e => switchFrom b a e g
      | none => .exc g

/-- `createNodeFromNode` (GlobalGraph.cpp:272) -/
def createNodeFromNode (origin : Nat) (g : G) : GOut Nat :=
  if !g.hasNode origin then .exc g
  else
    match createNode g with
    | .exc g' => .exc g'
    | .ok n g1 =>
      match link origin n g1 with
      | .exc g' => .exc g'
      | .ok _ g2 => .ok n g2

/-- `createNodeOnEdge` (GlobalGraph.cpp:283) -/
def createNodeOnEdge (e : Nat) (g : G) : GOut Nat :=
  match AL.find e g.edges with
  | none => .exc g
  | some (a, b) =>
    if !g.directed && a = b then .exc g else
    match createNode g with
    | .exc g' => .exc g'
    | .ok n g1 =>
      match unlink a b g1 with
      | .exc g' => .exc g'
      | .ok _ g2 =>
        match link a n g2 with
        | .exc g' => .exc g'
        | .ok _ g3 =>
          match link n b g3 with
          | .exc g' => .exc g'
          | .ok _ g4 => .ok n g4

/-- `createNodeFromEdge` (GlobalGraph.cpp:303) -/
def createNodeFromEdge (e : Nat) (g : G) : GOut Nat :=
  if !g.hasEdge e then .exc g
  else
    match createNodeOnEdge e g with
    | .exc g' => .exc g'
    | .ok anchor g1 => createNodeFromNode anchor g1

/-- the loops of `isolate_` (GlobalGraph.cpp:533): `unlink(node, nb)` for a snapshot of neighbours -/
def isolateOut (n : Nat) : List Nat → G → GOut Unit
  | [], g => .ok () g
  | nb :: rest, g =>
    match unlink n nb g with
    | .exc g' => .exc g'
    | .ok _ g' => isolateOut n rest g'

def isolateIn (n : Nat) : List Nat → G → GOut Unit
  | [], g => .ok () g
  | nb :: rest, g =>
    match unlink nb n g with
    | .exc g' => .exc g'
    | .ok _ g' => isolateIn n rest g'

def outKeys (g : G) (n : Nat) : List Nat := match AL.find n g.nodes with | some r => AL.keys r.out | none => []
def inKeys (g : G) (n : Nat) : List Nat := match AL.find n g.nodes with | some r => AL.keys r.inn | none => []

/-- `deleteNode` (GlobalGraph.cpp:515) -/
def deleteNode (n : Nat) (g : G) : GOut Unit :=
  if !g.hasNode n then .exc g
  else
    match isolateOut n (g.outKeys n) g with
    | .exc g' => .exc g'
    | .ok _ g1 =>
      -- getIncomingNeighbors is read after the first loop
      if !g1.hasNode n then .exc g1
      else
        match isolateIn n (g1.inKeys n) g1 with
        | .exc g' => .exc g'
        | .ok _ g2 =>
          if !g2.hasNode n then .exc g2
          else .ok () { g2 with nodes := AL.erase n g2.nodes, pending := g2.pending ++ [.nodes [n]] }

/-- `setRoot` (GlobalGraph.cpp:819) -/
def setRoot (n : Nat) (g : G) : GOut Unit :=
  if g.hasNode n then .ok () { g with root := n } else .exc g

/-- node table with every row emptied (GlobalGraph.cpp:841-844, 879-882) -/
def clearedNodes (g : G) : List (Nat × Row) := g.nodes.map (fun p => (p.1, ({} : Row)))

/-- all `(a, b, e)` with `nodeStructure_[a].first[b] = e`, in iteration order -/
def outTriples (nodes : List (Nat × Row)) : List (Nat × Nat × Nat) :=
  nodes.flatMap (fun p => p.2.out.map (fun q => (p.1, q.1, q.2)))

/-- `makeDirected` (GlobalGraph.cpp:835): first met, first kept; the kept direction is
written to the edge table -/
def makeDirectedStep (acc : G × List (Nat × Nat)) (t : Nat × Nat × Nat) : G × List (Nat × Nat) :=
  let (a, b, e) := t
  let p := (min a b, max a b)
  if acc.2.contains p then acc
  else (linkInEdge a b e (linkInNode a b e acc.1), p :: acc.2)

def makeDirected (g : G) : G :=
  if g.directed then g
  else
    let g0 := { g with nodes := g.clearedNodes }
    let r := (outTriples g.nodes).foldl makeDirectedStep (g0, [])
    { r.1 with directed := true }

/-- `containsReciprocalRelations` (GlobalGraph.cpp:902); `none` = throws (undirected) -/
def recipLoop : List (Nat × Nat × Nat) → List (Nat × Nat) → Bool
  | [], _ => false
  | (a, b, _) :: rest, seen =>
    let p := (min a b, max a b)
    if seen.contains p then true else recipLoop rest (p :: seen)

def containsReciprocal (g : G) : Option Bool :=
  if !g.directed then none else some (recipLoop (outTriples g.nodes) [])

/-- `makeUndirected` (GlobalGraph.cpp:871) -/
def makeUndirected (g : G) : GOut Unit :=
  if !g.directed then .ok () g
  else if recipLoop (outTriples g.nodes) [] then .exc g
  else
    let g0 := { g with nodes := g.clearedNodes }
    let g1 := (outTriples g.nodes).foldl (fun acc t => linkInNode t.2.1 t.1 t.2.2 (linkInNode t.1 t.2.1 t.2.2 acc)) g0
    .ok () { g1 with directed := false }

/-! ### queries (`none` = throws `bpp::Exception`)

Every per-node query of the C++ first looks the row up (`nodeStructure_.find(node)`, throwing
when absent) and then reads only that row and the directed flag: the model writes them as
functions of `(directed, Option Row)` (`RowQ`), used at `AL.find n g.nodes` here and at the
row recomputed from the edge triples in the specification. -/
end G

namespace RowQ
/-- `getNeighbors_` (GlobalGraph.cpp:334) / `getEdges_` (:349) -/
def outNeighbors (r : Option Row) : Option (List Nat) := r.map (fun r => AL.keys r.out)
def inNeighbors (r : Option Row) : Option (List Nat) := r.map (fun r => AL.keys r.inn)
def outEdges (r : Option Row) : Option (List Nat) := r.map (fun r => AL.vals r.out)
def inEdges (r : Option Row) : Option (List Nat) := r.map (fun r => AL.vals r.inn)
/-- `getNeighbors` (GlobalGraph.cpp:484): undirected = outgoing only, directed = incoming ++ outgoing -/
def neighbors (d : Bool) (r : Option Row) : Option (List Nat) :=
  r.map (fun r => if d then AL.keys r.inn ++ AL.keys r.out else AL.keys r.out)
/-- `getEdges` (GlobalGraph.cpp:961) -/
def edgesOf (d : Bool) (r : Option Row) : Option (List Nat) :=
  r.map (fun r => if d then AL.vals r.inn ++ AL.vals r.out else AL.vals r.out)
/-- `getDegree` (GlobalGraph.cpp:431) = `getNumberOfNeighbors` (:456) -/
def degree (d : Bool) (r : Option Row) : Option Nat :=
  r.map (fun r => if d then r.out.length + r.inn.length else r.out.length)
def nbOut (r : Option Row) : Option Nat := r.map (fun r => r.out.length)
def nbIn (r : Option Row) : Option Nat := r.map (fun r => r.inn.length)
/-- the test of `isLeaf` on one row (GlobalGraph.cpp:447-453) -/
def rowIsLeaf (directed : Bool) (r : Row) : Bool :=
  (!directed && decide (r.out.length ≤ 1))
  || (directed && (decide (r.out.length + r.inn.length ≤ 1)
      || (decide (r.out.length = 1) && decide (r.inn.length = 1)
          && (r.out.head?.map (·.1)) == (r.inn.head?.map (·.1)))))
/-- `isLeaf` (GlobalGraph.cpp:441) -/
def isLeaf (d : Bool) (r : Option Row) : Option Bool := r.map (rowIsLeaf d)
/-- iterators (GlobalGraph.h:716-): the constructor dereferences `find(node)` unchecked -/
def iter (f : Row → List Nat) (r : Option Row) : QRes (List Nat) :=
  match r with | some r => .ok (f r) | none => .ub

/-- `fillListOfLeaves_` (GlobalGraph.cpp:620) over a neighbour function; `none` = it threw -/
def fillLeaves (nbr : Nat → Option (List Nat)) : Nat → Nat → Nat → List Nat → Option (List Nat)
  | fuel, start, origin, found =>
    match nbr start with
    | none => none
    | some nbs =>
      if nbs.length > 1 then
        match fuel with
        | 0 => some found
        | fuel + 1 =>
          nbs.foldl (fun acc nb =>
            match acc with
            | none => none
            | some f => if nb ≠ origin then fillLeaves nbr fuel nb start f else some f) (some found)
      else some (found ++ [start])
end RowQ

namespace G
def rowOf (g : G) (n : Nat) : Option Row := AL.find n g.nodes
def outNeighbors (g : G) (n : Nat) := RowQ.outNeighbors (g.rowOf n)
def inNeighbors (g : G) (n : Nat) := RowQ.inNeighbors (g.rowOf n)
def outEdges (g : G) (n : Nat) := RowQ.outEdges (g.rowOf n)
def inEdges (g : G) (n : Nat) := RowQ.inEdges (g.rowOf n)
def neighbors (g : G) (n : Nat) := RowQ.neighbors g.directed (g.rowOf n)
def edgesOf (g : G) (n : Nat) := RowQ.edgesOf g.directed (g.rowOf n)
def degree (g : G) (n : Nat) := RowQ.degree g.directed (g.rowOf n)
def isLeaf (g : G) (n : Nat) := RowQ.isLeaf g.directed (g.rowOf n)

/-- `getNodes` (GlobalGraph.cpp:498) -/
def getNodes (g : G) (e : Nat) : Option (Nat × Nat) := AL.find e g.edges
/-- `getEdge` (GlobalGraph.cpp:950) -/
def getEdge (g : G) (a b : Nat) : Option Nat := g.outE a b
/-- `getAnyEdge` (GlobalGraph.cpp:559) -/
def getAnyEdge (g : G) (a b : Nat) : Option Nat :=
  match g.getEdge a b with
  | some e => some e
  | none => g.getEdge b a

def allNodes (g : G) : List Nat := AL.keys g.nodes
def allEdges (g : G) : List Nat := AL.keys g.edges
/-- `getAllLeaves` (GlobalGraph.cpp:573) -/
def allLeaves (g : G) : List Nat := (g.nodes.filter (fun p => RowQ.rowIsLeaf g.directed p.2)).map (·.1)
/-- `getAllInnerNodes` (GlobalGraph.cpp:608): at least one outgoing neighbour -/
def allInnerNodes (g : G) : List Nat := (g.nodes.filter (fun p => decide (p.2.out.length ≥ 1))).map (·.1)
/-- `getLeavesFromNode` (GlobalGraph.cpp:637) -/
def leavesFromNode (g : G) (n maxDepth : Nat) : Option (List Nat) := RowQ.fillLeaves g.neighbors maxDepth n n []

end G
end Graph
end Bpp

/-! ## operation histories -/
namespace Bpp.Graph

/-- the mutating operations reachable through the observer / tree / DAG classes -/
inductive Op where
  | createNode
  | createNodeFromNode (origin : Nat)
  | createNodeOnEdge (e : Nat)
  | createNodeFromEdge (e : Nat)
  | link (a b : Nat)
  | linkE (a b e : Nat)
  | unlink (a b : Nat)
  | switchNodes (a b : Nat)
  | deleteNode (n : Nat)
  | makeDirected
  | makeUndirected
  | setRoot (n : Nat)
deriving DecidableEq, Repr

def GOut.state {α : Type} : GOut α → G
  | .ok _ g => g
  | .exc g => g

def GOut.raised {α : Type} : GOut α → Bool
  | .ok _ _ => false
  | .exc _ => true

def GOut.forget {α : Type} : GOut α → GOut Unit
  | .ok _ g => .ok () g
  | .exc g => .exc g

namespace G
/-- one operation, result value dropped -/
def apply (g : G) : Op → GOut Unit
  | .createNode => (createNode g).forget
  | .createNodeFromNode o => (createNodeFromNode o g).forget
  | .createNodeOnEdge e => (createNodeOnEdge e g).forget
  | .createNodeFromEdge e => (createNodeFromEdge e g).forget
  | .link a b => (link a b g).forget
  | .linkE a b e => (linkE a b e g).forget
  | .unlink a b => (unlink a b g).forget
  | .switchNodes a b => switchNodes a b g
  | .deleteNode n => deleteNode n g
  | .makeDirected => .ok () (makeDirected g)
  | .makeUndirected => makeUndirected g
  | .setRoot n => setRoot n g

/-- the state after the operation, whether it succeeded or raised -/
def step (g : G) (op : Op) : G := (g.apply op).state
/-- the state after a history (every call either succeeds or raises, and the history goes on) -/
def run (g : G) (ops : List Op) : G := ops.foldl step g
end G
end Bpp.Graph

/-!
## The reference multigraph (specification)

Nodes, and edges as triples `(id, top, bottom)` kept in ascending id order; no node or
edge table.  Every operation is defined from scratch on this representation (filter /
search over the edge list); `none` = the operation raises and nothing changes.
`Props/C14.lean` proves that the implementation model refines it (`abs` commutes with
every operation, queries agree); the driver maintains it independently of the
implementation and compares after every operation.
-/
namespace Bpp.Graph

structure Spec where
  directed : Bool
  nodes : List Nat := []
  edges : List (Nat × Nat × Nat) := []
  nextNode : Nat := 0
  nextEdge : Nat := 0
  root : Nat := 0
deriving DecidableEq, Repr

namespace Spec

/-- does the edge `(x,y)` relate `a` to `b` (in that order; either order when undirected) -/
def relates (directed : Bool) (a b : Nat) (t : Nat × Nat × Nat) : Bool :=
  (decide (t.2.1 = a) && decide (t.2.2 = b)) || (!directed && decide (t.2.1 = b) && decide (t.2.2 = a))

def edgeBetween (s : Spec) (a b : Nat) : Option Nat := (s.edges.find? (relates s.directed a b)).map (·.1)
def hasNode (s : Spec) (n : Nat) : Bool := s.nodes.contains n
def edgeNodes (s : Spec) (e : Nat) : Option (Nat × Nat) := (s.edges.find? (fun t => t.1 = e)).map (·.2)

def insertNode (n : Nat) : List Nat → List Nat
  | [] => [n]
  | m :: r => if n < m then n :: m :: r else if n = m then m :: r else m :: insertNode n r

def insertEdge (t : Nat × Nat × Nat) : List (Nat × Nat × Nat) → List (Nat × Nat × Nat)
  | [] => [t]
  | u :: r => if t.1 < u.1 then t :: u :: r else u :: insertEdge t r

def createNode (s : Spec) : Nat × Spec :=
  (s.nextNode, { s with nodes := insertNode s.nextNode (s.nodes.filter (· ≠ s.nextNode)), nextNode := s.nextNode + 1 })

def linkOk (s : Spec) (a b : Nat) : Bool := s.hasNode a && s.hasNode b && (s.edgeBetween a b).isNone

def link (a b : Nat) (s : Spec) : Option (Nat × Spec) :=
  if s.linkOk a b then
    some (s.nextEdge, { s with edges := insertEdge (s.nextEdge, a, b) s.edges, nextEdge := s.nextEdge + 1 })
  else none

def linkE (a b e : Nat) (s : Spec) : Option Spec :=
  if (s.edgeNodes e).isNone && s.linkOk a b then
    some { s with edges := insertEdge (e, a, b) s.edges, nextEdge := if e ≥ s.nextEdge then e + 1 else s.nextEdge }
  else none

def unlink (a b : Nat) (s : Spec) : Option (Nat × Spec) :=
  match s.edgeBetween a b with
  | none => none
  | some e => some (e, { s with edges := s.edges.filter (fun t => t.1 ≠ e) })

def deleteNode (n : Nat) (s : Spec) : Option Spec :=
  if s.hasNode n then
    some { s with nodes := s.nodes.filter (· ≠ n), edges := s.edges.filter (fun t => t.2.1 ≠ n && t.2.2 ≠ n) }
  else none

def switchNodes (a b : Nat) (s : Spec) : Option Spec :=
  if !s.directed || !s.hasNode a || !s.hasNode b then none
  else
    match s.edgeBetween a b, s.edgeBetween b a with
    | some e, r =>
      if a ≠ b && r.isSome then none
      else some { s with edges := s.edges.map (fun t => if t.1 = e then (e, b, a) else t) }
    | none, some e => some { s with edges := s.edges.map (fun t => if t.1 = e then (e, a, b) else t) }
    | none, none => none

def createNodeFromNode (o : Nat) (s : Spec) : Option (Nat × Spec) :=
  if s.hasNode o then
    let (n, s1) := s.createNode
    (link o n s1).map (fun r => (n, r.2))
  else none

def createNodeOnEdge (e : Nat) (s : Spec) : Option (Nat × Spec) :=
  match s.edgeNodes e with
  | none => none
  | some (a, b) =>
    if !s.directed && a = b then none else
    let (n, s1) := s.createNode
    (unlink a b s1).bind (fun r1 => (link a n r1.2).bind (fun r2 => (link n b r2.2).map (fun r3 => (n, r3.2))))

def createNodeFromEdge (e : Nat) (s : Spec) : Option (Nat × Spec) :=
  (s.createNodeOnEdge e).bind (fun r => createNodeFromNode r.1 r.2)

def setRoot (n : Nat) (s : Spec) : Option Spec := if s.hasNode n then some { s with root := n } else none

def makeDirected (s : Spec) : Spec :=
  if s.directed then s
  else { s with directed := true, edges := s.edges.map (fun t => (t.1, min t.2.1 t.2.2, max t.2.1 t.2.2)) }

/-- two different edges between the same unordered pair of nodes -/
def reciprocal (s : Spec) : Bool :=
  s.edges.any (fun t => s.edges.any (fun u => decide (t.1 ≠ u.1) &&
    decide (min t.2.1 t.2.2 = min u.2.1 u.2.2) && decide (max t.2.1 t.2.2 = max u.2.1 u.2.2)))

def makeUndirected (s : Spec) : Option Spec :=
  if !s.directed then some s
  else if s.reciprocal then none
  else some { s with directed := false }

/-! queries -/

/-- `(neighbour, edge)` pairs leaving `n`, collected into an ordered map (ascending neighbour) -/
def outPairs (s : Spec) (n : Nat) : List (Nat × Nat) :=
  s.edges.foldl (fun acc t =>
    if t.2.1 = n then AL.insertNew t.2.2 t.1 acc
    else if !s.directed && t.2.2 = n then AL.insertNew t.2.1 t.1 acc else acc) []

def inPairs (s : Spec) (n : Nat) : List (Nat × Nat) :=
  s.edges.foldl (fun acc t =>
    if t.2.2 = n then AL.insertNew t.2.1 t.1 acc
    else if !s.directed && t.2.1 = n then AL.insertNew t.2.2 t.1 acc else acc) []

/-- the row a consistent implementation must hold for node `n` -/
def row (s : Spec) (n : Nat) : Row := { out := s.outPairs n, inn := s.inPairs n }
def rowOf (s : Spec) (n : Nat) : Option Row := if s.hasNode n then some (s.row n) else none

def neighbors (s : Spec) (n : Nat) := RowQ.neighbors s.directed (s.rowOf n)
def getAnyEdge (s : Spec) (a b : Nat) : Option Nat :=
  match s.edgeBetween a b with
  | some e => some e
  | none => s.edgeBetween b a
def allLeaves (s : Spec) : List Nat := s.nodes.filter (fun n => RowQ.rowIsLeaf s.directed (s.row n))
def allInnerNodes (s : Spec) : List Nat := s.nodes.filter (fun n => decide ((s.outPairs n).length ≥ 1))
def leavesFromNode (s : Spec) (n maxDepth : Nat) : Option (List Nat) := RowQ.fillLeaves s.neighbors maxDepth n n []

/-- one operation on the reference: returned ids and new reference, `none` = raises -/
def applyR (s : Spec) : Op → Option (List Nat × Spec)
  | .createNode => some ([s.createNode.1], s.createNode.2)
  | .createNodeFromNode o => (s.createNodeFromNode o).map (fun r => ([r.1], r.2))
  | .createNodeOnEdge e => (s.createNodeOnEdge e).map (fun r => ([r.1], r.2))
  | .createNodeFromEdge e => (s.createNodeFromEdge e).map (fun r => ([r.1], r.2))
  | .link a b => (s.link a b).map (fun r => ([r.1], r.2))
  | .linkE a b e => (s.linkE a b e).map (fun r => ([], r))
  | .unlink a b => (s.unlink a b).map (fun r => ([r.1], r.2))
  | .switchNodes a b => (s.switchNodes a b).map (fun r => ([], r))
  | .deleteNode n => (s.deleteNode n).map (fun r => ([], r))
  | .makeDirected => some ([], s.makeDirected)
  | .makeUndirected => s.makeUndirected.map (fun r => ([], r))
  | .setRoot n => (s.setRoot n).map (fun r => ([], r))

end Spec

def GOut.mapVal {α β : Type} (f : α → β) : GOut α → GOut β
  | .ok a g => .ok (f a) g
  | .exc g => .exc g

/-- one operation on the implementation model, returned ids as a list -/
def G.applyR (g : G) : Op → GOut (List Nat)
  | .createNode => (g.createNode).mapVal (fun n => [n])
  | .createNodeFromNode o => (g.createNodeFromNode o).mapVal (fun n => [n])
  | .createNodeOnEdge e => (g.createNodeOnEdge e).mapVal (fun n => [n])
  | .createNodeFromEdge e => (g.createNodeFromEdge e).mapVal (fun n => [n])
  | .link a b => (g.link a b).mapVal (fun e => [e])
  | .linkE a b e => (g.linkE a b e).mapVal (fun _ => [])
  | .unlink a b => g.unlink a b
  | .switchNodes a b => (g.switchNodes a b).mapVal (fun _ => [])
  | .deleteNode n => (g.deleteNode n).mapVal (fun _ => [])
  | .makeDirected => .ok [] g.makeDirected
  | .makeUndirected => g.makeUndirected.mapVal (fun _ => [])
  | .setRoot n => (g.setRoot n).mapVal (fun _ => [])

/-- abstraction function: forget the node rows -/
def G.abs (g : G) : Spec :=
  { directed := g.directed, nodes := AL.keys g.nodes, edges := g.edges.map (fun p => (p.1, p.2.1, p.2.2)),
    nextNode := g.nextNode, nextEdge := g.nextEdge, root := g.root }

/-! ## `Consistent`, executable -/

/-- strictly ascending -/
def ascending : List Nat → Bool
  | [] => true
  | [_] => true
  | a :: b :: r => decide (a < b) && ascending (b :: r)

/-- the executable form of `Consistent` (proved equivalent in `Lemmas/Graph.lean`):
returns the name of the first clause that fails -/
def G.check (g : G) : Option String :=
  if !ascending (AL.keys g.nodes) then some "nodes_sorted"
  else if !ascending (AL.keys g.edges) then some "edges_sorted"
  else if !(g.nodes.all (fun p => ascending (AL.keys p.2.out) && ascending (AL.keys p.2.inn))) then some "rows_sorted"
  else if !(g.edges.all (fun p =>
      let e := p.1; let a := p.2.1; let b := p.2.2
      g.outE a b == some e && g.inE b a == some e &&
      (g.directed || (g.outE b a == some e && g.inE a b == some e)))) then some "edge_listed_by_end_points"
  else if !(g.nodes.all (fun p => p.2.out.all (fun q =>
      AL.find q.2 g.edges == some (p.1, q.1) || (!g.directed && AL.find q.2 g.edges == some (q.1, p.1))))) then some "out_entry_has_edge"
  else if !(g.nodes.all (fun p => p.2.inn.all (fun q =>
      AL.find q.2 g.edges == some (q.1, p.1) || (!g.directed && AL.find q.2 g.edges == some (p.1, q.1))))) then some "in_entry_has_edge"
  else if !(g.nodes.all (fun p => decide (p.1 < g.nextNode))) then some "node_id_below_counter"
  else if !(g.edges.all (fun p => decide (p.1 < g.nextEdge))) then some "edge_id_below_counter"
  else none

end Bpp.Graph
