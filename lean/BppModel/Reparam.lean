import BppModel.Transform
/-
Model of src/Bpp/Numeric/Function/ReparametrizationFunctionWrapper.{h,cpp}, generic over
`Scalar α`, with the wrapped function abstract (`f : List α → α` with derivative oracles).

State of a wrapper = one `Slot` per parameter of the wrapped function, holding
  * `tp`    the transformed parameter the wrapper owns (`parameters_[i]`),
  * `shape` the constraint of the function's parameter (shared by `functionParameters_[i]`
            and by the function's own parameter),
  * `fp`    the value of `functionParameters_[i]` (the wrapper's copy, .h:27),
  * `fn`    the value of the wrapped function's own parameter.
`pi`, `tiny` are `NumConstants::PI()` and `NumConstants::TINY()`.

The second constructor (h:53-59, only the parameters of a given list) is the same `init` applied to
`function->getParameters().getCommonParametersWith(parameters)`; the function's other parameters
never move and are part of the abstract `f` (the driver's `Ctx` does exactly this for the harness's
polynomials).

Not modelled: an `IntervalConstraint` with both bounds infinite (it falls into cases 5/6 of
`init_` with an infinite bound), constraints that are not intervals (they get the placebo, like
`Shape.none`), the comparison of a value with an infinite bound in `isCorrect`, parameter names
(an update is a list aligned with the parameters: `some x` = named with value `x`), the
`verbose` messages.
-/
namespace Bpp.Reparam
open Bpp Bpp.Scalar Bpp.Transform

variable {α : Type} [Scalar α]

/-- the eight bound configurations of an `IntervalConstraint` (closed/open × finite/infinite),
and "no constraint" -/
inductive Shape (α : Type) where
  | none
  | cc (a b : α)   -- [a,b]
  | oo (a b : α)   -- ]a,b[
  | co (a b : α)   -- [a,b[
  | oc (a b : α)   -- ]a,b]
  | gt (a : α)     -- ]a,+inf[
  | ge (a : α)     -- [a,+inf[
  | lt (b : α)     -- ]-inf,b[
  | le (b : α)     -- ]-inf,b]

/-- `IntervalConstraint::isCorrect` (Constraints.h:189-193) -/
def Shape.isCorrect : Shape α → α → Bool
  | .none, _ => true
  | .cc a b, v => geb v a && leb v b
  | .oo a b, v => gtb v a && ltb v b
  | .co a b, v => geb v a && ltb v b
  | .oc a b, v => gtb v a && leb v b
  | .gt a, v => gtb v a
  | .ge a, v => geb v a
  | .lt b, v => ltb v b
  | .le b, v => leb v b

inductive Exc where
  | constraint
  | notfound
  /-- undefined behaviour (an index beyond the end of a vector, a dangling object): only the
  object-level model `BppModel/ReparamObj.lean` produces it -/
  | ub
deriving DecidableEq, Repr

def neb (a b : α) : Bool := !(eqb a b)

/-- `Parameter::setValue` (Parameter.cpp:72-83) with a constraint, precision 0 -/
def paramSetC (shape : Shape α) (cur v : α) : Except Exc α :=
  if gtb (Scalar.abs (v - cur)) (zero / two) then
    (if !(shape.isCorrect v) then .error .constraint else .ok v)
  else .ok cur

/-- "This solves an issue if the original value is at the bound" (cpp:39-43, 72-74, 93-94, 121-123,
147-149): a value closer than `tiny` to a *closed* bound is moved `tiny` inside; both tests read the
*uncorrected* value -/
def correctLower (tiny value a : α) (cv : α) : α :=
  if ltb (Scalar.abs (value - a)) tiny then a + tiny else cv
def correctUpper (tiny value b : α) (cv : α) : α :=
  if ltb (Scalar.abs (value - b)) tiny then b - tiny else cv

/-- the same for an *open* bound, whose corrected bound `lo = a + tiny` / `hi = b - tiny` is what
the transformed parameter is built with (cpp:54-62, 76-78, 89-92, 108-111, 134-137; added by the
`fix:` commit recorded in findings/C11.json, "a value within TINY of an open bound"): the
constraint accepts values up to the original bound, so a value closer than `tiny` to the corrected
bound *or beyond it* is moved `tiny` inside the corrected bound (one-sided test, no `abs`) -/
def correctLowerOpen (tiny value lo : α) (cv : α) : α :=
  if ltb (value - lo) tiny then lo + tiny else cv
def correctUpperOpen (tiny value hi : α) (cv : α) : α :=
  if ltb (hi - value) tiny then hi - tiny else cv

/-- the value `init_` hands to the constructor of the transformed parameter (`correctedValue`).
When a lower and an upper correction both apply the upper one wins (it is assigned last). -/
def corrected (tiny : α) : Shape α → α → α
  | .none, v => v
  | .cc a b, v => correctUpper tiny v b (correctLower tiny v a v)                         -- case 1
  | .oo a b, v => correctUpperOpen tiny v (b - tiny) (correctLowerOpen tiny v (a + tiny) v) -- case 2
  | .co a b, v => correctUpperOpen tiny v (b - tiny) (correctLower tiny v a v)             -- case 3
  | .oc a b, v => correctUpper tiny v b (correctLowerOpen tiny v (a + tiny) v)             -- case 4
  | .gt a, v => correctLowerOpen tiny v (a + tiny) v                                       -- case 5
  | .ge a, v => correctLower tiny v a v                                                    -- case 6
  | .lt b, v => correctUpperOpen tiny v (b - tiny) v                                       -- case 7
  | .le b, v => correctUpper tiny v b v                                                    -- case 8

/-- does `init_` move the value? (the disjunction of the tests of `corrected`) -/
def isNudged (tiny : α) : Shape α → α → Bool
  | .none, _ => false
  | .cc a b, v => ltb (Scalar.abs (v - a)) tiny || ltb (Scalar.abs (v - b)) tiny
  | .oo a b, v => ltb (v - (a + tiny)) tiny || ltb ((b - tiny) - v) tiny
  | .co a b, v => ltb (Scalar.abs (v - a)) tiny || ltb ((b - tiny) - v) tiny
  | .oc a b, v => ltb (v - (a + tiny)) tiny || ltb (Scalar.abs (v - b)) tiny
  | .gt a, v => ltb (v - (a + tiny)) tiny
  | .ge a, v => ltb (Scalar.abs (v - a)) tiny
  | .lt b, v => ltb ((b - tiny) - v) tiny
  | .le b, v => ltb (Scalar.abs (v - b)) tiny

/-- `checkRoom` then `new IntervalTransformedParameter` (cpp, cases 1-4; `fix:` "interval too narrow
to be reparametrized" of findings/C11.json): when the corrected value is not strictly between the
corrected bounds — a finite interval narrower than 2 or 3 `tiny` — `init_` raises a
ConstraintException (`none`) instead of building a transformed parameter whose value is NaN -/
def mkIT (pi cv lo hi : α) : Option (TP α) :=
  if ltb lo cv && ltb cv hi then some (.i (IT.new pi cv lo hi one true)) else none

/-- `init_` for one parameter (cpp:13-168): which transform, with which corrected bounds, from
which corrected value.
`none` = the constructor of the transformed parameter raised a ConstraintException. -/
def initOne (pi tiny : α) (shape : Shape α) (value : α) : Option (TP α) :=
  let cv := corrected tiny shape value
  match shape with
  | .none => some (TP.placebo cv)
  | .cc a b => mkIT pi cv a b                                               -- case 1: [a,b]
  | .oo a b => mkIT pi cv (a + tiny) (b - tiny)                             -- case 2: ]a,b[
  | .co a b => mkIT pi cv a (b - tiny)                                      -- case 3: [a,b[
  | .oc a b => mkIT pi cv (a + tiny) b                                      -- case 4: ]a,b]
  | .gt a => (RT.new cv (a + tiny) true one).map .r                         -- case 5: ]a,+inf[
  | .ge a => (RT.new cv a true one).map .r                                  -- case 6: [a,+inf[
  | .lt b => (RT.new cv (b - tiny) false one).map .r                        -- case 7: ]-inf,b[
  | .le b => (RT.new cv b false one).map .r                                 -- case 8: ]-inf,b]

structure Slot (α : Type) where
  tp : TP α
  shape : Shape α
  fp : α
  fn : α

abbrev W (α : Type) := List (Slot α)

/-- the constructor (h:36-42): copy of the function's parameters, then `init_` -/
def init (pi tiny : α) (ps : List (Shape α × α)) : Except Exc (W α) :=
  ps.mapM (fun p => match initOne pi tiny p.1 p.2 with
    | some tp => .ok { tp := tp, shape := p.1, fp := p.2, fn := p.2 }
    | none => .error .constraint)

/-- one iteration of `fireParameterChanged` (cpp:177-188) -/
def fireOne (pi : α) (s : Slot α) : Except Exc (Slot α) :=
  match paramSetC s.shape s.fp (s.tp.getOriginal pi) with
  | .ok v => .ok { s with fp := v }
  | .error e => .error e

/-- `fireParameterChanged` (cpp:170-190): *all* coordinates are back-transformed -/
def fire (pi : α) (w : W α) : Except Exc (W α) := w.mapM (fireOne pi)

/-- `ParameterList::matchParametersValues` on the transformed parameters (no constraints):
a value is stored when it differs -/
def matchOne (s : Slot α) (u : Option α) : Slot α :=
  match u with
  | some v => if neb s.tp.x v then { s with tp := s.tp.setX v } else s
  | none => s

def changed (s : Slot α) (u : Option α) : Bool :=
  match u with
  | some v => neb s.tp.x v
  | none => false

/-- `function_->setParameters(functionParameters_.createSubList(names))` with the function's
`setParameters` = `matchParametersValues`: the named values are pushed when they differ
(their constraints have been checked just before, `pushBad`) -/
def pushOne (s : Slot α) (u : Option α) : Slot α :=
  match u with
  | some _ => if neb s.fn s.fp then { s with fn := paramSet s.fn s.fp } else s
  | none => s

def pushBad (s : Slot α) (u : Option α) : Bool :=
  match u with
  | some _ => !(s.shape.isCorrect s.fp)
  | none => false

/-- `setParameters` (h:90-97), i.e. `f(parameters)` without the evaluation: `upd` is aligned with
the parameters, `some x` for the named ones -/
def set (pi : α) (w : W α) (upd : List (Option α)) : Except Exc (W α) :=
  if upd.length ≠ w.length then .error .notfound else
  let ch := (List.zipWith changed w upd).any id
  let w1 := List.zipWith matchOne w upd
  match (if ch then fire pi w1 else .ok w1) with
  | .error e => .error e
  | .ok w2 =>
    if (List.zipWith pushBad w2 upd).any id then .error .constraint
    else .ok (List.zipWith pushOne w2 upd)

/-- a history of `setParameters` calls -/
def run (pi : α) : W α → List (List (Option α)) → Except Exc (W α)
  | w, [] => .ok w
  | w, u :: us =>
    match set pi w u with
    | .ok w' => run pi w' us
    | .error e => .error e

/-- the point at which the wrapped function stands -/
def fnVals (w : W α) : List α := w.map (·.fn)

/-- `getValue` (h:99-102) -/
def value (f : List α → α) (w : W α) : α := f (fnVals w)

/-- `getFirstOrderDerivative` (h:153-157) -/
def d1 (pi : α) (df : List α → Nat → α) (w : W α) (i : Nat) : Option α :=
  match w[i]? with
  | some s => some (df (fnVals w) i * s.tp.d1 pi)
  | none => none

/-- `getSecondOrderDerivative(variable)` (h:207-213) -/
def d2 (pi : α) (df : List α → Nat → α) (d2f : List α → Nat → Nat → α) (w : W α) (i : Nat) : Option α :=
  match w[i]? with
  | some s => some (d2f (fnVals w) i i * sq (s.tp.d1 pi) + df (fnVals w) i * s.tp.d2 pi)
  | none => none

/-- `getSecondOrderDerivative(variable1, variable2)` (h:215-222): for two different variables the
mixed derivative `f_ij T_i' T_j'`; for the same variable twice the one-argument overload (`fix:`
"getSecondOrderDerivative(v, v)" of findings/C11.json; before it the diagonal call returned
`f_ii T'^2` without the `f_i T''` term) -/
def d2x (pi : α) (df : List α → Nat → α) (d2f : List α → Nat → Nat → α) (w : W α) (i j : Nat) : Option α :=
  if i = j then d2 pi df d2f w i else
  match w[i]?, w[j]? with
  | some si, some sj => some (d2f (fnVals w) i j * si.tp.d1 pi * sj.tp.d1 pi)
  | _, _ => none

/-! ### the family of wrapped functions used by the harness (harness/C11.cpp `PolyFunction`)
`f(p) = Σ_i ( c_i p_i + q_i (p_i p_i) + [i+1<n] e_i (p_i p_{i+1}) )`, same evaluation order -/

structure Coef (α : Type) where
  c : α
  q : α
  e : α

namespace Poly

def go (acc : α) : List (Coef α × α) → α
  | [] => acc
  | [(k, x)] => acc + k.c * x + k.q * (x * x)
  | (k, x) :: (k', x') :: rest => go (acc + k.c * x + k.q * (x * x) + k.e * (x * x')) ((k', x') :: rest)

def f (cs : List (Coef α)) (p : List α) : α := go zero (List.zip cs p)

/-- `getFirstOrderDerivative("p<i>")`; `none` when `i` is out of range -/
def df (cs : List (Coef α)) (p : List α) (i : Nat) : Option α :=
  match cs[i]?, p[i]? with
  | some k, some x =>
    let d := k.c + (two * k.q) * x
    let d := match p[i + 1]? with
      | some x' => if i + 1 < cs.length then d + k.e * x' else d
      | none => d
    let d := if i > 0 then
        (match cs[i - 1]?, p[i - 1]? with
          | some k', some x' => d + k'.e * x'
          | _, _ => d)
      else d
    some d
  | _, _ => none

/-- `getSecondOrderDerivative("p<i>", "p<j>")` -/
def d2f (cs : List (Coef α)) (i j : Nat) : Option α :=
  match cs[i]?, cs[j]? with
  | some ki, some kj =>
    if i = j then some (two * ki.q)
    else if i + 1 = j then some ki.e
    else if j + 1 = i then some kj.e
    else some zero
  | _, _ => none

end Poly

end Bpp.Reparam
