import BppModel.Transform
/-
Model of src/Bpp/Numeric/Function/ReparametrizationFunctionWrapper.{h,cpp}, generic over
`Scalar α`, with the wrapped function abstract (`f : List α → α` with derivative oracles).

State of a wrapper = one `Slot` per parameter of the wrapped function, holding
  * `tp`    the transformed parameter the wrapper owns (`parameters_[i]`),
  * `shape` the constraint of the function's parameter (shared by `functionParameters_[i]`
            and by the function's own parameter),
  * `fp`    the value of `functionParameters_[i]` (the wrapper's copy, .h:27),
  * `fn`    the value of the wrapped function's own parameter.
`pi`, `tiny` are `NumConstants::PI()` and `NumConstants::TINY()`.

Not modelled: an `IntervalConstraint` with both bounds infinite (it falls into cases 5/6 of
`init_` with an infinite bound), constraints that are not intervals (they get the placebo, like
`Shape.none`), the comparison of a value with an infinite bound in `isCorrect`, parameter names
(an update is a list aligned with the parameters: `some x` = named with value `x`), the
`verbose` messages.
-/
namespace Bpp.Reparam
open Bpp Bpp.Scalar Bpp.Transform

variable {α : Type} [Scalar α]

/-- the eight bound configurations of an `IntervalConstraint` (closed/open × finite/infinite),
and "no constraint" -/
inductive Shape (α : Type) where
  | none
  | cc (a b : α)   -- [a,b]
  | oo (a b : α)   -- ]a,b[
  | co (a b : α)   -- [a,b[
  | oc (a b : α)   -- ]a,b]
  | gt (a : α)     -- ]a,+inf[
  | ge (a : α)     -- [a,+inf[
  | lt (b : α)     -- ]-inf,b[
  | le (b : α)     -- ]-inf,b]

/-- `IntervalConstraint::isCorrect` (Constraints.h:189-193) -/
def Shape.isCorrect : Shape α → α → Bool
  | .none, _ => true
  | .cc a b, v => geb v a && leb v b
  | .oo a b, v => gtb v a && ltb v b
  | .co a b, v => geb v a && ltb v b
  | .oc a b, v => gtb v a && leb v b
  | .gt a, v => gtb v a
  | .ge a, v => geb v a
  | .lt b, v => ltb v b
  | .le b, v => leb v b

inductive Exc where
  | constraint
  | notfound
deriving DecidableEq, Repr

def neb (a b : α) : Bool := !(eqb a b)

/-- `Parameter::setValue` (Parameter.cpp:55-64) with a constraint, precision 0 -/
def paramSetC (shape : Shape α) (cur v : α) : Except Exc α :=
  if gtb (Scalar.abs (v - cur)) (zero / two) then
    (if !(shape.isCorrect v) then .error .constraint else .ok v)
  else .ok cur

/-- "This solves an issue if the original value is at the bound" (cpp:38-42, 62-64, 76-78, 100-102,
120-122): both tests read the *uncorrected* value -/
def correctLower (tiny value a : α) (cv : α) : α :=
  if ltb (Scalar.abs (value - a)) tiny then a + tiny else cv
def correctUpper (tiny value b : α) (cv : α) : α :=
  if ltb (Scalar.abs (value - b)) tiny then b - tiny else cv

/-- `init_` for one parameter (cpp:15-137): which transform, with which nudged bounds.
`none` = the constructor of the transformed parameter raised a ConstraintException. -/
def initOne (pi tiny : α) (shape : Shape α) (value : α) : Option (TP α) :=
  match shape with
  | .none => some (TP.placebo value)
  | .cc a b =>      -- case 1
    let cv := correctUpper tiny value b (correctLower tiny value a value)
    some (.i (IT.new pi cv a b one true))
  | .oo a b =>      -- case 2
    some (.i (IT.new pi value (a + tiny) (b - tiny) one true))
  | .co a b =>      -- case 3
    let cv := correctLower tiny value a value
    some (.i (IT.new pi cv a (b - tiny) one true))
  | .oc a b =>      -- case 4
    let cv := correctUpper tiny value b value
    some (.i (IT.new pi cv (a + tiny) b one true))
  | .gt a =>        -- case 5
    (RT.new value (a + tiny) true one).map .r
  | .ge a =>        -- case 6
    let cv := correctLower tiny value a value
    (RT.new cv a true one).map .r
  | .lt b =>        -- case 7
    (RT.new value (b - tiny) false one).map .r
  | .le b =>        -- case 8
    let cv := correctUpper tiny value b value
    (RT.new cv b false one).map .r

structure Slot (α : Type) where
  tp : TP α
  shape : Shape α
  fp : α
  fn : α

abbrev W (α : Type) := List (Slot α)

/-- the constructor (h:37-44): copy of the function's parameters, then `init_` -/
def init (pi tiny : α) (ps : List (Shape α × α)) : Except Exc (W α) :=
  ps.mapM (fun p => match initOne pi tiny p.1 p.2 with
    | some tp => .ok { tp := tp, shape := p.1, fp := p.2, fn := p.2 }
    | none => .error .constraint)

/-- one iteration of `fireParameterChanged` (cpp:148-159) -/
def fireOne (pi : α) (s : Slot α) : Except Exc (Slot α) :=
  match paramSetC s.shape s.fp (s.tp.getOriginal pi) with
  | .ok v => .ok { s with fp := v }
  | .error e => .error e

/-- `fireParameterChanged` (cpp:141-161): *all* coordinates are back-transformed -/
def fire (pi : α) (w : W α) : Except Exc (W α) := w.mapM (fireOne pi)

/-- `ParameterList::matchParametersValues` on the transformed parameters (no constraints):
a value is stored when it differs -/
def matchOne (s : Slot α) (u : Option α) : Slot α :=
  match u with
  | some v => if neb s.tp.x v then { s with tp := s.tp.setX v } else s
  | none => s

def changed (s : Slot α) (u : Option α) : Bool :=
  match u with
  | some v => neb s.tp.x v
  | none => false

/-- `function_->setParameters(functionParameters_.createSubList(names))` with the function's
`setParameters` = `matchParametersValues`: the named values are pushed when they differ
(their constraints have been checked just before, `pushBad`) -/
def pushOne (s : Slot α) (u : Option α) : Slot α :=
  match u with
  | some _ => if neb s.fn s.fp then { s with fn := paramSet s.fn s.fp } else s
  | none => s

def pushBad (s : Slot α) (u : Option α) : Bool :=
  match u with
  | some _ => !(s.shape.isCorrect s.fp)
  | none => false

/-- `setParameters` (h:89-96), i.e. `f(parameters)` without the evaluation: `upd` is aligned with
the parameters, `some x` for the named ones -/
def set (pi : α) (w : W α) (upd : List (Option α)) : Except Exc (W α) :=
  if upd.length ≠ w.length then .error .notfound else
  let ch := (List.zipWith changed w upd).any id
  let w1 := List.zipWith matchOne w upd
  match (if ch then fire pi w1 else .ok w1) with
  | .error e => .error e
  | .ok w2 =>
    if (List.zipWith pushBad w2 upd).any id then .error .constraint
    else .ok (List.zipWith pushOne w2 upd)

/-- a history of `setParameters` calls -/
def run (pi : α) : W α → List (List (Option α)) → Except Exc (W α)
  | w, [] => .ok w
  | w, u :: us =>
    match set pi w u with
    | .ok w' => run pi w' us
    | .error e => .error e

/-- the point at which the wrapped function stands -/
def fnVals (w : W α) : List α := w.map (·.fn)

/-- `getValue` (h:98-101) -/
def value (f : List α → α) (w : W α) : α := f (fnVals w)

/-- `getFirstOrderDerivative` (h:141-145) -/
def d1 (pi : α) (df : List α → Nat → α) (w : W α) (i : Nat) : Option α :=
  match w[i]? with
  | some s => some (df (fnVals w) i * s.tp.d1 pi)
  | none => none

/-- `getSecondOrderDerivative(variable)` (h:197-203) -/
def d2 (pi : α) (df : List α → Nat → α) (d2f : List α → Nat → Nat → α) (w : W α) (i : Nat) : Option α :=
  match w[i]? with
  | some s => some (d2f (fnVals w) i i * sq (s.tp.d1 pi) + df (fnVals w) i * s.tp.d2 pi)
  | none => none

/-- `getSecondOrderDerivative(variable1, variable2)` (h:205-210) -/
def d2x (pi : α) (d2f : List α → Nat → Nat → α) (w : W α) (i j : Nat) : Option α :=
  match w[i]?, w[j]? with
  | some si, some sj => some (d2f (fnVals w) i j * si.tp.d1 pi * sj.tp.d1 pi)
  | _, _ => none

/-! ### the family of wrapped functions used by the harness (harness/C11.cpp `PolyFunction`)
`f(p) = Σ_i ( c_i p_i + q_i (p_i p_i) + [i+1<n] e_i (p_i p_{i+1}) )`, same evaluation order -/

structure Coef (α : Type) where
  c : α
  q : α
  e : α

namespace Poly

def go (acc : α) : List (Coef α × α) → α
  | [] => acc
  | [(k, x)] => acc + k.c * x + k.q * (x * x)
  | (k, x) :: (k', x') :: rest => go (acc + k.c * x + k.q * (x * x) + k.e * (x * x')) ((k', x') :: rest)

def f (cs : List (Coef α)) (p : List α) : α := go zero (List.zip cs p)

/-- `getFirstOrderDerivative("p<i>")`; `none` when `i` is out of range -/
def df (cs : List (Coef α)) (p : List α) (i : Nat) : Option α :=
  match cs[i]?, p[i]? with
  | some k, some x =>
    let d := k.c + (two * k.q) * x
    let d := match p[i + 1]? with
      | some x' => if i + 1 < cs.length then d + k.e * x' else d
      | none => d
    let d := if i > 0 then
        (match cs[i - 1]?, p[i - 1]? with
          | some k', some x' => d + k'.e * x'
          | _, _ => d)
      else d
    some d
  | _, _ => none

/-- `getSecondOrderDerivative("p<i>", "p<j>")` -/
def d2f (cs : List (Coef α)) (i j : Nat) : Option α :=
  match cs[i]?, cs[j]? with
  | some ki, some kj =>
    if i = j then some (two * ki.q)
    else if i + 1 = j then some ki.e
    else if j + 1 = i then some kj.e
    else some zero
  | _, _ => none

end Poly

end Bpp.Reparam
