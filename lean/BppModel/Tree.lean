import BppModel.Graph
import BppModel.GraphOrient
/-
Model of src/Bpp/Graph/TreeGraphImpl.h instantiated at GlobalGraph (`TreeGlobalGraph`): the
graph of `BppModel/Graph.lean` plus the cached validity flag `isValid_` (:31).  The flag is
reset by the virtual `topologyHasChanged_()` (:344), which GlobalGraph calls from every
primitive that modifies the structure (GlobalGraph.cpp: linkInNodeStructure_,
linkInEdgeStructure_, unlinkIn*, createNode, switchNodes, deleteNode, makeDirected,
makeUndirected, setRoot); the model resets it exactly when one of them has run.
Recursive traversals of the C++ take fuel here (node count + 2); outcome `fuel` stands for a
traversal that does not return (`BppProofs/Props/C15Fuel.lean`: it is never reached on a valid
tree, and the answer does not depend on the fuel beyond that bound).
Line numbers: the library worktree with its `fix:` commits (as of round 3: GlobalGraph.cpp after C14's repair of the copy constructor / `operator=`, TreeGraphImpl.h after the `mustBeRooted_` repairs).
-/
namespace Bpp.Graph

structure T where
  g : G
  /-- `isValid_` -/
  valid : Bool := false
deriving DecidableEq, Repr

/-- outcome of a tree query -/
inductive TRes (α : Type) where
  | ok (a : α)
  | exc          -- bpp::Exception
  | fuel         -- the model ran out of fuel (the C++ would not terminate: MRCA over two components)
  | ub           -- undefined behaviour in the C++ (vector index out of bounds)
deriving DecidableEq, Repr

namespace T

/-- `TreeGraphImpl(bool rooted)` (:242) -/
def empty (rooted : Bool) : T := { g := Graph.empty rooted }

/-! ### isTree (GlobalGraph.cpp:668) -/

/-- `nodesAreMetOnlyOnce_` (GlobalGraph.cpp:687): `ok none` = a node was met twice,
`ok (some met)` = fine with the updated set, `exc` = getOutgoingNeighbors threw -/
def metOnce (g : G) : Nat → Nat → Nat → List Nat → TRes (Option (List Nat))
  | 0, _, _, _ => .fuel
  | fuel + 1, node, origin, met =>
    if met.contains node then .ok none
    else
      match g.outNeighbors node with
      | none => .exc
      | some nbs =>
        nbs.foldl (fun acc nb =>
          match acc with
          | .ok (some m) =>
            -- undirected only: do not walk back the relation we came through (the first call has no origin)
            if !g.directed && origin ≠ node && nb = origin then .ok (some m) else metOnce g fuel nb node m
          | r => r) (.ok (some (node :: met)))

def isTree (g : G) : TRes Bool :=
  match metOnce g (g.nodes.length + 2) g.root g.root [] with
  | .ok none => .ok false
  | .ok (some met) => .ok ((AL.keys g.nodes).all (fun n => met.contains n))
  | .exc => .exc
  | .fuel => .fuel
  | .ub => .ub

/-- `isValid` (:249): `isValid_ || validate_()`; the cache is written by `validate_` (:337) -/
def isValid (t : T) : TRes Bool × T :=
  if t.valid then (.ok true, t)
  else
    match isTree t.g with
    | .ok b => (.ok b, { t with valid := b })
    | r => (r, t)

/-! ### mutators: the graph operation, then `topologyHasChanged_` if a primitive ran -/

/-- a graph operation that raised before touching anything leaves the flag alone; otherwise the
flag is reset (every mutating primitive of GlobalGraph ends with `topologyHasChanged_()`) -/
def lift {α : Type} (t : T) (r : GOut α) : GOut α × T :=
  match r with
  | .ok a g' => (.ok a { g' with pending := [] }, { g := { g' with pending := [] }, valid := false })
  | .exc g' => (.exc { g' with pending := [] }, { g := { g' with pending := [] }, valid := if g' = t.g then t.valid else false })

def createNode (t : T) := t.lift t.g.createNode
def link (t : T) (a b : Nat) := t.lift (t.g.link a b)
def unlink (t : T) (a b : Nat) := t.lift (t.g.unlink a b)
def deleteNode (t : T) (n : Nat) := t.lift (t.g.deleteNode n)
def setRoot (t : T) (n : Nat) := t.lift (t.g.setRoot n)
/-- `makeDirected` returns early on a directed graph (GlobalGraph.cpp:845): no invalidation then -/
def makeDirected (t : T) : T := if t.g.directed then t else { g := t.g.makeDirected, valid := false }
def makeUndirected (t : T) : GOut Unit × T :=
  if !t.g.directed then (.ok () t.g, t) else t.lift t.g.makeUndirected

/-! ### queries of TreeGraphImpl -/

/-- `getFatherOfNode` (:255) -/
def father (g : G) (n : Nat) : Option Nat :=
  match g.inNeighbors n with
  | some [f] => some f
  | _ => none

/-- `hasFather` (:273): throws for an absent node -/
def hasFather (g : G) (n : Nat) : Option Bool := (RowQ.nbIn (g.rowOf n)).map (fun k => decide (k ≥ 1))

/-- `getEdgeToFather` (:266) -/
def edgeToFather (g : G) (n : Nat) : Option Nat := (father g n).bind (fun f => g.getEdge f n)

/-- `isLeaf` of the tree (:279) -/
def isLeafT (g : G) (n : Nat) : Option Bool :=
  (RowQ.nbOut (g.rowOf n)).map (fun k => if g.directed then decide (k = 0) else decide (k ≤ 1))

/-- `fillListOfLeaves_` (:286): the sons are read first (throws for an absent node), then `isLeaf` -/
def leavesUnder (g : G) : Nat → Nat → List Nat → TRes (List Nat)
  | 0, _, _ => .fuel
  | fuel + 1, start, found =>
    match g.outNeighbors start with
    | none => .exc
    | some sons =>
      match isLeafT g start with
      | some false =>
        sons.foldl (fun acc s => match acc with | .ok f => leavesUnder g fuel s f | r => r) (.ok found)
      | some true => .ok (found ++ [start])
      | none => .exc

/-- `getLeavesUnderNode` (:305): `mustBeRooted_` (as repaired: in an unrooted tree the sons of a son
include the node itself, and next to another inner node the recursion would never end), then the recursion -/
def leavesUnderQ (g : G) (n : Nat) : TRes (List Nat) :=
  if !g.directed then .exc else leavesUnder g (g.nodes.length + 2) n []

/-- `fillSubtreeMetNodes_` (:627) -/
def subtreeNodes (g : G) : Nat → Nat → List Nat → TRes (List Nat)
  | 0, _, _ => .fuel
  | fuel + 1, n, met =>
    match g.outNeighbors n with
    | none => .exc
    | some sons => sons.foldl (fun acc s => match acc with | .ok m => subtreeNodes g fuel s m | r => r) (.ok (met ++ [n]))

/-- `fillSubtreeMetEdges_` (:638) -/
def subtreeEdges (g : G) : Nat → Nat → List Nat → TRes (List Nat)
  | 0, _, _ => .fuel
  | fuel + 1, n, met =>
    match g.outEdges n with
    | none => .exc
    | some es =>
      es.foldl (fun acc e =>
        match acc with
        | .ok m =>
          match g.getNodes e with
          | some (_, bottom) => subtreeEdges g fuel bottom (m ++ [e])
          | none => .exc
        | r => r) (.ok met)

/-- the climb of `getNodePathBetweenTwoNodes` (:545-559): the node and its ancestors up to a
father-less node; `exc` = hasFather / getFatherOfNode threw -/
def climb (g : G) : Nat → Nat → List Nat → TRes (List Nat)
  | 0, _, _ => .fuel
  | fuel + 1, n, acc =>
    match hasFather g n with
    | none => .exc
    | some false => .ok (acc ++ [n])
    | some true =>
      match father g n with
      | none => .exc
      | some f => climb g fuel f (acc ++ [n])

/-- `getNodePathBetweenTwoNodes` (:534): `mustBeRooted_` first (as repaired: an unrooted tree is
refused, the climbs below would run for ever between two nodes joined to each other alone) -/
def nodePath (g : G) (a b : Nat) (includeAncestor : Bool) : TRes (List Nat) :=
  if !g.directed then .exc else
  if !g.hasNode a || !g.hasNode b then .exc
  else
    match climb g (g.nodes.length + 2) a [], climb g (g.nodes.length + 2) b [] with
    | .ok p1, .ok p2 =>
      -- strip the common suffix
      let rec strip : Nat → Nat → Nat × Nat
        | t1 + 1, t2 + 1 => if p1[t1]? == p2[t2]? then strip t1 t2 else (t1 + 1, t2 + 1)
        | t1, t2 => (t1, t2)
      let (t1, t2) := strip p1.length p2.length
      let head := p1.take t1
      -- `tmp1 == pathMatrix1.size()` (:575, as repaired): the climbs end at different nodes, there is no
      -- common ancestor: raises (the unrepaired code read `pathMatrix1[tmp1]` (:583) past the end)
      match p1[t1]? with
      | none => .exc
      | some x => if includeAncestor then .ok (head ++ [x] ++ (p2.take t2).reverse) else .ok (head ++ (p2.take t2).reverse)
    | .exc, _ => .exc
    | _, .exc => .exc
    | _, _ => .fuel

/-- `getEdgePathBetweenTwoNodes` (:592) -/
def edgePath (g : G) (a b : Nat) : TRes (List Nat) :=
  match nodePath g a b true with
  | .ok p =>
    let pairs := p.zip p.tail
    match pairs.mapM (fun q => g.getAnyEdge q.1 q.2) with
    | some es => .ok es
    | none => .exc
  | r => r

/-- the second loop of `MRCA` (:677-691): climb from `here` until the line of the first node is
joined; the rank of the joining point in that line (`rank.find(here)`).  `exc` = hasFather /
getFatherOfNode threw, or a father-less node outside the line was reached ("MRCA not found") -/
def joinRank (g : G) (line : List Nat) : Nat → Nat → TRes Nat
  | 0, _ => .fuel
  | fuel + 1, here =>
    if line.contains here then .ok (line.idxOf here)
    else
      match hasFather g here with
      | none => .exc
      | some false => .exc
      | some true =>
        match father g here with
        | none => .exc
        | some f => joinRank g line fuel f

/-- one turn of the loop over the other nodes (:677): the highest joining point so far -/
def mrcaStep (g : G) (line : List Nat) (fuel : Nat) (acc : TRes Nat) (n : Nat) : TRes Nat :=
  match acc with
  | .ok m =>
    match joinRank g line fuel n with
    | .ok k => .ok (max m k)
    | r => r
  | r => r

/-- `MRCA` (:649): the ancestors of the first node (`climb`), then the highest point where the
climbs from the other nodes join that line.  The empty list (`throw getRoot()`, a node id and not
an exception) is not exercised; `exc` stands for it as well -/
def mrca (g : G) (nodes : List Nat) : TRes Nat :=
  if !g.directed then .exc
  else
    match nodes with
    | [] => .exc
    | [x] => .ok x
    | x :: rest =>
      match climb g (g.nodes.length + 2) x [] with
      | .ok line =>
        match rest.foldl (mrcaStep g line (g.nodes.length + 2)) (.ok 0) with
        | .ok m =>
          match line[m]? with
          | some a => .ok a
          | none => .ub
        | .exc => .exc
        | .fuel => .fuel
        | .ub => .ub
      | .exc => .exc
      | .fuel => .fuel
      | .ub => .ub

/-! ### mutators of TreeGraphImpl -/

/-- sequence two steps, stopping at the first exception -/
def andThen {α β : Type} (r : GOut α × T) (f : α → T → GOut β × T) : GOut β × T :=
  match r.1 with
  | .ok a _ => f a r.2
  | .exc g => (.exc g, r.2)

/-- `topologyHasChanged_()` called explicitly at the end of setFather / addSon / removeSon (:417, :428, :436, :443, :520) -/
def touch (r : GOut Unit × T) : GOut Unit × T :=
  match r.1 with
  | .ok _ _ => (r.1, { r.2 with valid := false })
  | .exc _ => r

def unit {α : Type} (r : GOut α × T) : GOut Unit × T := (r.1.forget, r.2)

/-- `setFather(node, father)` (:410) -/
def setFather (t : T) (n f : Nat) : GOut Unit × T :=
  if !t.g.hasNode f then (.exc t.g, t) else
  match hasFather t.g n with
  | none => (.exc t.g, t)
  | some hf =>
    let step1 : GOut Unit × T :=
      if hf then
        match father t.g n with
        | none => (.exc t.g, t)
        | some old => unit (t.unlink old n)
      else (.ok () t.g, t)
    touch (andThen step1 (fun _ t1 => unit (t1.link f n)))

/-- `addSon(node, son)` (:433) -/
def addSon (t : T) (n s : Nat) : GOut Unit × T := touch (unit (t.link n s))

/-- `removeSon(node, son)` (:517) -/
def removeSon (t : T) (n s : Nat) : GOut Unit × T := touch (unit (t.unlink n s))

/-- `propagateDirection_` (:399): switch every edge on the way up to the old root -/
def propagate (fuel : Nat) (t : T) (n : Nat) : TRes (GOut Unit × T) :=
  match fuel with
  | 0 => .fuel
  | fuel + 1 =>
    match hasFather t.g n with
    | none => .ok (.exc t.g, t)
    | some false => .ok (.ok () t.g, t)
    | some true =>
      match father t.g n with
      | none => .ok (.exc t.g, t)
      | some f =>
        match propagate fuel t f with
        | .ok r => .ok (andThen r (fun _ t1 => t1.lift (t1.g.switchNodes f n)))
        | .fuel => .fuel
        | .exc => .exc
        | .ub => .ub

/-- `fillRelationsFrom_` (:383): the relations of an unrooted tree as (father, son) pairs met from
`node`, not walking back to `origin` -/
def relationsFrom (g : G) : Nat → Nat → Nat → List (Nat × Nat) → TRes (List (Nat × Nat))
  | 0, _, _, _ => .fuel
  | fuel + 1, node, origin, rel =>
    match g.outNeighbors node with
    | none => .exc
    | some nbs =>
      nbs.foldl (fun acc nb =>
        match acc with
        | .ok r => if nb = origin then .ok r else relationsFrom g fuel nb node (r ++ [(node, nb)])
        | e => e) (.ok rel)

/-- one turn of the loop of `rootAt` (:374-378): a relation that `makeDirected` kept towards the new
root (`getTop(getAnyEdge(father, son)) != father`) is switched -/
def orientStep (r : GOut Unit × T) (p : Nat × Nat) : GOut Unit × T :=
  andThen r (fun _ t =>
    match t.g.getAnyEdge p.1 p.2 with
    | none => (.exc t.g, t)
    | some e =>
      match t.g.getNodes e with
      | none => (.exc t.g, t)
      | some (top, _) => if top ≠ p.1 then t.lift (t.g.switchNodes p.1 p.2) else (.ok () t.g, t))

/-- `rootAt` (:350): a rooted tree is re-rooted by turning round the father chain of the new root;
an unrooted one is made directed and the relations listed from the new root are oriented -/
def rootAt (t : T) (newRoot : Nat) : TRes (GOut Unit × T) :=
  let (v, t0) := t.isValid
  match v with
  | .ok true =>
    if !t0.g.hasNode newRoot then .ok (.exc t0.g, t0) else
    if t0.g.directed then
      match (t0.setRoot newRoot) with
      | (.ok _ _, t2) => propagate (t2.g.nodes.length + 2) t2 newRoot
      | (.exc g, t2) => .ok (.exc g, t2)
    else
      match relationsFrom t0.g (t0.g.nodes.length + 2) newRoot newRoot [] with
      | .ok rel =>
        let t1 := t0.makeDirected
        match (t1.setRoot newRoot) with
        | (.ok _ g2, t2) => .ok (rel.foldl orientStep (.ok () g2, t2))
        | (.exc g, t2) => .ok (.exc g, t2)
      | .exc => .ok (.exc t0.g, t0)
      | .fuel => .fuel
      | .ub => .ub
  | .ok false => .ok (.exc t0.g, t0)
  | .exc => .ok (.exc t0.g, t0)
  | .fuel => .fuel
  | .ub => .ub

/-- `unRoot(joinRootSons)` (:447) -/
def unRoot (t : T) (join : Bool) : GOut Unit × T :=
  let step1 : GOut Unit × T :=
    if join then
      match t.g.outNeighbors t.g.root with
      | none => (.exc t.g, t)
      | some [s0, s1] =>
        andThen (unit (t.unlink t.g.root s0)) (fun _ t1 =>
          andThen (unit (t1.unlink t1.g.root s1)) (fun _ t2 =>
            andThen (unit (t2.link s0 s1)) (fun _ t3 => unit (t3.setRoot s0))))
      | some _ => (.exc t.g, t)
    else (.ok () t.g, t)
  andThen step1 (fun _ t1 => t1.makeUndirected)

/-- `getSubtreeNodes` (:604) / `getSubtreeEdges` (:615): `mustBeValid_` (may write the cache), then
`mustBeRooted_`, then the recursion -/
def getSubtree (edges : Bool) (t : T) (n : Nat) : TRes (List Nat) × T :=
  let (v, t') := t.isValid
  match v with
  | .ok true =>
    if !t'.g.directed then (.exc, t')
    else ((if edges then subtreeEdges t'.g (t'.g.nodes.length + 2) n [] else subtreeNodes t'.g (t'.g.nodes.length + 2) n []), t')
  | .ok false => (.exc, t')
  | .exc => (.exc, t')
  | .fuel => (.fuel, t')
  | .ub => (.ub, t')

/-- `removeSons` (:506): `removeSon` for a snapshot of the sons -/
def removeSons (t : T) (n : Nat) : GOut (List Nat) × T :=
  match t.g.outNeighbors n with
  | none => (.exc t.g, t)
  | some sons =>
    let r := sons.foldl (fun acc s => andThen acc (fun _ t' => t'.removeSon n s)) (.ok () t.g, t)
    match r.1 with
    | .ok _ g => (.ok sons g, r.2)
    | .exc g => (.exc g, r.2)

def linkE (t : T) (a b e : Nat) := t.lift (t.g.linkE a b e)

/-- `GlobalGraph::orientate()` (GlobalGraph.cpp:750) on the container: `makeDirected` (which ends with `topologyHasChanged_` when the
graph was undirected) and every successful `switchNodes` reset the flag; the model resets it unless nothing at all changed in
the tables (conservative only for a loop switched with itself on an already directed graph: see `D.orientTouched` for the DAG) -/
def orientate (t : T) : GOut Unit × T :=
  let r := t.g.orientate
  match r with
  | .ok u g' => (.ok u { g' with pending := [] }, { g := { g' with pending := [] }, valid := if g' = t.g then t.valid else false })
  | .exc g' => (.exc { g' with pending := [] }, { g := { g' with pending := [] }, valid := if g' = t.g then t.valid else false })

/-- `setFather(node, father, edgeId)` (:421) -/
def setFatherE (t : T) (n f e : Nat) : GOut Unit × T :=
  if !t.g.hasNode f then (.exc t.g, t) else
  match hasFather t.g n with
  | none => (.exc t.g, t)
  | some hf =>
    let step1 : GOut Unit × T :=
      if hf then
        match father t.g n with
        | none => (.exc t.g, t)
        | some old => unit (t.unlink old n)
      else (.ok () t.g, t)
    touch (andThen step1 (fun _ t1 => t1.linkE f n e))

/-- `addSon(node, son, edgeId)` (:440) -/
def addSonE (t : T) (n s e : Nat) : GOut Unit × T := touch (t.linkE n s e)

/-- `setOutGroup(newOutGroup)` (:524): `mustBeRooted_`, `deleteNode(getRoot())`, a new node split off the edge to
the father of the out-group (`createNodeFromEdge(getEdge(getFatherOfNode(newOutGroup), newOutGroup))`), `rootAt(newRoot)`.
`deleteNode` leaves `root_` on the deleted id, so the validity test of `rootAt` (a traversal from the root) raises:
transcribed as it is, the member never succeeds; what it has done before stays done.  Tied (op `t.setOutGroup`), not
part of the histories of the theorems (no clause of the property is about out-groups) -/
def setOutGroup (t : T) (n : Nat) : TRes (GOut Unit × T) :=
  if !t.g.directed then .ok (.exc t.g, t) else
  match t.deleteNode t.g.root with
  | (.exc g, t1) => .ok (.exc g, t1)
  | (.ok _ _, t1) =>
    match father t1.g n with
    | none => .ok (.exc t1.g, t1)
    | some f =>
      match t1.g.getEdge f n with
      | none => .ok (.exc t1.g, t1)
      | some e =>
        match t1.lift (t1.g.createNodeFromEdge e) with
        | (.exc g, t2) => .ok (.exc g, t2)
        | (.ok newRoot _, t2) => t2.rootAt newRoot

/-! ### histories -/

end T

inductive TOp where
  | createNode | link (a b : Nat) | unlink (a b : Nat) | deleteNode (n : Nat) | setRoot (n : Nat)
  | makeDirected | makeUndirected
  | setFather (n f : Nat) | addSon (n s : Nat) | removeSon (n s : Nat)
  | setFatherE (n f e : Nat) | addSonE (n s e : Nat) | removeSons (n : Nat)
  | rootAt (n : Nat) | unRoot (join : Bool)
  /-- the other public mutators of `GlobalGraph`, inherited by the container (each ends with `topologyHasChanged_`) -/
  | createNodeFromNode (o : Nat) | createNodeOnEdge (e : Nat) | createNodeFromEdge (e : Nat) | orientate
  | isValid                               -- the query that writes the cache
  | getSubtree (edges : Bool) (n : Nat)   -- writes the cache as well (`mustBeValid_`)
deriving Repr

namespace T
/-- the container after the operation, whether it succeeded or raised -/
def step (t : T) : TOp → T
  | .createNode => t.createNode.2
  | .link a b => (t.link a b).2
  | .unlink a b => (t.unlink a b).2
  | .deleteNode n => (t.deleteNode n).2
  | .setRoot n => (t.setRoot n).2
  | .makeDirected => t.makeDirected
  | .makeUndirected => t.makeUndirected.2
  | .setFather n f => (t.setFather n f).2
  | .addSon n s => (t.addSon n s).2
  | .removeSon n s => (t.removeSon n s).2
  | .setFatherE n f e => (t.setFatherE n f e).2
  | .addSonE n s e => (t.addSonE n s e).2
  | .removeSons n => (t.removeSons n).2
  | .rootAt n => match t.rootAt n with | .ok r => r.2 | _ => t
  | .unRoot j => (t.unRoot j).2
  | .createNodeFromNode o => (t.lift (t.g.createNodeFromNode o)).2
  | .createNodeOnEdge e => (t.lift (t.g.createNodeOnEdge e)).2
  | .createNodeFromEdge e => (t.lift (t.g.createNodeFromEdge e)).2
  | .orientate => t.orientate.2
  | .isValid => t.isValid.2
  | .getSubtree e n => (t.getSubtree e n).2

def run (t : T) (ops : List TOp) : T := ops.foldl step t

end T
end Bpp.Graph
