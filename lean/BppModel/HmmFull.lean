import BppModel.Hmm
import BppModel.Simplex
/-
Model of src/Bpp/Numeric/Hmm/FullHmmTransitionMatrix.{h,cpp} (+ the data members of
AbstractHmmTransitionMatrix.h:27-31), generic over `Scalar α`, on top of
 * `Bpp.Simplex` (C19's model of Prob/Simplex.cpp): row `i` of the matrix is the `Simplex`
   `vSimplex_[i]`, built with method 1 ("global ratio"), constraint ]0,1[ (`allowNull = false`);
 * its own transcription of the loop that computes the equilibrium vector (repeated squaring until the
   rows agree; before the repair: row 0 of `P^256` by `MatrixTools::pow`, not converged for slowly mixing
   matrices).

The model follows the repaired code (findings/C13.json): `getPij()` and
`getEquilibriumFrequencies()` have one up-to-date flag each; `setTransitionProbabilities` notifies and
changes nothing when a row is refused; `operator=` copies the simplices.

What is kept of the parameter layer: `Parameter::setValue` (Parameter.cpp:72: the value is stored only
when `|v - old| > 0`, after the constraint test), `ParameterList::matchParametersValues`
(ParameterList.cpp:421-454: all constraints tested first, then the differing values assigned),
`AbstractParametrizable::setParameterValue` (always notifies) / `matchParametersValues` (notifies when a
value differed).  The object's own parameter list ("<i+1>.theta<k+1>") holds at every point the same
values and constraints as the lists of the simplices — every update goes through both, with the same
tests (`setParameterValue`: own list, then `fireParameterChanged` → the simplex; `setTransitionProbabilities`:
the simplices, then the own list with the values they accepted; copy and assignment copy both) — so the
model keeps one copy, the simplices'.  Names and namespaces are not modelled (`setNamespace` is not
overridden by the class: after a call the simplices no longer recognise the parameter names — not exercised).
-/
namespace Bpp.Hmm
open Bpp Bpp.Scalar

variable {α : Type} [Scalar α]

/-- outcomes other than a normal return -/
inductive TMErr where
  /-- `bpp::Exception` (`Simplex::setFrequencies`: the probabilities do not sum to one;
  `BadSizeException`: wrong number of rows) -/
  | bpp
  /-- `ConstraintException` -/
  | constraint
  /-- `ParameterNotFoundException` -/
  | notfound
  /-- a `std::vector` is indexed out of range -/
  | ub
deriving DecidableEq, Repr, Inhabited

def TMErr.show : TMErr → String
  | .bpp => "exc:bpp" | .constraint => "exc:constraint" | .notfound => "exc:notfound" | .ub => "ub"

def TMErr.ofSimplex : Simplex.Err → TMErr
  | .sum => .bpp | .constraint => .constraint | .notfound => .notfound | .ub => .ub

structure FullTM (α : Type) where
  n : Nat
  /-- `vSimplex_` (their parameter lists are also the values of the object's own parameters) -/
  rows : List (Simplex.St α)
  /-- `pij_` -/
  pij : List (List α)
  /-- `eqFreq_` -/
  eq : List α
  /-- `upToDate_` (of `pij_`) -/
  upToDate : Bool
  /-- `eqFreqUpToDate_` -/
  eqUpToDate : Bool

/-- the constructor (FullHmmTransitionMatrix.cpp:14-25): `n` uniform simplices, `pij_`, `eqFreq_` zero-filled
(AbstractHmmTransitionMatrix.cpp:16-23); `none` = the `Simplex` constructor throws -/
def FullTM.build (n : Nat) : Option (FullTM α) :=
  match Simplex.constructDim (α := α) n 1 false with
  | .error _ => none
  | .ok r => some
    { n := n, rows := List.replicate n r,
      pij := List.replicate n (List.replicate n zero), eq := List.replicate n zero,
      upToDate := false, eqUpToDate := false }

/-- what `getPij()` writes: `pij_(i, j) = vSimplex_[i].prob(j)`, `j < dimension()` (:66-73; every
simplex has dimension `n` and `n` probabilities) -/
def fullMatrix (rows : List (Simplex.St α)) : List (List α) := rows.map (·.probs)

/-- `Pij(i, j)` (FullHmmTransitionMatrix.h:55-58): `vSimplex_[i].prob(j)`, no range check -/
def fullEntry (rows : List (Simplex.St α)) (i j : Nat) : Option α :=
  match rows[i]? with
  | some r => r.probs[j]?
  | none => none

/-- `getPij()` (:62-76) -/
def FullTM.getPij (m : FullTM α) : FullTM α × List (List α) :=
  if m.upToDate then (m, m.pij)
  else let p := fullMatrix m.rows; ({ m with pij := p, upToDate := true }, p)

/-! ### the equilibrium vector (FullHmmTransitionMatrix.cpp:78-140, as repaired): the matrix is squared until all
its rows agree to 1e-14 (at most 64 times), the rows being renormalised after each squaring; the answer is row 0 -/

/-- column `j` (every row has an entry `j`: the matrices here are square) -/
def colOf (m : List (List α)) (j : Nat) : List α := m.filterMap (·[j]?)

/-- `spread = 0; for i, j: d = |cur[i][j] - cur[0][j]|; if (d > spread) spread = d` -/
def spreadOf (m : List (List α)) : α :=
  match m with
  | [] => zero
  | r0 :: _ => m.foldl (fun s r => (List.zip r r0).foldl (fun s (x : α × α) => let d := abs (x.1 - x.2); if gtb d s then d else s) s) zero

/-- `nxt[i][j] = Σ_k cur[i][k] * cur[k][j]` (accumulated from 0 in the order of `k`) -/
def sqRows (n : Nat) (m : List (List α)) : List (List α) :=
  m.map (fun r => (List.range n).map (fun j => sumL (List.zipWith (fun a b => a * b) r (colOf m j))))

/-- `sum = Σ_j nxt[i][j]; cur[i][j] = nxt[i][j] / sum` -/
def normRows (m : List (List α)) : List (List α) := m.map (fun r => let s := sumL r; r.map (fun x => x / s))

/-- the convergence tolerance `1e-14` -/
def eqTol : α := ofRat 1 100000000000000

/-- `for (iter = 0; iter < fuel; ++iter) { if (spread <= 1e-14) break; square; renormalise; }` -/
def eqLoop (n : Nat) : Nat → List (List α) → List (List α)
  | 0, m => m
  | fuel + 1, m => if leb (spreadOf m) eqTol then m else eqLoop n fuel (normRows (sqRows n m))

/-- `eqFreq_[i] = cur[0][i]`; always defined (the `Option` is kept for the callers: `none` never occurs) -/
def fullEqOf (n : Nat) (p : List (List α)) : Option (List α) :=
  match eqLoop n 64 p with
  | [] => some []
  | r :: _ => some r

/-- `getEquilibriumFrequencies()` (:78-92) -/
def FullTM.getEq (m : FullTM α) : FullTM α × Option (List α) :=
  if m.eqUpToDate then (m, some m.eq)
  else
    match fullEqOf m.n m.getPij.2 with
    | some e => ({ m.getPij.1 with eq := e, eqUpToDate := true }, some e)
    | none => (m.getPij.1, none)

/-- `ParameterList::matchParametersValues` of a simplex with a list holding the one parameter
"theta<k+1>" = `v` (what `fireParameterChanged` passes on after `setParameterValue`) -/
def simplexMatchOne (s : Simplex.St α) (k : Nat) (v : α) : Except Simplex.Err (Simplex.St α) :=
  match s.params[k]? with
  | none => .ok s
  | some cur =>
    if !(Simplex.inConstraint s.allowNull v) then .error .constraint
    else if eqb cur v then .ok s
    else .ok (Simplex.fire { s with params := s.params.set k v })

/-- `FullHmmTransitionMatrix::fireParameterChanged` (:94-103) after own parameter `(i, k)` was set -/
def FullTM.fireOne (m : FullTM α) (i k : Nat) (v : α) : FullTM α × Option TMErr :=
  match m.rows[i]? with
  | none => ({ m with upToDate := false, eqUpToDate := false }, none)
  | some r =>
    match simplexMatchOne r k v with
    | .error e => (m, some (.ofSimplex e))
    | .ok r' => ({ m with rows := m.rows.set i r', upToDate := false, eqUpToDate := false }, none)

/-- `setParameterValue("<i+1>.theta<k+1>", v)` (AbstractParametrizable.h:66-70): `Parameter::setValue` on the
own parameter (same value and constraint as the simplex's), then `fireParameterChanged` in every case -/
def FullTM.setTheta (m : FullTM α) (i k : Nat) (v : α) : FullTM α × Option TMErr :=
  match m.rows[i]? with
  | none => (m, some .notfound)
  | some r =>
    match r.params[k]? with
    | none => (m, some .notfound)
    | some cur =>
      if gtb (abs (v - cur)) zero then
        if Simplex.inConstraint false v then m.fireOne i k v
        else (m, some .constraint)
      else m.fireOne i k cur

/-- the loop `simplices[i].setFrequencies(mat.row(i))` of `setTransitionProbabilities` (:41-60), run on a
copy of `vSimplex_` (repaired code: nothing is changed when a row raises) -/
def setRowsLoop : List (Simplex.St α) → List (List α) → Except Simplex.Err (List (Simplex.St α))
  | [], _ => .ok []
  | _ :: _, [] => .error .ub
  | r :: rs, p :: ps =>
    match Simplex.setFrequencies r p with
    | .error e => .error e
    | .ok r' =>
      match setRowsLoop rs ps with
      | .error e => .error e
      | .ok rs' => .ok (r' :: rs')

/-- `matchParametersValues` on the own list found a value that differs: some parameter of some row -/
def rowsChanged (old new : List (Simplex.St α)) : Bool :=
  (List.zip old new).any (fun (r, r') => (List.zip r.params r'.params).any (fun (c, v) => !(eqb c v)))

/-- `setTransitionProbabilities(mat)`, `mat` given by rows -/
def FullTM.setRows (m : FullTM α) (mat : List (List α)) : FullTM α × Option TMErr :=
  if mat.length ≠ m.rows.length then (m, some .bpp)
  else
    match setRowsLoop m.rows mat with
    | .error e => (m, some (.ofSimplex e))
    | .ok rows' =>
      -- `matchParametersValues(pl)` on the object's own list with the values the simplices accepted (same
      -- constraints: it cannot raise); `fireParameterChanged` if a value differed: the simplices already hold
      -- these values (nothing to match), both flags are cleared
      if rowsChanged m.rows rows' then ({ m with rows := rows', upToDate := false, eqUpToDate := false }, none)
      else ({ m with rows := rows' }, none)

/-! ### the operations, the cached machine and its cache-free specification -/

inductive FullOp (α : Type) where
  | setRows (mat : List (List α))
  | setTheta (i k : Nat) (v : α)
  | getPij
  | entry (i j : Nat)
  | getEq

inductive FullAns (α : Type) where
  | done
  | err (e : TMErr)
  | mat (m : List (List α))
  | vec (v : List α)
  | val (x : α)
deriving DecidableEq

def FullTM.step (m : FullTM α) : FullOp α → FullTM α × FullAns α
  | .setRows mat => let r := m.setRows mat; (r.1, match r.2 with | none => .done | some e => .err e)
  | .setTheta i k v => let r := m.setTheta i k v; (r.1, match r.2 with | none => .done | some e => .err e)
  | .getPij => let r := m.getPij; (r.1, .mat r.2)
  | .entry i j => (m, match fullEntry m.rows i j with | some x => .val x | none => .err .ub)
  | .getEq => let r := m.getEq; (r.1, match r.2 with | some e => .vec e | none => .err .ub)

/-- the answer of a query computed from the simplices alone (what a copy of the object whose caches
are empty answers) -/
def fullSpec (n : Nat) (rows : List (Simplex.St α)) : FullOp α → FullAns α
  | .getPij => .mat (fullMatrix rows)
  | .entry i j => match fullEntry rows i j with | some x => .val x | none => .err .ub
  | .getEq => match fullEqOf n (fullMatrix rows) with | some e => .vec e | none => .err .ub
  | _ => .done

end Bpp.Hmm
