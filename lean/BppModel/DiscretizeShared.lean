import BppModel.DiscretizeCompound
/-
Discrete distributions as *objects*: what a copy shares with its source.

`restrictToConstraint` of `TruncatedExponentialDiscreteDistribution` (cpp:45-55), `ConstantDistribution`
(cpp:44-58) and `SimpleDiscreteDistribution` (cpp:274-303) attaches the distribution's own domain
object `intMinMax_` (a `std::shared_ptr<IntervalConstraint>`, AbstractDiscreteDistribution.h:87) as
the constraint of `tp` / `value` / `V<i>`, and the domain object is changed in place afterwards
(`*intMinMax_ = inter`, `setUpperBound(tp_)`): the constraint of such a parameter *is* the live
domain.  The by-value models (`DiscretizeFamilies.lean`, `DiscretizeCompound.lean`) read the
constraint from the object's own domain (flags `tpTied` / `tied`).  That is only right as long as
the pointer held by the parameter is the pointer to the object's own domain.  Copies break it:
`Parameter`'s copy constructor copies the pointer (Parameter.cpp:49), the copy constructor of
`AbstractDiscreteDistribution` clones the domain (cpp:43-54).

This file is the model with pointers:
 * every leaf distribution has the address `id` of its domain object and the address `tie` its
   tie-able parameters' constraint points to (`none`: the constraint given by the constructor);
 * a compound (invariant-mixed, mixture) holds copies of the parameters of its components
   (`addParameters_(dist_->getIndependentParameters())`, InvariantMixedDiscreteDistribution.cpp:24;
   MixtureOfDiscreteDistributions.cpp:67): `ctie` is the constraint pointer of the copies of the
   tie-able ones, `cvals` their values;
 * a domain object lives at least as long as a pointer to it: objects are never removed from the
   world, a destroyed one is simply never operated on again (its cell is frozen).
Only the owner writes its domain object; everybody holding the pointer reads it.

The copy constructors are the *repaired* ones (fix 7796dc5: parameters tied to the source's domain
are re-tied to the copy's own; fix 49b4b73: a compound's copies follow the copied components);
`namespace Legacy` keeps the copy as found (witness theorems in BppProofs/Props/C09Shared.lean).
-/
namespace Bpp.Discretize
open Bpp Bpp.Scalar

variable {α : Type} [Scalar α]

/-! ## the parameters of a leaf -/

/-- one parameter of a leaf distribution (name without namespace) -/
structure PInfo (α : Type) where
  name : String
  value : α
  /-- `restrictToConstraint` replaces its constraint by the domain object -/
  tieable : Bool
  /-- the constraint given by the constructor -/
  ctor : Option (Interval α)

/-- the parameters of a continuous family in the order of its `ParameterList`
(GammaDiscreteDistribution.cpp:32-35, BetaDiscreteDistribution.cpp:25-28,
GaussianDiscreteDistribution.cpp:22-23, ExponentialDiscreteDistribution.cpp:22,
TruncatedExponentialDiscreteDistribution.cpp:24-25; the uniform distribution has none) -/
def famPInfo (f : FamSt α) : List (PInfo α) :=
  let g : FamSt α := { f with tpTied := false }
  let mk (name : String) (slot : Nat) : PInfo α :=
    ⟨name, paramValue f slot, f.fam == .texp && slot == 2, paramConstraint g slot⟩
  match f.fam with
  | .gamma => [mk "alpha" 1, mk "beta" 2] ++ (if f.hasOffset then [mk "offset" 3] else [])
  | .beta => [mk "alpha" 1, mk "beta" 2]
  | .gauss => [mk "mu" 1, mk "sigma" 2]
  | .exp => [mk "lambda" 1]
  | .texp => [mk "tp" 2, mk "lambda" 1]
  | .unif => []

/-- `V1, theta1, …, V(k-1), theta(k-1), Vk` (SimpleDiscreteDistribution.cpp:66-74) -/
def simplePInfo (vs thetas : List α) (i : Nat) : List (PInfo α) :=
  match vs, thetas with
  | [], _ => []
  | v :: vs', [] => ⟨"V" ++ toString (i + 1), v, true, none⟩ :: simplePInfo vs' [] (i + 1)
  | v :: vs', t :: ts =>
    ⟨"V" ++ toString (i + 1), v, true, none⟩ :: ⟨"theta" ++ toString (i + 1), t, false, some unitC⟩ :: simplePInfo vs' ts (i + 1)

def Leaf.pinfo : Leaf α → List (PInfo α)
  | .fam _ f => famPInfo f
  | .const c => [⟨"value", c.value, true, none⟩]
  | .simple s => simplePInfo s.vs s.thetas 0

/-- the constraint a parameter has now; `tc`: what the tie points to (`none`: not tied) -/
def PInfo.constraint (tc : Option (Interval α)) (p : PInfo α) : Option (Interval α) :=
  if p.tieable then (match tc with | some c => some c | none => p.ctor) else p.ctor

def rejectedBy (c : Option (Interval α)) (v : α) : Bool :=
  match c with
  | some i => !(i.isCorrect v)
  | none => false

/-! ## the by-value operations with the constraint of the tie-able parameters made explicit

`tc = some c`: the tie-able parameters are constrained by the interval `c` (what their pointer
points to now); `tc = none`: by what the constructor gave.  With `c` = the object's own domain
these are the by-value operations (lemmas `*_own` in BppProofs/Lemmas/DiscretizeShared.lean). -/

def rejectsC (tc : Option (Interval α)) (f : FamSt α) (slot : Nat) (v : α) : Bool :=
  if f.fam == .texp && slot == 2 then rejectedBy (match tc with | some c => some c | none => some (geC Scalar.zero)) v
  else rejects f slot v

/-- `setParameterValue(name, value)` of a continuous family -/
def setParameterValueC (tc : Option (Interval α)) (oracle : Parent α) (f : FamSt α) (name : String) (v : α) : Except Err (FamSt α) :=
  match paramSlot f name with
  | none => .error .notfound
  | some slot =>
    if !(Scalar.eqb (paramValue f slot) v) && rejectsC tc f slot v
    then .error .constraint
    else fire oracle f slot v

namespace ConstSt
def setPC (tc : Option (Interval α)) (c : ConstSt α) (name : String) (v : α) : Except Err (ConstSt α) :=
  if name != "value" then .error .notfound
  else if !(Scalar.eqb c.value v) && rejectedBy tc v then .error .constraint
  else .ok { c with value := v, dd := { c.dd with dist := [(v, Scalar.one)] } }

def matchPC (tc : Option (Interval α)) (c : ConstSt α) (name : String) (v : α) : Except Err (ConstSt α) :=
  if name != "value" then .ok c
  else if rejectedBy tc v then .error .constraint
  else if Scalar.eqb c.value v then .ok c
  else .ok { c with value := v, dd := { c.dd with dist := [(v, Scalar.one)] } }
end ConstSt

namespace SimpleSt
def rejectsC (tc : Option (Interval α)) (sl : Bool × Nat) (v : α) : Bool :=
  if sl.1 then rejectedBy tc v else !(unitC.isCorrect v)

def setPC (tc : Option (Interval α)) (s : SimpleSt α) (name : String) (v : α) : Except Err (SimpleSt α) :=
  match slotOf s name with
  | none => .error .notfound
  | some sl =>
    let same := match current s sl with | some c => Scalar.eqb c v | none => false
    if !same && rejectsC tc sl v then .error .constraint else (write s sl v).rebuild

def matchPC (tc : Option (Interval α)) (s : SimpleSt α) (name : String) (v : α) : Except Err (SimpleSt α) :=
  match slotOf s name with
  | none => .ok s
  | some sl =>
    if rejectsC tc sl v then .error .constraint else
    let same := match current s sl with | some c => Scalar.eqb c v | none => false
    if same then .ok s else (write s sl v).rebuild
end SimpleSt

namespace Leaf
/-- does `restrictToConstraint` tie a parameter of this class to the domain? -/
def tieableKind : Leaf α → Bool
  | .fam _ f => f.fam == .texp
  | .const _ => true
  | .simple _ => true

def setPC (tc : Option (Interval α)) (l : Leaf α) (orc : Nat → Parent α) (name : String) (v : α) : Leaf α × Option Err :=
  match l with
  | .fam slot f => ofStep slot (stepOf f (setParameterValueC tc (orc slot) f name v))
  | .const c => wrap l .const (c.setPC tc name v)
  | .simple s => wrap l .simple (s.setPC tc name v)

/-- `matchParametersValues` on a component, `name` already stripped of the namespace -/
def matchPC (tc : Option (Interval α)) (l : Leaf α) (orc : Nat → Parent α) (name : String) (v : α) : Leaf α × Option Err :=
  match l with
  | .fam slot f =>
    match paramSlot f name with
    | none => (l, none)
    | some sl =>
      if rejectsC tc f sl v then (l, some .constraint)
      else if Scalar.eqb (paramValue f sl) v then (l, none)
      else ofStep slot (stepOf f (fire (orc slot) f sl v))
  | .const c => wrap l .const (c.matchPC tc name v)
  | .simple s => wrap l .simple (s.matchPC tc name v)
end Leaf

/-! ## objects -/

/-- the pointers of one leaf distribution (an object of its own or a component of a compound) -/
structure Slot (α : Type) where
  /-- address of its `intMinMax_` -/
  id : Nat
  /-- what the constraint of its tie-able parameters points to (`none`: the constructor's) -/
  tie : Option Nat
  /-- compounds: what the constraint of the compound's copies of those parameters points to -/
  ctie : Option Nat
  /-- compounds: the values of the compound's copies of the component's parameters -/
  cvals : List (String × α)

/-- a distribution object: its by-value state and one `Slot` per leaf (itself, or its components) -/
structure TObj (α : Type) where
  st : CState α
  slots : List (Slot α)

def CState.leaves : CState α → List (Leaf α)
  | .leaf l => [l]
  | .invar s => [s.sub]
  | .mix s => s.subs

namespace TObj
def ids (o : TObj α) : List Nat := o.slots.map (·.id)

/-- the domain object at address `a`, if it belongs to this object -/
def derefLocal (o : TObj α) (a : Nat) : Option (Interval α) :=
  ((o.slots.zip o.st.leaves).find? (fun sl => sl.1.id == a)).map (fun sl => sl.2.top.dom.toInterval)
end TObj

structure World (α : Type) where
  objs : List (TObj α)
  /-- next free address -/
  next : Nat

namespace World
def empty : World α := ⟨[], 0⟩

/-- `*ptr` -/
def deref (w : World α) (a : Nat) : Option (Interval α) := w.objs.findSome? (fun o => o.derefLocal a)

/-- what a tie points to now; a dangling address is not a library outcome (`unreachable`) -/
def tc (w : World α) (t : Option Nat) : Except Err (Option (Interval α)) :=
  match t with
  | none => .ok none
  | some a => match w.deref a with | some c => .ok (some c) | none => .error .unreachable

def put (w : World α) (i : Nat) (o : TObj α) : World α := { w with objs := w.objs.set i o }
end World

/-! ### which parameter a name denotes -/

inductive Target where
  /-- the object is a leaf: one of its own parameters (or an unknown name, refused there) -/
  | direct
  /-- a parameter of the compound itself: `p`, `theta<i>` -/
  | own
  /-- the compound's copy of parameter `nm` of component `k` -/
  | nested (k : Nat) (nm : String)
  | unknown
deriving Repr, DecidableEq

def Leaf.hasParam (l : Leaf α) (nm : String) : Bool := l.pinfo.any (fun p => p.name == nm)

def CState.resolve : CState α → String → Target
  | .leaf _, _ => .direct
  | .invar s, name =>
    if name == "p" then .own else
    match CState.stripPrefix? name s.sub.prefix_ with
    | none => .unknown
    | some nm => if s.sub.hasParam nm then .nested 0 nm else .unknown
  | .mix s, name =>
    if name.startsWith "theta" then .own else
    match name.splitOn "_" with
    | idx :: rest =>
      match idx.toNat? with
      | some i =>
        if 1 ≤ i && i ≤ s.subs.length && !rest.isEmpty then
          match s.subs[i - 1]? with
          | some l =>
            match CState.stripPrefix? ("_".intercalate rest) l.prefix_ with
            | some nm => if l.hasParam nm then .nested (i - 1) nm else .unknown
            | none => .unknown
          | none => .unknown
        else .unknown
      | none => .unknown
    | [] => .unknown

/-! ### operations on one object -/

def setCval (cvals : List (String × α)) (nm : String) (v : α) : List (String × α) :=
  cvals.map (fun nv => if nv.1 == nm then (nm, v) else nv)

/-- a restriction of a leaf: on success the tie-able parameters are tied to the leaf's own domain
(`getParameter_(…).setConstraint(intMinMax_)`) -/
def restrictLeaf (orc : Nat → Parent α) (c : Interval α) (l : Leaf α) (s : Slot α) : (Leaf α × Slot α) × Option Err :=
  let r := l.restrict orc c
  match r.2 with
  | some e => ((r.1, s), some e)
  | none => ((r.1, if l.tieableKind then { s with tie := some s.id } else s), none)

/-- the components of a mixture one after the other, stopping at the first that raises -/
def restrictSubs (orc : Nat → Parent α) (c : Interval α) : List (Leaf α) → List (Slot α) → (List (Leaf α) × List (Slot α)) × Option Err
  | l :: ls, s :: ss =>
    let r := restrictLeaf orc c l s
    match r.2 with
    | some e => ((r.1.1 :: ls, r.1.2 :: ss), some e)
    | none => let rr := restrictSubs orc c ls ss; ((r.1.1 :: rr.1.1, r.1.2 :: rr.1.2), rr.2)
  | ls, ss => ((ls, ss), none)

/-- `fireParameterChanged` of a compound after component `k` has matched the value (`r`: the
component afterwards and what it raised) -/
def nestedFire (st : CState α) (k : Nat) (r : Leaf α × Option Err) : CState α × Option Err :=
  match st with
  | .invar s => let c := CState.invarAfter s r; (c.st, c.err)
  | .mix s =>
    (match r.2 with
     | some e => (st, some e)       -- refused by the component: nothing is recomputed
     | none =>
       -- the weights are recomputed from the thetas on every notification
       let s1 : MixSt α := { s with probas := probsOfThetas s.thetas Scalar.one }
       let c := CState.mixAfter s1 (s.subs.set k r.1, none)
       (c.st, c.err))
  | .leaf _ => (st, some .unreachable)

namespace TObj

/-- `setParameterValue(name, v)` on the copy of parameter `nm` of component `k` held by a compound -/
def setNested (w : World α) (o : TObj α) (orc : Nat → Parent α) (k : Nat) (nm : String) (v : α) : TObj α × Option Err :=
  match o.st.leaves[k]?, o.slots[k]? with
  | some l, some s =>
    match w.tc s.ctie, w.tc s.tie, l.pinfo.find? (fun p => p.name == nm) with
    | .ok ctc, .ok tc, some pi =>
      -- the compound's own copy first (`parameters_.setParameterValue`, AbstractParametrizable.h:66)
      let differs := match s.cvals.find? (fun nv => nv.1 == nm) with | some nv => !(Scalar.eqb nv.2 v) | none => true
      if differs && rejectedBy (pi.constraint ctc) v then (o, some .constraint) else
      -- then `fireParameterChanged`: the component matches the value against its own parameter
      let r := nestedFire o.st k (l.matchPC tc orc nm v)
      ({ st := r.1, slots := o.slots.set k { s with cvals := setCval s.cvals nm v } }, r.2)
    | _, _, _ => (o, some .unreachable)
  | _, _ => (o, some .unreachable)

/-- `setParameterValue(name, v)` on a leaf object -/
def setDirect (w : World α) (o : TObj α) (orc : Nat → Parent α) (name : String) (v : α) : TObj α × Option Err :=
  match o.st, o.slots with
  | .leaf l, [s] =>
    match w.tc s.tie with
    | .error e => (o, some e)
    | .ok tc => let r := l.setPC tc orc name v; ({ o with st := .leaf r.1 }, r.2)
  | _, _ => (o, some .unreachable)

/-- `setParameterValue(name, v)` -/
def setP (w : World α) (o : TObj α) (orc : Nat → Parent α) (name : String) (v : α) : TObj α × Option Err :=
  match o.st.resolve name with
  | .unknown => (o, some .notfound)
  | .own => let r := o.st.setP orc name v; ({ o with st := r.st }, r.err)
  | .direct => o.setDirect w orc name v
  | .nested k nm => o.setNested w orc k nm v

def setN (o : TObj α) (orc : Nat → Parent α) (n : Nat) : TObj α × Option Err :=
  let r := o.st.setN orc n; ({ o with st := r.st }, r.err)

def setMed (o : TObj α) (orc : Nat → Parent α) (b : Bool) : TObj α × Option Err :=
  let r := o.st.setMed orc b; ({ o with st := r.st }, r.err)

def rediscretize (o : TObj α) (orc : Nat → Parent α) : TObj α × Option Err :=
  let r := o.st.rediscretize orc; ({ o with st := r.st }, r.err)

/-- `restrictToConstraint(c)` -/
def restrict (o : TObj α) (orc : Nat → Parent α) (c : Interval α) : TObj α × Option Err :=
  match o.st, o.slots with
  | .leaf l, [s] =>
    let r := restrictLeaf orc c l s
    ({ st := .leaf r.1.1, slots := [r.1.2] }, r.2)
  | .invar st, [s] =>
    if !(c.isCorrect st.inv) then (o, some .constraint) else
    let r := restrictLeaf orc c st.sub s
    let cs := CState.invarAfter st (r.1.1, r.2)
    ({ st := cs.st, slots := [r.1.2] }, cs.err)
  | .mix st, ss =>
    let r := restrictSubs orc c st.subs ss
    let cs := CState.mixAfter st (r.1.1, r.2)
    ({ st := cs.st, slots := r.1.2 }, cs.err)
  | _, _ => (o, some .unreachable)
end TObj

/-! ### copies -/

/-- copy of one leaf with its pointers: a fresh domain object (`intMinMax_(adde.intMinMax_->clone())`),
the parameters copied with their constraint pointers, those pointing to the source's domain re-tied
to the copy's own (`tieParametersToOwnDomain_`, fix 7796dc5); a compound's copies that shared the
constraint of the source's component share the one of the copied component
(`shareNestedConstraints_`, fix 49b4b73) -/
def cloneSlot (fresh : Nat) (s : Slot α) : Slot α :=
  let tie' := if s.tie == some s.id then some fresh else s.tie
  { s with id := fresh, tie := tie', ctie := if s.ctie == s.tie then tie' else s.ctie }

def cloneSlots : Nat → List (Slot α) → List (Slot α)
  | _, [] => []
  | fresh, s :: ss => cloneSlot fresh s :: cloneSlots (fresh + 1) ss

namespace Legacy
/-- the copy as found: the parameters (the compound's copies too) keep the pointers of the source -/
def cloneSlot (fresh : Nat) (s : Slot α) : Slot α := { s with id := fresh }
def cloneSlots : Nat → List (Slot α) → List (Slot α)
  | _, [] => []
  | fresh, s :: ss => cloneSlot fresh s :: cloneSlots (fresh + 1) ss
end Legacy

/-! ### the public operations, on a world of objects -/

inductive WOp (α : Type) where
  /-- a constructor of a leaf class (`l`: the by-value state it builds) -/
  | add (l : Leaf α)
  /-- `InvariantMixedDiscreteDistribution(std::move(objs[i]), p, inv)`: the leaf object `i` becomes the
  component of the new object (which takes its place) -/
  | wrapInvar (i : Nat) (p inv : α)
  /-- `MixtureOfDiscreteDistributions(objs[is], ws)`: the constructor clones the components -/
  | mkMix (is : List Nat) (ws : List α)
  /-- `objs[i]->clone()` -/
  | clone (i : Nat)
  /-- `objs[dst] = objs[src]` -/
  | assign (src dst : Nat)
  | setP (i : Nat) (name : String) (v : α)
  | setN (i : Nat) (n : Nat)
  | setMed (i : Nat) (b : Bool)
  | rediscretize (i : Nat)
  | restrict (i : Nat) (c : Interval α)

def cvalsOf (l : Leaf α) : List (String × α) := l.pinfo.map (fun p => (p.name, p.value))

/-- the components of a new mixture: clones of the given leaf objects -/
def mixComponents (w : World α) : Nat → List Nat → Option (List (Leaf α × Slot α))
  | _, [] => some []
  | fresh, i :: is =>
    match w.objs[i]? with
    | some o =>
      match o.st, o.slots with
      | .leaf l, [s] =>
        let s' := cloneSlot fresh s
        (mixComponents w (fresh + 1) is).map (fun r => (l, { s' with ctie := s'.tie, cvals := cvalsOf l }) :: r)
      | _, _ => none
    | none => none

namespace WOp
/-- objects an operation may change -/
def targets : WOp α → List Nat
  | .add _ => [] | .mkMix _ _ => [] | .clone _ => []
  | .wrapInvar i _ _ => [i] | .assign _ d => [d]
  | .setP i _ _ => [i] | .setN i _ => [i] | .setMed i _ => [i] | .rediscretize i => [i] | .restrict i _ => [i]

/-- one step.  A script naming an absent object, or wrapping / mixing a compound, is not a library
outcome (`unreachable`, world unchanged).  A raising call leaves what the C++ leaves. -/
def step (orc : Nat → Parent α) (w : World α) : WOp α → World α × Option Err
  | .add l => ({ objs := w.objs ++ [⟨.leaf l, [⟨w.next, none, none, []⟩]⟩], next := w.next + 1 }, none)
  | .wrapInvar i p inv =>
    match w.objs[i]? with
    | some o =>
      match o.st, o.slots with
      | .leaf l, [s] =>
        match InvarSt.make l p inv with
        | .ok st => (w.put i ⟨.invar st, [{ s with ctie := s.tie, cvals := cvalsOf l }]⟩, none)
        | .error e => (w, some e)
      | _, _ => (w, some .unreachable)
    | none => (w, some .unreachable)
  | .mkMix is ws =>
    match mixComponents w w.next is with
    | some comps =>
      match MixSt.make (comps.map (·.1)) ws with
      | .ok st => ({ objs := w.objs ++ [⟨.mix st, comps.map (·.2)⟩], next := w.next + comps.length }, none)
      | .error e => (w, some e)
    | none => (w, some .unreachable)
  | .clone i =>
    match w.objs[i]? with
    | some o => ({ objs := w.objs ++ [⟨o.st, cloneSlots w.next o.slots⟩], next := w.next + o.slots.length }, none)
    | none => (w, some .unreachable)
  | .assign src dst =>
    match w.objs[src]?, w.objs[dst]? with
    | some o, some _ => ({ (w.put dst ⟨o.st, cloneSlots w.next o.slots⟩) with next := w.next + o.slots.length }, none)
    | _, _ => (w, some .unreachable)
  | .setP i name v =>
    match w.objs[i]? with
    | some o => let r := o.setP w orc name v; (w.put i r.1, r.2)
    | none => (w, some .unreachable)
  | .setN i n =>
    match w.objs[i]? with
    | some o => let r := o.setN orc n; (w.put i r.1, r.2)
    | none => (w, some .unreachable)
  | .setMed i b =>
    match w.objs[i]? with
    | some o => let r := o.setMed orc b; (w.put i r.1, r.2)
    | none => (w, some .unreachable)
  | .rediscretize i =>
    match w.objs[i]? with
    | some o => let r := o.rediscretize orc; (w.put i r.1, r.2)
    | none => (w, some .unreachable)
  | .restrict i c =>
    match w.objs[i]? with
    | some o => let r := o.restrict orc c; (w.put i r.1, r.2)
    | none => (w, some .unreachable)

def run (orc : Nat → Parent α) (w : World α) : List (WOp α) → World α
  | [] => w
  | op :: ops => run orc (step orc w op).1 ops
end WOp

namespace Legacy
/-- `clone()` / `operator=` as found -/
def cloneStep (w : World α) (i : Nat) : World α :=
  match w.objs[i]? with
  | some o => { objs := w.objs ++ [⟨o.st, Legacy.cloneSlots w.next o.slots⟩], next := w.next + o.slots.length }
  | none => w
end Legacy

/-! ### what is observable of an object -/

/-- a parameter as seen from outside: name, value, the constraint it has *now* -/
structure PView (α : Type) where
  name : String
  value : α
  constraint : Option (Interval α)

/-- the observable state of an object: its by-value state (classes, bounds, domain, flags — of
the object and of its components), the parameters of every leaf with their constraints, and for a
compound its own copies of them -/
structure View (α : Type) where
  st : CState α
  params : List (List (PView α))
  copies : List (List (PView α))

def leafParams (tc : Option (Interval α)) (l : Leaf α) : List (PView α) :=
  l.pinfo.map (fun p => ⟨p.name, p.value, p.constraint tc⟩)

def copyParams (ctc : Option (Interval α)) (l : Leaf α) (cvals : List (String × α)) : List (PView α) :=
  l.pinfo.map (fun p => ⟨p.name, match cvals.find? (fun nv => nv.1 == p.name) with | some nv => nv.2 | none => p.value, p.constraint ctc⟩)

/-- what a tie shows: the interval it points to (a dangling pointer shows nothing) -/
def World.peek (w : World α) (t : Option Nat) : Option (Interval α) := t.bind w.deref

def World.view (w : World α) (o : TObj α) : View α :=
  { st := o.st,
    params := (o.slots.zip o.st.leaves).map (fun sl => leafParams (w.peek sl.1.tie) sl.2),
    copies := match o.st with
      | .leaf _ => []
      | _ => (o.slots.zip o.st.leaves).map (fun sl => copyParams (w.peek sl.1.ctie) sl.2 sl.1.cvals) }

/-- clause **param_accepted** (the invariant of C01 on the parameters of distributions): every
parameter holds a value its constraint accepts -/
def paramsAccepted (ps : List (PView α)) : Bool := ps.all (fun p => !(rejectedBy p.constraint p.value))

end Bpp.Discretize
