import BppModel.OptimOneDim
/-
Model of the optimisation framework (C10), part 3: multi-dimensional optimisers transcribed in full

  src/Bpp/Numeric/Function/SimpleMultiDimensions.cpp        (Brent along each coordinate in turn)
  src/Bpp/Numeric/Function/SimpleNewtonMultiDimensions.cpp  (Newton along each coordinate in turn)
  src/Bpp/Numeric/Function/DownhillSimplexMethod.cpp        (after the `fix:` commit of findings/C10.json)

and the little of `ParameterList` they use (`matchParametersValues`, `createSubList(i)`).
-/
namespace Bpp.Optim
open Bpp Scalar

section
variable {α : Type} [Scalar α] {F : Type}

def findNamed (l : PList α) (n : Nat) : Option (NP α) := l.find? (fun q => q.name == n)

/-- `parameter(name).setValue(v)` on the first parameter with that name -/
def setValueNamed : PList α → Nat → α → Except Exc (PList α)
  | [], _, _ => .error .index
  | q :: r, n, v =>
    if q.name == n then
      match q.p.setValue v with
      | .ok p' => .ok ({ q with p := p' } :: r)
      | .error e => .error (excOf e)
    else
      match setValueNamed r n v with
      | .ok r' => .ok (q :: r')
      | .error e => .error e

/-- second loop of `ParameterList::matchParametersValues` (ParameterList.cpp:438-452) -/
def matchLoop : PList α → PList α → Except Exc (PList α)
  | own, [] => .ok own
  | own, q :: qs =>
    match findNamed own q.name with
    | none => matchLoop own qs
    | some p =>
      if !(eqb p.p.value q.p.value) then
        match setValueNamed own q.name q.p.value with
        | .ok own' => matchLoop own' qs
        | .error e => .error e
      else matchLoop own qs

/-- `ParameterList::matchParametersValues(params)` (ParameterList.cpp:421): first every value is
checked against the constraint of the parameter of the same name, then the differing ones are set -/
def matchList (own src : PList α) : Except Exc (PList α) :=
  if src.any (fun q => match findNamed own q.name with
      | some p => !p.p.accepts q.p.value
      | none => false) then .error .constraint
  else matchLoop own src

/-- `l[j].setValue(v_j)` for all `j`, in order -/
def setAll : PList α → List α → Except Exc (PList α)
  | [], _ => .ok []
  | q :: r, [] => .ok (q :: r)
  | q :: r, v :: vs =>
    match q.p.setValue v with
    | .error e => .error (excOf e)
    | .ok p' =>
      match setAll r vs with
      | .error e => .error e
      | .ok r' => .ok ({ q with p := p' } :: r')

/-! ### SimpleMultiDimensions -/

/-- own fields: `nbParams_` and the one-dimensional optimiser `optimizer_` (which works on the same
function) -/
structure Simple (α : Type) where
  nbParams : Nat
  icore : Core α
  iext : Brent α
deriving Inhabited

/-- `BrentOneDimension(function)` as constructed by `SimpleMultiDimensions`' constructor -/
def Simple.fresh : Simple α :=
  { nbParams := 0,
    icore := { params := [], policy := .keep, nbEvalMax := 10000, nbEval := 0, cur := zero, tol := false, initialized := false,
               tolerance := zero, callCount := 0, burnin := 3, lastF := zero, newF := zero },
    iext := { a := zero, b := zero, d := zero, e := zero, fv := zero, fw := zero, fx := zero, tol1 := zero, tol2 := zero,
              v := zero, w := zero, x := zero, xm := zero, xinf := zero, xsup := zero, inward := false } }

/-- `SimpleMultiDimensions::doInit` (SimpleMultiDimensions.cpp:34-50) -/
def simpleDoInit (I : FunI F α) (s : St F (Simple α) α) (params : PList α) : Except (Exc × F) (St F (Simple α) α) :=
  let n := params.length
  let s := { s with ext := { s.ext with nbParams := n } }
  if n == 0 then .ok s else
  let ic := { s.ext.icore with nbEvalMax := s.core.nbEvalMax / n, tolerance := s.core.tolerance, policy := s.core.policy }
  let (lo, hi) := orderedInterval (zero : α) one
  let s := { s with ext := { s.ext with icore := ic, iext := { s.ext.iext with xinf := lo, xsup := hi } } }
  match I.setParameters s.fn s.core.params with
  | .error e => .error e
  | .ok fn => .ok { s with fn := fn }

/-- the body of the `for` loop of `doStep` for coordinate `i` (SimpleMultiDimensions.cpp:57-75) -/
def simpleCoord (I : FunI F α) (fuel : Nat) (s : St F (Simple α) α) (i : Nat) : Except (Exc × F) (St F (Simple α) α × α) :=
  match s.core.params[i]? with
  | none => .error (.index, s.fn)
  | some q =>
    let v := q.p.value
    let t := Scalar.max (ofRat 1 1000000) (Scalar.min (abs v) s.core.tolerance)
    let (lo, hi) := orderedInterval (v - t) (v + t)
    let inner : St F (Brent α) α := { core := s.ext.icore, fn := s.fn, ext := { s.ext.iext with xinf := lo, xsup := hi } }
    match (brentAlgo I fuel).init inner [q] with
    | .error e => .error e
    | .ok inner =>
      match brentOptimize I fuel inner with
      | .error e => .error e
      | .ok (inner, f) =>
        match matchList s.core.params (I.getParameters inner.fn) with
        | .error e => .error (e, inner.fn)
        | .ok pl =>
          .ok ({ s with fn := inner.fn,
                        core := { s.core with params := pl, nbEval := s.core.nbEval + inner.core.nbEval },
                        ext := { s.ext with icore := inner.core, iext := inner.ext } }, f)

def simpleCoords (I : FunI F α) (fuel : Nat) : List Nat → St F (Simple α) α → α → Except (Exc × F) (St F (Simple α) α × α)
  | [], s, f => .ok (s, f)
  | i :: r, s, _ =>
    match simpleCoord I fuel s i with
    | .error e => .error e
    | .ok (s', f') => simpleCoords I fuel r s' f'

/-- `SimpleMultiDimensions::doStep` (SimpleMultiDimensions.cpp:54-78) -/
def simpleDoStep (I : FunI F α) (fuel : Nat) (s : St F (Simple α) α) : Except (Exc × F) (St F (Simple α) α × α) :=
  match simpleCoords I fuel (List.range s.ext.nbParams) s (I.value s.fn) with
  | .error e => .error e
  | .ok (s', f) => .ok ({ s' with core := { s'.core with tol := decide (s'.ext.nbParams ≤ 1) } }, f)

def simpleAlgo (I : FunI F α) (fuel : Nat) : Algo F (Simple α) α :=
  { doInit := simpleDoInit I,
    doStep := simpleDoStep I fuel,
    stopInit := fscInit,
    stop := fscStop,
    value := I.value }

/-! ### SimpleNewtonMultiDimensions -/

structure SNewton (α : Type) where
  nbParams : Nat
  icore : Core α
  iext : Newton1 α
deriving Inhabited

/-- `NewtonOneDimension(function)` as constructed by `SimpleNewtonMultiDimensions`' constructor -/
def SNewton.fresh : SNewton α :=
  { nbParams := 0,
    icore := { params := [], policy := .keep, nbEvalMax := 10000, nbEval := 0, cur := zero, tol := false, initialized := false,
               tolerance := ofRat 1 1000000, callCount := 0, burnin := 0, lastF := zero, newF := zero },
    iext := { param := 0, maxCorrection := 10 } }

/-- `SimpleNewtonMultiDimensions::doInit` (SimpleNewtonMultiDimensions.cpp:33-49) -/
def snewtonDoInit (I : FunI F α) (s : St F (SNewton α) α) (params : PList α) : Except (Exc × F) (St F (SNewton α) α) :=
  let n := params.length
  let s := { s with ext := { s.ext with nbParams := n } }
  if n == 0 then .ok s else
  let ic := { s.ext.icore with nbEvalMax := s.core.nbEvalMax / n, tolerance := s.core.tolerance, policy := s.core.policy }
  let s := { s with ext := { s.ext with icore := ic, iext := { s.ext.iext with maxCorrection := 10 } } }
  match I.setParameters s.fn s.core.params with
  | .error e => .error e
  | .ok fn => .ok { s with fn := fn }

def snewtonCoord (I : FunI F α) (fuel : Nat) (s : St F (SNewton α) α) (i : Nat) : Except (Exc × F) (St F (SNewton α) α × α) :=
  match s.core.params[i]? with
  | none => .error (.index, s.fn)
  | some q =>
    let inner : St F (Newton1 α) α := { core := s.ext.icore, fn := s.fn, ext := s.ext.iext }
    match (newtonAlgo I).init inner [q] with
    | .error e => .error e
    | .ok inner =>
      match (newtonAlgo I).optimize fuel inner with
      | .error e => .error e
      | .ok (inner, f) =>
        match matchList s.core.params (I.getParameters inner.fn) with
        | .error e => .error (e, inner.fn)
        | .ok pl =>
          .ok ({ s with fn := inner.fn,
                        core := { s.core with params := pl, nbEval := s.core.nbEval + inner.core.nbEval },
                        ext := { s.ext with icore := inner.core, iext := inner.ext } }, f)

def snewtonCoords (I : FunI F α) (fuel : Nat) : List Nat → St F (SNewton α) α → α → Except (Exc × F) (St F (SNewton α) α × α)
  | [], s, f => .ok (s, f)
  | i :: r, s, _ =>
    match snewtonCoord I fuel s i with
    | .error e => .error e
    | .ok (s', f') => snewtonCoords I fuel r s' f'

/-- `SimpleNewtonMultiDimensions::doStep` (SimpleNewtonMultiDimensions.cpp:53-74) -/
def snewtonDoStep (I : FunI F α) (fuel : Nat) (s : St F (SNewton α) α) : Except (Exc × F) (St F (SNewton α) α × α) :=
  match snewtonCoords I fuel (List.range s.ext.nbParams) s (I.value s.fn) with
  | .error e => .error e
  | .ok (s', f) => .ok ({ s' with core := { s'.core with tol := decide (s'.ext.nbParams ≤ 1) } }, f)

def snewtonAlgo (I : FunI F α) (fuel : Nat) : Algo F (SNewton α) α :=
  { doInit := snewtonDoInit I,
    doStep := snewtonDoStep I fuel,
    stopInit := fscInit,
    stop := fscStop,
    value := I.value }

/-! ### DownhillSimplexMethod -/

structure Simplex (α : Type) where
  simplex : List (PList α)
  y : List α
  pSum : PList α
  iHighest : Nat
  iNextHighest : Nat
  iLowest : Nat
deriving Inhabited

def Simplex.fresh : Simplex α := { simplex := [], y := [], pSum := [], iHighest := 0, iNextHighest := 0, iLowest := 0 }

/-- `DownhillSimplexMethod::getPSum` (DownhillSimplexMethod.cpp:152-175), repaired: the copy that
holds the sums of coordinates carries no constraint -/
def getPSum (params : PList α) (simplex : List (PList α)) : Except Exc (PList α) :=
  let free : PList α := params.map (fun q => { q with p := q.p.removeConstraint.1 })
  let sums : List α := (List.range params.length).map (fun j =>
    simplex.foldl (fun s pl => match pl[j]? with
      | some q => s + q.p.value
      | none => s) zero)
  setAll free sums

/-- the vertices `1 … nDim` of the initial simplex (DownhillSimplexMethod.cpp:40-53) -/
def simplexVertices (I : FunI F α) (params : PList α) : List Nat → F → List (PList α) → List α →
    Except (Exc × F) (F × List (PList α) × List α)
  | [], fn, vs, ys => .ok (fn, vs, ys)
  | i :: r, fn, vs, ys =>
    let lambda : α := ofRat 1 5
    let want := (List.range params.length).zip (values params) |>.map (fun jv => jv.2 + (if jv.1 == i - 1 then lambda else zero))
    match setAll params want with
    | .error e => .error (e, fn)
    | .ok v =>
      match I.f fn v with
      | .error e => .error e
      | .ok (fn, y) => simplexVertices I params r fn (vs ++ [v]) (ys ++ [y])

/-- `DownhillSimplexMethod::doInit` (DownhillSimplexMethod.cpp:33-64), repaired: the ranking of an
earlier run is forgotten (`iLowest_ = 0`: the starting point is vertex 0) -/
def simplexDoInit (I : FunI F α) (s : St F (Simplex α) α) (_params : PList α) : Except (Exc × F) (St F (Simplex α) α) :=
  let params := s.core.params
  let nDim := params.length
  match simplexVertices I params ((List.range nDim).map (· + 1)) s.fn [] [] with
  | .error e => .error e
  | .ok (fn, vs, ys) =>
    match I.f fn params with
    | .error e => .error e
    | .ok (fn, y0) =>
      let simplex := params :: vs
      match getPSum params simplex with
      | .error e => .error (e, fn)
      | .ok ps =>
        .ok { s with fn := fn, core := { s.core with nbEval := nDim + 1 },
                     ext := { s.ext with simplex := simplex, y := y0 :: ys, pSum := ps, iLowest := 0 } }

/-- `DownhillSimplexMethod::tryExtrapolation(fac)` (DownhillSimplexMethod.cpp:179-209) -/
def tryExtrapolation (I : FunI F α) (s : St F (Simplex α) α) (fac : α) : Except (Exc × F) (St F (Simplex α) α × α) :=
  let g := s.ext
  let ndim := (g.simplex.headD []).length
  let fac1 := (one - fac) / ofInt (Int.ofNat ndim)
  let fac2 := fac1 - fac
  match g.simplex[g.iHighest]?, g.y[g.iHighest]? with
  | some hi, some yHi =>
    let want := (values g.pSum).zip (values hi) |>.map (fun sh => sh.1 * fac1 - sh.2 * fac2)
    match setAll s.core.params want with
    | .error e => .error (e, s.fn)
    | .ok pTry =>
      match I.f s.fn pTry with
      | .error e => .error e
      | .ok (fn, yTry) =>
        let s := { s with fn := fn, core := { s.core with nbEval := s.core.nbEval + 1 } }
        if ltb yTry yHi then
          let sums := ((values g.pSum).zip ((values pTry).zip (values hi))).map (fun t => t.1 + t.2.1 - t.2.2)
          match setAll g.pSum sums with
          | .error e => .error (e, fn)
          | .ok ps =>
            match setAll hi (values pTry) with
            | .error e => .error (e, fn)
            | .ok hi' =>
              .ok ({ s with ext := { g with y := g.y.set g.iHighest yTry, pSum := ps, simplex := g.simplex.set g.iHighest hi' } }, yTry)
        else .ok (s, yTry)
  | _, _ => .error (.index, s.fn)

/-- the ranking loop of `doStep` (DownhillSimplexMethod.cpp:87-97) -/
def rank (y : List α) (y0 y1 : α) : Nat × Nat × Nat :=
  let init : Nat × Nat × Nat := if gtb y0 y1 then (0, 1, 0) else (1, 0, 0)
  (List.range y.length).foldl (fun (st : Nat × Nat × Nat) i =>
    let (iH, iN, iL) := st
    let yi := y.getD i zero
    let iL := if leb yi (y.getD iL zero) then i else iL
    if gtb yi (y.getD iH zero) then (i, iH, iL)
    else if gtb yi (y.getD iN zero) && i != iH then (iH, i, iL)
    else (iH, iN, iL)) init

/-- the contraction of the whole simplex around its lowest point (DownhillSimplexMethod.cpp:121-136) -/
def shrinkAll (I : FunI F α) : List Nat → St F (Simplex α) α → Except (Exc × F) (St F (Simplex α) α)
  | [], s => .ok s
  | i :: r, s =>
    let g := s.ext
    if i == g.iLowest then shrinkAll I r s else
    match g.simplex[i]?, g.simplex[g.iLowest]? with
    | some vi, some lo =>
      let mids := ((values vi).zip (values lo)).map (fun ab => ofRat 1 2 * (ab.1 + ab.2))
      match setAll g.pSum mids with
      | .error e => .error (e, s.fn)
      | .ok ps =>
        match setAll vi (values ps) with
        | .error e => .error (e, s.fn)
        | .ok vi' =>
          match I.f s.fn ps with
          | .error e => .error e
          | .ok (fn, yi) =>
            shrinkAll I r { s with fn := fn, core := { s.core with nbEval := s.core.nbEval + 1 },
                                   ext := { g with pSum := ps, simplex := g.simplex.set i vi', y := g.y.set i yi } }
    | _, _ => .error (.index, s.fn)

/-- the end of `doStep`, repaired: `getParameters_() = simplex_[iLowest_]; return y_[iLowest_];`
(the index is that of an existing vertex: the `none` branch is never taken) -/
def simplexReport (s : St F (Simplex α) α) (iL : Nat) : St F (Simplex α) α × α :=
  match s.ext.simplex[iL]? with
  | some best => ({ s with core := { s.core with params := best } }, s.ext.y.getD iL zero)
  | none => (s, s.ext.y.getD iL zero)

/-- `DownhillSimplexMethod::doStep` (DownhillSimplexMethod.cpp:65-146) -/
def simplexDoStep (I : FunI F α) (s : St F (Simplex α) α) : Except (Exc × F) (St F (Simplex α) α × α) :=
  let g := s.ext
  match g.y[0]?, g.y[1]?, g.simplex[0]? with
  | some y0, some y1, some v0 =>
    let nDim := v0.length
    let (iH, iN, iL) := rank g.y y0 y1
    match g.simplex[iL]? with
    | none => .error (.index, s.fn)
    | some best =>
      let s := { s with core := { s.core with params := best }, ext := { g with iHighest := iH, iNextHighest := iN, iLowest := iL } }
      match tryExtrapolation I s (ofInt (-1)) with
      | .error e => .error e
      | .ok (s, yTry) =>
        if leb yTry (s.ext.y.getD iL zero) then
          match tryExtrapolation I s (ofInt 2) with
          | .error e => .error e
          | .ok (s, _) => .ok (simplexReport s iL)
        else if geb yTry (s.ext.y.getD iN zero) then
          let ySave := s.ext.y.getD iH zero
          match tryExtrapolation I s (ofRat 1 2) with
          | .error e => .error e
          | .ok (s, yTry) =>
            if geb yTry ySave then
              match shrinkAll I (List.range (nDim + 1)) s with
              | .error e => .error e
              | .ok s =>
                let s := { s with core := { s.core with nbEval := s.core.nbEval + nDim } }
                match getPSum s.core.params s.ext.simplex with
                | .error e => .error (e, s.fn)
                | .ok ps =>
                  let s := { s with ext := { s.ext with pSum := ps } }
                  .ok (simplexReport s iL)
            else .ok (simplexReport s iL)
        else .ok (simplexReport s iL)
  | _, _, _ => .error (.index, s.fn)

/-- `DSMStopCondition::isToleranceReached` (DownhillSimplexMethod.h:42, .cpp:13) -/
def simplexStop (s : St F (Simplex α) α) : St F (Simplex α) α × Bool :=
  let g := s.ext
  let yh := g.y.getD g.iHighest zero
  let yl := g.y.getD g.iLowest zero
  let rTol := ofInt 2 * ntAbs (yh - yl) / (ntAbs yh + ntAbs yl)
  (s, ltb rTol s.core.tolerance)

def simplexAlgo (I : FunI F α) : Algo F (Simplex α) α :=
  { doInit := simplexDoInit I,
    doStep := simplexDoStep I,
    stopInit := fun s => { s with core := { s.core with callCount := 0 } },
    stop := simplexStop,
    value := I.value }

/-- `DownhillSimplexMethod::optimize` (DownhillSimplexMethod.cpp:143-149): the template's loop, then
the function is evaluated at the best vertex; `currentValue_` is left as the last step set it -/
def simplexOptimize (I : FunI F α) (fuel : Nat) (s : St F (Simplex α) α) : Except (Exc × F) (St F (Simplex α) α × α) :=
  match (simplexAlgo I).optimize fuel s with
  | .error e => .error e
  | .ok (s, _) =>
    match s.ext.simplex[s.ext.iLowest]? with
    | none => .error (.index, s.fn)
    | some best =>
      match I.f s.fn best with
      | .error e => .error e
      | .ok (fn, v) => .ok ({ s with fn := fn }, v)

end
end Bpp.Optim
